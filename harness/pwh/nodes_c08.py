"""
Importable pieces for C08 (recovery / checkpoint resume).

`Mac8` is a generic macro with two inputs `a`, `b` and one output `o` whose sub-graph is built
from a *level description* handed over in `SPEC_QUEUE` (the macro class must be an importable
module-level name so that the graph survives pickling; unpickling restores the children from the
state and never calls the graph creator again).

A level description (JSON-serialisable):
  {"nodes": [{"gid": 3, "kind": "term" | "cterm"} | {"gid": 5, "kind": "macro", "inner": <level>} ...]  insertion order
   "slots": {"3": [[src, ...], [src, ...], [src, ...]], ...}   per node, per input slot (a, b, c — macros: a, b)
                                                                the sources in connection-creation order;
                                                                a source is a sibling gid or "A" / "B"
                                                                (the macro's own inputs)
   "out":   gid}                                               (macro levels) the child whose output is returned
Term node gid uses the term function F<gid> of pwh.nodes (so the fail table addresses it by gid).
"""

from __future__ import annotations

from pyiron_workflow import as_macro_node

from . import nodes

SPEC_QUEUE: list = []


class CpTuple(tuple):
    """a term that only cloudpickle can serialise: it carries a closure (think: a fitted model)"""

    def __new__(cls, items):
        self = super().__new__(cls, items)
        self.fn = lambda: items[0]  # noqa: E731 - the point is that plain pickle cannot handle it
        return self


def _mk_c(i):
    def fn(a="d", b="d", c="d"):
        nodes._record(i, a, b, c)
        r = CpTuple((f"f{i}", a, b, c))
        return r

    fn.__name__ = f"C{i}"
    fn.__qualname__ = f"C{i}"
    fn.__module__ = __name__
    from pyiron_workflow import as_function_node

    return as_function_node("o", validate_output_labels=False)(fn)


for _i in range(nodes.N_TERM):
    globals()[f"C{_i}"] = _mk_c(_i)


class _NoTruth:
    """what `==` of array-like data returns: something without a truth value"""

    def __bool__(self):
        raise ValueError("The truth value of an array with more than one element is ambiguous")


class ArrTuple(tuple):
    """a term that behaves like a numpy array / DataFrame under `==`: comparing two DIFFERENT objects gives no
    yes/no answer (python's containers only get by while they hold the very same object: identity is tried first)"""

    def __eq__(self, other):
        return _NoTruth()

    def __ne__(self, other):
        return _NoTruth()

    __hash__ = tuple.__hash__


def _mk_a(i):
    def fn(a="d", b="d", c="d"):
        nodes._record(i, a, b, c)
        r = ArrTuple((f"f{i}", a, b, c))
        return r

    fn.__name__ = f"A{i}"
    fn.__qualname__ = f"A{i}"
    fn.__module__ = __name__
    from pyiron_workflow import as_function_node

    return as_function_node("o", validate_output_labels=False)(fn)


for _i in range(nodes.N_TERM):
    globals()[f"A{_i}"] = _mk_a(_i)


def out_channel(node):
    return list(node.outputs)[0]


def build_level(owner, spec, macro_inputs=None):
    """create the children of one level under `owner` and connect them; returns {gid: node}"""
    made = {}
    for nd in spec["nodes"]:
        gid, label = nd["gid"], f"n{nd['gid']}"
        if nd["kind"] == "term":
            n = nodes.term_node(gid, label=label)
        elif nd["kind"] == "cterm":  # same function symbol, output needs cloudpickle
            n = globals()[f"C{gid}"](label=label)
        elif nd["kind"] == "aterm":  # same function symbol, array-like output (no truth value under ==)
            n = globals()[f"A{gid}"](label=label)
        elif nd["kind"] == "macro":
            SPEC_QUEUE.insert(0, nd["inner"])
            n = Mac8(label=label)
        else:
            raise ValueError(nd["kind"])
        owner.add_child(n)
        made[gid] = n
    for nd in spec["nodes"]:
        gid = nd["gid"]
        for slot, srcs in zip("abc", spec["slots"][str(gid)]):
            for src in srcs:
                if src in ("A", "B"):
                    made[gid].inputs[slot].connect(macro_inputs[src].outputs.user_input)
                else:
                    made[gid].inputs[slot].connect(out_channel(made[src]))
    return made


@as_macro_node("o", validate_output_labels=False)
def Mac8(self, a="d", b="d"):
    spec = SPEC_QUEUE.pop(0)
    made = build_level(self, spec, {"A": a, "B": b})
    return made[spec["out"]]


# --------------------------------------------------------------------------- a loop whose body is assembled during the run
# `Sweep8` holds a for-loop over what `Items8` returns. With `as_set` the loop gets something it can take the length
# of but cannot index: the nodes that pick the items out (injected into the loop, run as they are created) raise
# while the loop assembles its body -- nodes that fail during a run of the outermost graph while their own parent
# has not started running.


def Items8(a="d", as_set=False):
    nodes._record(28, a, as_set, "d")
    items = [("i0", a), ("i1", a)]
    return set(items) if as_set else items


def Body8(x="d"):
    nodes._record(29, x, "d", "d")
    return ("g", x)


def Fold8(xs=()):
    nodes._record(30, tuple(xs), "d", "d")
    return ("s", *xs)


def _wrap(fn, out):
    from pyiron_workflow import as_function_node

    fn.__module__ = __name__
    return as_function_node(out, validate_output_labels=False)(fn)


Items8 = _wrap(Items8, "items")
Body8 = _wrap(Body8, "y")
Fold8 = _wrap(Fold8, "s")


@as_macro_node("o", validate_output_labels=False)
def Sweep8(self, a="d", as_set=False):
    from pyiron_workflow.nodes.for_loop import for_node

    self.items = Items8(a, as_set)
    self.loop = for_node(Body8, iter_on=("x",), x=self.items, output_as_dataframe=False)
    self.fold = Fold8(self.loop.outputs.y)
    return self.fold


@as_macro_node("o", validate_output_labels=False)
def Outer8(self, a="d", as_set=False):
    self.pre = nodes.term_node(26, label="pre", a=a)
    self.sweep = Sweep8(self.pre, as_set)
    self.post = nodes.term_node(27, label="post", a=self.sweep)
    return self.post
