"""C08 — a failed run can be restored from its recovery file (or a checkpoint) and resumed to the same end."""

from __future__ import annotations

import os
import random
import shutil

PROP = "C08"
PROP_FILE = "PwVerif/Props/C08.lean"
DRIVER = "Driver/C08.lean"
THEOREMS = [
    "C08_resume_equations",
    "C08_resume_same_end",
    "C08_resume_same_end_changed",
    "C08_no_recall",
    "C08_rest_runs_once",
    "C08_resume_no_error",
    "C08_resume_order",
    "C08_resume_progress",
    "C08_resume_repaired",
    "C08_resume_now",
    "C08_no_recall_composite",
    "C08_composite_rerun_before",
    "C08_clear_failed_suffices",
    "C08_resume_mid_partial",
    "C08_recovery_mid",
    "C08_resume_stale_partial",
    "C08_checkpoint_repaired",
    "C08_checkpoint_mid_partial",
    "C08_inflight_cache_witness",
    "C08_inflight_cache_detail",
    "C08_stale_trigger_witness",
    "C08_stale_trigger_detail",
    "C08_stale_trigger_now",
    "C08_original_stale_cache_witness",
    "C08_load_refused_witness",
    "C08_reload_reverses_witness",
    "C08_nested_no_recall",
    "C08_nested_leaf_no_recall",
    "C08_nested_same_end",
    "C08_recovery_files_raising",
    "C08_suppressed_no_file",
    "C08_resume_in_place",
    "C08_flow_resume_transparent",
    "C08_flow_hit_no_call",
    "C08_continue_reachable",
    "C08_continue_same_end",
    "C08_continue_queue_lost_witness",
    "C08_continue_skips_job_witness",
    "C08_file_holds_last_cut",
    "C08_refail_conservative",
    "C08_recovery_root_only",
    "C08_checkpoint_at_root",
    "C08_recovery_only_at_roots",
    "C08_idle_parent_no_file",
    "C08_parent_idle_variant_witness",
    "C08_restore_links_writes_nothing",
    "C08_restore_links_same_links",
    "C08_restore_links_setter_partial",
    "C08_restore_links_setter_witness",
    "C08_record_identity_hit",
    "C08_record_scalar_hit",
    "C08_record_copy_witness",
]
RULE = (
    "real workflows of term nodes (and generic macros, nested up to 2 deep, built from a level description) in a "
    "fresh temp cwd: random DAG per level x cut = {end of a failed run: 1-2 failing leaves anywhere in the tree | "
    "right after the checkpoint save of any leaf / top-level macro} x local/ctl-executor children with random "
    "completion schedules x optional change of an unconnected input of a leaf while 'removing the cause' x what a "
    "failing function raises (two Exception classes, KeyboardInterrupt; locally, on the executor, inside macros) x a "
    "leaf whose output only cloudpickle can serialise (the file changes suffix once it has run) x several "
    "checkpointing nodes in one run x (flat graphs) a second failure in the resumed run with its own recovery file "
    "and resume x executors and in-flight children at ANY depth (also at a checkpoint written inside a macro) x a "
    "failing run whose exception the caller suppressed (no file: the graph itself is resumed) x hand-wired flows "
    "(forests of `ran >> run` connections with hand-made starting nodes); the file "
    "is loaded through Node.load into a freshly built Workflow, flags cleared, fault table cleared, run again; "
    "compared with a clean run of a fresh graph and with plain composition. Non-trivial = at the cut at least one "
    "leaf had completed and at least one had not. Kind idle: the same random trees x a history of 1-3 failure events "
    "{child.run() | child.pull() by hand on any leaf or macro at any depth, raising leaf inside it or inside something "
    "upstream of it | an operator on an output injecting a node that raises as it is created | a failing run of the "
    "outermost graph | clean runs in between} x what is raised x recovery=None somewhere, plus a for-loop (depth 0-2) "
    "assembling its body on a set with strict hints off inside a real run; after EVERY event the whole cwd tree is "
    "scanned for recovery.*; where the root itself failed its file is restored and resumed. Non-trivial (idle) = some "
    "node raised while the topmost running node had an idle parent"
)
TRUSTED = [
    "model Recovery.rstep/rrunNode/snapshot/resumeInit transcribe Node._before_run (cache test), Node._run_finally "
    "(checkpoint + recovery saves), the pickled state of one composite level and Composite._on_run on a restored "
    "graph, at the granularity 'a completion callback is one atomic action' (as C01)",
    "a macro child is modelled as a node of its parent level whose function is its own level (driver: levels are "
    "run separately, macro terms expanded for display); the composition over nesting depth is an argument of "
    "design.d/C08.md, not a Lean theorem",
    "which variant of the model applies (received reset at a fresh start / cache dropped while running / cache "
    "dropped on failure) is probed on the tree; the theorems cover every variant or give a witness",
    "CtlExecutor / schedule points call the original methods; only completions at root level are scheduled",
    "kind idle: which nodes are running when a function raises (c08._running_at) is read off Node.run, "
    "Node.run_data_tree (the PARENT runs the upstream nodes, then the pulled node runs alone) and the injection of "
    "operator nodes (created with autorun, parent idle); the model takes that set as given",
]
ASSUMPTIONS = [
    "wrapped functions are deterministic and importable; executor jobs of the resumed run complete exactly once",
    "the user clears `failed` on every node of the restored graph before running again, and `running` too where the "
    "process that ran the graph is gone (checkpoint, interrupt)",
]

UI_LABEL = {"A": "a", "B": "b"}


# --------------------------------------------------------------------------- structure of a case


def levels_of(case):
    """[{lid, spec, macros{gid: lid}, parent (lid, gid)|None, ui{gid: k}, vlink[(gid, slot, k)], own[gids]}], root last"""
    out = []
    counter = [0]

    def walk(spec):
        macros = {}
        for nd in spec["nodes"]:
            if nd["kind"] == "macro":
                macros[nd["gid"]] = walk(nd["inner"])
        lid = counter[0]
        counter[0] += 1
        uses = {"A": 0, "B": 0}
        for sl in spec["slots"].values():
            for srcs in sl:
                for s in srcs:
                    if s in uses:
                        uses[s] += 1
        ui, vlink = {}, []
        for k, key in enumerate(("A", "B")):
            if "ui" in spec and uses[key] >= 2:
                ui[spec["ui"][key]] = k
        for g, sl in spec["slots"].items():
            for si, srcs in enumerate(sl):
                for s in srcs:
                    if s in uses and uses[s] == 1:
                        vlink.append((int(g), si, 0 if s == "A" else 1))
        own = [nd["gid"] for nd in spec["nodes"]] + list(ui)
        out.append({"lid": lid, "spec": spec, "macros": macros, "ui": ui, "vlink": vlink, "own": sorted(own),
                    "parent": None})
        return lid

    walk(case["top"])
    for lv in out:
        for g, lid2 in lv["macros"].items():
            out[lid2]["parent"] = (lv["lid"], g)
    return out


def _slot_sources(lv, g):
    """per slot the upstream gids, newest connection first"""
    spec = lv["spec"]
    ui_gid = {("A" if k == 0 else "B"): u for u, k in lv["ui"].items()}
    res = []
    for srcs in spec["slots"][str(g)]:
        ups = []
        for s in srcs:
            if s in ("A", "B"):
                if s in ui_gid:
                    ups.append(ui_gid[s])
            else:
                ups.append(s)
        res.append(list(reversed(ups)))
    return res


def _rank(lv, n):
    memo = {}

    def rk(g):
        if g not in memo:
            if g in lv["ui"]:
                memo[g] = 0
            else:
                ups = [j for sl in _slot_sources(lv, g) for j in sl]
                memo[g] = 1 + max((rk(j) for j in ups), default=-1)
        return memo[g]

    r = [0] * n
    for g in lv["own"]:
        r[g] = rk(g)
    return r


def leaves_of(case):
    res = []

    def walk(spec):
        for nd in spec["nodes"]:
            if nd["kind"] == "macro":
                walk(nd["inner"])
            else:
                res.append(nd["gid"])

    walk(case["top"])
    return res


def preset_live(case):
    """the directly assigned value-linked inputs whose value survives the runs: nothing ever assigns the macro input
    above them (it is unconnected, and so is everything its own link chain leads up to)"""
    lvs = levels_of(case)

    def pushed(lv, k):
        if lv["parent"] is None:
            return False
        plv, m = lvs[lv["parent"][0]], lv["parent"][1]
        srcs = plv["spec"]["slots"][str(m)][k]
        res = False
        for s_ in srcs:
            if s_ in ("A", "B") and (m, k, 0 if s_ == "A" else 1) in plv["vlink"]:
                res = res or pushed(plv, 0 if s_ == "A" else 1)
            else:
                res = True
        return res

    live = set()
    for lv in lvs:
        for g, si, k in lv["vlink"]:
            if [g, si] in [list(x) for x in case.get("preset", [])] and not pushed(lv, k):
                live.add((g, si))
    return live


def reference(case):
    """plain python composition of the whole tree (newest connection per slot, defaults 'd', changed own inputs 'e',
    directly assigned linked inputs 'p' where nothing overwrites them)"""
    dirty = set(case.get("dirty", []))
    live = preset_live(case)
    out = {}

    def level(spec, env):
        memo = {}

        def src_val(s):
            if s in ("A", "B"):
                return env[0 if s == "A" else 1]
            return val(s)

        def val(g):
            if g in memo:
                return memo[g]
            nd = next(x for x in spec["nodes"] if x["gid"] == g)
            args = []
            for si, srcs in enumerate(spec["slots"][str(g)]):
                if (g, si) in live:
                    args.append("p")
                elif srcs:
                    args.append(src_val(srcs[-1]))
                else:
                    args.append("e" if (g in dirty and nd["kind"] == "term") else "d")
            if nd["kind"] == "term":
                memo[g] = f"f{g}(" + ",".join(args) + ")"
            else:
                memo[g] = level(nd["inner"], args)
                out[("args", g)] = [a for a, srcs in zip(args, spec["slots"][str(g)]) if srcs]
            out[g] = memo[g]
            return memo[g]

        for nd in spec["nodes"]:
            val(nd["gid"])
        return memo[spec["out"]] if "out" in spec else None

    level(case["top"], [])
    return out


# --------------------------------------------------------------------------- live graphs


def _index(wf, case):
    """gid -> live node, lid -> live composite"""
    lvs = levels_of(case)
    node, comp = {}, {}

    def walk(lv, owner):
        comp[lv["lid"]] = owner
        for nd in lv["spec"]["nodes"]:
            g = nd["gid"]
            node[g] = owner.children[f"n{g}"]
            if nd["kind"] == "macro":
                walk(lvs[lv["macros"][g]], node[g])
        for u, k in lv["ui"].items():
            node[u] = owner.children["a" if k == 0 else "b"]

    walk(lvs[-1], wf)
    return lvs, node, comp


def _gid_of_label(lv, label):
    if label.startswith("n") and label[1:].isdigit():
        return int(label[1:])
    for u, k in lv["ui"].items():
        if label == ("a" if k == 0 else "b"):
            return u
    return -1


def _ts(v):
    from .execsim import term_str

    return term_str(v).replace("'e'", "e").replace("'p'", "p")


def _out_value(n):
    from .execsim import term_str

    chans = list(n.outputs)
    return _ts(chans[0].value) if chans else "ND"


def _snapshot(lvs, node):
    """what is visible of every node: flags, output, cache presence (+ content), received set, data connection order"""
    from pyiron_workflow.nodes.composite import Composite

    from .execsim import term_str

    snap = {}
    for lv in lvs:
        for g in lv["own"]:
            n = node[g]
            recv = sorted(_gid_of_label(lv, lab.split("__")[0]) for lab in n.signals.input.accumulate_and_run.received_signals)
            ci = n._cached_inputs
            snap[g] = {
                "flags": "F" if n.failed else ("R" if n.running else "-"),
                "out": "*" if isinstance(n, Composite) else _out_value(n),
                "cache": 0 if ci is None else 1,
                "cache_val": None if ci is None or isinstance(n, Composite) else sorted(
                    (k, _ts(v)) for k, v in ci.items()),
                "recv": recv,
                "conn": {lab: [c.owner.label for c in ch.connections] for lab, ch in n.inputs.items()},
                "in": {lab: _ts(ch.value) for lab, ch in n.inputs.items()},
                "comp": isinstance(n, Composite),
                "has_out": _out_value(n) != "ND",
            }
    return snap


def _wiring(lv, comp, node):
    down = {}
    for g in lv["own"]:
        down[g] = [_gid_of_label(lv, c.owner.label) for c in node[g].signals.output.ran.connections]
    return {"down": down, "starters": [_gid_of_label(lv, n.label) for n in comp.starting_nodes]}


def _files():
    res = []
    for r, _d, fs in os.walk("."):
        for f in fs:
            p = os.path.relpath(os.path.join(r, f))
            if p.endswith(".log") or p.startswith("ckpt_copy") or p.startswith("clean") or p.endswith("run_result.tmp"):
                continue
            res.append(p)
    return sorted(res)


_PROBE: dict = {}


def probe_tree():
    """which variant of the model describes the tree (see Recovery.RCfg)"""
    if _PROBE:
        return _PROBE
    from pyiron_workflow import Workflow

    from . import nodes

    saved = (list(nodes.CALL_LOG), dict(nodes.FAIL), dict(nodes.ATTEMPTS))
    cwd = os.getcwd()
    d = os.path.join(cwd, "probe_dir")
    os.makedirs(d, exist_ok=True)
    os.chdir(d)
    try:
        nodes.reset()
        wf = Workflow("p", autoload=None)
        wf.x = nodes.F0(label="x")
        wf.y = nodes.F1(label="y")
        wf.z = nodes.F2(label="z")
        wf.z.inputs.a.connect(wf.x.outputs.o)
        wf.z.inputs.b.connect(wf.y.outputs.o)
        wf.recovery = None
        nodes.FAIL[1] = {0}
        try:
            wf.run()
        except BaseException:  # noqa: BLE001
            pass
        clear_on_fail = wf.y._cached_inputs is None
        wf.z.signals.input.accumulate_and_run.received_signals.add("bogus__ran")
        wf.failed = False
        wf.y.failed = False
        try:
            wf.run()
        except BaseException:  # noqa: BLE001
            pass
        reset = "bogus__ran" not in wf.z.signals.input.accumulate_and_run.received_signals
        # a node that is out on an executor: does its pickled state vouch for inputs? (no entry is written before
        # the result is processed, and/or `__getstate__` drops it while running)
        from .execsim import CtlExecutor, Scheduler

        psched = Scheduler([])
        n = nodes.F3(label="q")
        n.executor = CtlExecutor(psched, "ctl")
        n.run()
        drop = bool(n.running) and n.__getstate__().get("_cached_inputs") is None
        psched.drain()
        # a macro whose value-linked child is marked running: does it come back from a pickle?
        import pickle

        from . import nodes_c08

        nodes_c08.SPEC_QUEUE.insert(0, {"nodes": [{"gid": 4, "kind": "term"}],
                                        "slots": {"4": [["A"], ["B"], []]}, "ui": {"A": 5, "B": 6}, "out": 4})
        m = nodes_c08.Mac8(label="m")
        m.n4.running = True
        try:
            pickle.loads(pickle.dumps(m))
            relink = True
        except RuntimeError:
            relink = False
        # does one unpickling keep the order of a multiply connected input?
        nodes_c08.SPEC_QUEUE.insert(0, {"nodes": [{"gid": 4, "kind": "term"}, {"gid": 5, "kind": "term"},
                                                  {"gid": 6, "kind": "term"}],
                                        "slots": {"4": [["A"], [], []], "5": [["B"], [], []], "6": [[4, 5], [], []]},
                                        "ui": {"A": 7, "B": 8}, "out": 6})
        m2 = nodes_c08.Mac8(label="m2")
        before = [c.owner.label for c in m2.n6.inputs.a.connections]
        m3 = pickle.loads(pickle.dumps(m2))
        order = [c.owner.label for c in m3.n6.inputs.a.connections] == before
        # does a composite that has run keep its cache through a pickle?
        m2.run()
        keepcomp = m2._cached_inputs is not None and pickle.loads(pickle.dumps(m2))._cached_inputs is not None
        # a composite with a nested macro whose input is connected: does it recognise its own finished run?
        inner = {"nodes": [{"gid": 5, "kind": "term"}], "slots": {"5": [["A"], ["B"], []]}, "ui": {"A": 8, "B": 9},
                 "out": 5}
        nodes_c08.SPEC_QUEUE.insert(0, {"nodes": [{"gid": 4, "kind": "term"}, {"gid": 6, "kind": "macro", "inner": inner}],
                                        "slots": {"4": [["A"], ["B"], []], "6": [[4], []]}, "ui": {"A": 10, "B": 11},
                                        "out": 4})
        m4 = nodes_c08.Mac8(label="m4")
        m4.run()
        keyafter = bool(m4.cache_hit)
        _PROBE.update({"reset": reset, "drop": drop, "clearfail": clear_on_fail, "relink": relink, "order": order,
                       "keepcomp": keepcomp, "keyafter": keyafter, "keepqueue": True, "itercopy": True})
        # restart with the running flags kept: is a queued signal kept, are two running children both picked up?
        q = _run_continue(_flat(4, [[[], [], []], [[3], [], []], [[1], [0], []], [[], [], []]], kind="continue", ckpt=1,
                                exec=[0], choices=[0] * 20), probing=True)
        t = _run_continue(_flat(5, [[[], [], []], [[], [], []], [[1], [0], [3]], [[4], [], []], [[], [], []]],
                                kind="continue", ckpt=3, exec=[0, 1], choices=[0] * 20), probing=True)
        _PROBE.update({"keepqueue": q["r"].get("out2", {}).get(2, "ND") != "ND",
                       "itercopy": not str(t["r"].get("outcome2", "")).startswith("stuck")})
    finally:
        os.chdir(cwd)
        shutil.rmtree(d, ignore_errors=True)
        nodes.CALL_LOG[:] = saved[0]
        nodes.FAIL.clear()
        nodes.FAIL.update(saved[1])
        nodes.ATTEMPTS.clear()
        nodes.ATTEMPTS.update(saved[2])
    return _PROBE


def _mk_sched(choices):
    from .execsim import Scheduler

    class RootScheduler(Scheduler):
        """schedule points (and emission events) of the ROOT composite only"""

        def at_emit(self):
            if self.log and self.log[-1][2] != "w":
                return
            # only jobs of the root's own children can complete at a root-level point (a job of an inner level whose
            # loop was ended by an interrupt stays out for good)
            self.events += 1
            self.points += 1
            if self.points > self.max_points:
                from .execsim import Stuck

                raise Stuck("step budget exceeded")
            from .execsim import _run_job

            own = [j for j in self.jobs if getattr(getattr(j[0], "parent", None), "label", None) == "w"]
            if own:
                c = self._choose(len(own) + 1)
                if c != 0:
                    job = own[c - 1]
                    self.jobs.remove(job)
                    self.trace.append(f"{self.events}:{self.ident(job[0])}")
                    _run_job(job)

        def at_sleep(self, *_a):
            # an idle composite waits for ITS OWN children: only their jobs can complete here (a macro run locally
            # blocks its parent's thread, so from the parent's level its whole run is one step)
            import sys as _sys

            comp_ = _sys._getframe(1).f_locals.get("self")
            own = [j for j in self.jobs if getattr(j[0], "parent", None) is comp_]
            if comp_ is None or not own:
                return super().at_sleep()
            self.points += 1
            if self.points > self.max_points:
                from .execsim import Stuck

                raise Stuck("step budget exceeded")
            from .execsim import _run_job

            c = self._choose(len(own))
            job = own[c]
            self.jobs.remove(job)
            self.trace.append(f"s:{self.ident(job[0])}")
            _run_job(job)

    def ident(owner):
        return owner.label[1:]

    return RootScheduler(list(choices), ident=ident)


def _with_cp(spec, cp, arr=()):
    """the level description with the leaves in `cp` turned into nodes whose output only cloudpickle can serialise,
    those in `arr` into nodes whose output is array-like (`==` between two different objects has no truth value)"""
    out = dict(spec)
    out["nodes"] = [
        {**nd, "inner": _with_cp(nd["inner"], cp, arr)} if nd["kind"] == "macro"
        else ({**nd, "kind": "cterm"} if nd["gid"] in cp else ({**nd, "kind": "aterm"} if nd["gid"] in arr else nd))
        for nd in spec["nodes"]
    ]
    return out


def _build(case):
    from pyiron_workflow import Workflow

    from . import nodes_c08

    nodes_c08.SPEC_QUEUE.clear()
    wf = Workflow("w", autoload=None)
    made = nodes_c08.build_level(wf, _with_cp(case["top"], set(case.get("cp", [])), set(case.get("arr", []))))
    if case.get("flow"):
        # a HAND-WIRED flow: no automatic derivation of the execution signals; every node is triggered by the `ran`
        # signal of the one node it takes data from, through its any-of `run` input, the roots are the starting nodes
        wf.automate_execution = False
        roots = []
        for nd in case["top"]["nodes"]:
            g = nd["gid"]
            ups = [s_ for sl in case["top"]["slots"][str(g)] for s_ in sl]
            if ups:
                made[g].signals.input.run.connect(made[ups[0]].signals.output.ran)
            else:
                roots.append(g)
        order = case.get("force_starters") or sorted(roots)
        wf.starting_nodes = [made[g] for g in order if g in roots] + [made[g] for g in roots if g not in order]
    if case.get("preset"):
        # part of the graph "as the user made it": inputs that are value-linked to a macro argument, assigned DIRECTLY
        # on the child (a leaf or a nested macro), so that macro input and child input differ
        _lvs, node, _comp = _index(wf, case)
        for g, si in case["preset"]:
            node[g].inputs["abc"[si]].value = "p"
    return wf


_ORIG_BOOM: list = []


class BoomValue(ValueError):
    """an injected failure of another ordinary exception class"""


def _install_faults(fails, kinds):
    """the fault table, and what a failing function raises: an ordinary exception (two classes) or an interrupt"""
    from . import nodes

    if not _ORIG_BOOM:
        _ORIG_BOOM.append(nodes.Boom)
    orig = _ORIG_BOOM[0]
    kinds = {int(k): v for k, v in (kinds or {}).items()}

    def factory(msg):
        kind = kinds.get(int(msg[1:]), "exc")
        if kind == "kbd":
            return KeyboardInterrupt(msg)
        if kind == "value":
            return BoomValue(msg)
        return orig(msg)

    nodes.Boom = factory
    for k in fails:
        nodes.FAIL[k] = {0}


def _restore_faults():
    from . import nodes

    if _ORIG_BOOM:
        nodes.Boom = _ORIG_BOOM[0]


def _apply_dirty(case, lvs, node):
    vl = {(g, si) for lv in lvs for (g, si, _k) in lv["vlink"]}
    for g in case.get("dirty", []):
        n = node[g]
        for si, slot in enumerate("abc"):
            ch = n.inputs[slot]
            # the own value of a connected input only matters when no connection holds data (then `fetch` leaves it)
            if (g, si) not in vl:
                ch.value = "e"


def _run(wf, sched, on_root_run=None, suppress=False):
    import pyiron_workflow.nodes.composite as comp

    from .execsim import Instrument, Stuck

    outcome = "ok"
    ran = set()
    orig_on_run = comp.Composite._on_run

    def on_run(self_):
        if self_ is wf and on_root_run is not None:
            on_root_run()
        ran.add(id(self_))
        return orig_on_run(self_)

    with Instrument(sched):
        comp.Composite._on_run = on_run
        try:
            if suppress:
                wf.run(raise_run_exceptions=False)
            else:
                wf.run()
        except Stuck as e:
            outcome = f"stuck:{e}"
        except BaseException as e:  # noqa: BLE001
            outcome = "failedchild" if type(e).__name__ == "FailedChildError" else f"aborted:{type(e).__name__}"
        finally:
            comp.Composite._on_run = orig_on_run
    return outcome, ran


def _clears_running(case, stage):
    kinds = (case.get("kinds") if stage == 2 else case.get("kinds2")) or {}
    return case["kind"] in ("checkpoint", "continue") or "kbd" in kinds.values()


def resume_from_file(case, live=None):
    """phases B-D in the current working directory: build a fresh Workflow, load the file, remove the cause, clear the
    flags, run again. Everything returned is plain data (this also runs in a fresh interpreter).
    `live`: the graph itself instead of a file (a failed run whose exception was suppressed writes none)."""
    from pyiron_workflow import Workflow
    from pyiron_workflow.nodes.composite import Composite

    from . import nodes
    from .execsim import CtlExecutor

    kind = case["kind"]
    stage = case.get("stage", 2)
    nodes.reset()
    if live is not None:
        wf2 = live
        lvs2, node2, comp2 = _index(wf2, case)
    else:
        wf2 = Workflow("w", autoload=None)
        try:
            if kind == "recovery":
                wf2.load(filename=wf2.as_path().joinpath("recovery"))
            else:
                wf2.load()
            lvs2, node2, comp2 = _index(wf2, case)
        except BaseException as e:  # noqa: BLE001
            return {"load_err": f"{type(e).__name__}: {e}"[:200]}
    root_lid = lvs2[-1]["lid"]
    loaded = _snapshot(lvs2, node2)
    loaded_root = (bool(wf2.running), bool(wf2.failed))

    # the procedure of the statement clears the FAILURE flags; `running` is cleared as well only where the process
    # that ran the graph is gone (a checkpoint "as if the process had died", an interrupt)
    clear_running = _clears_running(case, stage)

    def clear(c):
        c.failed = False
        if clear_running:
            c.running = False
        if isinstance(c, Composite):
            for ch in c:
                clear(ch)

    clear(wf2)
    if stage == 2:
        _apply_dirty(case, lvs2, node2)
        # the cause that was removed need not be the only one: another function may raise in the resumed run
        _install_faults(case.get("fails2", []), case.get("kinds2"))
    sched2 = _mk_sched(case.get("choices2" if stage == 2 else "choices3", []))
    exe2 = CtlExecutor(sched2, case.get("mode", "ctl"))
    for g in case.get("exec2", []):
        node2[g].executor = exe2
    wiring2 = {lv["lid"]: _wiring(lv, comp2[lv["lid"]], node2) for lv in lvs2 if lv["lid"] != root_lid}

    def grab2():
        wiring2[root_lid] = _wiring(lvs2[-1], wf2, node2)

    try:
        outcome2, ran2 = _run(wf2, sched2, grab2)
    finally:
        _restore_faults()
    res_levels = {}
    for lv in lvs2:
        c = comp2[lv["lid"]]
        res_levels[lv["lid"]] = {
            "ran": id(c) in ran2,
            "exec": [_gid_of_label(lv, l) for l in c.provenance_by_execution] if id(c) in ran2 else [],
            "done": [_gid_of_label(lv, l) for l in c.provenance_by_completion] if id(c) in ran2 else [],
            "failed": bool(c.failed), "running": bool(c.running),
        }
    if root_lid not in wiring2:
        wiring2[root_lid] = _wiring(lvs2[-1], wf2, node2)
    return {
        "loaded": loaded, "loaded_root": loaded_root, "final": _snapshot(lvs2, node2), "levels": res_levels,
        "wiring2": wiring2, "outcome2": outcome2, "late2": len(sched2.jobs), "calls2": [c[0] for c in nodes.CALL_LOG],
        "out2": {g: _out_value(node2[g]) for lv in lvs2 for g in lv["own"]}, "trace2": list(sched2.trace),
        "final_root": (bool(wf2.running), bool(wf2.failed)), "files_after": _files(),
    }


def _run_continue(case, probing=False):
    """a checkpoint restarted with the children's `running` flags KEPT: their jobs wrote their results to disk
    (`_serialize_result`), the restored graph takes the branch "start from a broken process" """
    import pyiron_workflow.node as node_mod
    import pyiron_workflow.storage as storage
    from pyiron_workflow import Workflow

    from . import nodes
    from .execsim import CtlExecutor, Instrument, Scheduler, Stuck

    nodes.reset()
    for leftover in ("w", "ckpt_copy"):
        shutil.rmtree(leftover, ignore_errors=True)
    wf = _build(case)
    lvs, node, comp = _index(wf, case)
    sched = _mk_sched(case.get("choices", []))
    exe = CtlExecutor(sched, "ctl")
    for g in case.get("exec", []):
        node[g].executor = exe
        node[g]._serialize_result = True
    node[case["ckpt"]].checkpoint = "pickle"
    cut = {}
    orig_save = storage.StorageInterface.save

    def save(self_, node=None, filename=None, **kw):
        orig_save(self_, node=node, filename=filename, **kw)
        if not cut:
            cut["files"] = _files()
            cut["tokens"] = len(sched.trace)
            cut["running"] = list(wf.running_children)
            cut["queued"] = len(wf.signal_queue)
            cut["live"] = _snapshot(lvs, by_gid)
            shutil.copytree("w", "ckpt_copy", dirs_exist_ok=True)

    by_gid = node
    storage.StorageInterface.save = save
    wiring1 = {}

    def grab1():
        wiring1[lvs[-1]["lid"]] = _wiring(lvs[-1], wf, node)

    try:
        outcome1, _ = _run(wf, sched, grab1)
    finally:
        storage.StorageInterface.save = orig_save
    trace1 = list(sched.trace)
    if not cut:
        return {"obs": ["no-cut"], "stats": {"no_cut": 1}, "r": {"no_cut": True, "outcome1": outcome1}}
    if not cut["running"]:
        # nothing was out at the save: restoring this checkpoint is an ordinary resume (covered elsewhere)
        r = {"kind": "continue", "probe": dict(_PROBE), "files": cut["files"], "tokens": cut["tokens"], "skip": True,
             "running_at_cut": [], "queued_at_cut": cut["queued"], "wiring1": wiring1, "trace1": trace1,
             "outcome1": outcome1}
        return {"obs": ["files " + " ".join(cut["files"]), "K skip"], "r": r, "stats": {"kind:continue": 1, "continue:skip": 1}}
    # the process died right after the save: only the jobs that were out then have written a result
    for g in lvs[-1]["own"]:
        f = os.path.join("w", f"n{g}", "run_result.tmp")
        if f"n{g}" not in cut["running"] and os.path.exists(f):
            os.remove(f)
    for f in os.listdir("w"):
        if f.startswith("picklestorage"):
            os.remove(os.path.join("w", f))
    for f in os.listdir("ckpt_copy"):
        if f.startswith("picklestorage"):
            shutil.copy(os.path.join("ckpt_copy", f), os.path.join("w", f))
    nodes.reset()
    wf2 = Workflow("w", autoload=None)
    wf2.load()
    lvs2, node2, _c2 = _index(wf2, case)
    wf2.running = False  # the outermost graph is asked to run again; the children keep their flags
    sched2 = _mk_sched([])
    outcome2, _ = _run(wf2, sched2, None)
    calls2 = [c[0] for c in nodes.CALL_LOG]
    final = _snapshot(lvs2, node2)
    r = {"kind": "continue", "probe": dict(_PROBE), "files": cut["files"], "tokens": cut["tokens"],
         "running_at_cut": cut["running"], "queued_at_cut": cut["queued"], "live": cut["live"], "outcome1": outcome1,
         "outcome2": outcome2, "calls2": calls2, "final": final, "wiring1": wiring1, "trace1": trace1,
         "out2": {g: _out_value(node2[g]) for g in lvs2[-1]["own"]}}
    own = lvs[-1]["own"]

    def st(g):
        fl = final[g]["flags"]
        return "out" if fl == "R" else ("failed" if fl == "F" else ("done" if r["out2"][g] != "ND" else "idle"))

    end = "exited" if outcome2 in ("ok", "failedchild") else ("stuck-idle" if outcome2.startswith("stuck") else "aborted")
    obs = ["files " + " ".join(cut["files"]), f"K end {end}",
           "K st " + " ".join(f"{g}:{st(g)}" for g in own),
           "K calls " + " ".join(f"{g}:{calls2.count(g)}" for g in own),
           "K out " + " ".join(f"{g}:{r['out2'][g]}" for g in own)]
    stats = {"kind:continue": 1, "jobs_out_at_cut": len(cut["running"]), "queued_at_cut": int(cut["queued"] > 0),
             f"continue:{end}": 1}
    return {"obs": obs, "r": r, "stats": stats}


def run_impl(case):
    if case.get("kind") == "malformed":
        return {"obs": ["bad-op"] * len(case["lines"]), "stats": {"malformed": 1}, "malformed": True}
    import pyiron_workflow.storage as storage
    from pyiron_workflow import Workflow
    from pyiron_workflow.nodes.composite import Composite

    from . import nodes
    from .execsim import CtlExecutor

    probe = dict(probe_tree())
    if case["kind"] == "continue":
        return _run_continue(case)
    if case["kind"] == "idle":
        return _run_idle(case)
    nodes.reset()
    kind = case["kind"]
    # ---- A: the first run, up to the cut
    wf = _build(case)
    lvs, node, comp = _index(wf, case)
    root_lid = lvs[-1]["lid"]
    if case.get("force_starters") and not case.get("flow"):
        # hand-made order of the starting nodes (the execution signals are still the ones of the data flow)
        wf.automate_execution = False
        wf.set_run_signals_to_dag_execution()
        wf.starting_nodes = sorted(wf.starting_nodes, key=lambda n: case["force_starters"].index(int(n.label[1:]))
                                   if int(n.label[1:]) in case["force_starters"] else len(case["force_starters"]))
    _install_faults(case.get("fails", []), case.get("kinds"))
    sched = _mk_sched(case.get("choices", []))
    exe = CtlExecutor(sched, case.get("mode", "ctl"))
    for g in case.get("exec", []):
        node[g].executor = exe
    wiring1 = {lv["lid"]: _wiring(lv, comp[lv["lid"]], node) for lv in lvs if lv["lid"] != root_lid}
    cut = {}
    orig_save = storage.StorageInterface.save
    import pyiron_workflow.node as node_mod

    orig_ckpt = node_mod.Node.save_checkpoint
    trigger = []
    if kind == "checkpoint":
        for g in [case["ckpt"], *case.get("ckpt_more", [])]:
            node[g].checkpoint = "pickle"
        by_gid = node

        def save_checkpoint(self_, *a, **kw):
            trigger.append(self_.label)
            try:
                return orig_ckpt(self_, *a, **kw)
            finally:
                trigger.pop()

        node_mod.Node.save_checkpoint = save_checkpoint

        def save(self_, node=None, filename=None, **kw):  # keyword names as in the original
            orig_save(self_, node=node, filename=filename, **kw)
            # the cut: right after the save made by the chosen node (others may have saved before)
            if not cut and trigger and trigger[-1] == f"n{case['ckpt']}":
                cut["files"] = _files()
                cut["tokens"] = len(sched.trace)
                cut["live"] = _snapshot(lvs, by_gid)
                cut["root"] = (bool(wf.running), bool(wf.failed))
                shutil.copytree("w", "ckpt_copy", dirs_exist_ok=True)

        storage.StorageInterface.save = save

    def grab1():
        wiring1[root_lid] = _wiring(lvs[-1], wf, node)

    try:
        outcome1, _ = _run(wf, sched, grab1, suppress=bool(case.get("suppress")))
    finally:
        storage.StorageInterface.save = orig_save
        node_mod.Node.save_checkpoint = orig_ckpt
        _restore_faults()
    late1 = len(sched.jobs)
    if kind == "recovery":
        cut["files"] = _files()
        cut["live"] = _snapshot(lvs, node)
        cut["root"] = (bool(wf.running), bool(wf.failed))
        cut["tokens"] = len(sched.trace)
    calls1 = [c[0] for c in nodes.CALL_LOG]
    trace1 = list(sched.trace)
    if "live" not in cut:  # the checkpointing node never finished (cannot happen without faults)
        return {"obs": ["no-cut"], "stats": {"no_cut": 1}, "r": {"no_cut": True, "outcome1": outcome1}}
    # ---- B, C, D: load into a freshly built graph, remove the cause, clear the flags, run again —
    # in this process, or (case["fresh"]) in a fresh interpreter that knows nothing but the file
    if kind == "checkpoint":
        shutil.rmtree("w", ignore_errors=True)
        shutil.copytree("ckpt_copy", "w")
    if case.get("fresh"):
        import pickle
        import subprocess
        import sys

        code = ("import sys, pickle, logging; logging.disable(logging.CRITICAL); from pwh import c08; "
                "case = pickle.load(sys.stdin.buffer); sys.stdout.buffer.write(pickle.dumps(c08.resume_from_file(case)))")
        pr = subprocess.run([sys.executable, "-c", code], input=pickle.dumps(case), capture_output=True, timeout=300)
        if pr.returncode != 0:
            raise RuntimeError("fresh interpreter failed: " + pr.stderr.decode()[-500:])
        b = pickle.loads(pr.stdout)
    elif case.get("suppress") and kind == "recovery":
        # no file was written: the procedure is applied to the graph itself
        for g in case.get("exec", []):
            node[g].executor = None
        if not case.get("flow"):
            wf.automate_execution = True
        b = resume_from_file(case, live=wf)
    else:
        b = resume_from_file(case)
    if "load_err" in b:
        if root_lid not in wiring1:
            wiring1[root_lid] = _wiring(lvs[-1], wf, node)
        r = {"load_err": b["load_err"], "files": cut["files"], "kind": kind, "outcome1": outcome1, "probe": probe,
             "tokens": cut["tokens"], "trace1": trace1, "trace2": [], "wiring1": wiring1, "wiring2": wiring1}
        return {"obs": ["files " + " ".join(cut["files"]), "load-failed"],
                "stats": {"load_failed": 1, f"kind:{kind}": 1}, "r": r}
    loaded, loaded_root, final, res_levels = b["loaded"], b["loaded_root"], b["final"], b["levels"]
    wiring2, outcome2, late2, calls2, out2, trace2 = (b["wiring2"], b["outcome2"], b["late2"], b["calls2"], b["out2"],
                                                      b["trace2"])
    # ---- a second failure: the recovery file written by the resumed run, loaded and resumed once more
    b3 = None
    if kind == "recovery" and case.get("fails2") and outcome2 != "ok":
        case3 = {**case, "stage": 3}
        if case.get("fresh"):
            pr = subprocess.run([sys.executable, "-c", code], input=pickle.dumps(case3), capture_output=True, timeout=300)
            if pr.returncode != 0:
                raise RuntimeError("fresh interpreter failed: " + pr.stderr.decode()[-500:])
            b3 = pickle.loads(pr.stdout)
        else:
            b3 = resume_from_file(case3)
    # ---- E: an uninterrupted run of a fresh graph (with the same new inputs), elsewhere
    nodes.reset()
    cwd = os.getcwd()
    os.makedirs("clean", exist_ok=True)
    os.chdir("clean")
    try:
        wf3 = _build(case)
        lvs3, node3, _comp3 = _index(wf3, case)
        _apply_dirty(case, lvs3, node3)
        clean_outcome = "ok"
        try:
            wf3.run()
        except BaseException as e:  # noqa: BLE001
            clean_outcome = f"raised:{type(e).__name__}"
        clean = {g: _out_value(node3[g]) for lv in lvs3 for g in lv["own"]}
    finally:
        os.chdir(cwd)
    r = {
        "kind": kind, "probe": probe, "outcome1": outcome1, "outcome2": outcome2, "late1": late1, "late2": late2,
        "files": cut["files"], "tokens": cut["tokens"], "live": cut["live"], "live_root": cut["root"],
        "loaded": loaded, "loaded_root": loaded_root, "final": final, "levels": res_levels,
        "wiring1": wiring1, "wiring2": wiring2, "trace1": trace1, "trace2": trace2,
        "calls1": calls1, "calls2": calls2, "clean": clean, "clean_outcome": clean_outcome,
        "out2": out2, "fresh": bool(case.get("fresh")), "final_root": b["final_root"], "files2": b["files_after"],
        "stage3": b3,
    }
    done_before = [g for g in leaves_of(case) if loaded[g]["flags"] == "-" and loaded[g]["out"] != "ND"]
    inflight = any(v["flags"] == "R" and not v["comp"] for v in loaded.values())
    stats = {
        f"kind:{kind}": 1, "nested": int(len(lvs) > 1), "levels": len(lvs), "leaves": len(leaves_of(case)),
        "on_exec": len(case.get("exec", [])), "completed_before_cut": len(done_before),
        "inflight_at_cut": int(inflight), "dirty": int(bool(case.get("dirty"))),
        f"resume:{outcome2.split(':')[0]}": 1, "stale_received_in_file": int(any(v["recv"] for v in loaded.values())),
        "calls_in_resume": len(calls2), "fresh_interpreter": int(bool(case.get("fresh"))),
        "second_failure": int(b3 is not None), "cloudpickle_only_output": int(bool(case.get("cp"))),
        "several_checkpoints": int(bool(case.get("ckpt_more"))),
        "linked_input_set_directly": int(bool(case.get("preset"))),
        "array_like_data_on_edges": int(bool(case.get("arr"))),
        "linked_input_differs_from_macro_input": int(bool(preset_live(case))),
        "interrupt": int("kbd" in (case.get("kinds") or {}).values() or "kbd" in (case.get("kinds2") or {}).values()),
        "two_suffixes_seen": int(any(f.endswith(".cpckl") for f in cut["files"] + b["files_after"])),
    }
    return {"obs": obs_lines(case, r), "r": r, "stats": stats}


# --------------------------------------------------------------------------- failures while the parent is idle


def _owners(case):
    """gid -> (owner id, label) over the whole tree; the outermost graph has id N"""
    lvs = levels_of(case)
    root = case["N"]
    par = {}
    for lv in lvs:
        owner = lv["parent"][1] if lv["parent"] is not None else root
        for g in lv["own"]:
            par[g] = (owner, ("a" if lv["ui"][g] == 0 else "b") if g in lv["ui"] else f"n{g}")
    return par


def _ancestors(par, g):
    res = []
    while g in par:
        g = par[g][0]
        res.append(g)
    return res


def _upstream(case, t):
    """the siblings `t` takes data from, directly or not (interface nodes left out)"""
    for lv in levels_of(case):
        if t in lv["own"] and t not in lv["ui"]:
            slots = lv["spec"]["slots"]
            seen, todo = set(), [t]
            while todo:
                g = todo.pop()
                for sl in slots.get(str(g), []):
                    for s_ in sl:
                        if s_ not in ("A", "B") and s_ not in seen:
                            seen.add(s_)
                            todo.append(s_)
            return sorted(seen)
    return []


def _running_at(case, ev):
    """who is running when the function of `ev['fail']` raises -- the reading of the three ways to run a node:
    `x.run()` runs x and what is inside it; `x.pull()` first lets the PARENT of x run the nodes upstream of x, then
    runs x by itself; a run of the outermost graph has every composite above the raising node running"""
    par = _owners(case)
    k, t = ev["fail"], ev.get("target")
    anc = _ancestors(par, k)
    if ev["how"] == "root":
        return anc
    if ev["how"] == "inject":
        return []
    if k == t or t in anc:
        return anc[: anc.index(t) + 1] if t in anc else []
    owner = par[t][0]  # pull, an upstream sibling (or something inside it) raises
    return anc[: anc.index(owner) + 1]


def _recovery_scan():
    res = []
    for r_, _d, fs in os.walk("."):
        for f in fs:
            if f.startswith("recovery."):
                res.append(os.path.relpath(os.path.join(r_, f)))
    return sorted(res)


def _walk_live(n):
    from pyiron_workflow.nodes.composite import Composite

    yield n
    if isinstance(n, Composite):
        for c in list(n.children.values()):
            yield from _walk_live(c)


def _attempt(f):
    from .execsim import Stuck

    try:
        f()
        return "ok"
    except Stuck as e:
        return f"stuck:{e}"
    except BaseException as e:  # noqa: BLE001
        return "failedchild" if type(e).__name__ == "FailedChildError" else f"raised:{type(e).__name__}"


LOOP_SHAPES = {
    # depth: (labels by id, parent by id, id of the loop, the composites running above the loop)
    0: (["w", "n0", "items", "loop", "fold", "n1"], {1: 0, 2: 0, 3: 0, 4: 0, 5: 0}, 3, [0]),
    1: (["w", "n0", "m", "n1", "items", "loop", "fold"], {1: 0, 2: 0, 3: 0, 4: 2, 5: 2, 6: 2}, 5, [0, 2]),
    2: (["w", "n0", "m", "n1", "pre", "sweep", "post", "items", "loop", "fold"],
        {1: 0, 2: 0, 3: 0, 4: 2, 5: 2, 6: 2, 7: 5, 8: 5, 9: 5}, 8, [0, 2, 5]),
}


def _build_loop(depth, as_set):
    from pyiron_workflow import Workflow

    from . import nodes, nodes_c08

    wf = Workflow("w", autoload=None)
    wf.n0 = nodes.term_node(0, label="n0")
    if depth == 0:
        from pyiron_workflow.nodes.for_loop import for_node

        wf.items = nodes_c08.Items8(wf.n0, as_set)
        wf.loop = for_node(nodes_c08.Body8, iter_on=("x",), x=wf.items, output_as_dataframe=False)
        wf.fold = nodes_c08.Fold8(wf.loop.outputs.y)
        wf.n1 = nodes.term_node(1, label="n1", a=wf.fold)
    else:
        wf.m = (nodes_c08.Sweep8 if depth == 1 else nodes_c08.Outer8)(wf.n0, as_set)
        wf.n1 = nodes.term_node(1, label="n1", a=wf.m)
    wf.deactivate_strict_hints()
    return wf


def _run_loop(case):
    """a loop (at depth 0-2) is handed a set while type checking is off: the nodes that pick the items out run as the
    loop assembles its body, inside a run of the outermost graph, with a parent (the loop) that is not running yet"""
    import shutil

    from pyiron_workflow import Workflow

    from . import nodes
    from .execsim import term_str

    depth = case["loop"]
    nodes.reset()
    ref_out = _attempt(lambda: _build_loop(depth, False).run())
    wf_ref = None
    reference_ = None
    if ref_out == "ok":
        wf_ref = _build_loop(depth, False)
        shutil.rmtree("w", ignore_errors=True)
        nodes.reset()
        reference_ = {k: term_str(v) for k, v in dict(wf_ref.run()).items()}
    shutil.rmtree("w", ignore_errors=True)
    nodes.reset()
    wf = _build_loop(depth, True)
    if case.get("norec"):
        wf.recovery = None
    out1 = _attempt(wf.run)
    files = _recovery_scan()
    r = {"idle": True, "loop": depth, "events": [{"how": "loop", "outcome": out1, "files": files, "idle_parent": True}],
         "loop_resume": None}
    if out1 != "ok" and "w/recovery.pckl" in files:
        res = {"done_before": [0], "ref": reference_, "ref_outcome": "ok" if reference_ is not None else ref_out}

        def resume():
            wf2 = Workflow("w", autoload=None)
            wf2.load(filename=wf2.as_path().joinpath("recovery"))
            wf2.delete_storage(filename=wf2.as_path().joinpath("recovery"))
            owner = wf2 if depth == 0 else (wf2.m if depth == 1 else wf2.m.sweep)
            # remove the cause: where the switch is connected to the macro's input, the macro's input is what counts
            (owner.items if depth == 0 else owner).inputs.as_set = False
            if depth == 2:
                wf2.m.inputs.as_set = False
            for n in _walk_live(wf2):
                n.failed = False
            nodes.CALL_LOG.clear()
            res["labels"] = sorted(wf2.children)
            res["out"] = {k: term_str(v) for k, v in dict(wf2.run()).items()}

        res["outcome"] = _attempt(resume)
        res["calls"] = [c[0] for c in nodes.CALL_LOG]
        r["loop_resume"] = res
    return {"obs": ["files " + " ".join(files)], "r": r,
            "stats": {"kind:idle": 1, "idle:loop-assembly": 1, f"idle:loop-depth-{depth}": 1}}


def _run_idle(case):
    """failures of nodes whose parent is not running: a child run or pulled by hand, a node injected by an operator on
    an output (it runs as it is created), before or after runs of the outermost graph; after EVERY event the whole
    cwd tree is scanned for recovery files"""
    from . import nodes, nodes_c08

    if case.get("loop") is not None:
        return _run_loop(case)
    nodes.reset()
    wf = _build(case)
    lvs, node, _comp = _index(wf, case)
    for g in case.get("norec", []):
        (wf if g == case["N"] else node[g]).recovery = None
    par = _owners(case)
    evs, obs = [], []
    stats = {"kind:idle": 1, "nested": int(len(lvs) > 1)}
    resume = None
    try:
        for j, ev in enumerate(case["events"]):
            for n in _walk_live(wf):
                n.failed = False
                n.running = False
                if j > 0:
                    n.use_cache = False  # an earlier run must not stand in for the call that is to fail now
            nodes.FAIL.clear()
            how = ev["how"]
            if how == "clean":
                out = _attempt(wf.run)
            else:
                if how == "inject":
                    _install_faults([], {})
                else:
                    _install_faults([ev["fail"]], {str(ev["fail"]): ev.get("exc", "exc")})
                if how == "root":
                    out = _attempt(wf.run)
                elif how == "run":
                    out = _attempt(node[ev["target"]].run)
                elif how == "pull":
                    out = _attempt(node[ev["target"]].pull)
                else:
                    ch = nodes_c08.out_channel(node[ev["target"]])
                    out = _attempt(lambda ch=ch: ch[99])  # an item that is not there: the new node raises as it is made
            files = _recovery_scan()
            running = [] if how == "clean" else _running_at(case, ev)
            # the topmost node that runs in this event has a parent, and that parent is not running
            idle_parent = how not in ("clean", "root") and case["N"] not in running
            evs.append({"how": how, "outcome": out, "files": files, "idle_parent": idle_parent})
            obs.append("files " + " ".join(files))
            stats[f"idle:{how}"] = stats.get(f"idle:{how}", 0) + 1
            if idle_parent and out != "ok":
                stats["idle:raised-with-idle-parent"] = 1
            if (how == "pull" and case["N"] in running and out != "ok" and j == len(case["events"]) - 1
                    and "w/recovery.pckl" in files and all(e["how"] != "root" for e in case["events"])):
                # a pull of a child of the outermost graph failed upstream: the graph itself ran (and failed), the
                # file is ITS recovery file -- restore it in a fresh graph, remove the cause, resume
                done_before = sorted({c[0] for c in nodes.CALL_LOG} - {ev["fail"]}) if j == 0 else []
                resume = _resume_root_file(case, done_before)
                stats["idle:pull-through-root-resumed"] = 1
    finally:
        _restore_faults()
        nodes.FAIL.clear()
    return {"obs": obs, "r": {"idle": True, "events": evs, "pull_resume": resume}, "stats": stats}


def _resume_root_file(case, done_before):
    from pyiron_workflow import Workflow

    from . import nodes
    from .execsim import term_str

    _restore_faults()
    nodes.reset()
    res = {"done_before": done_before}

    def go():
        wf2 = Workflow("w", autoload=None)
        wf2.load(filename=wf2.as_path().joinpath("recovery"))
        for n in _walk_live(wf2):
            n.failed = False
        res["labels"] = sorted(wf2.children)
        res["out"] = {k: term_str(v) for k, v in dict(wf2.run()).items()}

    res["outcome"] = _attempt(go)
    res["calls"] = [c[0] for c in nodes.CALL_LOG]
    nodes.reset()
    ref = _build(case)
    res["ref_outcome"] = _attempt(lambda: res.__setitem__("ref", {k: term_str(v) for k, v in dict(ref.run()).items()}))
    return res


def _idle_model_input(case):
    if case.get("loop") is not None:
        labels, parent, loop, above = LOOP_SHAPES[case["loop"]]
        new = len(labels)
        lines = [f"forest {i} {parent.get(i, '-')} {lab}" for i, lab in enumerate(labels)]
        lines += [f"forest {new} {loop} inj0"]
        if case.get("norec"):
            lines.append("norecovery 0")
        run = " ".join(map(str, above))
        # the picking node raises (its parent, the loop, has not started), then the loop itself, inside the running graph
        return lines + [f"fevent {new} {run}", f"fevent {loop} {run}", "fscan"]
    par = _owners(case)
    root = case["N"]
    lines = [f"forest {root} - w"] + [f"forest {g} {p} {lab}" for g, (p, lab) in sorted(par.items())]
    lines += [f"norecovery {g}" for g in case.get("norec", [])]
    new = root + 1
    for ev in case["events"]:
        if ev["how"] == "inject":
            lines.append(f"forest {new} {par[ev['target']][0]} inj{new}")
            lines.append(f"fevent {new}")
            new += 1
        elif ev["how"] != "clean":
            lines.append(f"fevent {ev['fail']} " + " ".join(map(str, _running_at(case, ev))))
        lines.append("fscan")
    return lines


def _idle_oracle(case, r):
    """the only recovery files anywhere under the cwd are the outermost graph's -- after every single failure"""
    fails = []
    norec_root = case["N"] in case.get("norec", []) if case.get("loop") is None else bool(case.get("norec"))
    root_failed = False

    def add(clause, short, kind, detail, **kw):
        fails.append({"clause": clause, "detail": detail, "signature": {"clause": short, "kind": kind, **kw}})

    for j, ev in enumerate(r["events"]):
        where = f"event {j} ({ev['how']}, {ev['outcome'].split(':')[-1]}): files {ev['files']}"
        stray = [f for f in ev["files"] if os.path.dirname(f) != "w"]
        if stray:
            add("recovery-file-below-the-outermost-graph", "stray-file", "idle", where, how=ev["how"],
                idle_parent=ev["idle_parent"])
        if ev["how"] in ("root", "loop") and ev["outcome"] != "ok":
            root_failed = True
        if ev["how"] == "pull" and ev["outcome"] != "ok" and not ev["idle_parent"]:
            root_failed = True  # the outermost graph itself ran the upstream nodes, and failed
        at_root = [f for f in ev["files"] if os.path.dirname(f) == "w"]
        if root_failed and not norec_root and len(at_root) != 1:
            add("file-not-exactly-at-root", "files", "idle", where, how=ev["how"])
        if (not root_failed or norec_root) and at_root:
            add("recovery-file-without-a-failed-run-of-the-root", "files-unexpected", "idle", where, how=ev["how"])
    for key, kind in (("pull_resume", "idle-pull"), ("loop_resume", "idle-loop")):
        pr = r.get(key)
        if pr is None or pr.get("ref_outcome") != "ok":
            continue
        if pr["outcome"] != "ok":
            add("resumed-run-fails", "resume-fails", kind, pr["outcome"])
        elif pr.get("out") != pr.get("ref"):
            add("resumed-outputs-differ", "outputs", kind,
                f"resumed {pr.get('out')} uninterrupted {pr.get('ref')} children {pr.get('labels')}")
        elif set(pr["calls"]) & set(pr["done_before"]):
            add("completed-node-called-again", "recall", kind, f"calls {pr['calls']} completed {pr['done_before']}")
    return fails


# --------------------------------------------------------------------------- observations / model input


def _fmt_nats(l):
    return "[" + ",".join(map(str, l)) + "]"


def obs_lines(case, r):
    lvs = levels_of(case)
    lines = ["files " + " ".join(r["files"])]
    for lv in lvs:
        tag = f"L{lv['lid']}"
        own = lv["own"]
        loaded, final, res = r["loaded"], r["final"], r["levels"][lv["lid"]]
        leaves = [g for g in own if g not in lv["macros"] and g not in lv["ui"]]

        def st(g):
            fl = final[g]["flags"]
            if fl == "R":
                return "out"
            if fl == "F":
                return "failed"
            return "done" if g in res["done"] else "idle"

        end = "exited" if res["ran"] else "notrun"
        if lv["parent"] is None:
            o2 = r["outcome2"]
            end = "exited" if o2 in ("ok", "failedchild") else ("aborted" if o2.startswith("aborted") else o2)
            outcome = {"ok": "ok", "failedchild": "failedchild"}.get(o2, "aborted" if o2.startswith("aborted") else o2)
        else:
            outcome = "failedchild" if res["failed"] else ("ok" if res["ran"] else "notrun")
        lines += [
            f"{tag} wf true true",
            f"{tag} cut flags " + " ".join(f"{g}:{loaded[g]['flags']}" for g in own),
            f"{tag} cut out " + " ".join(f"{g}:{loaded[g]['out']}" for g in own),
            f"{tag} cut cache " + " ".join(f"{g}:{loaded[g]['cache']}" for g in own),
            f"{tag} cut recv " + " ".join(f"{g}:{_fmt_nats(loaded[g]['recv'])}" for g in own),
            f"{tag} res end {end}",
            f"{tag} res outcome {outcome}",
            f"{tag} res exec {_fmt_nats(res['exec'])}",
            f"{tag} res done {_fmt_nats(res['done'])}",
            f"{tag} res st " + " ".join(f"{g}:{st(g)}" for g in own),
            f"{tag} res fcalls " + " ".join(f"{g}:{r['calls2'].count(g)}" for g in leaves),
            f"{tag} res out " + " ".join(f"{g}:{r['out2'][g]}" for g in own),
        ]
    b3 = r.get("stage3")
    if b3 is not None:
        lv = lvs[-1]
        own = lv["own"]
        lines.append("H files " + " ".join(r["files2"]))
        if "load_err" in b3:
            lines.append("H load-failed")
            return lines
        res = b3["levels"][lv["lid"]]
        o3 = b3["outcome2"]
        end = "exited" if o3 in ("ok", "failedchild") else ("aborted" if o3.startswith("aborted") else o3)
        outcome = {"ok": "ok", "failedchild": "failedchild"}.get(o3, "aborted" if o3.startswith("aborted") else o3)

        def st3(g):
            fl = b3["final"][g]["flags"]
            return "out" if fl == "R" else ("failed" if fl == "F" else ("done" if g in res["done"] else "idle"))

        lines += [
            "H cut flags " + " ".join(f"{g}:{b3['loaded'][g]['flags']}" for g in own),
            "H cut out " + " ".join(f"{g}:{b3['loaded'][g]['out']}" for g in own),
            "H cut cache " + " ".join(f"{g}:{b3['loaded'][g]['cache']}" for g in own),
            "H cut recv " + " ".join(f"{g}:{_fmt_nats(b3['loaded'][g]['recv'])}" for g in own),
            f"H res end {end}",
            f"H res outcome {outcome}",
            f"H res exec {_fmt_nats(res['exec'])}",
            f"H res done {_fmt_nats(res['done'])}",
            "H res st " + " ".join(f"{g}:{st3(g)}" for g in own),
            "H res fcalls " + " ".join(f"{g}:{b3['calls2'].count(g)}" for g in own),
            "H res out " + " ".join(f"{g}:{b3['out2'][g]}" for g in own),
        ]
    return lines


def _tok(t):
    return t


def model_input(case, impl):
    if case.get("kind") == "malformed":
        return list(case["lines"])
    r = impl.get("r") or {}
    if case.get("kind") == "idle":
        return _idle_model_input(case)
    if "wiring1" not in r:
        return ["n 0", "bogus"]
    if case["kind"] == "continue":
        r = {**r, "wiring2": r["wiring1"], "trace2": [], "stage3": None}
    lvs = levels_of(case)
    n = case["N"]
    p = r["probe"]
    lines = [f"cfg {int(p['reset'])} {int(p['drop'])} {int(p['clearfail'])} {int(p['relink'])} {int(p['order'])} "
             f"{int(p['keepcomp'])} {int(p['keyafter'])}",
             f"n {n}"]
    root_lid = lvs[-1]["lid"]
    for lv in lvs:
        lines.append(f"level {lv['lid']}")
        lines.append("own " + " ".join(map(str, lv["own"])))
        lines.append("order " + " ".join(str(nd["gid"]) for nd in lv["spec"]["nodes"]))
        for nd in lv["spec"]["nodes"]:
            for ups in _slot_sources(lv, nd["gid"]):
                lines.append(f"slot {nd['gid']} " + " ".join(map(str, ups)))
        w1, w2 = r["wiring1"][lv["lid"]], r["wiring2"][lv["lid"]]
        for g in lv["own"]:
            lines.append(f"down {g} " + " ".join(map(str, w1["down"].get(g, []))))
            lines.append(f"down2 {g} " + " ".join(map(str, w2["down"].get(g, []))))
        lines.append("starters " + " ".join(map(str, w1["starters"])))
        lines.append("starters2 " + " ".join(map(str, w2["starters"])))
        mine = lambda toks: [t for t in toks if int(t.split(":")[1]) in lv["own"]]  # noqa: E731
        lines.append("exec " + " ".join(str(g) for g in case.get("exec", []) if g in lv["own"]))
        lines.append("exec2 " + " ".join(str(g) for g in case.get("exec2", []) if g in lv["own"]))
        lines.append("sched " + " ".join(mine(r["trace1"])))
        lines.append("sched2 " + " ".join(mine(r["trace2"])))
        lines.append(f"cutT {len(mine(r['trace1'][:r['tokens']]))}")
        lines.append("fails " + " ".join(str(k) for k in case.get("fails", []) if k in lv["own"]))
        kinds = case.get("kinds") or {}
        lines.append("kbd " + " ".join(str(k) for k in case.get("fails", []) if k in lv["own"] and kinds.get(str(k)) == "kbd"))
        b3 = r.get("stage3")
        if lv["lid"] == root_lid and b3 is not None and "wiring2" in b3:
            w3 = b3["wiring2"][lv["lid"]]
            for g in lv["own"]:
                lines.append(f"down3 {g} " + " ".join(map(str, w3["down"].get(g, []))))
            lines.append("starters3 " + " ".join(map(str, w3["starters"])))
            lines.append("sched3 " + " ".join(b3["trace2"]))
        for g, lid2 in lv["macros"].items():
            lines.append(f"macro {g} {lid2}")
        for u, k in lv["ui"].items():
            lines.append(f"ui {u} {k}")
        for g, si, k in lv["vlink"]:
            lines.append(f"vlink {g} {si} {k}")
            if [g, si] in [list(x) for x in case.get("preset", [])]:
                lines.append(f"preset {g} {si}")
        if "out" in lv["spec"]:
            lines.append(f"outnode {lv['spec']['out']}")
        lines.append("rank " + " ".join(map(str, _rank(lv, n))))
        lines.append("endlevel")
    lines.append("dirty " + " ".join(map(str, case.get("dirty", []))))
    lines.append("cp " + " ".join(map(str, case.get("cp", []))))
    lines.append("ckptmore " + " ".join(map(str, case.get("ckpt_more", []))))
    kinds2 = case.get("kinds2") or {}
    lines.append(f"clear {int(_clears_running(case, 2))} {int(_clears_running(case, 3))}")
    lines.append(f"suppress {int(bool(case.get('suppress')) and case['kind'] == 'recovery')}")
    lines.append("fails2 " + " ".join(map(str, case.get("fails2", []))))
    lines.append("kbd2 " + " ".join(str(k) for k in case.get("fails2", []) if kinds2.get(str(k)) == "kbd"))
    if case["kind"] == "continue":
        lines.append(f"continue {int(p['keepqueue'])} {int(p['itercopy'])}")
    if case["kind"] in ("checkpoint", "continue"):
        c = case["ckpt"]
        lid = next(lv["lid"] for lv in lvs if c in lv["own"])
        lines.append(f"cut ckpt {lid} {c} 0")
    else:
        lines.append("cut end")
    lines.append("run")
    return lines


def corr_view(case, impl):
    return impl["obs"]


# --------------------------------------------------------------------------- the property, on the implementation


def _affected(case):
    """nodes whose inputs (may) change when the dirty leaves get new values: those leaves and everything that takes
    data from an affected node, through macro boundaries in both directions (an over-approximation)"""
    dirty = set(case.get("dirty", []))
    if not dirty:
        return set()
    lvs = levels_of(case)
    aff = set(dirty)
    changed = True
    while changed:
        changed = False
        for lv in lvs:
            macro_in_affected = False
            if lv["parent"] is not None:
                plv, m = lvs[lv["parent"][0]], lv["parent"][1]
                msrc = {s for sl in plv["spec"]["slots"][str(m)] for s in sl}
                macro_in_affected = any(s in aff for s in msrc)  # "A"/"B" of the parent handled one level up
                macro_in_affected = macro_in_affected or (("A" in msrc or "B" in msrc) and f"in{plv['lid']}" in aff)
            if macro_in_affected and f"in{lv['lid']}" not in aff:
                aff.add(f"in{lv['lid']}")
                changed = True
            for nd in lv["spec"]["nodes"]:
                g = nd["gid"]
                if g in aff:
                    continue
                srcs = {s for sl in lv["spec"]["slots"][str(g)] for s in sl}
                hit = any(s in aff for s in srcs if s not in ("A", "B"))
                hit = hit or (f"in{lv['lid']}" in aff and any(s in ("A", "B") for s in srcs))
                if nd["kind"] == "macro":
                    hit = hit or any(x in aff for x in lvs[lv["macros"][g]]["own"])
                if hit:
                    aff.add(g)
                    changed = True
    return aff


def oracle(case, impl):
    if case.get("kind") == "malformed":
        return []
    r = impl.get("r") or {}
    fails = []
    kind = case["kind"]
    if kind == "idle":
        return _idle_oracle(case, r) if r.get("events") else []
    if kind == "continue":
        if r.get("no_cut") or r.get("skip"):
            return []
        two = len(r["running_at_cut"]) >= 2
        queued = r["queued_at_cut"] > 0
        s_ = lambda c: {"clause": c, "kind": "continue", "two_out": two, "queued": queued}  # noqa: E731
        if r["outcome2"] != "ok":
            fails.append({"clause": "restart-does-not-return", "detail": f"{r['outcome2']}; out at the cut: {r['running_at_cut']}",
                          "signature": s_("restart-outcome")})
        ref = reference(case)
        bad = [g for g in r["out2"] if r["out2"][g] != ref[g]]
        if bad and r["outcome2"] == "ok":
            g = bad[0]
            fails.append({"clause": "restart-outputs-differ",
                          "detail": f"{len(bad)} node(s); node {g}: {r['out2'][g]} vs uninterrupted {ref[g]}; queued at the cut: "
                                    f"{r['queued_at_cut']}", "signature": s_("restart-outputs")})
        done = [g for g, v in r["live"].items() if v["flags"] == "-" and v["out"] != "ND"]
        again = [g for g in done if g in r["calls2"]] + [int(l[1:]) for l in r["running_at_cut"] if int(l[1:]) in r["calls2"]]
        if again:
            fails.append({"clause": "completed-node-called-again", "detail": f"{again}", "signature": s_("recall")})
        return fails
    lvs = levels_of(case)
    nested = len(lvs) > 1
    dirty = bool(case.get("dirty"))

    # a multiply connected input inside a macro (its fetch priority is the subject of C07)
    multi_inner = any(len(srcs) > 1 for lv in lvs[:-1] for sl in lv["spec"]["slots"].values() for srcs in sl)

    # a macro nested in a macro with a connected input (its children get their inputs while the outer macro runs)
    nested_conn = any(any(lv["spec"]["slots"][str(g)][si] for si in range(2)) for lv in lvs[:-1] for g in lv["macros"])

    def sig(clause, **kw):
        return {"clause": clause, "kind": kind, "nested": nested, "dirty": dirty, "multiconn_in_macro": multi_inner,
                "nested_macro_connected": nested_conn, **kw}

    if r.get("no_cut"):
        return [{"clause": "checkpoint-never-written", "detail": str(r), "signature": sig("no-checkpoint")}]
    if "load_err" in r:
        return [{"clause": "file-does-not-load", "detail": f"{r['load_err']} files={r['files']}",
                 "signature": sig("load")}]
    loaded, live = r["loaded"], r["live"]
    inflight = any(v["flags"] == "R" and not v["comp"] for v in loaded.values())
    # (a) the file: one, at the root, nowhere else
    name = "w/recovery" if kind == "recovery" else "w/picklestorage"
    interrupt = "kbd" in (case.get("kinds") or {}).values()

    def one_file(files):
        return len(files) == 1 and files[0] in (name + ".pckl", name + ".cpckl")

    suppressed = bool(case.get("suppress")) and kind == "recovery"
    nothing_failed = kind == "recovery" and r["outcome1"] == "ok" and not r["live_root"][1]
    if suppressed:
        pass  # the caller asked the run not to raise: the library writes no file then, the graph itself is resumed
    elif (r["files"] != []) if nothing_failed else not one_file(r["files"]):
        fails.append({"clause": "file-not-exactly-at-root",
                      "detail": f"files {r['files']} expected exactly one of {name}.pckl / {name}.cpckl",
                      "signature": sig("files", interrupt=interrupt)})
    # the failed run leaves consistent flags: the root (and every node whose function raised) failed, not running
    if kind == "recovery" and not nothing_failed and "live_root" in r:
        raised = [g for g in case.get("fails", []) if g in r["calls1"]]
        badflags = [g for g in raised if r["live"][g]["flags"] != "F"]
        if r["live_root"] != (False, True) or badflags:
            fails.append({"clause": "flags-after-failure",
                          "detail": f"root (running, failed) = {r['live_root']}; raising nodes not marked failed: {badflags}",
                          "signature": sig("flags", interrupt=interrupt)})
    if nothing_failed:
        return fails  # nothing failed: nothing to resume
    # (a') the file holds the graph as it stood at the cut
    for g, v in live.items():
        w = loaded[g]
        # the cache of a composite is dropped by every load, the cache of a node that is still running does
        # not belong to any outputs yet: neither is part of "the graph as it stood"
        for key in ("flags", "out", "recv", "conn", "in") + (() if v["comp"] or v["flags"] == "R" else ("cache", "cache_val")):
            if v[key] != w[key]:
                fails.append({"clause": "loaded-state-differs", "detail": f"node {g} {key}: live {v[key]} loaded {w[key]}",
                              "signature": sig("loaded-state", field=key)})
                break
    if r["live_root"] != r["loaded_root"]:
        fails.append({"clause": "loaded-state-differs", "detail": f"root flags {r['live_root']} vs {r['loaded_root']}",
                      "signature": sig("loaded-state", field="root")})
    # (b) same end as an uninterrupted run
    second = bool(case.get("fails2"))
    if (r["outcome2"] != "ok" or r["late2"]) and not second:
        fails.append({"clause": "resumed-run-fails", "detail": f"{r['outcome2']} late jobs {r['late2']}",
                      "signature": sig("resume-outcome", inflight=inflight)})
    ref = reference(case)
    if r["clean_outcome"] != "ok":
        fails.append({"clause": "harness-clean-run", "detail": r["clean_outcome"], "signature": sig("harness")})
    bad = [] if second else [g for g in r["clean"] if r["out2"][g] != r["clean"][g]]
    if bad:
        g = bad[0]
        fails.append({"clause": "resumed-outputs-differ",
                      "detail": f"{len(bad)} node(s); node {g}: resumed {r['out2'][g]} uninterrupted {r['clean'][g]}",
                      "signature": sig("outputs", inflight=inflight)})
    badref = [g for g in ref if g in r["clean"] and r["clean"][g] != ref[g]]
    if badref:
        g = badref[0]
        fails.append({"clause": "uninterrupted-run-differs-from-plain-composition",
                      "detail": f"node {g}: {r['clean'][g]} vs {ref[g]}", "signature": sig("reference")})
    # (c) nothing that had completed is called again
    aff = _affected(case)
    done_before = [g for g in leaves_of(case) if loaded[g]["flags"] == "-" and loaded[g]["out"] != "ND"]
    again = [g for g in done_before if g in r["calls2"] and g not in aff]
    if again:
        fails.append({"clause": "completed-node-called-again", "detail": f"nodes {again}; calls {r['calls2']}",
                      "signature": sig("recall", inflight=inflight)})
    # ... nor is a composite child that had completed (and has nothing new inside or upstream) run again
    comp_again = []
    for lv in lvs:
        for g, lid2 in lv["macros"].items():
            v = loaded[g]
            if v["flags"] == "-" and v["has_out"] and g not in aff and r["levels"][lid2]["ran"]:
                comp_again.append(g)
    if comp_again:
        fails.append({"clause": "completed-composite-run-again", "detail": f"macros {comp_again}",
                      "signature": sig("recall-composite", inflight=inflight)})
    twice = sorted({g for g in r["calls2"] if r["calls2"].count(g) > 1})
    if twice:
        fails.append({"clause": "node-called-twice-in-resume", "detail": f"{twice}", "signature": sig("twice")})
    # the same once more when the resumed run failed again: the file holds the graph as it stood at THAT failure
    b3 = r.get("stage3")
    if b3 is not None:
        if not one_file(r["files2"]):
            fails.append({"clause": "file-not-exactly-at-root",
                          "detail": f"after the second failure: files {r['files2']}", "signature": sig("files", stage=2)})
        if "load_err" in b3:
            fails.append({"clause": "file-does-not-load", "detail": f"second recovery file: {b3['load_err']}",
                          "signature": sig("load", stage=2)})
            return fails
        for g, v in r["final"].items():
            w = b3["loaded"][g]
            for key in ("flags", "out", "recv", "conn", "in") + (() if v["comp"] or v["flags"] == "R" else ("cache", "cache_val")):
                if v[key] != w[key]:
                    fails.append({"clause": "loaded-state-differs",
                                  "detail": f"second failure, node {g} {key}: live {v[key]} loaded {w[key]}",
                                  "signature": sig("loaded-state", field=key, stage=2)})
                    break
        if r["final_root"] != b3["loaded_root"]:
            fails.append({"clause": "loaded-state-differs", "detail": f"second failure, root flags {r['final_root']} vs {b3['loaded_root']}",
                          "signature": sig("loaded-state", field="root", stage=2)})
        if b3["outcome2"] != "ok" or b3["late2"]:
            fails.append({"clause": "resumed-run-fails", "detail": f"after the second failure: {b3['outcome2']}",
                          "signature": sig("resume-outcome", stage=2)})
        bad3 = [g for g in r["clean"] if b3["out2"][g] != r["clean"][g]]
        if bad3:
            g = bad3[0]
            fails.append({"clause": "resumed-outputs-differ",
                          "detail": f"after the second failure, node {g}: resumed {b3['out2'][g]} uninterrupted {r['clean'][g]}",
                          "signature": sig("outputs", stage=2)})
        done2 = [g for g in leaves_of(case) if r["final"][g]["flags"] == "-" and r["final"][g]["out"] != "ND"]
        again3 = [g for g in done2 if g in b3["calls2"]]
        if again3:
            fails.append({"clause": "completed-node-called-again",
                          "detail": f"after the second failure: nodes {again3}; calls {b3['calls2']}",
                          "signature": sig("recall", stage=2)})
    return fails


def nontrivial(case, impl):
    if case.get("kind") == "malformed":
        return False
    r = impl.get("r") or {}
    if case.get("kind") == "continue":
        return bool(r.get("running_at_cut"))
    if case.get("kind") == "idle":
        return any(e["idle_parent"] and e["outcome"] != "ok" for e in r.get("events", []))
    if "loaded" not in r:
        return False
    lv = leaves_of(case)
    done = [g for g in lv if r["loaded"][g]["flags"] == "-" and r["loaded"][g]["out"] != "ND"]
    return 0 < len(done) < len(lv)


# --------------------------------------------------------------------------- generation


def _gen_level(rng, term_ids, alloc, n_leaf, depth, is_macro, p_edge=0.55):
    """one level with n_leaf term nodes and (depth > 0) possibly one macro; returns the spec"""
    nodes_ = [{"gid": term_ids.pop(0), "kind": "term"} for _ in range(n_leaf)]
    if depth > 0 and term_ids:
        inner = _gen_level(rng, term_ids, alloc, rng.randint(2, 3), depth - 1 if rng.random() < 0.4 else 0, True)
        nodes_.append({"gid": alloc(), "kind": "macro", "inner": inner})
    order = list(nodes_)
    rng.shuffle(order)  # insertion order
    hidden = list(nodes_)
    rng.shuffle(hidden)  # hidden topological order
    pos = {nd["gid"]: k for k, nd in enumerate(hidden)}
    slots = {}
    for nd in nodes_:
        earlier = [x["gid"] for x in nodes_ if pos[x["gid"]] < pos[nd["gid"]]]
        sl = []
        for _ in range(3 if nd["kind"] == "term" else 2):
            k = 0
            if earlier and rng.random() < p_edge:
                # a multiply connected input inside a macro comes back from the file with reversed priority (C07's
                # subject): keep those rare, they drown everything else
                k = 1 if rng.random() < (0.9 if is_macro else 0.75) else 2
            sl.append(rng.sample(earlier, min(k, len(earlier))))
        slots[str(nd["gid"])] = sl
    spec = {"nodes": order, "slots": slots}
    if is_macro:
        spec["ui"] = {"A": alloc(), "B": alloc()}
        # every macro input is used: once (value link) or twice (a UserInput child stays)
        terms = [nd["gid"] for nd in nodes_ if nd["kind"] == "term"]
        for key in ("A", "B"):
            uses = 1 if rng.random() < 0.5 else 2
            free = [(g, si) for g in terms for si in range(3) if not slots[str(g)][si]]
            # a macro argument may also feed the macro nested in this level: value links then chain down the levels
            free += [(nd["gid"], si) for nd in nodes_ if nd["kind"] == "macro" for si in range(2)
                     if not slots[str(nd["gid"])][si]]
            rng.shuffle(free)
            if len(free) < uses:
                uses = len(free)
            if uses == 0:  # no free slot left: take over one that does not carry the other macro input
                g, si = next((g, si) for g in terms for si in range(3) if slots[str(g)][si] not in (["A"], ["B"]))
                slots[str(g)][si] = [key]
            for g, si in free[:uses]:
                slots[str(g)][si] = [key]
        # the output: a node nobody else needs, preferably
        spec["out"] = hidden[-1]["gid"] if hidden[-1]["kind"] == "term" else terms[-1]
    return spec


def _count(spec):
    return sum(1 if nd["kind"] == "term" else 1 + _count(nd["inner"]) + 2 for nd in spec["nodes"])


def gen_case(rng, tier, force_kind=None, nested=None):
    nested = (rng.random() < 0.4) if nested is None else nested
    term_ids = list(range(30))
    nxt = [30]

    def alloc():
        nxt[0] += 1
        return nxt[0] - 1

    max_leaf = 5 if tier == "quick" else 7
    top = _gen_level(rng, term_ids, alloc, rng.randint(2, max_leaf if not nested else 4), 2 if nested else 0, False)
    case = {"top": top}
    # compact the id space: renumber gids 0..N-1 keeping term ids below macro/ui ids
    used_terms = sorted(g for g in range(30) if g not in term_ids)
    remap = {g: k for k, g in enumerate(used_terms)}
    extra = sorted(set(range(30, nxt[0])))
    for k, g in enumerate(extra):
        remap[g] = len(used_terms) + k

    def ren(spec):
        spec["nodes"] = [{**nd, "gid": remap[nd["gid"]]} for nd in spec["nodes"]]
        for nd in spec["nodes"]:
            if nd["kind"] == "macro":
                ren(nd["inner"])
        spec["slots"] = {str(remap[int(g)]): [[(s if s in ("A", "B") else remap[s]) for s in srcs] for srcs in sl]
                         for g, sl in spec["slots"].items()}
        if "ui" in spec:
            spec["ui"] = {k: remap[v] for k, v in spec["ui"].items()}
        if "out" in spec:
            spec["out"] = remap[spec["out"]]

    ren(top)
    case["N"] = len(remap)
    leaves = leaves_of(case)
    top_leaves = [nd["gid"] for nd in top["nodes"] if nd["kind"] == "term"]
    top_macros = [nd["gid"] for nd in top["nodes"] if nd["kind"] == "macro"]
    kind = force_kind or ("recovery" if rng.random() < 0.55 else "checkpoint")
    case["kind"] = kind
    case["mode"] = rng.choice(["ctl", "ctl", "ctl-cloudpickle"])
    is_nested = bool(top_macros)
    inner_leaves = [g for g in leaves if g not in top_leaves]
    if kind == "recovery":
        k = 1 if rng.random() < 0.8 else 2
        case["fails"] = sorted(rng.sample(leaves, min(k, len(leaves))))
        case["exec"] = sorted([g for g in top_leaves if rng.random() < 0.35] + [g for g in inner_leaves if rng.random() < 0.3])
    else:
        case["fails"] = []
        behind = [nd["gid"] for nd in top["nodes"] if any(top["slots"][str(nd["gid"])])]
        case["ckpt"] = rng.choice(behind) if behind and rng.random() < 0.5 else rng.choice(leaves + top_macros)
        # in-flight children at a checkpoint: flat graphs only (nested levels are run one after the other by the model)
        # children in flight at the checkpoint, at any depth
        case["exec"] = sorted([g for g in top_leaves if g != case["ckpt"] and rng.random() < (0.35 if is_nested else 0.55)]
                              + [g for g in inner_leaves if g != case["ckpt"] and rng.random() < 0.4])
    case["exec2"] = list(case["exec"]) if rng.random() < 0.7 else []
    # what a failing function raises: an ordinary exception (two classes) or an interrupt
    def pick_kind():
        x = rng.random()
        return "exc" if x < 0.5 else ("value" if x < 0.7 else "kbd")

    case["kinds"] = {str(g): pick_kind() for g in case["fails"]}
    # a leaf whose output only cloudpickle can serialise: the suffix of the file changes once it has run
    case["cp"] = [rng.choice(leaves)] if rng.random() < 0.3 else []
    # several checkpointing nodes in one run (flat graphs): the cut is the save of `ckpt`, others saved before
    case["ckpt_more"] = []
    if kind == "checkpoint" and not is_nested and rng.random() < 0.45:
        others = [g for g in top_leaves if g != case["ckpt"]]
        case["ckpt_more"] = sorted(rng.sample(others, min(len(others), rng.randint(1, 2))))
    # the resumed run fails again (flat graphs): second recovery file, second resume
    case["fails2"], case["kinds2"] = [], {}
    if kind == "recovery" and not is_nested and rng.random() < 0.5:
        rest = [g for g in leaves if g not in case["fails"]]
        if rest:
            case["fails2"] = [rng.choice(rest)]
            case["kinds2"] = {str(case["fails2"][0]): pick_kind()}
    case["dirty"] = []
    if not case["fails2"] and rng.random() < 0.35:
        lvs = levels_of(case)
        vl = {(g, si) for lv in lvs for (g, si, _k) in lv["vlink"]}
        cand = []
        for lv in lvs:
            for nd in lv["spec"]["nodes"]:
                if nd["kind"] == "term" and any(
                        not srcs and (nd["gid"], si) not in vl for si, srcs in enumerate(lv["spec"]["slots"][str(nd["gid"])])):
                    cand.append(nd["gid"])
        if cand:
            case["dirty"] = [rng.choice(cand)]
    if case["dirty"] and is_nested:
        # the model treats a macro as a function of ALL its inputs; with new input values that is only exact when
        # every connected macro input really reaches the macro's output
        ref = reference(case)
        if not all(a in ref[k[1]] for k, args in ref.items() if isinstance(k, tuple) for a in args):
            case["dirty"] = []
    # the user assigned some value-linked inputs DIRECTLY on the child (leaf or nested macro, any depth) before the
    # first run: macro input and child input differ at the cut
    case["preset"] = []
    if is_nested and rng.random() < 0.5:
        cand = [[g, si] for lv in levels_of(case) for (g, si, _k) in lv["vlink"]
                if lv["spec"]["slots"][str(g)][si] in (["A"], ["B"])]
        live = [c for c in cand if tuple(c) in preset_live({**case, "preset": cand})]
        pool = live if live and rng.random() < 0.8 else cand
        if pool:
            case["preset"] = sorted(rng.sample(pool, min(len(pool), rng.randint(1, 2))))
    case["force_starters"] = []
    roots = [g for g in top_leaves if not any(top["slots"][str(g)])]
    if kind == "recovery" and not is_nested and len(roots) >= 2 and rng.random() < 0.4:
        # a starting node on the executor is still out when a LATER starting node fails locally
        order = list(roots)
        rng.shuffle(order)
        case["force_starters"] = order
        case["exec"] = sorted(set(case["exec"]) | {order[0]})
        case["exec2"] = list(case["exec"]) if case["exec2"] else []
        case["fails"] = [order[-1]]
        case["exec"] = [g for g in case["exec"] if g != order[-1]]
        case["exec2"] = [g for g in case["exec2"] if g != order[-1]]
        case["kinds"] = {str(order[-1]): rng.choice(["exc", "value"])}
        if order[-1] in case["fails2"]:
            case["fails2"], case["kinds2"] = [], {}
    # the caller suppresses the exception of the failing run: no file, the graph itself is resumed
    case["suppress"] = kind == "recovery" and rng.random() < 0.2
    n = len(leaves)
    lazy = rng.random() < 0.5 or bool(case["force_starters"])  # executor jobs complete as late as possible: more in flight at a checkpoint
    case["choices"] = [0 if lazy and rng.random() < 0.85 else rng.randint(0, 3) for _ in range(4 * n)]
    case["choices2"] = [rng.randint(0, 3) for _ in range(4 * n)]
    case["choices3"] = [rng.randint(0, 3) for _ in range(4 * n)]
    # the data alphabet: some leaves return array-like data (two different objects have no yes/no `==`), flowing along
    # the edges like any other term (own random stream: the other dimensions of the case are left as they were)
    r2 = random.Random(31 * sum(case["choices2"]) + case["N"])
    case["arr"] = sorted(g for g in leaves if g not in case["cp"] and r2.random() < 0.3) if r2.random() < 0.5 else []
    return case


def gen_flow_case(rng, tier):
    """a hand-wired flow: a forest, every node triggered by (and taking data from) exactly one other node"""
    n = rng.randint(3, 6 if tier == "quick" else 8)
    order = list(range(n))
    rng.shuffle(order)
    slots = {}
    for k, g in enumerate(order):
        sl = [[], [], []]
        if k > 0 and rng.random() < 0.8:
            p = rng.choice(order[:k])
            for si in rng.sample(range(3), rng.randint(1, 2)):
                sl[si] = [p]
        slots[str(g)] = sl
    nodes_ = [{"gid": g, "kind": "term"} for g in range(n)]
    rng.shuffle(nodes_)
    roots = [g for g in range(n) if not any(slots[str(g)])]
    rng.shuffle(roots)
    leaves = list(range(n))
    case = {"top": {"nodes": nodes_, "slots": slots}, "N": n, "kind": "recovery", "flow": True,
            "mode": rng.choice(["ctl", "ctl-cloudpickle"]), "force_starters": roots,
            "fails": [rng.choice(leaves)], "exec": sorted(g for g in leaves if rng.random() < 0.3),
            "cp": [rng.choice(leaves)] if rng.random() < 0.2 else [], "ckpt_more": [], "dirty": [],
            "fails2": [], "kinds2": {}, "suppress": rng.random() < 0.15}
    case["exec"] = [g for g in case["exec"] if True]
    case["exec2"] = list(case["exec"]) if rng.random() < 0.7 else []
    x = rng.random()
    case["kinds"] = {str(case["fails"][0]): "exc" if x < 0.5 else ("value" if x < 0.7 else "kbd")}
    if rng.random() < 0.4:
        rest = [g for g in leaves if g != case["fails"][0]]
        case["fails2"] = [rng.choice(rest)]
        case["kinds2"] = {str(case["fails2"][0]): rng.choice(["exc", "kbd"])}
    case["choices"] = [rng.randint(0, 3) for _ in range(4 * n)]
    case["choices2"] = [rng.randint(0, 3) for _ in range(4 * n)]
    case["choices3"] = [rng.randint(0, 3) for _ in range(4 * n)]
    return case


def gen_continue_case(rng, tier):
    """a flat graph with several children on executors that write their results to disk; the checkpoint is written by
    a node behind a root, late completions, so that jobs are out (and signals queued) at the save"""
    base = gen_case(rng, tier, force_kind="checkpoint", nested=False)
    top = base["top"]
    leaves = [nd["gid"] for nd in top["nodes"]]
    behind = [g for g in leaves if any(top["slots"][str(g)])]
    ckpt = rng.choice(behind) if behind else rng.choice(leaves)
    ex = sorted(g for g in leaves if g != ckpt and rng.random() < 0.6)
    return {"top": top, "N": base["N"], "kind": "continue", "ckpt": ckpt, "exec": ex, "mode": "ctl",
            "choices": [0 if rng.random() < 0.9 else rng.randint(0, 3) for _ in range(4 * len(leaves))]}


def gen_idle_case(rng, tier):
    """a random tree and a short history of failures outside / inside runs of the outermost graph"""
    base = gen_case(rng, tier, force_kind="recovery", nested=rng.random() < 0.7)
    case = {**base, "kind": "idle", "fails": [], "kinds": {}, "exec": [], "exec2": [], "dirty": [], "cp": [],
            "fails2": [], "kinds2": {}, "force_starters": [], "suppress": False, "flow": False, "ckpt": None, "preset": [],
            "ckpt_more": [], "choices": [], "choices2": [], "choices3": []}
    par = _owners(case)
    leaves = leaves_of(case)
    nodes_ = sorted(g for lv in levels_of(case) for g in lv["own"] if g not in lv["ui"])

    def inside(t):
        return [k for k in leaves if k == t or t in _ancestors(par, k)]

    events, ran, root_done = [], False, False
    for _ in range(rng.randint(1, 3)):
        how = rng.choices(["run", "pull", "inject", "root", "clean"], [35, 35, 12, 12, 6])[0]
        exc = rng.choices(["exc", "value", "kbd"], [6, 3, 1])[0]
        if how == "root" and root_done:
            how = "run"
        if how == "clean":
            events.append({"how": "clean"})
            ran = True
        elif how == "root":
            events.append({"how": "root", "fail": rng.choice(leaves), "exc": exc})
            root_done = True
        elif how == "inject":
            if not ran:
                events.append({"how": "clean"})
                ran = True
            events.append({"how": "inject", "target": rng.choice(leaves), "fail": None})
        else:
            t = rng.choice(nodes_)
            ups = _upstream(case, t) if how == "pull" else []
            src = rng.choice(ups) if ups and rng.random() < 0.5 else t
            events.append({"how": how, "target": t, "fail": rng.choice(inside(src)), "exc": exc})
    norec = []
    if rng.random() < 0.15:
        norec = [rng.choice([case["N"], *nodes_])]
    return {**case, "events": events, "norec": norec}


def gen_cases(rng, tier):
    for _ in range(40 if tier == "quick" else 600):
        yield gen_idle_case(rng, tier)
    for depth in (0, 1, 2):
        yield {"kind": "idle", "loop": depth, "norec": False}
    yield {"kind": "idle", "loop": 1, "norec": True}
    for _ in range(30 if tier == "quick" else 500):
        yield gen_flow_case(rng, tier)
    for _ in range(20 if tier == "quick" else 300):
        yield gen_continue_case(rng, tier)
    n_cases = 230 if tier == "quick" else 5000
    for _ in range(n_cases):
        yield gen_case(rng, tier)
    # the same, with the file loaded and resumed in a fresh interpreter that has seen nothing of the first run
    for _ in range(6 if tier == "quick" else 60):
        yield {**gen_case(rng, tier), "fresh": True, "suppress": False}
    if tier == "thorough":
        # small scope, every cut: every leaf as the failing node / as the checkpointing node
        for _ in range(60):
            base = gen_case(rng, "quick", nested=rng.random() < 0.5)
            for g in leaves_of(base):
                yield {**base, "kind": "recovery", "fails": [g], "ckpt": None, "dirty": [], "fails2": [], "kinds2": {},
                       "kinds": {str(g): rng.choice(["exc", "kbd"])}, "ckpt_more": []}
                yield {**base, "kind": "checkpoint", "fails": [], "ckpt": g, "dirty": [], "fails2": [], "kinds2": {},
                       "kinds": {}, "ckpt_more": [],
                       "exec": [] if len(levels_of(base)) > 1 else base["exec"]}
    yield {"kind": "malformed", "lines": ["n x", "level", "slot 0 a", "cut somewhere", "endlevel", "run 1", "cfg 1 1 1 1 1 1"]}


def _flat(n, slots, **kw):
    return {"top": {"nodes": [{"gid": i, "kind": "term"} for i in range(n)],
                    "slots": {str(i): slots[i] for i in range(n)}}, "N": n, "fails": [], "exec": [], "exec2": [],
            "dirty": [], "mode": "ctl", "choices": [], "choices2": [], **kw}


def corpus():
    # C08_inflight_cache_witness: checkpoint written by 1 while 0 is in flight on its executor (1 sits behind the
    # root 3, so 0 has been submitted whatever the order of the starting nodes)
    yield _flat(4, [[[], [], []], [[3], [], []], [[1], [0], []], [[], [], []]], kind="checkpoint", ckpt=1, exec=[0],
                exec2=[])
    # C08_stale_trigger_witness: 0 raises, 1 (executor) completes; fix = new input for 1; 2 must wait for the re-run 1
    yield _flat(3, [[[], [], []], [[], [], []], [[0], [1], []]], kind="recovery", fails=[0], exec=[1], exec2=[1],
                dirty=[1], choices=[0, 0, 0, 0], choices2=[0, 0, 0, 0])
    # C08_original_stale_cache_witness: 0 -> 1, 0 raises
    yield _flat(2, [[[], [], []], [[0], [], []]], kind="recovery", fails=[0])
    # the non-vacuity example of Props/C08.lean: diamond + side branch, 1 on an executor, 2 raises
    yield _flat(5, [[[], [], []], [[0], [], []], [[0], [], []], [[1, 2], [1], []], [[0], [], []]], kind="recovery",
                fails=[2], exec=[1], exec2=[1], choices=[0, 0, 0, 0, 0, 0], choices2=[])
    # the graph becomes cloudpickle-only between two failures: 0 -> 1 (closure output) -> 2 -> 3; 1 raises, resume, 3 raises
    chain = [[[], [], []], [[0], [], []], [[1], [], []], [[2], [], []]]
    yield _flat(4, chain, kind="recovery", fails=[1], cp=[1], fails2=[3], kinds={"1": "exc"}, kinds2={"3": "value"})
    # three checkpointing nodes around a closure-producing node: the file of the last save is what loads
    yield _flat(4, chain, kind="checkpoint", ckpt=3, ckpt_more=[0, 2], cp=[1])
    # an interrupt instead of an exception: locally, on an executor, inside a macro
    yield _flat(3, [[[], [], []], [[0], [], []], [[1], [], []]], kind="recovery", fails=[1], kinds={"1": "kbd"})
    yield _flat(3, [[[], [], []], [[0], [], []], [[1], [], []]], kind="recovery", fails=[1], kinds={"1": "kbd"}, exec=[1],
                exec2=[1])
    # the Lean example of Props/C08 (nestedExample): checkpoint written by b inside macro m while a is in flight inside m
    yield {"top": {"nodes": [{"gid": 0, "kind": "term"}, {"gid": 6, "kind": "macro", "inner": {
        "nodes": [{"gid": 1, "kind": "term"}, {"gid": 2, "kind": "term"}, {"gid": 3, "kind": "term"}],
        "slots": {"1": [["A"], [], []], "2": [["B"], [], []], "3": [[2], [1], []]}, "ui": {"A": 4, "B": 5}, "out": 3}},
        {"gid": 7, "kind": "term"}],
        "slots": {"0": [[], [], []], "6": [[0], [0]], "7": [[6], [], []]}}, "N": 8, "kind": "checkpoint", "ckpt": 2,
        "exec": [1], "exec2": [1], "fails": [], "dirty": [], "mode": "ctl", "choices": [], "choices2": []}
    # restart with the running flags kept: one job out + a signal queued (C08_continue_queue_lost_witness); two jobs out
    yield _flat(4, [[[], [], []], [[3], [], []], [[1], [0], []], [[], [], []]], kind="continue", ckpt=1, exec=[0],
                choices=[0] * 20)
    yield _flat(5, [[[], [], []], [[], [], []], [[1], [0], [3]], [[4], [], []], [[], [], []]], kind="continue", ckpt=3,
                exec=[0, 1], choices=[0] * 20)
    # a hand-wired flow 0 >> 1 >> 2, 0 >> 3: 1 raises
    yield _flat(4, [[[], [], []], [[0], [], []], [[1], [], []], [[0], [], []]], kind="recovery", fails=[1], flow=True,
                force_starters=[0])
    # a failing run whose exception the caller suppresses: no file; the graph itself is resumed
    yield _flat(3, [[[], [], []], [[0], [], []], [[1], [], []]], kind="recovery", fails=[1], suppress=True)
    # a starting node on the executor is still out when a later starting node fails locally
    yield _flat(3, [[[], [], []], [[], [], []], [[0], [], []]], kind="recovery", fails=[1], kinds={"1": "exc"}, exec=[0],
                exec2=[0], force_starters=[0, 1])
    # failure two macros deep; a sibling leaf completes, the outer macro's other child completes
    inner2 = {"nodes": [{"gid": 5, "kind": "term"}, {"gid": 6, "kind": "term"}],
              "slots": {"5": [["A"], ["B"], []], "6": [[5], ["B"], []]}, "ui": {"A": 12, "B": 13}, "out": 6}
    inner1 = {"nodes": [{"gid": 3, "kind": "term"}, {"gid": 8, "kind": "macro", "inner": inner2}, {"gid": 4, "kind": "term"}],
              "slots": {"3": [["A"], [], []], "8": [[3], ["B"]], "4": [[8], [3], ["A"]]}, "ui": {"A": 10, "B": 11}, "out": 4}
    top = {"nodes": [{"gid": 0, "kind": "term"}, {"gid": 1, "kind": "term"}, {"gid": 7, "kind": "macro", "inner": inner1},
                     {"gid": 2, "kind": "term"}],
           "slots": {"0": [[], [], []], "1": [[0], [], []], "7": [[0], [1]], "2": [[7], [1], []]}}
    base = {"top": top, "N": 14, "exec": [], "exec2": [], "dirty": [], "mode": "ctl", "choices": [], "choices2": []}
    yield {**base, "kind": "recovery", "fails": [6]}
    yield {**base, "kind": "recovery", "fails": [6], "kinds": {"6": "kbd"}}
    yield {**base, "kind": "checkpoint", "fails": [], "ckpt": 5}
    yield {**base, "kind": "recovery", "fails": [2], "dirty": [5]}
    # value-linked inputs assigned directly on the child (Props/C08: C08_restore_links_writes_nothing,
    # C08_restore_links_setter_witness): the arguments of macro 7 stay at their defaults, its argument A is linked to
    # argument A of the nested macro 8, that one to input a of leaf 5; the user sets 5.a (resp. 8.a, cascading onto
    # 5.a) directly; macro 7 completes, a later node fails
    l_in2 = {"nodes": [{"gid": 5, "kind": "term"}, {"gid": 6, "kind": "term"}],
             "slots": {"5": [["A"], [], []], "6": [[5], ["B"], []]}, "ui": {"A": 12, "B": 13}, "out": 6}
    l_in1 = {"nodes": [{"gid": 3, "kind": "term"}, {"gid": 8, "kind": "macro", "inner": l_in2}, {"gid": 4, "kind": "term"}],
             "slots": {"3": [["B"], [], []], "8": [["A"], [3]], "4": [[8], [], []]}, "ui": {"A": 10, "B": 11}, "out": 4}
    l_top = {"nodes": [{"gid": 0, "kind": "term"}, {"gid": 7, "kind": "macro", "inner": l_in1}, {"gid": 1, "kind": "term"},
                       {"gid": 2, "kind": "term"}],
             "slots": {"0": [[], [], []], "7": [[], [0]], "1": [[7], [], []], "2": [[1], [0], []]}}
    linked = {"top": l_top, "N": 14, "exec": [], "exec2": [], "dirty": [], "mode": "ctl", "choices": [], "choices2": [],
              "kind": "recovery", "fails": [2]}
    yield {**linked, "preset": [[5, 0]]}
    # array-like data on the edges into completed nodes, two macros down and at the top (C08_record_identity_hit /
    # C08_record_copy_witness): 5 -> 6 and 3 -> 8 carry it, 0 -> 7, 0 -> 2 as well; a later node fails
    yield {**linked, "preset": [], "arr": [0, 3, 5]}
    yield {**linked, "preset": [], "arr": [0, 3, 5, 6, 4], "fails": [1]}
    yield {**linked, "preset": [[8, 0]]}
    yield {**linked, "preset": [[5, 0], [3, 0]], "fails": [1]}  # 3.a sits under a connected argument: overwritten by the run
    yield {**linked, "preset": [[5, 0]], "kind": "checkpoint", "fails": [], "ckpt": 1}
    # failures with an idle parent (Props/C08: C08_idle_parent_no_file, C08_parent_idle_variant_witness): a child two
    # macros deep run by hand; a macro run by hand whose child raises; a pull whose upstream macro fails (the macro's
    # own parent idle / the outermost graph itself driving the upstream run); a node injected by an operator on an
    # output, raising as it is created; all of it after a failed run of the outermost graph has left ITS file
    idle = {**base, "kind": "idle", "fails": [], "norec": []}
    yield {**idle, "events": [{"how": "run", "target": 6, "fail": 6}]}
    yield {**idle, "events": [{"how": "run", "target": 8, "fail": 6}, {"how": "run", "target": 7, "fail": 6, "exc": "kbd"}]}
    yield {**idle, "events": [{"how": "pull", "target": 4, "fail": 6}, {"how": "pull", "target": 6, "fail": 6}]}
    yield {**idle, "events": [{"how": "pull", "target": 2, "fail": 1}, {"how": "run", "target": 1, "fail": 1}]}
    yield {**idle, "events": [{"how": "clean"}, {"how": "inject", "target": 6, "fail": None},
                              {"how": "inject", "target": 1, "fail": None}]}
    yield {**idle, "events": [{"how": "root", "fail": 5}, {"how": "run", "target": 5, "fail": 5},
                              {"how": "pull", "target": 4, "fail": 6}]}
    yield {**idle, "events": [{"how": "root", "fail": 5}], "norec": [14]}
    # the child of a flat workflow is pulled and its own function raises (seeded/C08-9/demo.py, b)
    yield _flat(3, [[[], [], []], [[0], [], []], [[1], [], []]], kind="idle", norec=[],
                events=[{"how": "pull", "target": 1, "fail": 1}])
    # a pull THROUGH the outermost graph fails upstream: the file the graph writes must be the graph as it was made
    yield _flat(4, [[[], [], []], [[0], [], []], [[1], [], []], [[0], [], []]], kind="idle", norec=[],
                events=[{"how": "pull", "target": 2, "fail": 1}])
    # a loop, in a macro / two macros deep / directly in the workflow, is handed a set with type checking off: the
    # nodes picking the items out fail while the loop assembles its body, inside a run of the outermost graph
    for depth in (1, 2, 0):
        yield {"kind": "idle", "loop": depth, "norec": False}


def shrink_candidates(case):
    if case.get("kind") == "malformed":
        return
    if case.get("kind") == "idle":
        if case.get("loop") is not None:
            return
        evs = case["events"]
        for j in range(len(evs)):
            rest = evs[:j] + evs[j + 1:]
            if rest and not (evs[j]["how"] == "clean" and any(e["how"] == "inject" for e in rest[j:])):
                yield {**case, "events": rest}
        if case.get("norec"):
            yield {**case, "norec": []}
        return
    if case.get("kind") == "continue":
        for g in case["exec"]:
            yield {**case, "exec": [e for e in case["exec"] if e != g]}
        return
    if case.get("dirty"):
        yield {**case, "dirty": []}
    if case.get("fails2"):
        yield {**case, "fails2": [], "kinds2": {}}
    if case.get("force_starters"):
        yield {**case, "force_starters": []}
    if case.get("suppress"):
        yield {**case, "suppress": False}
    if case.get("flow"):
        return  # the wiring of a flow is the case: no structural shrinking
    if case.get("ckpt_more"):
        yield {**case, "ckpt_more": []}
    if case.get("cp"):
        yield {**case, "cp": []}
    for x in case.get("preset", []):
        yield {**case, "preset": [y for y in case["preset"] if y != x]}
    if case.get("arr"):
        yield {**case, "arr": []}
        for x in case["arr"]:
            yield {**case, "arr": [y for y in case["arr"] if y != x]}
    if any(v != "exc" for v in (case.get("kinds") or {}).values()):
        yield {**case, "kinds": {k: "exc" for k in case["kinds"]}}
    for g in case.get("exec", []):
        yield {**case, "exec": [e for e in case["exec"] if e != g], "exec2": [e for e in case.get("exec2", []) if e != g]}
    if case.get("exec2"):
        yield {**case, "exec2": []}
    if len(case.get("fails", [])) > 1:
        for f in case["fails"]:
            yield {**case, "fails": [x for x in case["fails"] if x != f]}
    if case.get("choices") or case.get("choices2"):
        yield {**case, "choices": [], "choices2": []}
    # drop a top-level leaf nobody depends on (keep ids: term functions are per id)
    top = case["top"]
    used = {s for sl in top["slots"].values() for srcs in sl for s in srcs}
    special = set(case.get("fails", [])) | {case.get("ckpt")} | set(case.get("dirty", []))
    for nd in top["nodes"]:
        g = nd["gid"]
        if nd["kind"] == "term" and g not in used and g not in special and len(top["nodes"]) > 2 and g == case["N"] - 1:
            new_top = {**top, "nodes": [x for x in top["nodes"] if x["gid"] != g],
                       "slots": {k: v for k, v in top["slots"].items() if int(k) != g}}
            yield {**case, "top": new_top, "N": case["N"] - 1,
                   "exec": [e for e in case.get("exec", []) if e != g],
                   "exec2": [e for e in case.get("exec2", []) if e != g]}
    # remove single connections at the top level
    for k, sl in top["slots"].items():
        for si, srcs in enumerate(sl):
            for s in srcs:
                new = [list(u) for u in sl]
                new[si] = [x for x in srcs if x != s]
                yield {**case, "top": {**top, "slots": {**top["slots"], k: new}}}
