"""C14 — graph edits are all-or-nothing and a replacement inherits the old node's place."""

from __future__ import annotations

import copy as _copy

PROP = "C14"
PROP_FILE = "PwVerif/Props/C14.lean"
DRIVER = "Driver/C14.lean"
THEOREMS = [
    "C14_replace_atomic",
    "C14_wf_replace_atomic",
    "C14_wf_io_survives",
    "C14_dry_run_exact",
    "C14_dry_run_is_noclash",
    "C14_refused_assignment_untouched",
    "C14_copy_panel_forward_then_store",
    "C14_setter_order_witness",
    "C14_head_replace_atomic",
    "C14_head_inherits",
    "C14_preserves_C12_C13",
    "C14_replace_by_label_atomic",
    "C14_caches_dropped",
    "C14_copy_io_atomic",
    "C14_copy_io_hard_structure",
    "C14_copy_io_hard_atomic",
    "C14_copy_chan_atomic",
    "C14_dag_atomic",
    "C14_inherits",
    "C14_crossing_inherited",
    "C14_copy_io_atomic_partial",
    "C14_replace_atomic_partial",
    "C14_dag_atomic_partial",
    "C14_inherits_partial",
    "C14_inherits_order_witness",
    "C14_replace_link_witness",
    "C14_replace_value_push_witness",
    "C14_replace_missing_link_witness",
    "C14_wf_revert_witness",
    "C14_replace_adopt_witness",
    "C14_copy_io_undo_witness",
    "C14_copy_chan_undo_witness",
    "C14_copy_io_values_witness",
    "C14_dag_order_witness",
]
RULE = (
    "seeded structured generator: workflows and macros (optionally nested in a workflow) with 3-5 children, "
    "multi-connection data inputs/outputs, DAG-wired or hand-wired signals, values, renaming maps; every child x every "
    "candidate replacement class (compatible / other function / fewer or more channels / wrongly hinted towards a "
    "neighbour or the macro IO / Workflow / the composite itself / its ancestor / already owned / already connected), "
    "copy_io hard/soft between nodes with prior connections, flow derivation on acyclic and cyclic data graphs, injected "
    "refusals of single signal connections; non-trivial = an edit changed the structure or was refused after its first step"
)
TRUSTED = [
    "model Edit.lean transcribes replace_child / copy_io / set_run_signals_to_dag_execution step by step (validated in "
    "lock-step on the explored cases only); ownership steps of the replace path are the specialised form of C13's protocol",
    "hint verdicts (connection validity, value admission, value-link compatibility) are parameters of the model; the "
    "harness computes them with plain issubclass/isinstance from the channels' hints, independent of the library",
    "set iteration orders (upstream owners, toposort layer 0) are observed on the implementation and fed to the model",
]
ASSUMPTIONS = [
    "channel / node identity = Python object identity",
    "a workflow owns no value links; candidate Workflow replacements are empty",
    "signal connections never fail naturally; their failures are injected through Channel._valid_connection",
]

KINDS = (("inputs", "di"), ("outputs", "do"), ("sin", "si"), ("sout", "so"))
UNKNOWN = 99999

# ----------------------------------------------------------------------------- fault injection

FORBID: set = set()
_PATCHED = False


def _install_patch():
    global _PATCHED
    if _PATCHED:
        return
    import pyiron_workflow.channels as ch

    for cls in (ch.Channel, ch.DataChannel):
        orig = cls.__dict__["_valid_connection"]

        def patched(self, other, _orig=orig):
            if (id(self), id(other)) in FORBID or (id(other), id(self)) in FORBID:
                return False
            return _orig(self, other)

        cls._valid_connection = patched
    _PATCHED = True


# ----------------------------------------------------------------------------- which repairs are in the tree


def detect_cfg():
    """
    The variant of the model the real tree is compared with.  All seven repairs are in /repo (a9e5065, 803bad0,
    02da358, 35d69a0, bba6c5f, 07c1304, 3067900), so the model is `Cfg.repaired`, whatever the source looks like:
    recognising repairs by tokens of the source (as was done while they were being applied one by one) made
    behaviour-preserving refactorings of `replace_child` / the copy helpers look like reverted repairs.
    `C14_CFG=1010111` overrides (for replaying the history of the findings).
    """
    import os

    o = os.environ.get("C14_CFG", "")
    if len(o) == 7 and set(o) <= {"0", "1"}:
        return [ch == "1" for ch in o]
    return [True] * 7


# ----------------------------------------------------------------------------- world


class World:
    pass


def _panels(n):
    from pyiron_workflow.workflow import Workflow

    if isinstance(n, Workflow):
        return (("sin", n.signals.input), ("sout", n.signals.output))
    return (("inputs", n.inputs), ("outputs", n.outputs), ("sin", n.signals.input), ("sout", n.signals.output))


def _build(case):
    from pyiron_workflow import Workflow

    from . import nodes_c14 as N

    w = World()
    names, order = {}, []
    top = case["top"]
    if top == "wf":
        wf = Workflow("w", autoload=None)
        names["@wf"] = wf
        order.append("@wf")
        comp = wf
        for label, cls in case["children"]:
            n = N.CLASSES[cls](label=label)
            wf.add_child(n)
        kids = dict(wf.children)
        for child, inp, value in case.get("vals", []):
            if child in kids and inp in kids[child].inputs.labels:
                kids[child].inputs[inp]._value = value
        for src, out, dst, inp in case.get("data", []):
            try:
                kids[dst].inputs[inp].connect(kids[src].outputs[out])
            except Exception:  # noqa: BLE001
                pass
        maps = case.get("maps") or {}
        try:
            if maps.get("in"):
                wf.inputs_map = {k: v for k, v in maps["in"]}
            if maps.get("out"):
                wf.outputs_map = {k: v for k, v in maps["out"]}
        except Exception:  # noqa: BLE001
            pass
        if case.get("prewire"):
            try:
                wf.set_run_signals_to_dag_execution()
            except Exception:  # noqa: BLE001
                pass
        for src, dst, which in case.get("sig", []):
            try:
                kids[dst].signals.input[which].connect(kids[src].signals.output.ran)
            except Exception:  # noqa: BLE001
                pass
        if case.get("starting") is not None:
            wf.starting_nodes = [kids[s] for s in case["starting"] if s in kids]
    else:
        N.SPEC = {
            "children": [tuple(c) for c in case["children"]],
            "data": [tuple(d) for d in case.get("data", [])],
            "uses": {k: [tuple(u) for u in v] for k, v in (case.get("uses") or {}).items()},
            "returns": [tuple(r) for r in case["returns"]],
            "vals": [tuple(v) for v in case.get("vals", [])],
        }
        m = N.MACROS[case["mac"]](label="m")
        if top == "macro_in_wf":
            wf = Workflow("w", autoload=None)
            wf.add_child(m)
            names["@wf"] = wf
            order.append("@wf")
        names["@m"] = m
        order.append("@m")
        comp = m
    for label, node in comp.children.items():
        names[label] = node
        order.append(label)
    for name, cls in case.get("cands", []):
        if name in names:
            continue
        names[name] = Workflow(name, autoload=None) if cls == "Workflow" else N.CLASSES[cls](label=name)
        order.append(name)
    # class-as-replacement: a template instance stands for the node the library will make itself
    w.class_cands = {}
    w.used_classes = set()
    for name, cls in case.get("class_cands", []):
        if name in names:
            continue
        names[name] = N.CLASSES[cls](label=name)
        w.class_cands[name] = N.CLASSES[cls]
        order.append(name)
    for name, inp in case.get("nonstrict", []):
        try:
            names[name].inputs[inp].strict_hints = False
        except Exception:  # noqa: BLE001
            pass
    # nodes below the ones named so far (children of macro children / macro candidates): depth 2
    known = {id(n) for n in names.values()}
    k = 0
    while k < len(order):  # the list grows: nodes below nested macros are reached too
        name = order[k]
        k += 1
        n = names[name]
        if _is_comp(n):
            for label, ch in n.children.items():
                if id(ch) not in known:
                    known.add(id(ch))
                    names[f"{name}/{label}"] = ch
                    order.append(f"{name}/{label}")
    for src, out, dst, inp in case.get("xdata", []):
        try:
            names[dst].inputs[inp].connect(names[src].outputs[out])
        except Exception:  # noqa: BLE001
            pass
    for name in case.get("executors", []):
        if name in names:
            names[name].executor = ("pwh_never_used", (), {})
    w.names, w.order, w.comp = names, order, comp
    w.nodes = [names[k] for k in order]
    w.nid = {id(n): i for i, n in enumerate(w.nodes)}
    w.chans = []  # (cid, nid, panel, label, obj)
    for i, n in enumerate(w.nodes):
        for pname, panel in _panels(n):
            for label, ch in panel.items():
                w.chans.append((len(w.chans), i, pname, label, ch))
    w.cid = {id(ch): c for c, _n, _p, _l, ch in w.chans}
    w.values = {}
    return w


def _vid(w, v):
    from pyiron_workflow.channels import NOT_DATA

    if v is NOT_DATA:
        return None
    key = (type(v).__name__, repr(v))
    if key not in w.values:
        w.values[key] = (len(w.values), v)
    return w.values[key][0]


def _is_comp(n):
    from pyiron_workflow.nodes.composite import Composite

    return isinstance(n, Composite)


def _snapshot(w):
    s = {"label": [], "parent": [], "children": {}, "starting": {}, "conns": [], "val": [], "recv": [], "cached": []}
    for i, n in enumerate(w.nodes):
        s["label"].append(n.label)
        s["cached"].append(getattr(n, "_cached_inputs", None) is not None)
        p = n.parent
        s["parent"].append(None if p is None else w.nid.get(id(p), UNKNOWN))
        if _is_comp(n):
            s["children"][str(i)] = [[lab, w.nid.get(id(c), UNKNOWN)] for lab, c in n.children.items()]
            s["starting"][str(i)] = [w.nid.get(id(c), UNKNOWN) for c in n.starting_nodes]
    for _c, _n, pname, _l, ch in w.chans:
        s["conns"].append([w.cid.get(id(x), UNKNOWN) for x in ch.connections])
        if pname in ("inputs", "outputs"):
            s["val"].append(_vid(w, ch.value))
            r = ch.value_receiver
            s["recv"].append(None if r is None else w.cid.get(id(r), UNKNOWN))
        else:
            s["val"].append(None)
            s["recv"].append(None)
    return s


def _o(x):
    return "-" if x is None else str(x)


def _fmt(w, res, s):
    tree = " ".join(f"{i}:{s['label'][i]}:{_o(s['parent'][i])}" for i in range(len(w.nodes)))
    kids = " ".join(
        f"{p}:[" + ",".join(f"{lab}={c}" for lab, c in s["children"][p]) + "]"
        + "[" + ",".join(map(str, s["starting"][p])) + "]"
        for p in s["children"]
    )
    conn = " ".join(f"{c}:[{','.join(map(str, l))}]" for c, l in enumerate(s["conns"]))
    data = " ".join(
        f"{c}={_o(s['val'][c])}>{_o(s['recv'][c])}"
        for c, _n, pname, _l, _ch in w.chans
        if pname in ("inputs", "outputs")
    )
    cache = " ".join(str(i) for i, c in enumerate(s["cached"]) if c)
    return ["res " + res, "tree " + tree, "kids " + kids, "conn " + conn, "data " + data, "cache " + cache]


def _hint(ch):
    h = getattr(ch, "type_hint", None)
    return h if isinstance(h, type) else None


def _setup_lines(w, case):
    from pyiron_workflow.workflow import Workflow

    lines = ["cfg " + " ".join("1" if b else "0" for b in detect_cfg())]
    for i, n in enumerate(w.nodes):
        kind = "wf" if isinstance(n, Workflow) else ("macro" if _is_comp(n) else "leaf")
        lines.append(f"node {i} {kind} {n.label}")
    for c, i, pname, label, _ch in w.chans:
        lines.append(f"chan {c} {dict(KINDS)[pname]} {i} {label}")
    s = _snapshot(w)
    for p, kids in s["children"].items():
        for _lab, c in kids:
            lines.append(f"child {p} {c}")
        if s["starting"][p]:
            lines.append(f"start {p} " + " ".join(map(str, s["starting"][p])))
    lines += _sync_lines(w, s, only_nonempty=True)
    ins = [(c, ch) for c, _n, p, _l, ch in w.chans if p == "inputs"]
    outs = [(c, ch) for c, _n, p, _l, ch in w.chans if p == "outputs"]
    # connection validity: both hinted, input strict, output hint not a subclass of the input hint
    for a, ci in ins:
        hi = _hint(ci)
        if hi is None or not ci.strict_hints:
            continue
        for b, co in outs:
            ho = _hint(co)
            if ho is not None and not issubclass(ho, hi):
                lines.append(f"invalid {a} {b}")
    for a, b in w.forbid_ids:
        lines.append(f"invalid {a} {b}")
    # value links: same side, both hinted, receiver strict, sender hint not a subclass
    for group in (ins, outs):
        for a, sa in group:
            hs = _hint(sa)
            if hs is None:
                continue
            for b, rb in group:
                hr = _hint(rb)
                if a != b and hr is not None and rb.strict_hints and not issubclass(hs, hr):
                    lines.append(f"nolink {a} {b}")
    w.admit_rows = [(c, ch) for c, ch in ins + outs if _hint(ch) is not None and ch.strict_hints]
    for i, n in enumerate(w.nodes):
        if getattr(n, "running", False):
            lines.append(f"locked {i}")
    if isinstance(w.comp, Workflow) or "@wf" in w.names:
        wfn = w.names.get("@wf")
        p = w.nid[id(wfn)]
        for tag, m in (("imap", wfn.inputs_map), ("omap", wfn.outputs_map)):
            if m is not None:
                for k, v in m.items():
                    lines.append(f"{tag} {p} {k} {v if isinstance(v, str) else '!'}")
    return lines


def _admit_lines(w, done):
    """`noadmit` for every (typed strict channel, known value) pair not emitted yet"""
    out = []
    for c, ch in w.admit_rows:
        h = _hint(ch)
        for _key, (vid, v) in list(w.values.items()):
            if (c, vid) not in done:
                done.add((c, vid))
                if not isinstance(v, h):
                    out.append(f"noadmit {c} {vid}")
    return out


def _sync_lines(w, s, only_nonempty=False, last=None):
    """set-up / re-synchronisation lines; with `last` (the state the model is known to be in) only what differs"""
    lines = []
    if last is not None:
        # ownership (operations outside this model: pull, add_child, remove_child): labels first, then the children lists
        for i, lab in enumerate(s["label"]):
            if last["label"][i] != lab:
                lines.append(f"setlabel {i} {lab}")
        for i, par in enumerate(s["parent"]):
            if last["parent"][i] != par:
                lines.append(f"setparent {i} {_o(par)}")
        for p, kids in s["children"].items():
            if last["children"].get(p) != kids:
                lines.append(f"setkids {p} " + " ".join(str(c) for _l, c in kids))
    for i, c in enumerate(s["cached"]):
        if (last is not None and last["cached"][i] != c) or (last is None and (c or not only_nonempty)):
            lines.append(f"cached {i} {int(c)}")
    for c, l in enumerate(s["conns"]):
        if (last is not None and last["conns"][c] != l) or (last is None and (l or not only_nonempty)):
            lines.append(f"conns {c} " + " ".join(map(str, l)))
    for c, _n, pname, _l, _ch in w.chans:
        if pname in ("inputs", "outputs"):
            if (last is not None and last["val"][c] != s["val"][c]) or \
                    (last is None and (s["val"][c] is not None or not only_nonempty)):
                lines.append(f"val {c} {_o(s['val'][c])}")
            if s["recv"][c] is not None and (last is None or last["recv"][c] != s["recv"][c]):
                lines.append(f"recv {c} {s['recv'][c]}")
    return lines


def _chan_of(w, name, panel, label):
    n = w.names[name]
    io = {"inputs": n.inputs, "outputs": n.outputs, "sin": n.signals.input, "sout": n.signals.output}[panel]
    return io[label]


def run_impl(case):
    if case.get("malformed"):
        return {"obs": ["bad-op"] * len(case["lines"]), "model": list(case["lines"]), "snaps": [], "stats": {"malformed": 1}}
    _install_patch()
    FORBID.clear()
    try:
        w = _build(case)
    except Exception as e:  # noqa: BLE001
        # the library refuses to build this world (e.g. a macro returning one channel twice): not an edit
        return {"obs": [], "model": [], "snaps": [], "stats": {"setup-refused:" + type(e).__name__: 1}, "chans": [],
                "order": []}
    w.forbid_ids = []
    for a, b in case.get("forbid", []):
        try:
            ca, cb = _chan_of(w, *a), _chan_of(w, *b)
        except Exception:  # noqa: BLE001
            continue
        FORBID.add((id(ca), id(cb)))
        w.forbid_ids.append((w.cid[id(ca)], w.cid[id(cb)]))
    _snapshot(w)  # registers the initial values
    for op in case["ops"]:
        if op[0] == "setval":
            _vid(w, op[3])
    model = _setup_lines(w, case)
    known = {"s": _snapshot(w), "locked": [bool(getattr(n, "running", False)) for n in w.nodes]}
    admitted: set = set()
    model += _admit_lines(w, admitted)
    obs, snaps = [], []
    stats: dict = {}
    replaced: dict = {}

    def bump(k):
        stats[k] = stats.get(k, 0) + 1

    try:
        for op in case["ops"]:
            kind = op[0]
            if kind == "raw":
                obs.append("bad-op")
                model.append(op[1])
                continue
            try:
                args = [w.names[a] if isinstance(a, str) and a in w.names else a for a in op[1:]]
            except Exception:  # noqa: BLE001
                continue
            if kind == "copychan":
                # ["copychan", node, panel, label, node2, panel2, label2]
                try:
                    ca, cb = _chan_of(w, *op[1:4]), _chan_of(w, *op[4:7])
                except Exception:  # noqa: BLE001
                    continue
                before = _snapshot(w)
                res = "ok"
                try:
                    ca.copy_connections(cb)
                except Exception as e:  # noqa: BLE001
                    res = type(e).__name__
                after = _snapshot(w)
                model.append(f"copychan {w.cid[id(ca)]} {w.cid[id(cb)]}")
                known["s"] = after
                obs += _fmt(w, res, after)
                snaps.append({"op": op, "ids": [w.cid[id(ca)], w.cid[id(cb)]], "res": res, "before": before,
                              "after": after, "comp_kind": "-"})
                bump("op:copychan")
                bump(f"res:copychan:{res}")
                continue
            if kind in ("replacelabel", "replacecls"):
                # by label: ["replacelabel", comp, "label", new]; by class: ["replacecls", comp, old, class_cand]
                if op[1] not in w.names or op[3] not in w.names or (kind == "replacecls" and
                        (op[2] not in w.names or op[3] not in w.class_cands)):
                    continue
                comp, new = w.names[op[1]], w.names[op[3]]
                if kind == "replacecls" and (new.parent is not None or op[3] in w.used_classes):
                    continue  # the template stands for one instantiation only
                old = w.names[op[2]] if kind == "replacecls" else (comp.children.get(op[2]) if _is_comp(comp) else None)
                if kind == "replacecls":
                    new.label = old.label  # what `replacement(label=owned_node_instance.label)` will carry
                    model.append(f"setlabel {w.nid[id(new)]} {new.label}")
                before = _snapshot(w)
                model += _admit_lines(w, admitted)
                res = "ok"
                try:
                    if kind == "replacelabel":
                        comp.replace_child(op[2], new)
                    else:
                        w.used_classes.add(op[3])
                        _old, real = comp.replace_child(old, w.class_cands[op[3]])
                        _rebind(w, w.nid[id(new)], real, op[3])
                        new = real
                except Exception as e:  # noqa: BLE001
                    res = type(e).__name__
                after = _snapshot(w)
                pid, nid_ = w.nid[id(comp)], w.nid[id(new)]
                oid = w.nid.get(id(old), UNKNOWN) if old is not None else UNKNOWN
                if kind == "replacelabel":
                    model.append(f"replacelabel {pid} {op[2]} {nid_}")
                else:
                    model.append(f"replace {pid} {oid} {nid_}")
                if res == "ok":
                    replaced[after["label"][nid_]] = type(new).__name__
                    if comp is not w.comp:
                        replaced["__nested__"] = True
                known["s"] = after
                obs += _fmt(w, res, after)
                snaps.append({"op": ["replace", op[1], op[2], op[3]], "ids": [pid, oid, nid_], "res": res, "before": before,
                              "after": after, "comp_kind": _comp_kind(comp)})
                bump(f"op:{kind}")
                bump(f"res:{kind}:{res}")
                continue
            if kind in ("replace", "copyio", "dag"):
                if any(isinstance(a, str) and a not in w.names for a in op[1 : (3 if kind == "copyio" else 4)]):
                    continue
                before = _snapshot(w)
                model += _admit_lines(w, admitted)
                line = None
                res = "ok"
                if kind == "dag":
                    comp = args[0]
                    ups = []
                    for n in comp.children.values():
                        upstream_connections = [con for inp in n.inputs for con in inp.connections]
                        upstream_nodes = {c.owner for c in upstream_connections}
                        ups.append((w.nid.get(id(n), UNKNOWN), [w.nid.get(id(u), UNKNOWN) for u in upstream_nodes]))
                try:
                    if kind == "replace":
                        args[0].replace_child(args[1], args[2])
                    elif kind == "copyio":
                        args[0].copy_io(args[1], connections_fail_hard=bool(op[3]), values_fail_hard=bool(op[4]))
                    else:
                        args[0].set_run_signals_to_dag_execution()
                except Exception as e:  # noqa: BLE001
                    res = type(e).__name__
                after = _snapshot(w)
                ids = [w.nid[id(a)] for a in args[: (2 if kind == "copyio" else 3 if kind == "replace" else 1)]]
                if kind == "replace":
                    line = "replace " + " ".join(map(str, ids))
                elif kind == "copyio":
                    line = f"copyio {ids[0]} {ids[1]} {int(bool(op[3]))} {int(bool(op[4]))}"
                else:
                    start = after["starting"][str(ids[0])] if res == "ok" else []
                    line = f"dag {ids[0]} S " + " ".join(map(str, start))
                    for n, us in ups:
                        line += f" U {n} " + " ".join(map(str, us))
                if kind == "replace" and res == "ok":
                    replaced[after["label"][ids[2]]] = type(args[2]).__name__
                    if args[0] is not w.comp:
                        replaced["__nested__"] = True
                model.append(line)
                known["s"] = after
                obs += _fmt(w, res, after)
                snaps.append({"op": op, "ids": ids, "res": res, "before": before, "after": after,
                              "comp_kind": _comp_kind(args[0]) if kind != "copyio" else "-"})
                bump(f"op:{kind}")
                bump(f"res:{kind}:{res}")
            elif kind == "runcheck":
                got = _run_outputs(args[0])
                want = _reference_outputs(case, replaced)
                snaps.append({"op": op, "ids": [], "res": "run", "before": {}, "after": {}, "comp_kind": "wf",
                              "got": got, "want": want})
                bump("op:runcheck")
                s = _snapshot(w)
                model += _admit_lines(w, admitted)
                model += _sync_lines(w, s, last=known["s"])
                for p, st in s["starting"].items():
                    if known["s"]["starting"].get(p) != st:
                        model.append(f"start {p} " + " ".join(map(str, st)))
                known["s"] = s
            else:
                try:
                    if kind == "connect":
                        args[0].inputs[op[2]].connect(args[2].outputs[op[4]])
                    elif kind == "sconnect":
                        args[0].signals.input[op[2]].connect(args[2].signals.output.ran)
                    elif kind == "setval":
                        args[0].inputs[op[2]]._value = op[3]
                    elif kind == "setout":
                        args[0].outputs[op[2]]._value = op[3]
                    elif kind == "lock":
                        args[0].running = True
                    elif kind == "unlock":
                        args[0].running = False
                    elif kind == "run":
                        args[0].run()
                    elif kind == "setexec":
                        args[0].executor = ("pwh_never_used", (), {}) if (len(op) < 3 or op[2]) else None
                    elif kind == "xconnect":
                        args[0].inputs[op[2]].connect(args[2].outputs[op[4]])
                    elif kind in ("pull", "removechild", "addchild"):
                        before = _snapshot(w)
                        res = "ok"
                        try:
                            if kind == "pull":
                                args[0].pull()
                            elif kind == "removechild":
                                args[0].remove_child(args[1])
                            else:
                                args[0].add_child(args[1])
                        except Exception as e:  # noqa: BLE001
                            res = type(e).__name__
                        snaps.append({"op": op, "ids": [], "res": res if res != "ok" else "done", "before": before,
                                      "after": _snapshot(w), "comp_kind": "-"})
                        bump(f"res:{kind}:{res}")
                    elif kind == "start":
                        args[0].starting_nodes = [w.names[x] for x in op[2]]
                except Exception:  # noqa: BLE001
                    pass
                s = _snapshot(w)
                model += _admit_lines(w, admitted)
                model += _sync_lines(w, s, last=known["s"])
                for p, st in s["starting"].items():
                    if known["s"]["starting"].get(p) != st:
                        model.append(f"start {p} " + " ".join(map(str, st)))
                known["s"] = s
                for i, n in enumerate(w.nodes):
                    lk = bool(getattr(n, "running", False))
                    if lk != known["locked"][i]:
                        model.append(f"{'locked' if lk else 'unlocked'} {i}")
                        known["locked"][i] = lk
                bump(f"op:{kind}")
    finally:
        FORBID.clear()
        for n in w.nodes:
            if getattr(n, "running", False):
                try:
                    n.running = False
                except Exception:  # noqa: BLE001
                    pass
    table = [[c, n, p, l] for c, n, p, l, _ch in w.chans]
    return {"obs": obs, "model": model, "snaps": snaps, "stats": stats, "chans": table, "order": w.order}


def _run_outputs(wf):
    try:
        wf.run()
    except Exception as e:  # noqa: BLE001
        return "exc:" + type(e).__name__
    return {f"{lab}.{k}": repr(c.value) for lab, n in wf.children.items() for k, c in n.outputs.items()}


def _reference_outputs(case, replaced):
    """the same graph built from scratch with the replacement classes in place (same connection order)"""
    from pyiron_workflow import Workflow

    from . import nodes_c14 as N

    if case["top"] != "wf" or replaced.get("__nested__"):
        return None
    wf = Workflow("ref", autoload=None)
    try:
        for label, cls in case["children"]:
            wf.add_child(N.CLASSES[replaced.get(label, cls)](label=label))
        for child, inp, value in case.get("vals", []):
            wf.children[child].inputs[inp].value = value
        for src, out, dst, inp in case.get("data", []):
            wf.children[dst].inputs[inp].connect(wf.children[src].outputs[out])
    except Exception as e:  # noqa: BLE001
        return "exc:" + type(e).__name__
    return _run_outputs(wf)


def _rebind(w, idx, real, name):
    """the node the library instantiated from the class takes the place of the template in the tables"""
    tmpl = w.nodes[idx]
    w.nodes[idx] = real
    w.names[name] = real
    w.nid.pop(id(tmpl), None)
    w.nid[id(real)] = idx
    panels = dict(_panels(real))
    for k, (c, n, pname, lab, ch) in enumerate(w.chans):
        if n == idx:
            new_ch = panels[pname][lab]
            w.cid.pop(id(ch), None)
            w.cid[id(new_ch)] = c
            w.chans[k] = (c, n, pname, lab, new_ch)
    w.garbage = getattr(w, "garbage", []) + [tmpl]
    # the nodes below a macro template are the ones below the real macro
    if _is_comp(real):
        for sub in [k for k in w.order if k.startswith(name + "/")]:
            lab = sub[len(name) + 1:]
            if "/" not in lab and lab in real.children:
                _rebind(w, w.nid[id(w.names[sub])], real.children[lab], sub)
    w.admit_rows = [(c, ch) for c, _n, p, _l, ch in w.chans
                    if p in ("inputs", "outputs") and _hint(ch) is not None and ch.strict_hints]


def _comp_kind(n):
    from pyiron_workflow.workflow import Workflow

    return "wf" if isinstance(n, Workflow) else "macro"


def model_input(case, impl=None):
    return list(impl.get("model", [])) if impl else []


def nontrivial(case, r):
    for s in r.get("snaps", []):
        if s["res"] == "run":
            continue
        if s["before"] != s["after"] or s["res"] not in ("ok", "done"):
            return True
    return False


# ----------------------------------------------------------------------------- oracle (independent of the model)

ORDERED = {"inputs", "sout"}  # fetch priority / firing order; the other lists are compared as sets


def _same_list(panel, a, b):
    return a == b if panel in ORDERED else sorted(a) == sorted(b)


def _graph_nodes(snap, roots):
    """ids of the composites in `roots` and everything below them"""
    seen = set()
    todo = list(roots)
    while todo:
        n = todo.pop()
        if n in seen:
            continue
        seen.add(n)
        for _lab, c in snap["children"].get(str(n), []):
            todo.append(c)
    return seen


def _atomic_delta(r, s, extra_nodes=()):
    """fields of the statement that differ between the snapshots of a failed edit"""
    b, a = s["before"], s["after"]
    chans = r["chans"]
    delta = []
    roots = [int(p) for p in b["children"] if b["parent"][int(p)] is None or str(b["parent"][int(p)]) not in b["children"]]
    graph = _graph_nodes(b, roots) | set(extra_nodes)
    if {p: sorted(map(tuple, v)) for p, v in b["children"].items()} != {p: sorted(map(tuple, v)) for p, v in a["children"].items()}:
        delta.append("children")
    if [b["label"][n] for n in sorted(graph)] != [a["label"][n] for n in sorted(graph)]:
        delta.append("labels")
    if b["parent"] != a["parent"]:
        delta.append("parents")
    for c, _n, panel, _l in chans:
        if not _same_list(panel, b["conns"][c], a["conns"][c]):
            delta.append("connections" if sorted(b["conns"][c]) != sorted(a["conns"][c]) else "order")
            break
    if any(b["val"][c] != a["val"][c] for c, n, _p, _l in chans if n in graph):
        delta.append("values")
    if b["recv"] != a["recv"]:
        delta.append("links")
    if {p: sorted(v) for p, v in b["starting"].items()} != {p: sorted(v) for p, v in a["starting"].items()}:
        delta.append("starting")
    return delta


def oracle(case, r):
    fails = []
    if case.get("malformed"):
        return fails
    chans = r["chans"]
    by_node: dict = {}
    for c, n, panel, lab in chans:
        by_node.setdefault(n, {})[(panel, lab)] = c
    owner = {c: n for c, n, _p, _l in chans}
    panel_of = {c: p for c, _n, p, _l in chans}
    for k, s in enumerate(r["snaps"]):
        op, res, b, a = s["op"], s["res"], s["before"], s["after"]
        kind = op[0]
        if kind == "runcheck":
            if isinstance(s["got"], dict) and isinstance(s["want"], dict) and s["got"] != s["want"]:
                diff = {k: (s["want"].get(k), s["got"].get(k)) for k in s["want"] if s["want"].get(k) != s["got"].get(k)}
                fails.append({"clause": "run-result", "detail": f"op #{k}: run after the replacement differs from the graph "
                              f"built afresh with the replacement in place: {diff}",
                              "signature": {"clause": "run-result", "trigger": "replace"}})
            continue
        if res == "done" or kind in ("removechild", "addchild"):
            continue  # set-up operations (their refusals are C13's subject)
        if kind == "pull" and res not in ("ValueError", "CircularDataFlowError"):
            continue  # only a failed DERIVATION of the flow is an edit of C14; a failing node run is not
        if res != "ok":
            extra = [s["ids"][0]] if kind == "copyio" else []
            delta = _atomic_delta(r, s, extra)
            if delta:
                fails.append({
                    "clause": "atomic",
                    "detail": f"op #{k} {op} raised {res} but changed {delta}",
                    "signature": {"clause": "atomic", "trigger": kind, "exc": res, "comp": s["comp_kind"],
                                  "delta": "+".join(delta), "values": "values" in delta},
                })
            continue
        if kind != "replace":
            continue
        p, old, new = s["ids"]
        sig = {"trigger": "replace", "comp": s["comp_kind"]}
        # label / parent / children / starting status
        if a["label"][new] != b["label"][old] or a["parent"][new] != p or [b["label"][old], new] not in a["children"][str(p)]:
            fails.append(_f("inherit-place", k, op, "label/parent/children entry not inherited", sig))
        if (old in b["starting"][str(p)]) != (new in a["starting"][str(p)]):
            fails.append(_f("inherit-starting", k, op, f"{b['starting'][str(p)]} -> {a['starting'][str(p)]}", sig))
        if a["parent"][old] is not None or any(a["conns"][c] for c in by_node.get(old, {}).values()) or \
                any(c2 == old for _l, c2 in a["children"][str(p)]):
            fails.append(_f("old-free", k, op, "the replaced node is still owned or connected", sig))
        # the stand-in of every channel of the replaced node
        sigma = {}
        for (panel, lab), oc in by_node.get(old, {}).items():
            nc = by_node.get(new, {}).get((panel, lab))
            if nc is not None:
                sigma[oc] = nc
        old_chans = set(by_node.get(old, {}).values())
        new_chans = set(by_node.get(new, {}).values())
        for (panel, lab), oc in by_node.get(old, {}).items():
            # a connection to one of the node's own channels becomes one to that channel's stand-in
            want = [sigma.get(x, x) for x in b["conns"][oc] if not (x in old_chans and x not in sigma)]
            if not want:
                continue
            nc = sigma.get(oc)
            got = a["conns"][nc] if nc is not None else []
            if sorted(want) != sorted(got):
                fails.append(_f("inherit-connections", k, op, f"{panel}.{lab}: {want} -> {got}", sig))
            elif not _same_list(panel, want, got):
                fails.append(_f("inherit-order", k, op, f"own {panel}.{lab}: {want} -> {got}",
                                {**sig, "where": "own"}))
        for c, n, panel, lab in chans:
            if c in old_chans or c in new_chans:
                continue
            want = [sigma.get(x, x) for x in b["conns"][c] if not (x in old_chans and x not in sigma)]
            got = a["conns"][c]
            if sorted(want) != sorted(got):
                fails.append(_f("inherit-connections", k, op, f"neighbour {c}: {b['conns'][c]} -> {got}", sig))
            elif not _same_list(panel, want, got):
                fails.append(_f("inherit-order", k, op, f"neighbour {c} ({panel}.{lab}): {b['conns'][c]} -> {got}",
                                {**sig, "where": "neighbour"}))
        # macro value links
        for c, n, panel, lab in chans:
            if n == p and panel == "inputs" and b["recv"][c] in old_chans and panel_of[b["recv"][c]] == "inputs":
                if a["recv"][c] != sigma.get(b["recv"][c]):
                    fails.append(_f("inherit-links", k, op, f"inbound {c}: {b['recv'][c]} -> {a['recv'][c]}", sig))
            if n == old and panel == "outputs" and b["recv"][c] is not None and owner.get(b["recv"][c]) == p:
                nc = sigma.get(c)
                if nc is None or a["recv"][nc] != b["recv"][c]:
                    fails.append(_f("inherit-links", k, op, f"outbound {c}: -> {b['recv'][c]}", sig))
        # everybody else keeps label and parent
        for n in range(len(b["label"])):
            if n not in (old, new) and (a["label"][n] != b["label"][n] or a["parent"][n] != b["parent"][n]):
                fails.append(_f("bystander", k, op, f"node {n} changed", sig))
    return fails


def _f(clause, k, op, detail, sig):
    return {"clause": clause, "detail": f"after op #{k} {op}: {detail}", "signature": {"clause": clause, **sig}}


# ----------------------------------------------------------------------------- generation

BASE = ["Pxy", "Ixy"]
CAND_CLASSES = ["Pxy", "Qxy", "Px", "Pxyz", "PxyP", "PxyOP", "Ixy", "Sxy", "IxyS", "SxIy", "Ux", "Workflow"]
LABELS = ["a", "b", "c", "d", "e"]


def _rand_graph(rng, n, typed):
    children = []
    for i in range(n):
        cls = "Ixy" if (typed == "all" or (typed == "mix" and rng.random() < 0.4)) else "Pxy"
        children.append([LABELS[i], cls])
    data = []
    for j in range(1, n):
        for inp in ("x", "y"):
            k = rng.choice([0, 1, 1, 2, 3])
            srcs = rng.sample(range(j), min(k, j))
            for i in srcs:
                data.append([LABELS[i], "o", LABELS[j], inp])
    rng.shuffle(data)
    return children, data


def _cands(rng, tier, extra=()):
    k = 4 if tier == "quick" else 6
    cls = rng.sample(CAND_CLASSES, k)
    return [[f"r{i}", c] for i, c in enumerate(cls)] + [list(e) for e in extra]


def _vals(rng, children):
    out = []
    for lab, cls in children:
        for inp in ("x", "y"):
            if rng.random() < 0.5:
                out.append([lab, inp, rng.choice([7, 8, "s", "t"]) if cls == "Pxy" else rng.choice([7, 8, 9])])
    return out


def _wf_case(rng, tier):
    n = rng.randint(2, 5)
    children, data = _rand_graph(rng, n, rng.choice(["none", "mix", "mix"]))
    labs = [c[0] for c in children]
    case = {"top": "wf", "children": children, "data": data, "vals": _vals(rng, children),
            "prewire": rng.random() < 0.5, "cands": _cands(rng, tier), "ops": []}
    if not case["prewire"] and rng.random() < 0.5:
        sig = []
        for _ in range(rng.randint(1, 5)):
            i, j = rng.sample(range(n), 2)
            sig.append([labs[i], labs[j], rng.choice(["run", "accumulate_and_run"])])
        case["sig"] = sig
        case["starting"] = rng.sample(labs, rng.randint(0, 2))
    ops = case["ops"]
    r = rng.random()
    if r < 0.15:
        # make one candidate already connected / turn an input non-strict / set a late value
        cand = rng.choice(case["cands"])[0]
        ops.append(["connect", cand, "x", rng.choice(labs), "o"])
    if rng.random() < 0.06:
        i = rng.randrange(n)
        case["data"].append([labs[i], "o", labs[i], rng.choice(["x", "y"])])  # a self-connection
    case["class_cands"] = [[f"k{i}", c] for i, c in enumerate(rng.sample([c for c in CAND_CLASSES if c != "Workflow"], 2))]
    if rng.random() < 0.15:
        ops.append(["run", "@wf"])  # fills the caches (and re-wires the signals)
    if rng.random() < 0.15:
        ops.append(["run", rng.choice(case["cands"])[0]])  # a candidate that has run before carries a cache
    for _ in range(rng.randint(0, 2) if rng.random() < 0.2 else 0):
        ops.append(["lock", rng.choice(labs + [c[0] for c in case["cands"]])])  # a running node: inputs locked
    for _ in range(rng.randint(1, 3)):
        r = rng.random()
        if r < 0.12:
            ops.append(["replacecls", "@wf", rng.choice(labs), rng.choice(case["class_cands"])[0]])
        elif r < 0.22:
            ops.append(["replacelabel", "@wf", rng.choice(labs + ["zz"]), rng.choice([c[0] for c in case["cands"]])])
        elif r < 0.7:
            new = rng.choice([c[0] for c in case["cands"]] + labs[:1] + ["@wf"])
            ops.append(["replace", "@wf", rng.choice(labs), new])
        elif r < 0.85:
            ops.append(["dag", "@wf"])
        else:
            me, other = rng.choice(labs + [c[0] for c in case["cands"]]), rng.choice(labs)
            ops.append(["copyio", me, other, rng.random() < 0.7, rng.random() < 0.4])
    return case


def _run_case(rng, tier):
    """untyped term nodes only, replacement with the same interface, then run and compare with a fresh build"""
    n = rng.randint(3, 5)
    children = [[LABELS[i], "Pxy"] for i in range(n)]
    data = []
    for j in range(1, n):
        for inp in ("x", "y"):
            for i in rng.sample(range(j), min(rng.choice([0, 1, 2, 3]), j)):
                data.append([LABELS[i], "o", LABELS[j], inp])
    rng.shuffle(data)
    case = {"top": "wf", "children": children, "data": data, "prewire": rng.random() < 0.5,
            "cands": [["r0", "Qxy"], ["r1", "Pxy"]], "ops": []}
    case["ops"].append(["replace", "@wf", rng.choice(LABELS[:n]), rng.choice(["r0", "r1"])])
    if rng.random() < 0.3:
        case["ops"].append(["replace", "@wf", rng.choice(LABELS[:n]), "r1" if case["ops"][0][3] == "r0" else "r0"])
    case["ops"].append(["runcheck", "@wf"])
    return case


def _nested_case(rng, tier):
    """depth 2: a macro is itself a child of the workflow; replace it (by a function node with its interface, by another
    macro, by something else), replace its neighbours, replace inside it"""
    children = [["u", "Pxy"], ["v", "Pxy"], ["m", "MacIn"], ["d", "Pxy"], ["e", "Pxy"]]
    data = []
    for inp in ("p", "q"):
        for src in rng.sample(["u", "v"], rng.choice([0, 1, 1, 2])):
            data.append([src, "o", "m", inp])
    for dst in ("d", "e"):
        for inp in ("x", "y"):
            for out in rng.sample(["r0", "r1"], rng.choice([0, 1, 2])):
                data.append(["m", out, dst, inp])
            if rng.random() < 0.4:
                data.append([rng.choice(["u", "v"]), "o", dst, inp])
    rng.shuffle(data)
    case = {"top": "wf", "children": children, "data": data, "prewire": rng.random() < 0.5,
            "vals": [["u", "x", 7]] if rng.random() < 0.5 else [],
            "cands": [["r0", "Mpq"], ["r1", "MacIn"], ["r2", rng.choice(["Pxy", "Qxy", "Px", "Workflow"])], ["r3", "Qxy"]],
            "class_cands": [["k0", rng.choice(["Mpq", "MacIn", "Pxy"])]], "ops": []}
    ops = case["ops"]
    if rng.random() < 0.2:
        ops.append(["run", "@wf"])
    if rng.random() < 0.2:
        ops.append(["run", rng.choice(["r0", "r1", "r3"])])
    if rng.random() < 0.15:
        ops.append(["lock", rng.choice(["m", "r0", "r1", "d"])])
    for _ in range(rng.randint(1, 3)):
        r = rng.random()
        if r < 0.45:
            ops.append(["replace", "@wf", "m", rng.choice(["r0", "r1", "r2"])])
        elif r < 0.55:
            ops.append(["replacecls", "@wf", "m", "k0"])
        elif r < 0.75:
            ops.append(["replace", "@wf", rng.choice(["u", "d", "e"]), rng.choice(["r2", "r3"])])
        elif r < 0.9:
            ops.append(["replace", "m", rng.choice(["m/a", "m/b"]), rng.choice(["r3", "r2", "@wf", "m"])])
        else:
            ops.append(["dag", rng.choice(["@wf", "m"])])
    if rng.random() < 0.3 and not any(o[0] == "lock" for o in ops):
        ops.append(["runcheck", "@wf"])
    return case


KEY_CHILDREN = [("a", "Kx"), ("a__b", "Kc"), ("a__x", "Kx"), ("b", "Kbc"), ("a__b__c", "Kx"), ("x", "Kxo"), ("a__o", "Kx")]
KEY_CANDS = ["Kbc", "Kxo", "Kc", "Kx", "Pxy"]


def _keys_case(rng, tier):
    """child and channel labels that contain the key delimiter, are prefixes of each other or equal canonical keys
    of siblings (`a` + `b__c` vs `a__b` + `c`), with and without renaming maps: the keys of the workflow's IO view"""
    kids = rng.sample(KEY_CHILDREN, rng.randint(2, 4))
    if rng.random() < 0.6 and ("a", "Kx") not in kids:
        kids[0] = ("a", "Kx")
    children = [list(k) for k in kids]
    labs = [k[0] for k in kids]
    from .nodes_c14 import SHAPE  # noqa: F401  (labels only)
    ins = {"Kx": ["x"], "Kc": ["c", "d"], "Kbc": ["x", "b__c"], "Kxo": ["x", "x__y"], "Pxy": ["x", "y"]}
    outs = {"Kx": ["o"], "Kc": ["o"], "Kbc": ["o"], "Kxo": ["o", "b__o"], "Pxy": ["o"]}
    data = []
    for _ in range(rng.randint(0, 3)):
        i, j = rng.sample(range(len(kids)), 2)
        data.append([labs[i], rng.choice(outs[kids[i][1]]), labs[j], rng.choice(ins[kids[j][1]])])
    case = {"top": "wf", "children": children, "data": data,
            "cands": [[f"r{i}", c] for i, c in enumerate(rng.sample(KEY_CANDS, 3))], "ops": []}
    if rng.random() < 0.4:
        keys = [f"{l}__{c}" for l, k in kids for c in ins[k]] + ["a__b__c", "a__x__y", "b__b__c"]
        case["maps"] = {"in": [[rng.choice(keys), rng.choice(keys + ["foo", None])] for _ in range(rng.randint(1, 2))]}
        if len({m[0] for m in case["maps"]["in"]}) < len(case["maps"]["in"]):
            case["maps"]["in"] = case["maps"]["in"][:1]
    for _ in range(rng.randint(1, 2)):
        case["ops"].append(["replace", "@wf", rng.choice(labs), rng.choice(case["cands"])[0]])
    return case


def _chain_case(rng, tier):
    """copy_io (hard or soft values) onto macros whose inputs forward through value-link chains that get stricter
    downstream (`MacChain.q -> inner.b -> scale.y: int`): a refusal happens below the channel assigned to"""
    children = [["s", "Mpq"], ["t", "Mpq"], ["u", "Pxy"]]
    vals = [["s", "q", rng.choice(["text", 7])], ["s", "p", rng.choice(["text", 8, 9])], ["t", "q", rng.choice(["w", 5])]]
    data = [["u", "o", "t", "p"]] if rng.random() < 0.5 else []
    case = {"top": "wf", "children": children, "data": data, "vals": vals,
            "cands": [["r0", "MacChain"], ["r1", "MacChainIn"], ["r2", "MacIn"], ["r3", "Mpq"]], "ops": []}
    if rng.random() < 0.3:
        case["ops"].append(["setval", "r0", "q", rng.choice([1, 2])])
    for _ in range(rng.randint(1, 3)):
        r = rng.random()
        if r < 0.7:
            case["ops"].append(["copyio", rng.choice(["r0", "r0", "r2", "r3"]), rng.choice(["s", "t"]), True,
                                rng.random() < 0.75])
        else:
            case["ops"].append(["replace", "@wf", rng.choice(["s", "t"]), rng.choice(["r0", "r2", "r3"])])
    return case


def _cross_case(rng, tier):
    """connections that CROSS a composite border: a workflow-level node reads from inside the macro child, a node inside
    the macro reads from the workflow level; replace at both levels, derive flows, pull"""
    children = [["u", "Pxy"], ["m", "MacIn"], ["d", "Pxy"], ["e", "Pxy"]]
    data = [["u", "o", "m", "p"]] if rng.random() < 0.6 else []
    if rng.random() < 0.6:
        data.append(["m", "r1", "e", "x"])
    xdata = []
    if rng.random() < 0.8:
        xdata.append([rng.choice(["m/a", "m/b"]), "o", "d", rng.choice(["x", "y"])])  # outside reads the inside
    if rng.random() < 0.6:
        xdata.append([rng.choice(["u", "d"]), "o", rng.choice(["m/a", "m/b"]), "y"])  # inside reads the outside
    if rng.random() < 0.3:
        xdata.append(["m/a", "o", "e", "y"])
    rng.shuffle(xdata)
    case = {"top": "wf", "children": children, "data": data, "xdata": xdata, "prewire": rng.random() < 0.3,
            "cands": [["r0", "Qxy"], ["r1", "Pxy"], ["r2", rng.choice(["Px", "Mpq", "MacIn"])]], "ops": []}
    for _ in range(rng.randint(1, 3)):
        r = rng.random()
        if r < 0.4:
            case["ops"].append(["replace", "m", rng.choice(["m/a", "m/b"]), rng.choice(["r0", "r1", "r2"])])
        elif r < 0.75:
            case["ops"].append(["replace", "@wf", rng.choice(["d", "e", "u", "m"]), rng.choice(["r0", "r1", "r2"])])
        elif r < 0.9:
            case["ops"].append(["dag", rng.choice(["@wf", "m"])])
        else:
            case["ops"].append(["copyio", rng.choice(["r0", "r1"]), rng.choice(["d", "m/a", "m/b"]), True, False])
    return case


def _pull_case(rng, tier, exec_at=None):
    """failed derivations of the execution flow during a PULL: an executor somewhere in the data tree (on every tree node
    in turn, the tree is a set), cyclic data; inside a workflow and on parentless graphs; then more edits"""
    n = rng.randint(3, 5)
    labs = LABELS[:n]
    data = []
    for j in range(1, n):
        for i in rng.sample(range(j), min(rng.choice([1, 1, 2]), j)):
            data.append([labs[i], "o", labs[j], rng.choice(["x", "y"])])
    case = {"top": "wf", "children": [[l, "Pxy"] for l in labs], "data": data, "prewire": rng.random() < 0.4,
            "cands": [["r0", "Pxy"], ["r1", "Pxy"], ["r2", "Pxy"], ["r3", "Qxy"]], "ops": []}
    ops = case["ops"]
    # a parentless graph next to it: r0 -> r1 -> r2
    ops.append(["connect", "r1", "x", "r0", "o"])
    ops.append(["connect", "r2", "x", "r1", "o"])
    if rng.random() < 0.4:
        ops.append(["sconnect", "r2", "run", "r0"])
    r = rng.random()
    if r < 0.6:
        ops.append(["setexec", exec_at if exec_at is not None else rng.choice(labs + ["r0", "r1"])])
    elif r < 0.8:
        i, j = sorted(rng.sample(range(n), 2))
        ops.append(["connect", labs[i], "y", labs[j], "o"])  # a data cycle
    for _ in range(rng.randint(1, 3)):
        ops.append(["pull", rng.choice(labs[1:] + ["r2", "r1"])])
    if rng.random() < 0.4:
        ops.append(["replace", "@wf", rng.choice(labs), "r3"])
    if rng.random() < 0.3:
        ops.append(["dag", "@wf"])
    return case


def _macro_case(rng, tier):
    n = rng.randint(2, 4)
    mac = rng.choice(["MacU", "MacT"])
    children, data = _rand_graph(rng, n, "all" if (mac == "MacT" and rng.random() < 0.6) else "mix")
    labs = [c[0] for c in children]
    uses = {}
    for name in ("p", "q"):
        k = rng.choice([0, 1, 1, 2])
        uses[name] = [[rng.choice(labs), rng.choice(["x", "y"])] for _ in range(k)]
    ra, rb = rng.sample(labs, 2)  # a channel can feed only one macro output (fix f61a50a refuses the rest)
    returns = [[ra, "o"], [rb, "o"]]
    extra = []
    top = rng.choice(["macro", "macro", "macro_in_wf"])
    case = {"top": top, "mac": mac, "children": children, "data": data, "uses": uses, "returns": returns,
            "vals": _vals(rng, children), "cands": _cands(rng, tier, extra), "ops": []}
    for _ in range(rng.randint(1, 2)):
        r = rng.random()
        if r < 0.8:
            pool = [c[0] for c in case["cands"]] + ["@m"] + (["@wf"] if top == "macro_in_wf" else [])
            ops_old = rng.choice(labs + ["p", "q"])
            case["ops"].append(["replace", "@m", ops_old, rng.choice(pool)])
        elif r < 0.9:
            case["ops"].append(["dag", "@m"])
        else:
            case["ops"].append(["copyio", rng.choice([c[0] for c in case["cands"]]), rng.choice(labs), True,
                                rng.random() < 0.5])
    return case


def _copyio_case(rng, tier):
    n = rng.randint(3, 5)
    children, data = _rand_graph(rng, n, rng.choice(["none", "mix", "all"]))
    labs = [c[0] for c in children]
    case = {"top": "wf", "children": children, "data": data, "vals": _vals(rng, children),
            "prewire": rng.random() < 0.5, "cands": _cands(rng, tier), "ops": []}
    for _ in range(rng.randint(0, 2)):
        case["ops"].append(["setout", rng.choice(labs), "o", rng.choice([5, "z"])])
    for _ in range(rng.randint(1, 3)):
        me = rng.choice(labs + [c[0] for c in case["cands"] if c[1] != "Workflow"])
        other = rng.choice(labs)
        if rng.random() < 0.25:
            panel, lab = rng.choice([("inputs", "x"), ("inputs", "y"), ("outputs", "o"), ("sin", "run"), ("sout", "ran")])
            lab2 = rng.choice(["x", "y"]) if panel == "inputs" else lab
            case["ops"].append(["copychan", me, panel, lab, other, panel if rng.random() < 0.9 else "outputs", lab2])
        else:
            case["ops"].append(["copyio", me, other, rng.random() < 0.7, rng.random() < 0.6])
    return case


def _dag_case(rng, tier):
    n = rng.randint(2, 5)
    children, data = _rand_graph(rng, n, "none")
    labs = [c[0] for c in children]
    case = {"top": "wf", "children": children, "data": data, "prewire": rng.random() < 0.6, "cands": [["r0", "Pxy"]],
            "ops": []}
    if not case["prewire"] or rng.random() < 0.5:
        sig = []
        for _ in range(rng.randint(1, 6)):
            i, j = rng.sample(range(n), 2)
            sig.append([labs[i], labs[j], rng.choice(["run", "accumulate_and_run"])])
        case["sig"] = sig
    r = rng.random()
    if r < 0.5:
        # close a data cycle (or a self loop) after the set-up wiring
        i, j = sorted(rng.sample(range(n), 2))
        case["ops"].append(["connect", labs[i], rng.choice(["x", "y"]), labs[j] if rng.random() < 0.85 else labs[i], "o"])
    elif r < 0.6:
        case["ops"].append(["connect", rng.choice(labs), "x", "r0", "o"])  # upstream outside the composite
    if rng.random() < 0.3:
        a, b = rng.sample(labs, 2)
        case["forbid"] = [[[a, "sin", "accumulate_and_run"], [b, "sout", "ran"]]]
    case["ops"].append(["dag", "@wf"])
    if rng.random() < 0.3:
        case["ops"].append(["dag", "@wf"])
    return case


def _maps_case(rng, tier):
    children = [["a", "Pxy"], ["b", "Pxy"], ["c", "Pxy"]]
    data = [["a", "o", "c", "x"], ["b", "o", "c", "x"]]
    keys = ["a__x", "a__y", "b__x", "b__y", "b__z", "c__y", "b__o", "b__p", "c__o"]
    ins = []
    if rng.random() < 0.4:
        ins.append(["b__z", rng.choice(["a__x", "c__y"])])
    for _ in range(rng.randint(0, 2)):
        k = rng.choice([k for k in keys if not k.endswith("o") and not k.endswith("p")])
        if k not in [i[0] for i in ins]:
            ins.append([k, rng.choice(["a__x", "c__y", "foo", None])])
    outs = [[rng.choice(["b__o", "b__p", "c__o"]), rng.choice(["c__o", "bar", None])]] if rng.random() < 0.5 else []
    case = {"top": "wf", "children": children, "data": data, "maps": {"in": ins, "out": outs},
            "cands": [["r0", "Pxyz"], ["r1", "PxyOP"], ["r2", "Qxy"]], "ops": []}
    case["ops"].append(["replace", "@wf", rng.choice(["a", "b"]), rng.choice(["r0", "r1", "r2"])])
    return case


def gen_cases(rng, tier):
    quick = tier == "quick"
    for _ in range(85 if quick else 2500):
        yield _wf_case(rng, tier)
    for _ in range(85 if quick else 2500):
        yield _macro_case(rng, tier)
    for _ in range(40 if quick else 1200):
        yield _copyio_case(rng, tier)
    for _ in range(50 if quick else 1500):
        yield _dag_case(rng, tier)
    for _ in range(16 if quick else 400):
        yield _maps_case(rng, tier)
    for _ in range(30 if quick else 800):
        yield _run_case(rng, tier)
    for _ in range(45 if quick else 1200):
        yield _nested_case(rng, tier)
    for _ in range(40 if quick else 1000):
        yield _keys_case(rng, tier)
    for _ in range(30 if quick else 800):
        yield _chain_case(rng, tier)
    for _ in range(40 if quick else 1000):
        yield _cross_case(rng, tier)
    for _ in range(40 if quick else 1000):
        yield _pull_case(rng, tier)
    if not quick:
        for lab in LABELS[:5] + ["r0", "r1"]:
            for _ in range(20):
                yield _pull_case(rng, tier, exec_at=lab)
    if not quick:
        yield from _exhaustive()
    for lines in (["frobnicate 1 2", "replace 0 1", "copyio 0 1 2 3", "dag x"], ["cfg 1 1", "replace a b c", "dag 0 T 1"]):
        yield {"malformed": True, "lines": lines}


def _exhaustive():
    """every child x every candidate class on fixed small graphs (workflow and macro)"""
    wf_children = [["a", "Pxy"], ["b", "Ixy"], ["c", "Pxy"], ["d", "Ixy"]]
    wf_data = [["a", "o", "c", "x"], ["b", "o", "c", "x"], ["b", "o", "d", "x"], ["b", "o", "d", "y"],
               ["a", "o", "d", "x"], ["c", "o", "d", "y"]]
    for prewire in (False, True):
        for old in "abcd":
            for cls in CAND_CLASSES:
                yield {"top": "wf", "children": wf_children, "data": wf_data, "prewire": prewire,
                       "vals": [["a", "x", 7], ["b", "x", 8], ["c", "y", "s"]],
                       "cands": [["r0", cls]], "ops": [["replace", "@wf", old, "r0"], ["dag", "@wf"]]}
    for mac in ("MacU", "MacT"):
        kids = [["a", "Ixy"], ["b", "Ixy"], ["c", "Ixy" if mac == "MacT" else "Pxy"]]
        data = [["a", "o", "c", "x"], ["b", "o", "c", "x"], ["a", "o", "b", "y"]]
        uses = {"p": [["a", "x"]], "q": [["a", "y"], ["b", "x"]]}
        for returns in ([["c", "o"], ["b", "o"]], [["a", "o"], ["c", "o"]]):
            for old in ("a", "b", "c", "q"):
                for cls in CAND_CLASSES:
                    for top in ("macro", "macro_in_wf"):
                        yield {"top": top, "mac": mac, "children": kids, "data": data, "uses": uses,
                               "returns": returns, "vals": [["a", "x", 7]], "cands": [["r0", cls]],
                               "ops": [["replace", "@m", old, "r0"]]}
                for special in ("@m", "@wf"):
                    yield {"top": "macro_in_wf", "mac": mac, "children": kids, "data": data, "uses": uses,
                           "returns": returns, "cands": [], "ops": [["replace", "@m", old, special]]}


def corpus():
    # D1: priority order on the neighbour and on the own list
    yield {"top": "wf", "children": [["a", "Pxy"], ["b", "Pxy"], ["c", "Pxy"], ["d", "Pxy"]],
           "data": [["a", "o", "d", "x"], ["b", "o", "d", "x"], ["c", "o", "d", "x"]],
           "cands": [["r0", "Qxy"]], "ops": [["replace", "@wf", "b", "r0"]]}
    yield {"top": "wf", "children": [["a", "Pxy"], ["b", "Pxy"], ["d", "Pxy"]],
           "data": [["a", "o", "d", "x"], ["b", "o", "d", "x"]],
           "cands": [["r0", "Qxy"]], "ops": [["replace", "@wf", "d", "r0"]]}
    yield {"top": "wf", "children": [["a", "Pxy"], ["b", "Pxy"], ["c", "Pxy"]],
           "data": [["a", "o", "c", "x"], ["b", "o", "c", "x"]],
           "cands": [["r0", "Qxy"]], "ops": [["replace", "@wf", "a", "r0"], ["runcheck", "@wf"]]}
    # D2: the macro's own IO hint rejects the replacement after the swap (outbound, inbound)
    yield {"top": "macro", "mac": "MacT", "children": [["a", "Ixy"], ["b", "Ixy"]], "data": [["a", "o", "b", "x"]],
           "uses": {"p": [["a", "x"]]}, "returns": [["b", "o"], ["a", "o"]], "cands": [["r0", "IxyS"]],
           "ops": [["replace", "@m", "b", "r0"]]}
    yield {"top": "macro", "mac": "MacT", "children": [["a", "Ixy"], ["b", "Ixy"]], "data": [["a", "o", "b", "x"]],
           "uses": {"p": [["a", "x"]]}, "returns": [["b", "o"], ["a", "o"]], "cands": [["r0", "SxIy"]],
           "ops": [["replace", "@m", "a", "r0"]]}
    # D4: the replacement lacks an unconnected but value-linked channel
    yield {"top": "macro", "mac": "MacT", "children": [["a", "Ixy"], ["b", "Ixy"]], "data": [["a", "o", "b", "y"]],
           "uses": {"p": [["a", "y"]]}, "returns": [["b", "o"], ["a", "o"]], "cands": [["r0", "Ux"]],
           "ops": [["replace", "@m", "a", "r0"]]}
    # D3: add_child refuses after the old child is gone (Workflow; the macro itself)
    yield {"top": "wf", "children": [["a", "Pxy"], ["b", "Pxy"]], "data": [], "cands": [["r0", "Workflow"]],
           "ops": [["replace", "@wf", "a", "r0"]]}
    yield {"top": "macro_in_wf", "mac": "MacU", "children": [["a", "Pxy"], ["b", "Pxy"]], "data": [],
           "uses": {}, "returns": [["a", "o"], ["b", "o"]], "cands": [],
           "ops": [["sconnect", "b", "run", "a"], ["start", "@m", ["a"]], ["dag", "@m"], ["replace", "@m", "b", "@wf"]]}
    # D5: the undo of copy_io removes a connection that was there before
    yield {"top": "wf", "children": [["a", "Pxy"], ["s", "Sxy"], ["t", "Pxy"], ["b", "Ixy"]],
           "data": [["a", "o", "t", "x"], ["s", "o", "t", "y"], ["a", "o", "b", "x"]], "cands": [],
           "ops": [["copyio", "b", "t", True, False]]}
    yield {"top": "wf", "children": [["a", "Pxy"], ["s", "Sxy"], ["t", "Pxy"], ["b", "Ixy"]],
           "data": [["s", "o", "t", "x"], ["a", "o", "t", "x"], ["a", "o", "b", "x"]], "cands": [],
           "ops": [["copychan", "b", "inputs", "x", "t", "inputs", "x"]]}
    # D6: values_fail_hard: the outputs panel fails, the inputs panel is not reverted
    yield {"top": "wf", "children": [["t", "Pxy"], ["c", "Ixy"]], "data": [], "vals": [["t", "x", 5], ["t", "y", 6]],
           "cands": [], "ops": [["setout", "t", "o", "zzz"], ["copyio", "c", "t", True, True]]}
    # D7: a renaming map collides once the replacement brings one more channel
    yield {"top": "wf", "children": [["a", "Pxy"], ["b", "Pxy"], ["c", "Pxy"]],
           "data": [["a", "o", "c", "x"], ["b", "o", "c", "x"]], "maps": {"in": [["b__z", "a__x"]]},
           "cands": [["r0", "Pxyz"]], "ops": [["replace", "@wf", "b", "r0"]]}
    # keys of the IO view: `a` + `b__c` against `a__b` + `c`, no map at all
    yield {"top": "wf", "children": [["a", "Kx"], ["a__b", "Kc"]], "data": [["a", "o", "a__b", "d"]],
           "cands": [["r0", "Kbc"]], "ops": [["replace", "@wf", "a", "r0"]]}
    # a value-link chain that gets stricter downstream: hard copy of the value "text"
    yield {"top": "wf", "children": [["s", "Mpq"]], "data": [], "vals": [["s", "q", "text"], ["s", "p", 9]],
           "cands": [["r0", "MacChain"]], "ops": [["copyio", "r0", "s", True, True], ["copyio", "r0", "s", True, False]]}
    # a connection crossing the border of the macro: replace the inner end, then the outer end
    yield {"top": "wf", "children": [["u", "Pxy"], ["m", "MacIn"], ["d", "Pxy"]], "data": [["u", "o", "m", "p"]],
           "xdata": [["m/a", "o", "d", "x"], ["u", "o", "m/b", "y"]], "cands": [["r0", "Qxy"], ["r1", "Pxy"]],
           "ops": [["replace", "m", "m/a", "r0"], ["replace", "@wf", "d", "r1"], ["dag", "@wf"]]}
    # a pull whose data tree holds an executor (not on the first node of the set): refused, labels as before
    yield {"top": "wf", "children": [["a", "Pxy"], ["b", "Pxy"], ["c", "Pxy"], ["d", "Pxy"]],
           "data": [["a", "o", "b", "x"], ["b", "o", "c", "x"], ["c", "o", "d", "x"]], "cands": [],
           "ops": [["setexec", "b"], ["pull", "d"], ["setexec", "b", False], ["setexec", "a"], ["pull", "d"], ["pull", "c"]]}
    # D8: recovery of the flow derivation on a cyclic data graph reverses firing order
    yield {"top": "wf", "children": [["a", "Pxy"], ["b", "Pxy"], ["c", "Pxy"]],
           "data": [["a", "o", "b", "x"], ["a", "o", "c", "x"]], "prewire": True, "cands": [],
           "ops": [["connect", "a", "y", "c", "o"], ["dag", "@wf"]]}


# ----------------------------------------------------------------------------- shrinking


def shrink_candidates(case):
    if case.get("malformed"):
        return
    ops = case["ops"]
    for i in range(len(ops)):
        c = _copy.deepcopy(case)
        del c["ops"][i]
        if c["ops"]:
            yield c
    for key in ("data", "vals", "sig", "cands", "forbid", "nonstrict"):
        for i in range(len(case.get(key) or [])):
            c = _copy.deepcopy(case)
            del c[key][i]
            yield c
    for flag in ("prewire",):
        if case.get(flag):
            c = _copy.deepcopy(case)
            c[flag] = False
            yield c
    if case.get("starting"):
        c = _copy.deepcopy(case)
        c["starting"] = []
        yield c
    used = {x for op in ops for x in op[1:] if isinstance(x, str)}
    used |= {d[0] for d in case.get("data", [])} | {d[2] for d in case.get("data", [])}
    if case["top"] != "wf":
        used |= {r[0] for r in case.get("returns", [])} | {u[0] for v in (case.get("uses") or {}).values() for u in v}
    for i, (lab, _cls) in enumerate(case["children"]):
        if lab not in used and len(case["children"]) > 1:
            c = _copy.deepcopy(case)
            del c["children"][i]
            c["vals"] = [v for v in c.get("vals", []) if v[0] != lab]
            c["sig"] = [s for s in c.get("sig", []) if lab not in s[:2]]
            if c.get("starting"):
                c["starting"] = [s for s in c["starting"] if s != lab]
            yield c
    if case["top"] != "wf":
        for name in list((case.get("uses") or {})):
            for i in range(len(case["uses"][name])):
                c = _copy.deepcopy(case)
                del c["uses"][name][i]
                yield c
        if case["top"] == "macro_in_wf" and "@wf" not in used:
            c = _copy.deepcopy(case)
            c["top"] = "macro"
            yield c
