"""C17 — node classes faithfully wrap their definitions."""

from __future__ import annotations

import hashlib
import itertools
import json
import os
import sys

PROP = "C17"
PROP_FILE = "PwVerif/Props/C17.lean"
DRIVER = "Driver/C17.lean"
THEOREMS = [
    "C17_inputs",
    "C17_preview_is_instance",
    "C17_labels_declared",
    "C17_labels_scraped",
    "C17_labels_none",
    "C17_labels_refused",
    "C17_output_count",
    "C17_fn_faithful",
    "C17_bind",
    "C17_run",
    "C17_run_plain",
    "C17_outputs_single",
    "C17_outputs_multi",
    "C17_fn_again",
    "C17_xf_preview",
    "C17_xf_list",
    "C17_xf_dict",
    "C17_xf_df",
    "C17_xf_unpack",
    "C17_dc_preview",
    "C17_xf_dataclass_partial",
    "C17_xf_dataclass_repaired",
    "C17_xf_dataclass_witness",
    "C17_xf_dataclass_def_witness",
    "C17_xf_rerun_repaired",
    "C17_xf_rerun_witness",
    "C17_bind_positions",
    "C17_default_identity",
    "C17_default_copy_witness",
    "C17_xf_list_index_order",
    "C17_xf_list_sorted_witness",
    "C17_class_per_definition_repaired",
    "C17_class_per_definition_witness",
    "C17_scrape_own_return",
    "C17_scrape_text",
    "C17_scrape_nested_witness",
    "C17_scrape_bytecols_witness",
    "C17_labels_from_source",
    "C17_inputs_kinds",
    "C17_bind_kinds",
    "C17_run_kinds_partial",
    "C17_run_kinds_repaired",
    "C17_run_kinds_witness",
    "C17_variadic_witness",
    "C17_dc_mro_as_coded",
    "C17_dc_mro_own_wins",
    "C17_dc_mro_isdataclass_witness",
    "C17_dc_inputs_repaired",
    "C17_dc_inputs_witness",
    "C17_preview_per_class",
    "C17_preview_inherited_witness",
    "C17_factory_per_instance",
    "C17_factory_cached_witness",
    "C17_run_names_repaired",
    "C17_run_names_witness",
    "C17_class_per_definition_by",
    "C17_class_same_by_eq_witness",
]
RULE = (
    "generated definitions written to REAL source files in the case's cwd and imported from there (inspect/ast "
    "scraping runs for real): functions with 0-5 positional-or-keyword parameters, defaults on a suffix, annotations "
    "(none, int, str, bool, list, None, int | None, typing.Union, typing.Optional), 0-4 returned values (variables, "
    "parameters, inline calls, one tuple variable, a 1-tuple), return statement on one line / parenthesised over "
    "several lines with a call split in two / twice in the body / bare / `return None` / absent, declared vs scraped "
    "labels (fitting, too few, too many, repeated, for a function returning nothing), with/without validation, return "
    "annotations (fitting, absent, wrong tuple length), a parameter named like a Node.__init__ keyword, with/without "
    "`from __future__ import annotations`, five creation APIs; transformers of size 0-5; dataclass layouts (required / "
    "default / default_factory, plain class or real @dataclass or a class used before); each definition is exercised "
    "by several fresh instances, each with a positional/keyword split at construction and another at call (all valid "
    "split pairs for arity <= 3 in quick, <= 4 in thorough), plus clashes, unknown keys, too many positionals, missing "
    "arguments and a repeated call; DEFAULT OBJECTS: parameter defaults, dataclass field defaults, products of default "
    "factories, defaults of a dictionary specification and supplied values are also drawn from a pool of 32 module-level "
    "objects for which equality, identity and copying differ (object() sentinels, marker instances, __eq__ always False / "
    "always True, objects refusing copy/deepcopy/pickle, objects whose copy is not equal to them, equal-by-value records, "
    "a NOT_DATA look-alike, shared mutable list/dict/set/bytearray/nested list, NaN, enum members, classes, functions, a "
    "lambda, Ellipsis; two of every identity-compared kind), named in the generated source so that bare twin and node "
    "function share ONE default object; their tokens are given by `is`; bodies of the form `A if p is _DEFAULT else B`; "
    "a caller passes the very default object, a look-alike of the same kind, or an unrelated object; SIZES PAST ONE DIGIT "
    "in both tiers: inputs_to_list / list_to_outputs of size 10, 11, 12, 21, 100, 101, inputs_to_dict with generated keys "
    "(k0..k99, shuffled or not) 10..100, tables of 10..101 rows, dataclasses with 10..21 (thorough 100) fields x1..xN, "
    "functions with 10..21 (30) parameters x1..xN, positional/keyword splits on both sides of position 10 and keywords "
    "written in reverse or shuffled order; CLASS REGISTRY: a dictionary specification preceded by another one of equal "
    "hash (-1/-2, 1/True, 0/False, 0.0/-0.0 alone and inside tuples, 1/1.0, 0.0/0), a dataclass preceded by another one of the same __name__; BODY STRUCTURE: the return "
    "statement 0-3 compound statements deep (if / else / elif / for / while / try-finally / except / try-else / with), "
    "next to docstrings and comments mentioning return, lambdas, helper functions without and with return statements "
    "(one value, a tuple, two returns), an async helper, a class with a method, a decorated helper, a helper two "
    "compound statements deep, a non-ASCII literal on the line of the return; PARAMETER KINDS: positional-only prefix, "
    "keyword-only suffix, `*var` / `**var` under reserved and unreserved names; RUN KEYWORDS: a parameter named like a keyword of Node.run (run_data_tree, fetch_input, raise_run_exceptions ...), "
    "given by keyword at call time; SPELLINGS: returned values written as "
    "quoted subscripts (either quote), calls without blanks / with blanks inside the parentheses / with hex, underscore, "
    "exponent literals, arithmetic without blanks, a trailing comma -- the expected label is the SOURCE text; ANNOTATED: "
    "typing.Annotated directly, in a union, in Optional, nested in a generic and in itself, also as string annotations; "
    "INSTANCE HISTORIES: several instances of one dataclass-node class, every factory-made mutable object mutated in "
    "place after the instance was looked at; SUBCLASS CHAINS: hand-written "
    "`class C(P)` over one or two concrete hand-written node classes, node_function overridden, the parent previewed / "
    "instantiated / run before the child is defined, after it, after the child was looked at, or never; DATACLASS "
    "HIERARCHIES: decorated and undecorated ancestors (1-2), a decorated or dataclass-like leaf that adds members, "
    "overrides inherited defaults (also by a default factory), ClassVar / InitVar / field(init=False) members at any "
    "level, kw_only classes; validity of a layout and what it is built from are decided by python's own dataclasses; "
    "non-trivial = at least one run returned a value"
)
TRUSTED = [
    "model FuncWrap transcribes ScrapesIO._build_inputs_preview/_build_outputs_preview/_validate*, "
    "ParseOutput.get_parsed_output, Function._build_outputs_preview, StaticNode._setup_node, HasIO.set_input_values, the "
    "readiness gate, Function.process_run_result/_outputs_to_run_return and the transformer/dataclass bodies for data "
    "values (validated on the explored cases only)",
    "python's `ast.parse` (the tree and the positions of its nodes) is trusted; the harness converts the tree of the "
    "generated node function (ast_lines: statement skeleton, scope flags, spans of the returned values, source lines as "
    "code points) into the model's term -- the one trusted step between the source file and the model; everything "
    "ParseOutput does with them is modelled (Model/PyAst.lean) and proved",
    "what inspect.signature(eval_str=True) / typing.get_args make of annotations (parameter list with kinds, evaluated "
    "annotations, get_args of the return annotation) is an INPUT of the model, computed by the harness by plain eval, "
    "independently of the library",
    "the reference binding in the oracle is Python's own inspect.Signature.bind_partial + calling the bare twin function",
    "which of the nine switch values (dataclass re-cast, cached transformer return, dictionary class by hash, dataclass "
    "node class by name, nested returns, byte columns, variadics by name, positional-only by keyword, raw dataclass "
    "fields) the tree shows is decided by nine fixed probes of the tree, not by the case under test",
    "for dataclass hierarchies the reference is python's own `dataclasses` applied to a twin of the layout (same class "
    "bodies, the leaf decorated): its field table, its __init__ parameters, the object it builds",
    "identity of objects is observed with python's `is` against the pool of nodes_c17 (token `@k.kind` = IS pool object k, "
    "`~k.kind` = a copy of it); in the model an object is `Val.obj id kind` and nothing but the driver's `I<i>:<k>` return "
    "form looks at `id`",
    "the class names the factories derive (hash of a specification, __name__ of a dataclass) are run-time facts observed "
    "on the implementation and fed to the model as `regkey`; the defining objects are numbered by the harness",
]
ASSUMPTIONS = [
    "supplied values and defaults conform to the annotations and are never NOT_DATA; the source of the function is "
    "available; node functions do not use `self`; on definitions with a variadic parameter (documented as unsupported) "
    "the oracle makes no demand and `**var` is never given a value; a split python refuses ONLY because of a parameter's "
    "kind is not demanded to be refused by the node; white space in return expressions is ASCII",
    "values are not mutated (a shared mutable default is the same object in every instance and in the bare function, "
    "which is what is checked; what mutation would then do is Python's business); the wrapped function is deterministic",
    "'with the parameter's default' is read as: the input channel (class-level preview, instance `default`, initial "
    "`value`) holds the default OBJECT of the signature / dataclass field / specification, `held is default`; the "
    "product of a default_factory is compared with what Python's own dataclass call puts into the field (by value, and by "
    "identity when the factory hands out a shared object)",
    "pandas.DataFrame abstracted to its ordered columns (to_dict('list'))",
    "the oracle makes no demand on definitions outside the statement (reserved parameter names, repeated labels, a "
    "second return statement with scraping/validation, a return annotation whose tuple length does not fit) nor on "
    "output hints of functions without return annotation; these are compared with the model only",
]

#: the keywords of Node.run: `node(..., <name>=v)` goes through `pull` and `run`, which have parameters of these names
RUN_KW = ["run_data_tree", "run_parent_trees_too", "fetch_input", "check_readiness", "raise_run_exceptions", "emit_ran_signal"]
INIT_KW = {"label", "parent", "delete_existing_savefiles", "autoload", "autorun", "checkpoint", "self", "args", "kwargs"}
NAMES = ["a", "b", "c", "x", "y", "val", "n_", "q1", "item", "other"]
ANNS = [None, None, None, "int", "str", "None", "int | None", "typing.Union[int, str]", "typing.Optional[str]", "bool", "list",
        # typing.Annotated: directly, in a union / Optional, nested in a generic (the metadata is part of the annotation)
        "typing.Annotated[int, 'angstrom']", "typing.Annotated[int, 'eV'] | None",
        "typing.Optional[typing.Annotated[str, 'label']]", "list[typing.Annotated[int, 'site']]",
        "typing.Annotated[list[typing.Annotated[int, 'i']], 'outer', 3]"]

#: which plain annotation tells what values fit
_ANN_BASE = {"typing.Annotated[int, 'angstrom']": "int", "typing.Annotated[int, 'eV'] | None": "int | None",
             "typing.Optional[typing.Annotated[str, 'label']]": "typing.Optional[str]",
             "list[typing.Annotated[int, 'site']]": "list[int]",
             "typing.Annotated[list[typing.Annotated[int, 'i']], 'outer', 3]": "list[int]"}


# ----------------------------------------------------------------------------- tokens <-> python values


def _split_top(s: str) -> list[str]:
    out, depth, cur = [], 0, ""
    for ch in s:
        if ch == "(":
            depth += 1
        elif ch == ")":
            depth -= 1
        if ch == "," and depth == 0:
            out.append(cur)
            cur = ""
        else:
            cur += ch
    if cur or out:
        out.append(cur)
    return out


def val(t: str):
    """token -> python value (input side only: ints, strs, None, bools, lists, tuples, dicts; `@<k>.<kind>` is THE
    pool object number k of nodes_c17 -- an object with an identity)"""
    if t.startswith("@"):
        from .nodes_c17 import POOL, pool_index

        return POOL[pool_index(t)]
    if t == "None":
        return None
    if t == "bT":
        return True
    if t == "bF":
        return False
    if t.endswith(")") and "(" in t:
        tag, body = t[: t.index("(")], t[t.index("(") + 1: -1]
        items = _split_top(body) if body else []
        if tag == "list":
            return [val(x) for x in items]
        if tag == "tuple":
            return tuple(val(x) for x in items)
        if tag == "dict":
            return {x[: x.index("=")]: val(x[x.index("=") + 1:]) for x in items}
        raise ValueError(t)
    if t.startswith("i"):
        return int(t[1:])
    if t.startswith("s"):
        return t[1:]
    if t.startswith("f"):
        return float(t[1:])  # f0.0, f-0.0, f1.0 (the sign of zero is part of the token)
    raise ValueError(t)


def tok(v) -> str:
    """python value -> canonical token (same grammar as the Lean driver prints)"""
    import dataclasses

    from pyiron_workflow.channels import NOT_DATA

    from .nodes_c17 import Term, pool_token

    if v is NOT_DATA:
        return "ND"
    pt = pool_token(v)  # by IDENTITY, before anything that would ask the object about itself (`==`, `bool`)
    if pt is not None:
        return pt
    if v is None:
        return "None"
    if isinstance(v, bool):
        return "bT" if v else "bF"
    if isinstance(v, int):
        return f"i{v}"
    if isinstance(v, float):
        return f"f{v!r}"
    if isinstance(v, str):
        return "s" + v
    if isinstance(v, Term):
        return f"app{v.i}(" + ",".join(tok(x) for x in v.args) + ")"
    if isinstance(v, tuple):
        return "tuple(" + ",".join(tok(x) for x in v) + ")"
    if isinstance(v, list):
        return "list(" + ",".join(tok(x) for x in v) + ")"
    if isinstance(v, dict):
        return "dict(" + ",".join(f"{k}={tok(x)}" for k, x in v.items()) + ")"
    if dataclasses.is_dataclass(v) and not isinstance(v, type):
        return "dc(" + ",".join(f"{f.name}={tok(getattr(v, f.name))}" for f in dataclasses.fields(v)) + ")"
    try:
        from pandas import DataFrame

        if isinstance(v, DataFrame):
            d = v.to_dict("list")
            return "df(" + ",".join(f"{k}={tok(list(x))}" for k, x in d.items()) + ")"
    except ImportError:
        pass
    return f"obj:{type(v).__name__}"


def lit(t: str) -> str:
    """token -> python source expression (a pool object is NAMED, `_P[k]`, so that every function / class of the
    generated file that uses it as a default shares the one object)"""
    if t.startswith("@"):
        from .nodes_c17 import pool_index

        return f"_P[{pool_index(t)}]"
    assert "@" not in t, t
    return repr(val(t))


def is_pool(t) -> bool:
    return isinstance(t, str) and t.startswith("@")


def looks(t: str) -> str:
    """what a token looks like when identity is ignored: a copy `~k.kind` of a pool object looks like `@k.kind`"""
    return t.replace("~", "@")


# ----------------------------------------------------------------------------- generation


class _Ctr:
    def __init__(self):
        self.k = 100

    def fresh(self, rng, ann, alts=None):
        """a fresh value token fitting the annotation; `alts` = pool objects this parameter should also be given
        explicitly (its own default object, a look-alike of the same kind, some other object with an identity)"""
        self.k += 1
        k = self.k
        if alts and rng.random() < 0.6:
            return rng.choice(alts)
        ann = _ANN_BASE.get(ann, ann)
        if ann == "list[int]":
            return rng.choice([f"list(i{k})", "list()", f"list(i{k},i{k + 1000})"])
        if ann in ("object", "typing.Any"):
            ann = None
        if ann is None:
            return rng.choice([f"i{k}", f"sv{k}", "None", f"list(i{k})", f"i{k}"])
        if ann == "int":
            return f"i{k}"
        if ann == "str":
            return f"sv{k}"
        if ann == "None":
            return "None"
        if ann == "int | None":
            return rng.choice([f"i{k}", "None"])
        if ann == "typing.Union[int, str]":
            return rng.choice([f"i{k}", f"sv{k}"])
        if ann == "typing.Optional[str]":
            return rng.choice([f"sv{k}", "None"])
        if ann == "bool":
            return rng.choice(["bT", "bF"])
        if ann == "list":
            return rng.choice([f"list(i{k})", "list()", f"list(sv{k},i{k})"])
        if ann == "dict":
            return f"dict(k=i{k})"
        raise ValueError(ann)


def _natural(name: str):
    """x2 < x10: split a trailing number off"""
    head = name.rstrip("0123456789")
    return (head, int(name[len(head):] or -1))


#: sizes at and past the points where the order of the labels as strings and their numeric order part ways
BIG = [10, 11, 12, 21, 100, 101]


def all_valid_splits(names):
    n = len(names)
    for p in range(n + 1):
        rest = names[p:]
        for r in range(len(rest) + 1):
            for ks in itertools.combinations(rest, r):
                yield p, list(ks)


def _mk_args(rng, ctr, params, p, keys):
    """[positional tokens, {key: token}] for the first p parameters positionally and `keys` by keyword"""
    ann = {q["name"]: q.get("ann") for q in params}
    alts = {q["name"]: q.get("alts") for q in params}
    pos = []
    for i in range(p):
        a = params[i].get("ann") if i < len(params) else None
        pos.append(ctr.fresh(rng, a, params[i].get("alts") if i < len(params) else None))
    ks = sorted(keys, key=_natural)  # sets of strings iterate in hash order: sort first for a seeded, reproducible case
    r = rng.random()
    if r < 0.2:
        ks.reverse()  # keywords written back to front (item_11=…, item_10=…, …)
    elif r < 0.8:
        rng.shuffle(ks)
    return [pos, {k: ctr.fresh(rng, ann.get(k), alts.get(k)) for k in ks}]


def gen_run(rng, ctr, params, again_p=0.3):
    if any(q.get("kind") in ("vp", "vk") for q in params):
        # a definition with a variadic: values for the ordinary parameters in front of it only (now and then one for `*var`)
        cut = next(i for i, q in enumerate(params) if q.get("kind") in ("vp", "vk"))
        run = gen_run(rng, ctr, params[:cut], again_p=0.0)
        if any(q.get("kind") == "vk" for q in params):
            # `**var` is never given a value (what python does with `f(**{"var": v, …})` is outside the model): no
            # positional overflow into the variadic inputs
            nfree = cut
            run["inst"][0] = run["inst"][0][:nfree]
            run["call"][0] = run["call"][0][:nfree]
        if params[cut]["kind"] == "vp" and not any(q.get("kind") == "vk" for q in params) and rng.random() < 0.3:
            run["call"][1][params[cut]["name"]] = "tuple(i7)"
        return run
    n = len(params)
    names = [q["name"] for q in params]
    if n >= 10:
        # positional / keyword splits on both sides of the one-digit boundary
        p1 = min(n, rng.choice([0, 0, 2, 5, 9, 10, 11, n - 1, n]))
        p2 = min(n, rng.choice([0, 0, 1, 9, 10, 11, 12, n - 1, n]))
    else:
        p1 = min(n, rng.choice([0, 0, 0, 0, 1, 1, 2, 3, n]))
        p2 = min(n, rng.choice([0, 0, 0, 1, 1, 2, 3, n, n]))
    k1 = {x for x in names[p1:] if rng.random() < 0.25}
    k2 = {x for x in names[p2:] if rng.random() < 0.4}
    covered = set(names[:p1]) | set(names[:p2]) | k1 | k2
    for i, q in enumerate(params):
        if q.get("default") is None and q["name"] not in covered and rng.random() < 0.88:
            if i >= p2 and (rng.random() < 0.7 or i < p1):
                k2.add(q["name"])
            elif i >= p1:
                k1.add(q["name"])
    r = rng.random()
    if r < 0.05 and p1 > 0:
        k1.add(names[rng.randrange(p1)])  # clash at construction
    elif r < 0.11 and p2 > 0:
        k2.add(names[rng.randrange(p2)])  # clash at call
    elif r < 0.15:
        k1.add("zz")
    elif r < 0.20:
        k2.add("zz")
    elif r < 0.23:
        p1 = n + 1
    elif r < 0.27:
        p2 = n + 1
    run = {"inst": _mk_args(rng, ctr, params, p1, k1), "call": _mk_args(rng, ctr, params, p2, k2)}
    if rng.random() < again_p:
        run["again"] = True
    return run


def pool_default(rng, hashable=False):
    """a default that is an object with an identity: (annotation, its token, the tokens a caller might pass instead:
    the very object, a look-alike of the same kind, an unrelated object)"""
    from .nodes_c17 import HASHABLE_KINDS, KINDS, siblings

    cand = [k for k, kind in enumerate(KINDS) if not hashable or kind in HASHABLE_KINDS]
    k = rng.choice(cand)
    kind = KINDS[k]
    if kind == "list":
        ann = rng.choice([None, "list", "object"])
    elif kind == "dict":
        ann = rng.choice([None, "dict", "typing.Any"])
    else:
        ann = rng.choice([None, None, "object", "typing.Any"])
    t = f"@{k}.{kind}"
    alts = [t] + [f"@{j}.{KINDS[j]}" for j in siblings(k)]
    if ann in (None, "object", "typing.Any"):
        j = rng.choice(cand)
        alts.append(f"@{j}.{KINDS[j]}")
    return ann, t, alts


def gen_params(rng, n, pool_p=0.3):
    if n <= len(NAMES) and rng.random() < 0.85:
        names = rng.sample(NAMES, n)
    else:
        names = [f"x{i + 1}" for i in range(n)]  # x1 … x12: the order as strings is not the order of the parameters
    ndef = rng.choice([0, 0, 1, 2, n]) if n else 0
    if n >= 10:
        ndef = rng.choice([0, 1, 2, n - 9, n - 10 if n > 10 else 1, n])
    ndef = max(0, min(ndef, n))
    ctr = _Ctr()
    ctr.k = 0
    params = []
    for i, name in enumerate(names):
        ann = rng.choice(ANNS)
        q = {"name": name, "ann": ann, "default": None}
        if i >= n - ndef:
            if rng.random() < pool_p:
                q["ann"], q["default"], q["alts"] = pool_default(rng)
            else:
                q["default"] = ctr.fresh(rng, ann)
        elif ann is None and rng.random() < 0.1:
            # a required parameter that is handed objects with an identity
            _a, t, alts = pool_default(rng)
            q["alts"] = alts
        params.append(q)
    return params


def gen_fn_case(rng, tier, idx, n=None, exhaustive=False):
    n = rng.choice([0, 1, 1, 2, 2, 3, 3, 4, 5]) if n is None else n
    params = gen_params(rng, n)
    from .nodes_c17 import IDENTITY_KINDS

    # parameters whose default is an object a body would recognise by `is`
    idp = [i for i, q in enumerate(params)
           if is_pool(q.get("default")) and q["default"].split(".", 1)[1] in IDENTITY_KINDS]
    if n >= 1 and not exhaustive and rng.random() < 0.02:
        # a parameter named like a keyword of Node.__init__: the definition is refused
        params[rng.randrange(n)]["name"] = rng.choice(["label", "parent", "autorun", "args", "kwargs", "checkpoint", "self"])
    if n >= 1 and not exhaustive and rng.random() < 0.04:
        # a parameter named like a keyword of Node.run: can it be given its value by keyword when the node is called?
        q = params[rng.randrange(n)]
        q["name"] = rng.choice(RUN_KW)
        if q["name"] == "raise_run_exceptions":
            # (taken for the run FLAG by the pinned code: keep it truthy, a false one would also silence a failing run)
            q["ann"] = "int"
            q.pop("alts", None)
            if q["default"] is not None:
                q["default"] = "i7"
        idp = [i for i, qq in enumerate(params)
               if is_pool(qq.get("default")) and qq["default"].split(".", 1)[1] in IDENTITY_KINDS]
    nret = rng.choice([0, 1, 1, 1, 2, 2, 3, 4])
    rets = []  # [spec, source text, pre-statement, hint]
    used = set()
    for j in range(nret):
        kind = rng.choice(["t", "t", "t", "p", "e"] if n else ["t", "t", "e"])
        if kind == "p":
            cand = [i for i in range(n) if params[i]["name"] not in used]
            if not cand:
                kind = "t"
            else:
                i = rng.choice(cand)
                used.add(params[i]["name"])
                rets.append([f"p{i}", params[i]["name"], None, params[i]["ann"] or "object"])
                continue
        argl = ", ".join(q["name"] for q in params)
        call = f"_T({j}{', ' if argl else ''}{argl})"
        if idp and rng.random() < 0.5:
            # the returned value depends on `<parameter> is <its default object>` (the sentinel idiom)
            i = rng.choice(idp)
            other = f"_T({j + 50}, {argl})"
            rets.append([f"I{j}:{i}", f"r{j}", f"r{j} = {call} if {params[i]['name']} is {lit(params[i]['default'])} else {other}", "_T"])
            continue
        sp = rng.random()
        if sp < 0.12:
            # a subscript with a quoted key: the label is the text AS WRITTEN (double or single quotes)
            qt = rng.choice(['"', '"', "'"])
            rets.append([f"t{j}", f"d{j}[{qt}k{qt}]", f"d{j} = {{'k': {call}}}", "_T"])
        elif sp < 0.3:
            # the same call in a spelling that is not the canonical rendering of its ast: no blanks, blanks inside the
            # parentheses, hex / underscore literals, arithmetic without blanks, a redundant pair of parentheses
            nosp = ",".join([*[q["name"] for q in params]])
            sep = "," if nosp else ""
            text = rng.choice([
                f"_T({j}{sep}{nosp})",
                f"_T( {j}{' , ' if argl else ''}{' , '.join(q['name'] for q in params)} )",
                f"_T(0x{j:x}{', ' if argl else ''}{argl})",
                f"_T({j}+0{', ' if argl else ''}{argl})",
                f"_T(1_0//10*{j}{sep}{nosp})",
                f"_T({j}{', ' if argl else ''}{argl},)" if argl else f"_T({j},)",
                f"_T(int({j}e0){', ' if argl else ''}{argl})",
            ])
            rets.append([f"t{j}", text, None, "_T"])
        elif kind == "t":
            rets.append([f"t{j}", f"r{j}", f"r{j} = {call}", "_T"])
        else:
            rets.append([f"t{j}", call, None, "_T"])
    single_tuple = nret >= 2 and rng.random() < 0.12
    ret_style = rng.choice(["none", "return_none", "bare_return"]) if nret == 0 else "values"
    # how the return statement is written (the body computes the same in every layout)
    layout = "line"
    lr = rng.random()
    if nret >= 2 and not single_tuple and lr < 0.15:
        layout = "multiline"  # parenthesised tuple, one element per line, a call split over two lines
    elif nret >= 1 and not single_tuple and lr < 0.22:
        layout = "two_returns"  # a second (dead) return statement: scraping/validation refuse, labels + no validation work
    elif nret == 1 and not single_tuple and lr < 0.30:
        layout = "one_tuple"  # `return r0,` : an ast.Tuple of one element, the returned object is a 1-tuple
    dup_ret = False
    if nret >= 2 and n >= 1 and not single_tuple and rng.random() < 0.04:
        dup_ret = True  # the same parameter returned twice: scraped labels repeat
        i = rng.randrange(n)
        for j in (0, 1):
            rets[j] = [f"p{i}", params[i]["name"], None, params[i]["ann"] or "object"]
    nvals = 0 if nret == 0 else (1 if single_tuple else nret)
    nout_scraped = max(1, nvals)
    declared = None
    validate = True
    mode = rng.random()
    if mode < 0.45:
        declared = [f"out{j}" for j in range(nout_scraped)] if nvals > 0 else None
    elif mode < 0.52 and nvals >= 2:
        declared = ["only"]  # documented: one label forces a single tuple output
        validate = False
    elif mode < 0.58 and nvals >= 1:
        declared = [f"out{j}" for j in range(nvals + rng.choice([-1, 1, 2]))]  # mismatch, validation on => refused
        if len(declared) == 0:
            declared = None
    elif mode < 0.62 and nvals >= 2 and tier == "thorough":
        declared = [f"out{j}" for j in range(max(2, nvals + rng.choice([-1, 1])))]  # mismatch, validation OFF
        validate = False
    elif mode < 0.64 and nvals >= 2:
        declared = ["same"] * nvals  # repeated declared labels
    elif mode < 0.70 and nvals == 0:
        declared = ["out0"]  # a label for a function that returns nothing: refused by validation, one output without
        validate = rng.random() < 0.6
    if declared is not None and validate and rng.random() < 0.15 and len(declared) == nvals:
        validate = False  # consistent labels, validation merely switched off
    if layout == "two_returns" and declared is not None and len(declared) == nvals and rng.random() < 0.7:
        validate = False
    ret_ann = None
    ra = rng.random()
    if ra < 0.4:
        nout = len(declared) if declared is not None else nout_scraped
        if nvals == 0:
            ret_ann = "None"
        elif single_tuple or layout == "one_tuple":
            ret_ann = "tuple" if nout == 1 else None
        elif nvals == 1:
            ret_ann = rets[0][3] if nout == 1 else None
        else:
            if nout == nvals:
                ret_ann = "tuple[" + ", ".join(r[3] for r in rets) + "]"
            elif nout == 1:
                ret_ann = "tuple"
    elif ra < 0.43 and nvals >= 2:
        # an annotation whose number of tuple hints does not fit the number of outputs: the definition is refused
        nout = len(declared) if declared is not None else nout_scraped
        cand = [c for c, k in (("tuple[int]", 1), ("None", 0), ("tuple", 0), ("tuple[" + ", ".join(["int"] * (nvals + 1)) + "]", nvals + 1))
                if nout >= 2 and k != nout]
        ret_ann = rng.choice(cand) if cand else None
    if declared is not None and len(set(declared)) != len(declared):
        ret_ann = None  # repeated labels collapse (python dict); with hints the stored object would not fit them
    api = rng.choice(["dec", "dec_call", "dec_labels", "dec_labels", "to_fn", "fn_node"])
    if declared is not None and api in ("dec", "dec_call"):
        api = "dec_labels"
    if declared is None and api == "dec_labels":
        api = "dec"
    if not validate and api in ("dec", "dec_call"):
        api = "dec_labels"
    subclass = None
    if not exhaustive and rng.random() < 0.12:
        # a hand-written node class that extends a CONCRETE hand-written node class (one or two levels up) and overrides
        # node_function; the parent is previewed / instantiated before the child is defined, after it, or only after
        # the child was looked at
        api = "subclass"
        subclass = {"levels": rng.choice([1, 1, 2]),
                    "parent_used": rng.choice(["before_def", "before_def", "after_def", "after_child", "never"]),
                    "how": rng.choice(["preview", "instance", "run"])}
    # --- how the body is built around the return statement, and what else stands in it
    wrap, extras, nonascii = [], [], False
    if layout != "two_returns":
        depth = rng.choice([0, 0, 0, 1, 1, 2, 3])
        wrap = [rng.choice(WRAPS) for _ in range(depth)]
    if rng.random() < 0.3:
        extras = rng.sample(sorted(EXTRAS), rng.choice([1, 1, 2, 3]))
    if layout in ("line", "one_tuple") and ret_style == "values" and not single_tuple and not any(EXTRAS[x][1] for x in extras) \
            and rng.random() < 0.06:
        nonascii = True
    # --- parameter kinds: positional-only prefix, keyword-only suffix, now and then a variadic
    if n and not exhaustive and rng.random() < 0.22:
        npo = rng.choice([0, 0, 1, 1, 2, n])
        nko = rng.choice([0, 1, 1, 2, n])
        npo = min(npo, n)
        variadic = rng.random() < 0.2
        nko = 0 if variadic else min(nko, n - npo)
        for i, q in enumerate(params):
            q["kind"] = "po" if i < npo else ("ko" if i >= n - nko else "pk")
        if variadic:
            # a variadic (documented as unsupported), after the ordinary parameters (the body does not use it)
            both = rng.random()
            taken = {q["name"] for q in params}
            if both < 0.7:
                params.append({"name": rng.choice([x for x in ["rest", "args", "more_values"] if x not in taken]),
                               "ann": None, "default": None, "kind": "vp"})
            if both > 0.4:
                params.append({"name": rng.choice([x for x in ["more", "kwargs", "options"] if x not in taken]),
                               "ann": None, "default": None, "kind": "vk"})
            n = len(params)
    case = {
        "kind": "fn", "id": f"{tier[0]}{idx}", "params": params,
        "rets": [[r[0], r[1], r[2]] for r in rets], "single_tuple": single_tuple, "ret_style": ret_style,
        "declared": declared, "validate": validate, "ret_ann": ret_ann,
        "future": rng.random() < 0.4, "api": api, "layout": layout,
        "wrap": wrap, "extras": extras, "nonascii": nonascii,
    }
    if subclass is not None:
        case["subclass"] = subclass
    ctr = _Ctr()
    if exhaustive:
        names = [q["name"] for q in params]
        splits = list(all_valid_splits(names))
        runs = []
        for (p1, k1) in splits:
            for (p2, k2) in splits:
                runs.append({"inst": _mk_args(rng, ctr, params, p1, k1), "call": _mk_args(rng, ctr, params, p2, k2)})
        case["runs"] = runs
    else:
        case["runs"] = [gen_run(rng, ctr, params) for _ in range(8 if tier == "quick" else 16)]
    return case


def _item_params(pre, n, ann=None):
    return [{"name": f"{pre}{i}", "ann": ann, "default": None} for i in range(n)]


def gen_xf_case(rng, tier, idx, kind=None, n=None):
    kind = kind or rng.choice(["list", "dict", "df", "unpack", "dc", "dc"])
    if n is None:
        n = rng.randrange(0, 6) if rng.random() < 0.93 else rng.choice(BIG[:4] + [13, 20, 22, 30])
    ctr = _Ctr()
    nruns = 6 if tier == "quick" else 12
    if n >= 10:
        nruns = 3 if tier == "quick" else 6
    case = {"kind": kind, "id": f"{tier[0]}x{idx}", "n": n, "api": rng.choice(["class", "helper"])}
    if kind == "list":
        params = _item_params("item_", n)
        if rng.random() < 0.3:
            for q in params:
                if rng.random() < 0.3:
                    q["alts"] = pool_default(rng)[2]
        case["runs"] = [gen_run(rng, ctr, params) for _ in range(nruns)]
    elif kind == "dict":
        alts = {}
        if n <= 8 and rng.random() < 0.8:
            names = rng.sample(NAMES + ["k1", "k2", "k3"], n)
        else:
            pre = rng.choice(["k", "key_", "x"])
            names = [f"{pre}{i}" for i in range(n)]  # generated keys: k10 sorts before k2
            if rng.random() < 0.3:
                rng.shuffle(names)  # the specification's order is the order, whatever the keys look like
        if rng.random() < 0.5:
            case["spec"] = [[x, None, None] for x in names]  # plain list of keys
            case["spec_form"] = "list"
        else:
            spec = []
            for x in names:
                ann = rng.choice([None, "int", "str", "bool"])  # the specification must be hashable
                d = ctr.fresh(rng, ann or rng.choice(["int", "str", "None"])) if rng.random() < 0.4 else None
                if rng.random() < 0.15:
                    ann, d, alts[x] = pool_default(rng, hashable=True)  # a default that is an object with an identity
                spec.append([x, ann, d])
            case["spec"] = spec
            case["spec_form"] = "dict"
            if spec and rng.random() < 0.1:
                # earlier in the session ANOTHER specification was used that python gives the same hash: it differs in
                # one default only, by a value with the same hash (hash(-1) == hash(-2); 1 == True, 0 == False)
                i = rng.randrange(len(spec))
                # -- or by a value that is even `==` to it: signed zeros, the same number as int / float / bool
                a, b = rng.choice([("i-1", "i-2"), ("i-2", "i-1"), ("i1", "bT"), ("bT", "i1"), ("i0", "bF"), ("bF", "i0"),
                                   ("f0.0", "f-0.0"), ("f-0.0", "f0.0"), ("f-0.0", "f0.0"), ("i1", "f1.0"), ("f0.0", "i0"),
                                   ("tuple(i1,f0.0)", "tuple(i1,f-0.0)"), ("tuple(f-0.0)", "tuple(f0.0)")])
                spec[i] = [spec[i][0], None, a]
                alts.pop(spec[i][0], None)
                case["prior_spec"] = [list(e) for e in spec]
                case["prior_spec"][i] = [spec[i][0], None, b]
        params = [{"name": x, "ann": a, "default": d, "alts": alts.get(x)} for x, a, d in case["spec"]]
        case["runs"] = [gen_run(rng, ctr, params) for _ in range(nruns)]
    elif kind == "df":
        params = _item_params("row_", n, "dict")
        keys = rng.sample(["a", "b", "c", "d"], rng.randrange(0, 4))
        runs = []
        for _ in range(nruns):
            run = gen_run(rng, ctr, params)
            mode = rng.random()
            rowno = 0
            for part in ("inst", "call"):
                pos, kw = run[part]

                def mkrow():
                    nonlocal rowno
                    ks = list(keys)
                    if rowno > 0:
                        rng.shuffle(ks)  # later rows may list the keys in another order
                        if mode < 0.08 and ks:
                            ks = ks[:-1]  # a missing key: pandas refuses unequal columns
                        elif mode < 0.14:
                            ks = ks + ["extra"]  # an unknown key: KeyError
                    rowno += 1
                    ctr.k += 1
                    return "dict(" + ",".join(f"{k}=i{ctr.k}{j}" for j, k in enumerate(ks)) + ")"

                run[part] = [[mkrow() for _ in pos], {k: mkrow() for k in kw}]
            runs.append(run)
        case["runs"] = runs
    elif kind == "unpack":
        params = [{"name": "list", "ann": "list", "default": None}]
        runs = []
        for _ in range(nruns):
            run = gen_run(rng, ctr, params)
            m = rng.choice([n, n, n, max(0, n - 1), n + 1, 0])
            for part in ("inst", "call"):
                pos, kw = run[part]

                def mklist():
                    ctr.k += 1
                    return "list(" + ",".join(f"i{ctr.k}{j}" for j in range(m)) + ")"

                run[part] = [[mklist() for _ in pos], {k: mklist() for k in kw}]
            runs.append(run)
        case["runs"] = runs
    elif kind == "dc":
        n = max(n, 1) if rng.random() < 0.9 else n
        if n <= len(NAMES) and rng.random() < 0.85:
            names = rng.sample(NAMES, n)
        else:
            names = [f"x{i + 1}" for i in range(n)]
        nreq = rng.randrange(0, n + 1)
        if n >= 10:
            nreq = rng.choice([0, 1, 9, 10, n - 1, n])
        fields = []
        alts = {}
        for i, x in enumerate(names):
            ann = rng.choice(["int", "str", "list", "int | None", "typing.Optional[str]", "bool"])
            if i < nreq:
                fields.append([x, ann, "n", None])
            elif rng.random() < 0.25:
                # the field default / the product of the default factory is an object with an identity (dataclasses
                # itself refuses unhashable plain defaults)
                k = rng.choice(["v", "v", "f"])
                ann, d, alts[x] = pool_default(rng, hashable=(k == "v"))
                fields.append([x, ann or "object", k, d])
            else:
                k = rng.choice(["v", "f", "f"]) if ann != "list" else "f"  # mutable defaults need a factory
                fields.append([x, ann, k, ctr.fresh(rng, ann)])
        case["fields"] = fields
        case["already"] = rng.random() < 0.5
        case["how"] = rng.choice(["decorator", "decorator", "prior"])
        if rng.random() < 0.08:
            # earlier in the session ANOTHER dataclass with the same `__name__` was turned into a node class
            pn = rng.randrange(0, 4)
            # (hinted `object`: while the defect is in the tree the instances are made from THIS class and are handed the
            # values generated for the class under test; type checking of values is C04's business)
            case["prior_fields"] = [[x, "object", "v", f"i{900 + j}"] for j, x in enumerate(rng.sample(NAMES, pn))]
            case["api"] = "factory"
            case["how"] = "decorator"  # (`how: prior` goes through as_dataclass_node, which empties the registry entry)
        params = [{"name": x, "ann": a, "default": d, "alts": alts.get(x)} for x, a, _k, d in fields]
        if n <= 6 and "prior_fields" not in case and rng.random() < 0.35:
            hp = gen_dc_hier(rng, ctr, case)
            if hp is not None:
                params = hp
        case["runs"] = [gen_run(rng, ctr, params) for _ in range(nruns)]
        if "prior_fields" not in case and rng.random() < 0.5 and any(
                k == "f" and not is_pool(d) for c in [case, *(case.get("chain") or [])] for _x, _a, k, d in c["fields"]):
            # a HISTORY of instances of ONE node class: after every instance has been looked at, whatever mutable object
            # a default factory made for it is mutated (through the node's input; the built dataclass holds the same
            # object) -- the next instance must start from the factory's own product again
            case["mutate"] = True
            if case["api"] == "helper":
                case["api"] = "class"
        if any(o in ("cv", "i0") for c in [case, *(case.get("chain") or [])] for o in (c.get("opts") or {}).values()):
            # members that are no init parameters: values are given by keyword only (a tree that makes inputs of such
            # members numbers the positions differently, and a value landing on one of them is a matter of type
            # checking, C04)
            names = [q["name"] for q in params]
            for run in case["runs"]:
                for part in ("inst", "call"):
                    pos, kw = run[part]
                    for i, v in enumerate(pos):
                        if i < len(names) and names[i] not in kw:
                            kw[names[i]] = v
                    run[part] = [[], kw]
    return case


DC_ANNS = ["int", "str", "int | None", "typing.Optional[str]", "bool"]


def gen_dc_hier(rng, ctr, case):
    """turn the flat layout of `case` into a class hierarchy: decorated and undecorated ancestors, a leaf that adds
    members, overrides inherited defaults (also by a default factory), re-declares an inherited member, members that are
    no init parameters (ClassVar, field(init=False)) or no fields (InitVar), kw_only classes.  Python's own `dataclasses`
    decides whether the layout is valid (dc_twin) and what the class is built from; returns the parameter list for the
    runs (None: no valid hierarchy found, the case stays flat)"""
    own = [list(f) for f in case["fields"]]
    pool = [x for x in NAMES + ["k1", "k2", "k3", "w", "z9"] if x not in {f[0] for f in own}]
    for _attempt in range(10):
        rng.shuffle(pool)
        names = iter(pool)
        nlev = rng.choice([1, 1, 1, 2])
        chain, inherited = [], []  # inherited: [name, ann] a child may re-declare
        for j in range(nlev):
            deco = rng.random() < (0.9 if j == 0 else 0.6)
            kwo = deco and rng.random() < 0.15
            flds, opts = [], {}
            nreq = rng.choice([0, 1, 1, 2]) if (j == 0 or kwo) else 0
            for _ in range(nreq):
                flds.append([next(names), rng.choice(DC_ANNS), "n", None])
            for _ in range(rng.choice([0, 1, 2])):
                ann = rng.choice(DC_ANNS + ["list"])
                k = "f" if ann == "list" else rng.choice(["v", "v", "f"])
                x = next(names)
                flds.append([x, ann, k, ctr.fresh(rng, ann)])
                o = rng.random()
                if o < 0.2 and k == "v":
                    opts[x] = "cv"
                elif o < 0.32:
                    opts[x] = "i0"
                elif o < 0.45 and k == "v":
                    opts[x] = "iv"
            if j > 0 and deco and inherited and rng.random() < 0.5:
                x, ann = rng.choice(inherited)  # a decorated class in the middle overrides an inherited default
                flds.append([x, ann, "v" if ann != "list" else "f", ctr.fresh(rng, ann)])
            chain.append({"deco": deco, "kw_only": kwo, "fields": flds, "opts": opts})
            if deco:  # (the members of an undecorated class in the middle are lost for its children)
                inherited += [[f[0], f[1]] for f in flds if opts.get(f[0]) is None]
        leaf = [f for f in own]
        lopts = {}
        for f in leaf:
            o = rng.random()
            if is_pool(f[3]) and f[3].split(".", 1)[1] in ("function", "lambda"):
                # (a function object kept as a CLASS attribute is a descriptor: read through an instance it comes back
                # as a bound method -- python's business, not the node's; such a default stays an ordinary init field)
                continue
            if f[2] == "v" and o < 0.12:
                lopts[f[0]] = "cv"
            elif f[2] in ("v", "f") and o < 0.22:
                lopts[f[0]] = "i0"
            elif f[2] == "v" and o < 0.32:
                lopts[f[0]] = "iv"
        for x, ann in rng.sample(inherited, min(len(inherited), rng.choice([0, 1, 1, 2]))):
            # the leaf overrides an inherited member: another default, a default for a required one, a default factory
            k = "f" if ann == "list" else rng.choice(["v", "v", "f"])
            leaf.insert(rng.randrange(len(leaf) + 1), [x, ann, k, ctr.fresh(rng, ann)])
        trial = dict(case)
        trial.update({"chain": chain, "fields": leaf, "opts": lopts,
                      "kw_only": bool(case["already"] and case.get("how") == "decorator" and rng.random() < 0.15)})
        B = dc_twin(trial)
        if B is None:
            continue
        case.update({"chain": chain, "fields": leaf, "opts": lopts, "kw_only": trial["kw_only"]})
        # the parameters of the runs: what python's dataclass is built from (value tokens from the written defaults)
        spec = {}
        for c in [*chain, {"fields": leaf}]:
            for x, ann, k, d in c["fields"]:
                spec[x] = (ann, d if k in ("v", "f") else None)
        import dataclasses as _dcs

        out = []
        for nm, f in dc_init_fields(B):
            has_default = f.default is not _dcs.MISSING or f.default_factory is not _dcs.MISSING
            out.append({"name": nm, "ann": spec[nm][0], "default": (spec[nm][1] or "i0") if has_default else None})
        return out
    return None


def gen_cases(rng, tier):
    if tier == "quick":
        nfn, nxf = 700, 300
    else:
        nfn, nxf = 12000, 4000
    for i in range(nfn):
        yield gen_fn_case(rng, tier, i)
    for i in range(nxf):
        yield gen_xf_case(rng, tier, i)
    if tier == "thorough":
        # every valid split at construction x every valid split at call, arity <= 4 (225 pairs at arity 3, 961 at 4)
        j = 0
        for n in (0, 1, 2, 3, 4):
            for _ in range({0: 2, 1: 4, 2: 6, 3: 10, 4: 2}[n]):
                yield gen_fn_case(rng, tier, 100000 + j, n=n, exhaustive=True)
                j += 1
        # every transformer kind x every size 0..5
        for kind in ("list", "dict", "df", "unpack", "dc"):
            for n in range(6):
                yield gen_xf_case(rng, tier, 200000 + j, kind=kind, n=n)
                j += 1
    else:
        j = 0
        for n in (0, 1, 2, 2, 3):
            yield gen_fn_case(rng, tier, 100000 + j, n=n, exhaustive=True)
            j += 1
    # sizes and arities past one digit (labels item_10 / row_11 / x12 …), in BOTH tiers
    big = {"list": BIG, "unpack": BIG, "dict": BIG[:5], "df": BIG[:4] + [101], "dc": BIG[:4] + ([100] if tier == "thorough" else [])}
    j = 0
    for rep in range(1 if tier == "quick" else 4):
        for kind, sizes in big.items():
            for n in sizes:
                yield gen_xf_case(rng, tier, 300000 + j, kind=kind, n=n)
                j += 1
        for n in BIG[:4] + ([30] if tier == "thorough" else []):
            yield gen_fn_case(rng, tier, 300000 + j, n=n)
            j += 1
    yield {"kind": "malformed", "id": "m0",
           "lines": ["call 0", "inst x", "def fn q", "def dc 2", "param", "again", "frobnicate 1 2",
                     "def list 1", "inst 1 tuple(i1", "call 0 =", "inst 0", "call 1 i1 item_0", "call 2 i1",
                     "retstmt bare", "def fn 2 - t0", "def fn 1 - t0", "retann - x", "retelt x", "param a -", "io",
                     "retstmt frob", "show",
                     "cfg 0 0", "cfg 0 0 0 0 0 0 0 0 0 0 2", "regkey D", "regkey D x", "def fn 1 - I0", "def fn 1 - I0:x",
                     "def list 1", "inst 1 @7", "inst 1 @x.marker", "inst 1 @7.", "inst 1 @7.marker"],
           "expect": ["bad-op"] * 7 + ["def ok ins=[item_0:-=ND] outs=[list:builtins.list]", "bad-op", "bad-op",
                                       "inst ok ins=[item_0=ND]", "bad-op", "bad-op"]
                     + ["bad-op"] * 2 + ["bad-op"] * 5 + ["def ok ins=[] outs=[None:builtins.NoneType]"]
                     + ["bad-op"] * 6 + ["def ok ins=[item_0:-=ND] outs=[list:builtins.list]"] + ["bad-op"] * 3
                     + ["inst ok ins=[item_0=@7.marker]"]}


def corpus():
    # the dataclass-with-factory layouts (real @dataclass handed to the node factory)
    yield {"kind": "dc", "id": "c-dc1", "n": 2, "api": "class", "already": True,
           "fields": [["x", "int", "n", None], ["z", "list", "f", "list(i1,i2)"]],
           "runs": [{"inst": [["i5"], {}], "call": [[], {}]}]}
    yield {"kind": "dc", "id": "c-dc2", "n": 2, "api": "class", "already": True,
           "fields": [["x", "int", "v", "i0"], ["z", "list", "f", "list(i1,i2)"]],
           "runs": [{"inst": [[], {}], "call": [[], {}]}]}
    yield {"kind": "dc", "id": "c-dc4", "n": 1, "api": "helper", "already": True, "how": "prior",
           "fields": [["z", "list", "f", "list(i1,i2)"]],
           "runs": [{"inst": [[], {}], "call": [[], {}]}]}
    yield {"kind": "dc", "id": "c-dc3", "n": 2, "api": "class", "already": False,
           "fields": [["x", "int", "v", "i0"], ["z", "list", "f", "list(i1,i2)"]],
           "runs": [{"inst": [[], {}], "call": [["i4"], {}], "again": True}]}
    # the registry of made classes: a second specification with the hash of an earlier one (hash(-1) == hash(-2)), a
    # second dataclass with the `__name__` of an earlier one
    yield {"kind": "dict", "id": "c-d1", "n": 1, "api": "helper", "spec_form": "dict",
           "spec": [["a", None, "i-2"]], "prior_spec": [["a", None, "i-1"]],
           "runs": [{"inst": [[], {}], "call": [[], {}]}]}
    yield {"kind": "dict", "id": "c-d2", "n": 2, "api": "class", "spec_form": "dict",
           "spec": [["flag", None, "bT"], ["k", "int", None]], "prior_spec": [["flag", None, "i1"], ["k", "int", None]],
           "runs": [{"inst": [[], {"k": "i3"}], "call": [[], {}]}]}
    yield {"kind": "dc", "id": "c-dc5", "n": 1, "api": "factory", "already": True, "how": "decorator",
           "fields": [["y", "str", "v", "sabc"]], "prior_fields": [["x", "int", "v", "i1"]],
           "runs": [{"inst": [[], {}], "call": [[], {}]}]}
    # dataclass hierarchies: a ClassVar member (KF-C17-9); the documented dataclass-like class under a real dataclass that
    # adds members, overrides an inherited default and adds a default factory; an undecorated class in the middle
    yield {"kind": "dc", "id": "c-dc6", "n": 2, "api": "class", "already": True, "how": "decorator",
           "fields": [["x", "int", "v", "i1"], ["unit", "str", "v", "sm"]], "opts": {"unit": "cv"},
           "runs": [{"inst": [[], {}], "call": [[], {}]}]}
    yield {"kind": "dc", "id": "c-dc7", "n": 3, "api": "helper", "already": False, "how": "decorator",
           "chain": [{"deco": True, "kw_only": False, "opts": {},
                      "fields": [["element", "str", "n", None], ["a", "int", "v", "i405"]]}],
           "fields": [["a", "int", "v", "i361"], ["repeat", "int", "v", "i2"], ["tags", "list", "f", "list()"]],
           "opts": {},
           "runs": [{"inst": [["sCu"], {}], "call": [[], {}]},
                    {"inst": [[], {"element": "sAl"}], "call": [[], {"repeat": "i3"}], "again": True}]}
    yield {"kind": "dc", "id": "c-dc8", "n": 1, "api": "class", "already": False, "how": "decorator",
           "chain": [{"deco": True, "kw_only": False, "opts": {}, "fields": [["e", "str", "n", None]]},
                     {"deco": False, "kw_only": False, "opts": {}, "fields": [["lost", "int", "v", "i7"]]}],
           "fields": [["z", "int", "v", "i1"], ["s", "int", "v", "i2"]], "opts": {"s": "iv"},
           "runs": [{"inst": [["sCu"], {}], "call": [[], {"s": "i9"}]}]}
    # a history of instances of one dataclass-node class whose factory-made list is mutated in between
    yield {"kind": "dc", "id": "c-dc9", "n": 2, "api": "class", "already": True, "how": "decorator", "mutate": True,
           "fields": [["x", "int", "v", "i1"], ["tags", "list", "f", "list(i1,i2)"]],
           "runs": [{"inst": [[], {}], "call": [[], {}]}, {"inst": [[], {}], "call": [["i5"], {}], "again": True},
                    {"inst": [[], {"x": "i7"}], "call": [[], {}]}]}
    # return values in spellings that are not the canonical rendering of their ast; Annotated hints at every level
    yield {"kind": "fn", "id": "c-f7", "params": [{"name": "a", "ann": "typing.Annotated[int, 'angstrom']", "default": None},
                                                   {"name": "b", "ann": "list[typing.Annotated[int, 'site']]", "default": None},
                                                   {"name": "c", "ann": "typing.Annotated[int, 'eV'] | None", "default": "None"}],
           "rets": [["t0", 'd0["k"]', "d0 = {'k': _T(0, a, b, c)}"], ["t1", "_T(0x1,a,b,c)", None],
                    ["t2", "_T( 2 , a , b , c )", None], ["p0", "a", None]],
           "single_tuple": False, "ret_style": "values", "declared": None, "validate": True,
           "ret_ann": "tuple[_T, _T, _T, typing.Annotated[int, 'angstrom']]", "future": True, "api": "dec",
           "layout": "line", "wrap": ["if"], "extras": [], "nonascii": False,
           "runs": [{"inst": [["i1"], {}], "call": [[], {"b": "list(i2)"}]}]}
    # signed zeros in two specifications of one hash; a parameter named like a keyword of Node.run (KF-C17-10/11)
    yield {"kind": "dict", "id": "c-d3", "n": 1, "api": "helper", "spec_form": "dict", "spec": [["s", None, "f-0.0"]], "prior_spec": [["s", None, "f0.0"]], "runs": [{"inst": [[], {}], "call": [[], {}]}]}
    yield {"kind": "fn", "id": "c-f8", "params": [{"name": "x", "ann": None, "default": None}, {"name": "fetch_input", "ann": "int", "default": "i2"}], "rets": [["t0", "r0", "r0 = _T(0, x, fetch_input)"]], "single_tuple": False, "ret_style": "values", "declared": None, "validate": True, "ret_ann": None, "future": False, "api": "dec", "layout": "line", "wrap": [], "extras": [], "nonascii": False, "runs": [{"inst": [[], {}], "call": [["i1"], {"fetch_input": "i5"}]}]}
    # the sentinel idiom, a shared mutable default, and sizes past one digit (item_10 is not item_2's neighbour)
    yield {"kind": "fn", "id": "c-f2", "params": [{"name": "value", "ann": None, "default": None},
                                                   {"name": "fallback", "ann": None, "default": "@0.object",
                                                    "alts": ["@0.object", "@1.object"]},
                                                   {"name": "acc", "ann": "list", "default": "@16.list"}],
           "rets": [["I0:1", "r0", "r0 = _T(0, value, fallback, acc) if fallback is _P[0] else _T(50, value, fallback, acc)"]],
           "single_tuple": False, "ret_style": "values", "declared": None, "validate": True, "ret_ann": None,
           "future": False, "api": "fn_node", "layout": "line",
           "runs": [{"inst": [["i5"], {}], "call": [[], {}], "again": True},
                    {"inst": [[], {}], "call": [["i5", "@1.object"], {}]},
                    {"inst": [[], {"fallback": "@0.object"}], "call": [["i5"], {"acc": "@17.list"}]}]}
    yield {"kind": "list", "id": "c-l2", "n": 12, "api": "helper",
           "runs": [{"inst": [[f"sv{i}" for i in range(5)], {}],
                     "call": [[], {f"item_{i}": f"sv{i}" for i in reversed(range(5, 12))}]}]}
    yield {"kind": "unpack", "id": "c-u1", "n": 11, "api": "class",
           "runs": [{"inst": [[], {}], "call": [["list(" + ",".join(f"i{i}" for i in range(11)) + ")"], {}]}]}
    # what ParseOutput reads off the source: a non-ASCII character on the line of the return statement, a helper function
    # with its own return statement, a positional-only parameter (KF-C17-6/7/8)
    yield {"kind": "fn", "id": "c-f3", "params": [{"name": "a", "ann": None, "default": None}, {"name": "b", "ann": None, "default": None}], "rets": [["p0", "a", None], ["p1", "b", None]], "single_tuple": False, "ret_style": "values", "declared": None, "validate": True, "ret_ann": None, "future": False, "api": "dec", "layout": "line", "wrap": [], "extras": [], "nonascii": True, "runs": [{"inst": [[], {}], "call": [["i1", "i2"], {}]}]}
    yield {"kind": "fn", "id": "c-f4", "params": [{"name": "a", "ann": None, "default": None}], "rets": [], "single_tuple": False, "ret_style": "none", "declared": None, "validate": True, "ret_ann": None, "future": False, "api": "dec", "layout": "line", "wrap": [], "extras": ["nested_ret_tuple"], "nonascii": False, "runs": [{"inst": [[], {}], "call": [["i1"], {}]}]}
    yield {"kind": "fn", "id": "c-f5", "params": [{"name": "a", "ann": None, "default": None, "kind": "po"}, {"name": "b", "ann": None, "default": None, "kind": "pk"}], "rets": [["t0", "r0", "r0 = _T(0, a, b)"]], "single_tuple": False, "ret_style": "values", "declared": None, "validate": True, "ret_ann": None, "future": False, "api": "dec", "layout": "line", "wrap": [], "extras": [], "nonascii": False, "runs": [{"inst": [[], {}], "call": [["i1", "i2"], {}]}]}
    # the function's only return three compound statements deep, next to a lambda, a docstring and a helper without return
    yield {"kind": "fn", "id": "c-f6", "params": [{"name": "a", "ann": None, "default": None},
                                                   {"name": "b", "ann": "int", "default": "i7", "kind": "pk"},
                                                   {"name": "c", "ann": None, "default": "i3", "kind": "ko"}],
           "rets": [["t0", "r0", "r0 = _T(0, a, b, c)"], ["p1", "b", None]], "single_tuple": False,
           "ret_style": "values", "declared": None, "validate": True, "ret_ann": None, "future": False,
           "api": "dec", "layout": "multiline", "wrap": ["try", "for", "else"],
           "extras": ["docstring", "lambda", "nested_noret", "comment"], "nonascii": False,
           "runs": [{"inst": [["sx"], {}], "call": [[], {"c": "i9"}]},
                    {"inst": [[], {}], "call": [["sx", "i1", "i2"], {}]}]}
    # a transformer asked twice
    yield {"kind": "list", "id": "c-l1", "n": 1, "api": "helper",
           "runs": [{"inst": [["i1"], {}], "call": [[], {}], "again": True}]}
    # function node: splits, clash, unknown, too many, missing
    yield {"kind": "fn", "id": "c-f1", "params": [{"name": "a", "ann": None, "default": None},
                                                   {"name": "b", "ann": "int", "default": "i7"},
                                                   {"name": "c", "ann": "None", "default": "None"}],
           "rets": [["t0", "r0", "r0 = _T(0, a, b, c)"], ["p1", "b", None]], "single_tuple": False,
           "ret_style": "values", "declared": None, "validate": True, "ret_ann": "tuple[_T, int]", "future": True,
           "api": "dec",
           "runs": [{"inst": [["sx"], {"c": "None"}], "call": [[], {"b": "i9"}], "again": True},
                    {"inst": [[], {}], "call": [["sx"], {"a": "sy"}]},
                    {"inst": [[], {"zz": "i1"}], "call": [[], {}]},
                    {"inst": [[], {}], "call": [["i1", "i2", "None", "i4"], {}]},
                    {"inst": [[], {"b": "i3"}], "call": [[], {}]}]}


# ----------------------------------------------------------------------------- source generation


def _h(case) -> str:
    return hashlib.sha1(json.dumps(case, sort_keys=True).encode()).hexdigest()[:10]


def _sig_src(params):
    """the parameter list as written: `/` after the last positional-only parameter, `*` before the first keyword-only
    one unless a `*var` stands there, `*var` / `**var` for the variadics"""
    parts = []
    kinds = [q.get("kind", "pk") for q in params]
    for i, q in enumerate(params):
        k = kinds[i]
        if k == "ko" and "ko" not in kinds[:i] and "vp" not in kinds[:i]:
            parts.append("*")
        s = {"vp": "*", "vk": "**"}.get(k, "") + q["name"]
        if q.get("ann"):
            s += f": {q['ann']}"
        if q.get("default") is not None and k not in ("vp", "vk"):
            s += (" = " if q.get("ann") else "=") + lit(q["default"])
        parts.append(s)
        if k == "po" and (i + 1 == len(params) or kinds[i + 1] != "po"):
            parts.append("/")
    return ", ".join(parts)


def _indent(lines):
    return ["    " + x for x in lines]


def _wrap(lines, w):
    """the statements `lines` put inside a compound statement (they are executed exactly once)"""
    if w == "if":
        return ["if len(" + repr("") + ") == 0:"] + _indent(lines)
    if w == "else":
        return ["if len(" + repr("") + ") > 0:", "    pass", "else:"] + _indent(lines)
    if w == "elif":
        return ["if len(" + repr("") + ") > 0:", "    pass", "elif True:"] + _indent(lines)
    if w == "for":
        return ["for _i in range(1):"] + _indent(lines)
    if w == "while":
        return ["while True:"] + _indent(lines) + ["    break"]
    if w == "try":
        return ["try:"] + _indent(lines) + ["finally:", "    pass"]
    if w == "except":
        return ["try:", "    raise KeyError(1)", "except KeyError:"] + _indent(lines)
    if w == "tryelse":
        return ["try:", "    pass", "except KeyError:", "    pass", "else:"] + _indent(lines)
    if w == "with":
        return ["with _nullctx():"] + _indent(lines)
    raise ValueError(w)


WRAPS = ["if", "else", "elif", "for", "while", "try", "except", "tryelse", "with"]

#: statements put in front of the body that contain NO return of the function itself; the second entry says how many
#: `return` statements python's ast shows inside them (in nested scopes)
EXTRAS = {
    "docstring": (['"""A docstring that says: return a, b."""'], 0),
    "comment": (["# return nothing, this is a comment", "_c = 0  # return x"], 0),
    "lambda": (["_g = lambda q: (q, q)"], 0),
    "nested_noret": (["def _h0(q):", "    pass"], 0),
    "nested_ret": (["def _h1(q):", "    return q"], 1),
    "nested_ret_tuple": (["def _h2(q):", "    u = q", "    return u, q"], 1),
    "nested_async": (["async def _co(q):", "    return q"], 1),
    "nested_class": (["class _K:", "    def m(self):", "        return 1, 2"], 1),
    "nested_decorated": (["@staticmethod", "def _s0():", "    return 0"], 1),
    "nested_deep": (["if len(" + repr("") + ") == 0:", "    for _j in range(1):", "        def _h3(q):", "            return q"], 1),
    "nested_two": (["def _h4(q):", "    if q:", "        return 1", "    return 2"], 2),
}


def fn_source(case, h):
    params, rets = case["params"], case["rets"]
    sig = _sig_src(params)
    ann = f" -> {case['ret_ann']}" if case.get("ret_ann") else ""
    prelude = []
    for x in case.get("extras") or []:
        prelude += EXTRAS[x][0]
    for _spec, _text, pre in rets:
        if pre:
            prelude.append(pre)
    body = []
    if case["ret_style"] == "values":
        texts = [r[1] for r in rets]
        if case["single_tuple"]:
            body.append("rt = (" + ", ".join(texts) + ("," if len(texts) == 1 else "") + ")")
            body.append("return rt")
        else:
            layout = case.get("layout", "line")
            one_line = "return " + ", ".join(texts) + ("," if layout == "one_tuple" else "")
            if layout == "multiline":
                body.append("return (")
                for t in texts:
                    if t.startswith("_T(") and ", " in t:
                        head, tail = t.split(", ", 1)  # a call written over two lines
                        body.append("    " + head + ",")
                        body.append("       " + tail + ",")
                    else:
                        body.append("    " + t + ",")
                body.append(")")
            elif layout == "two_returns":
                body.append("if len(" + repr("") + ") > 0:")
                body.append("    " + one_line)
                body.append(one_line)
            else:
                body.append(one_line)
    elif case["ret_style"] == "return_none":
        body.append("return None")
    elif case["ret_style"] == "bare_return":
        body.append("return")
    else:
        body.append("pass")
    if case.get("nonascii"):
        # a non-ASCII character in front of the return statement, on its line (columns in bytes != in characters)
        k = next(i for i, b in enumerate(body) if b.startswith("return"))
        body[k] = repr("\u00b5m") + "; " + body[k]
    for w in reversed(case.get("wrap") or []):
        body = _wrap(body, w)
    body_src = "\n".join("    " + b for b in prelude + body)
    lines = []
    if case["future"]:
        lines.append("from __future__ import annotations")
    lines += [
        "import typing",
        "from pyiron_workflow import as_function_node",
        "from pyiron_workflow.nodes.function import function_node, to_function_node",
        "from pwh.nodes_c17 import Term as _T",
        "from pwh.nodes_c17 import POOL as _P",
        "from contextlib import nullcontext as _nullctx",
        "",
        f"def bare_{h}({sig}){ann}:",
        body_src,
        "",
    ]
    labels = case["declared"]
    lab_args = ", ".join(repr(x) for x in (labels or []))
    kw = "" if case["validate"] else "validate_output_labels=False"
    dec_args = ", ".join(x for x in (lab_args, kw) if x)
    api = case["api"]
    if api == "dec":
        lines += ["@as_function_node"]
    elif api == "dec_call":
        lines += ["@as_function_node()"]
    elif api == "dec_labels":
        lines += [f"@as_function_node({dec_args})"]
    sub = case.get("subclass")
    use = []
    if sub is not None:
        top = f"P_{h}" if sub["levels"] == 1 else f"P2_{h}"
        use = {"preview": [f"{top}.preview_io()"], "instance": [f"{top}(label='p')"],
               "run": [f"{top}(label='p')(1, 2)"]}[sub["how"]]
        lines += ["from pyiron_workflow.nodes.function import Function", "",
                  f"def _par_{h}(u, v: int = 1):", "    w = u", "    return w", "",
                  f"class P_{h}(Function):", f"    node_function = staticmethod(_par_{h})", ""]
        if sub["levels"] == 2:
            lines += [f"def _par2_{h}(s, t):", "    q = s", "    return q, t", "",
                      f"class P2_{h}(P_{h}):", f"    node_function = staticmethod(_par2_{h})", ""]
        if sub["parent_used"] == "before_def":
            lines += use + [""]
    lines += [f"def F_{h}({sig}){ann}:", body_src, ""]
    if sub is not None:
        lines += [f"class C_{h}({top}):", f"    node_function = staticmethod(F_{h})"]
        if labels is not None:
            lines += [f"    _output_labels = ({lab_args},)"]
        if not case["validate"]:
            lines += ["    _validate_output_labels = False"]
        lines += [""]
        if sub["parent_used"] == "after_def":
            lines += use + [""]
        lines += ["def use_parent():", *["    " + u for u in use], f"    return {top}", ""]
    if api == "to_fn":
        lines += [f"def make():", f"    return to_function_node('N_{h}', F_{h}{', ' if dec_args else ''}{dec_args})", ""]
    return "\n".join(lines)


def _dc_ann(ann, opt):
    """the annotation as written in the class body"""
    if opt == "cv":
        return f"typing.ClassVar[{ann}]"
    if opt == "iv":
        return f"dataclasses.InitVar[{ann}]"
    return ann


def dc_source(case, h):
    lines = ["import typing", "import dataclasses", "from dataclasses import dataclass, field",
             "from pwh.nodes_c17 import POOL as _P", ""]
    chain = case.get("chain") or []
    for j, c in enumerate(chain):
        for x, _ann, k, d in c["fields"]:
            if k == "f":
                lines += [f"def _fac{j}_{x}():", f"    return {lit(d)}", ""]
    for x, _ann, k, d in case["fields"]:
        if k == "f":
            lines += [f"def _fac_{x}():", f"    return {lit(d)}", ""]

    def cls(name, deco, fields=None, fac="_fac_", indent="", opts=None, base=None, kw_only=False):
        fields = case["fields"] if fields is None else fields
        opts = opts or {}
        out = [indent + ("@dataclass(kw_only=True)" if kw_only else "@dataclass")] if deco else []
        out.append(f"{indent}class {name}{'(' + base + ')' if base else ''}:")
        if not fields:
            out.append(indent + "    pass")
        for x, ann, k, d in fields:
            o = opts.get(x)
            a = _dc_ann(ann, o)
            if o == "i0":
                how = f"default={lit(d)}" if k == "v" else f"default_factory={fac}{x}"
                out.append(f"{indent}    {x}: {a} = field(init=False, {how})")
            elif k == "n":
                out.append(f"{indent}    {x}: {a}")
            elif k == "v":
                out.append(f"{indent}    {x}: {a} = {lit(d)}")
            else:
                out.append(f"{indent}    {x}: {a} = field(default_factory={fac}{x})")
        out.append("")
        return out

    if case.get("prior_fields") is not None:
        # ANOTHER dataclass with the same `__name__` as the class under test (think `Input` in two modules)
        for x, _ann, k, d in case["prior_fields"]:
            if k == "f":
                lines += [f"def _facp_{x}():", f"    return {lit(d)}", ""]
        lines += ["def _mk_prior():"] + cls(f"D_{h}_0", True, case["prior_fields"], "_facp_", "    ")
        lines += [f"    return D_{h}_0", "", f"Prior_{h} = _mk_prior()", ""]

    # the ancestors (base-most first), decorated or not; the leaf and its reference twin extend the last of them
    base = None
    for j, c in enumerate(chain):
        lines += cls(f"A{j}_{h}", c["deco"], c["fields"], f"_fac{j}_", "", c.get("opts"), base, c.get("kw_only", False))
        base = f"A{j}_{h}"
    # one class object per use (class-level preview + one per run when the instantiating helper is used): handing
    # the SAME class to the node factory twice is the `prior` way of being "already a dataclass"
    ncls = len(case["runs"]) + 1 if case["api"] == "helper" else 1
    deco = case["already"] and case.get("how", "decorator") == "decorator"
    kwo = bool(case.get("kw_only")) and deco
    for i in range(ncls):
        lines += cls(f"D_{h}_{i}", deco, None, "_fac_", "", case.get("opts"), base, kwo)
    # the reference: the same class body under the same ancestors, made a dataclass by Python itself
    lines += cls(f"B_{h}", True, None, "_fac_", "", case.get("opts"), base, kwo)
    return "\n".join(lines)


def dc_hier(case) -> bool:
    return bool(case.get("chain") or case.get("opts") or case.get("kw_only"))


def dc_twin(case):
    """the reference dataclass of a layout as PYTHON'S OWN `dataclasses` makes it, or None when python refuses the layout
    (a field without default after one with)"""
    c = dict(case)
    c["api"], c["runs"] = "class", []
    c.pop("prior_fields", None)
    ns: dict = {}
    try:
        exec(compile(dc_source(c, "v"), "<c17 dataclass layout>", "exec"), ns)  # noqa: S102
    except (TypeError, ValueError):
        return None
    return ns["B_v"]


def dc_init_fields(B):
    """the members a dataclass is BUILT FROM, in the order of its field table: [(name, Field)]"""
    import inspect

    initp = inspect.signature(B).parameters
    return [(nm, f) for nm, f in B.__dataclass_fields__.items() if f.init and nm in initp]


# ----------------------------------------------------------------------------- implementation side

_VARIANT = None


def _variant():
    """which of the two behaviours of the model's Cfg the tree shows (fixed probes, independent of the case)"""
    global _VARIANT
    if _VARIANT is None:
        from dataclasses import dataclass, field

        from pyiron_snippets.dotdict import DotDict
        from pyiron_workflow.channels import NOT_DATA
        from pyiron_workflow.nodes import transform as T

        import dataclasses
        import typing

        # (make_dataclass: this module uses postponed annotations, a class statement here would carry string hints)
        _ProbeC17 = dataclasses.make_dataclass("_ProbeC17", [("z", list, field(default_factory=list))])

        try:
            recast = 1 if T.as_dataclass_node(_ProbeC17)().inputs.z.value is NOT_DATA else 0
        except Exception:  # noqa: BLE001
            recast = 1
        n = T.inputs_to_list(1, 5)
        n.recovery = None
        n()
        cached = 1 if isinstance(n(), DotDict) else 0
        # the class registry: two specifications with one hash / two dataclasses with one name
        try:
            T.inputs_to_dict_factory({"probe_c17": (None, -1)}, None)
            by_hash = 1 if T.inputs_to_dict_factory({"probe_c17": (None, -2)}, None).preview_inputs()["probe_c17"][1] == -1 else 0
        except Exception:  # noqa: BLE001
            by_hash = 1
        try:
            mk = lambda fs: dataclasses.make_dataclass("_ProbeC17SameName", fs)  # noqa: E731
            T.dataclass_node_factory(mk([("x", int, 1)]))
            by_name = 1 if "x" in T.dataclass_node_factory(mk([("y", int, 2)])).preview_inputs() else 0
        except Exception:  # noqa: BLE001
            by_name = 1
        try:
            _ProbeCV = dataclasses.make_dataclass("_ProbeC17ClassVar", [("x", int, 1), ("unit", typing.ClassVar[str], "m")])
            raw = 1 if "unit" in T.dataclass_node_factory(_ProbeCV).preview_inputs() else 0
        except Exception:  # noqa: BLE001
            raw = 1
        try:
            T.inputs_to_dict_factory({"probe_c17z": (None, 0.0)}, None)
            z = T.inputs_to_dict_factory({"probe_c17z": (None, -0.0)}, None).preview_inputs()["probe_c17z"][1]
            same_by_eq = 1 if repr(z) == "0.0" else 0
        except Exception:  # noqa: BLE001
            same_by_eq = 1
        pf = _probe_functions()
        _VARIANT = [recast, cached, by_hash, by_name] + pf[:4] + [raw, pf[4], same_by_eq]
    return _VARIANT


def _probe_functions():
    """[walkNested, byteCols, variadicByName, posOnlyByKeyword]: how the tree reads four fixed function definitions"""
    import importlib
    import tempfile

    from pyiron_workflow.nodes.function import function_node

    src = (
        "def c17probe_nested(x):\n    def _h(y):\n        return y\n    pass\n\n"
        "def c17probe_bytes(x):\n    xy = x\n    " + repr("\u00b5") + "; return xy\n\n"
        "def c17probe_var(a, *rest):\n    r = a\n    return r\n\n"
        "def c17probe_po(a, /):\n    r = a\n    return r\n\n"
        "def c17probe_run(x, fetch_input=1):\n    r = x\n    return r\n"
    )
    d = tempfile.mkdtemp(prefix="c17probe")
    name = f"c17probe_{os.getpid()}"
    with open(os.path.join(d, name + ".py"), "w", encoding="utf-8") as f:
        f.write(src)
    sys.path.insert(0, d)
    try:
        importlib.invalidate_caches()
        mod = importlib.import_module(name)
        try:
            nested = 1 if function_node(mod.c17probe_nested).outputs.labels == ["y"] else 0
        except Exception:  # noqa: BLE001
            nested = 1
        try:
            bytecols = 0 if function_node(mod.c17probe_bytes).outputs.labels == ["xy"] else 1
        except Exception:  # noqa: BLE001
            bytecols = 1
        try:
            function_node(mod.c17probe_var)
            var_by_name = 1
        except ValueError:
            var_by_name = 0
        try:
            n = function_node(mod.c17probe_po)
            n.recovery = None
            n(1)
            po_by_kw = 0
        except Exception:  # noqa: BLE001
            po_by_kw = 1
        try:
            function_node(mod.c17probe_run)
            run_names_free = 1
        except ValueError:
            run_names_free = 0
    finally:
        sys.path.remove(d)
        sys.modules.pop(name, None)
        import shutil

        shutil.rmtree(d, ignore_errors=True)
    return [nested, bytecols, var_by_name, po_by_kw, run_names_free]


def _classify(e, kind, node=None, before=None):
    """the outcome class of an exception, by its TYPE and by the STATE it left (never by the wording of its message):
    an ARGUMENT REFUSAL is a ValueError that came before anything happened -- at construction, or at a call that left
    every input as it was and did not start a run (a run that starts and raises marks the node `failed`); anything a
    started run raises is a run error.  For function nodes the other classes are the exception types themselves (a
    TypeError of python's call machinery and one of unpacking the result are one class: the statement does not tell
    them apart)."""
    from pyiron_workflow.mixin.run import ReadinessError

    if isinstance(e, ReadinessError):
        return "Readiness"
    if isinstance(e, ValueError) and (
        node is None or (not node.failed and before == [tok(c.value) for _k, c in node.inputs.items()])
    ):
        return "ValueError"
    if kind == "fn":
        return type(e).__name__
    if isinstance(e, (KeyError, AttributeError, ValueError, TypeError)):
        return "RunError"
    return type(e).__name__


def _panel(io):
    return "[" + ",".join(f"{k}={tok(c.value)}" for k, c in io.items()) + "]"


def _vals(io):
    return "[" + ",".join(tok(c.value) for _k, c in io.items()) + "]"


def _args(part):
    pos, kw = part
    return [val(t) for t in pos], {k: val(t) for k, t in kw.items()}


def hint_tok(h):
    """a type hint as one token without blanks: `-` none, `module.qualname` for plain classes, repr otherwise"""
    import typing

    if h is None:
        return "-"
    if isinstance(h, type) and typing.get_origin(h) is None:
        return f"{h.__module__}.{h.__qualname__}"
    return repr(h).replace(" ", "")


_hint_repr = hint_tok


def _ns():
    import typing

    from .nodes_c17 import Term

    import dataclasses

    return {"typing": typing, "_T": Term, "dataclasses": dataclasses}


def ann_tok(ann):
    """the token the model is given for an annotation written as `ann` in the source: evaluated here by plain
    `eval`, independently of the library (which has to go through inspect.signature(eval_str=True))"""
    if ann is None:
        return "-"
    x = eval(ann, _ns())
    return "None" if x is None else hint_tok(x)


def nvals_of(case):
    if case["ret_style"] != "values":
        return 0
    return 1 if case["single_tuple"] else len(case["rets"])


def ret_texts(case):
    """the return statement(s) as ast sees them: list of ('bare',) | ('single', text) | ('tuple', [texts])"""
    if case["ret_style"] == "none":
        return []
    if case["ret_style"] == "bare_return":
        return [("bare",)]
    if case["ret_style"] == "return_none":
        return [("single", "None")]
    texts = [r[1] for r in case["rets"]]
    layout = case.get("layout", "line")
    if case["single_tuple"]:
        st = ("single", "rt")
    elif len(texts) == 1 and layout != "one_tuple":
        st = ("single", texts[0])
    else:
        st = ("tuple", texts)
    return [st, st] if layout == "two_returns" else [st]


def _classify_def(e):
    """a refused definition is observed by the TYPE of the exception only (which of the library's checks spoke is told
    by the wording of the message alone, and no statement depends on it)"""
    return type(e).__name__


def _reference(sig_params, a1, k1, a2, k2, plain=False):
    """Python's own binding of the two argument splits: {"status": 'refuse1'|'refuse2'|'missing'|'ok', "b1": what the
    construction binds, "explicit": the arguments that were passed at all (call over construction), in parameter order;
    parameters left out are NOT filled in here -- that is left to Python's own default mechanism when the bare
    function / dataclass is called with `explicit`}"""
    import inspect

    P = inspect.Parameter
    KIND = {"po": P.POSITIONAL_ONLY, "pk": P.POSITIONAL_OR_KEYWORD, "ko": P.KEYWORD_ONLY, "vp": P.VAR_POSITIONAL,
            "vk": P.VAR_KEYWORD}
    sig_params = [(sp[0], sp[1], (sp[2] if len(sp) > 2 and not plain else "pk")) for sp in sig_params]
    sig = inspect.Signature([
        P(name, KIND[kd], **({} if dflt is inspect.Parameter.empty else {"default": dflt}))
        for name, dflt, kd in sig_params
    ], __validate_parameters__=False)
    try:
        b1 = sig.bind_partial(*a1, **k1).arguments
    except TypeError:
        return {"status": "refuse1"}
    try:
        b2 = sig.bind_partial(*a2, **k2).arguments
    except TypeError:
        return {"status": "refuse2", "b1": dict(b1)}
    explicit = {}
    status = "ok"
    for name, dflt, _kd in sig_params:
        if name in b2:
            explicit[name] = b2[name]
        elif name in b1:
            explicit[name] = b1[name]
        elif dflt is inspect.Parameter.empty:
            status = "missing"
    return {"status": status, "b1": dict(b1), "explicit": explicit}


def _eq_key(spec):
    """a specification up to `==` of defaults of one type (0.0 and -0.0 fall together; 1 / True / 1.0 do not)"""
    def canon(v):
        if isinstance(v, tuple):
            return ("tuple", tuple(canon(x) for x in v))
        if isinstance(v, (int, float, complex, str, bytes)):
            return (type(v).__name__, v)
        return ("id", id(v))
    return tuple((x, a, None if d is None else canon(val(d))) for x, a, d in spec)


def _def_line(prev, kind):
    return ("def ok ins=[" + ",".join(f"{k}:{hint_tok(hint)}={tok(d)}" for k, (hint, d) in prev["inputs"].items())
            + "] outs=[" + ",".join(f"{k}:{'*' if kind == 'dc' else hint_tok(hint)}" for k, hint in prev["outputs"].items())
            + "]")


def run_impl(case):
    variant = list(_variant())
    if case["kind"] == "malformed":
        return {"obs": list(case["expect"]), "variant": variant, "facts": {}, "stats": {"malformed": 1}}
    h = _h({k: v for k, v in case.items() if k != "runs"})
    modname = f"c17m_{h}"
    cwd = os.getcwd()
    sys.path.insert(0, cwd)
    try:
        return _run(case, h, modname, variant)
    finally:
        sys.modules.pop(modname, None)
        if cwd in sys.path:
            sys.path.remove(cwd)


def _run(case, h, modname, variant):
    import importlib
    import inspect
    import typing

    from pyiron_workflow.channels import NOT_DATA
    from pyiron_workflow.nodes import transform as T

    from .nodes_c17 import Term

    kind = case["kind"]
    obs: list[str] = []
    facts: dict = {"def_error": None, "runs": []}
    stats: dict = {f"kind:{kind}": 1}
    E = inspect.Parameter.empty
    import dataclasses as _dataclasses

    ns = {"typing": typing, "_T": Term, "dataclasses": _dataclasses}

    make_inst = None  # (args, kwargs) -> node
    ref_params = None  # [(name, default|E)]
    ref_fn = None  # explicitly passed kwargs -> expected returned object
    py_defaults = None  # per parameter: the default OBJECT as python itself reports it (E = none)
    cls = None

    # ---- definition -------------------------------------------------------------------------
    try:
        if kind == "fn":
            with open(f"{modname}.py", "w") as f:
                f.write(fn_source(case, h))
            importlib.invalidate_caches()
            mod = importlib.import_module(modname)
            bare = getattr(mod, f"bare_{h}")
            ref_params = [(q["name"], E if q["default"] is None else val(q["default"]), q.get("kind", "pk"))
                          for q in case["params"]]
            po_names = [q["name"] for q in case["params"] if q.get("kind") == "po"]

            # the BARE function called with the arguments that were passed, the rest left to Python's own defaults
            # (positional-only ones positionally, as python demands)
            def ref_fn(ex):
                ex = dict(ex)
                pos = []
                for nm in po_names:
                    if nm not in ex:
                        break
                    pos.append(ex.pop(nm))
                if any(nm in ex for nm in po_names):
                    return _NoDemand  # a positional-only value behind an omitted one cannot be written as a call
                return bare(*pos, **ex)
            py_defaults = [pp.default for pp in inspect.signature(bare).parameters.values()]
            api = case["api"]
            if api == "to_fn":
                cls = mod.make()
            elif api == "subclass":
                cls = getattr(mod, f"C_{h}")
            elif api == "fn_node":
                from pyiron_workflow.nodes.function import function_node

                fobj = getattr(mod, f"F_{h}")
                okw = {}
                if case["declared"] is not None:
                    okw["output_labels"] = tuple(case["declared"]) if len(case["declared"]) != 1 or h[0] < "8" \
                        else case["declared"][0]
                if not case["validate"]:
                    okw["validate_output_labels"] = False
                make_inst = lambda a, k: function_node(fobj, *a, **okw, **k)  # noqa: E731
                cls = type(make_inst([], {}))
            else:
                cls = getattr(mod, f"F_{h}")
            if make_inst is None:
                make_inst = lambda a, k: cls(*a, **k)  # noqa: E731
        elif kind == "list":
            n = case["n"]
            cls = T.inputs_to_list_factory(n)
            make_inst = (lambda a, k: T.inputs_to_list(n, *a, **k)) if case["api"] == "helper" else (lambda a, k: cls(*a, **k))
            ref_params = [(f"item_{i}", E) for i in range(n)]
            ref_fn = lambda m: [m[f"item_{i}"] for i in range(n)]  # noqa: E731
            py_defaults = [E] * n
        elif kind == "dict":
            T.inputs_to_dict_factory.clear()  # every case starts with an empty registry of made classes

            def mkspec(sp):
                return {x: (None if a is None else eval(a, ns), NOT_DATA if d is None else val(d)) for x, a, d in sp}

            if case.get("prior_spec") is not None:
                # ANOTHER specification was turned into a node class earlier in the session
                pcls = T.inputs_to_dict_factory(mkspec(case["prior_spec"]), None)
                obs.append(_def_line(pcls.preview_io(), kind))
                facts["regkeys"] = [[pcls.__name__, 1, 1]]
            if case["spec_form"] == "list":
                spec = [x for x, _a, _d in case["spec"]]
            else:
                spec = mkspec(case["spec"])
            cls = T.inputs_to_dict_factory(spec, None)
            if "regkeys" in facts:
                # third number: the class of the specification when defaults of one type are compared with `==`
                facts["regkeys"].append([cls.__name__, 2, 1 if _eq_key(case["prior_spec"]) == _eq_key(case["spec"]) else 2])
            make_inst = (lambda a, k: T.inputs_to_dict(spec, *a, **k)) if case["api"] == "helper" else (lambda a, k: cls(*a, **k))
            ref_params = [(x, E if d is None else val(d)) for x, _a, d in case["spec"]]
            py_defaults = [d for _x, d in ref_params]

            def ref_fn(ex):  # the dictionary key -> value in the order of the specification, its defaults filled in
                return {x: (ex[x] if x in ex else d) for x, d in ref_params}
        elif kind == "df":
            n = case["n"]
            cls = T.inputs_to_dataframe_factory(n)
            make_inst = (lambda a, k: T.inputs_to_dataframe(n, True, *a, **k)) if case["api"] == "helper" else (lambda a, k: cls(*a, **k))
            ref_params = [(f"row_{i}", E) for i in range(n)]
            py_defaults = [E] * n

            def ref_fn(m):
                from pandas import DataFrame

                rows = [m[f"row_{i}"] for i in range(n)]
                if not rows:
                    return DataFrame({})
                if any(set(r) != set(rows[0]) for r in rows):
                    return _NoDemand
                return DataFrame({k: [r[k] for r in rows] for k in rows[0]})
        elif kind == "unpack":
            n = case["n"]
            cls = T.list_to_outputs_factory(n)
            make_inst = (lambda a, k: T.list_to_outputs(n, *a, **k)) if case["api"] == "helper" else (lambda a, k: cls(*a, **k))
            ref_params = [("list", E)]
            py_defaults = [E]
            ref_fn = lambda m: ({f"item_{i}": v for i, v in enumerate(m["list"])} if len(m["list"]) <= n else _NoDemand)  # noqa: E731
        elif kind == "dc":
            with open(f"{modname}.py", "w") as f:
                f.write(dc_source(case, h))
            importlib.invalidate_caches()
            mod = importlib.import_module(modname)
            B = getattr(mod, f"B_{h}")
            ncls = len(case["runs"]) + 1 if case["api"] == "helper" else 1
            Ds = [getattr(mod, f"D_{h}_{i}") for i in range(ncls)]
            T.dataclass_node_factory.clear()  # every case starts with an empty registry of made classes
            if case.get("prior_fields") is not None:
                # ANOTHER dataclass of the same `__name__` was turned into a node class earlier in the session
                Prior = getattr(mod, f"Prior_{h}")
                pcls = T.dataclass_node_factory(Prior)
                obs.append(_def_line(pcls.preview_io(), kind))
                facts["regkeys"] = [[Prior.__name__, 1], [Ds[0].__name__, 2]]
            if case["already"] and case.get("how", "decorator") == "prior":
                for D in Ds:
                    T.as_dataclass_node(D)  # an earlier use of the same class (node class thrown away)
            # Python building the dataclass itself from the arguments that were passed: field defaults and default
            # factories are applied by the dataclass machinery, not by this harness
            ref_fn = lambda ex: B(**ex)  # noqa: E731
            import dataclasses as _dcs

            # what the dataclass is built from, as python's own `dataclasses` made the reference twin: the members of
            # its field table (computed along the MRO) that are parameters of its __init__, with their defaults
            py_defaults = []
            for _nm, fld in dc_init_fields(B):
                if fld.default is not _dcs.MISSING:
                    py_defaults.append(fld.default)
                elif fld.default_factory is not _dcs.MISSING:
                    py_defaults.append(fld.default_factory())
                else:
                    py_defaults.append(E)
            if dc_hier(case):
                ref_params = [(nm, d) for (nm, _f), d in zip(dc_init_fields(B), py_defaults)]
            else:
                ref_params = [(x, E if k == "n" else val(d)) for x, _a, k, d in case["fields"]]
            if case["api"] == "helper":
                cls = type(T.dataclass_node(Ds[0], True))
                use = iter(Ds[1:])
                make_inst = lambda a, k: T.dataclass_node(next(use), True, *a, **k)  # noqa: E731
            elif case["api"] == "factory":
                cls = T.dataclass_node_factory(Ds[0])  # what `dataclass_node` does, class kept for the instances
                make_inst = lambda a, k: cls(*a, **k)  # noqa: E731
            else:
                cls = T.as_dataclass_node(Ds[0])
                make_inst = lambda a, k: cls(*a, **k)  # noqa: E731
        prev = cls.preview_io()
        if kind == "fn" and case.get("subclass") is not None:
            # the parent class keeps showing ITS OWN function, whatever was looked at first
            sub = case["subclass"]
            top = mod.use_parent() if sub["parent_used"] in ("after_child", "never") else \
                getattr(mod, f"P_{h}" if sub["levels"] == 1 else f"P2_{h}")
            pp = top.preview_io()
            want = (["u", "v"], ["w"]) if sub["levels"] == 1 else (["s", "t"], ["q", "t"])
            facts["parent_preview"] = {"got": [list(pp["inputs"]), list(pp["outputs"])], "exp": [want[0], want[1]],
                                       "ok": (list(pp["inputs"]), list(pp["outputs"])) == want}
    except Exception as e:  # noqa: BLE001
        facts["def_error"] = f"{type(e).__name__}: {str(e)[:160]}"
        facts["def_error_kind"] = _classify_def(e)
        obs.append(f"def err {facts['def_error_kind']}")
        stats[f"def:err:{facts['def_error_kind']}"] = 1
        return {"obs": obs, "variant": variant, "facts": facts, "stats": stats}

    # ---- class-level description ------------------------------------------------------------------------
    pin = prev["inputs"]
    pout = prev["outputs"]
    obs.append(_def_line(prev, kind))
    # what the definition says (independent of the library and of the model): [label, hint object, default token]
    exp_in, exp_out = None, None
    NT = type(None)
    if kind == "fn":
        exp_in = []
        for q in case["params"]:
            x = None if q["ann"] is None else eval(q["ann"], ns)
            exp_in.append([q["name"], NT if (q["ann"] is not None and x is None) else x, q["default"] or "ND"])
        nvals = nvals_of(case)
        if case["declared"] is not None:
            labels = list(case["declared"])
        elif nvals == 0:
            labels = ["None"]
        elif case["single_tuple"]:
            labels = ["rt"]
        else:
            labels = [r[1] for r in case["rets"]]
        if case["ret_ann"] is None:
            # no return annotation: the statement says nothing about output hints (the library hints the output of a
            # function without return value with NoneType; that convention is compared with the model only)
            hints = [_ANY] * len(labels)
        else:
            x = eval(case["ret_ann"], ns)
            x = NT if x is None else x
            hints = list(typing.get_args(x)) if len(labels) > 1 else [x]
            hints += [None] * (len(labels) - len(hints))
        exp_out = [[lab, hnt] for lab, hnt in zip(labels, hints)]
    elif kind == "dc" and dc_hier(case):
        import dataclasses as _dcs

        # one input per member the dataclass is built from, hinted with the member's annotation, defaulting to its plain
        # default: read off PYTHON'S OWN dataclass of the same layout (class-level: a default factory shows as no default)
        exp_in = [[nm, f.type, "ND" if f.default is _dcs.MISSING else tok(f.default)] for nm, f in dc_init_fields(B)]
    elif kind == "dc":
        exp_in = [[x, eval(a, ns), d if k == "v" else "ND"] for x, a, k, d in case["fields"]]
    elif kind == "dict":
        exp_in = [[x, None if a is None else eval(a, ns), d or "ND"] for x, a, d in case["spec"]]
        exp_out = [["dict", dict]]
    elif kind == "list":
        exp_in = [[f"item_{i}", None, "ND"] for i in range(case["n"])]
        exp_out = [["list", list]]
    elif kind == "df":
        from pandas import DataFrame

        exp_in = [[f"row_{i}", dict, "ND"] for i in range(case["n"])]
        exp_out = [["df", DataFrame]]
    elif kind == "unpack":
        exp_in = [["list", list, "ND"]]
        exp_out = [[f"item_{i}", None] for i in range(case["n"])]

    def cmp_in(got):  # got: [(label, hint object, default token)]
        return {"got": [[k, hint_tok(hh), d] for k, hh, d in got],
                "exp": [[k, hint_tok(hh), d] for k, hh, d in exp_in],
                "ok": len(got) == len(exp_in) and all(g[0] == e[0] and _hint_eq(g[1], e[1]) and g[2] == e[2]
                                                      for g, e in zip(got, exp_in))}

    def cmp_out(got, exp):  # [(label, hint object)]; a dataclass node is hinted with its own (per use) class: labels only
        return {"got": [[k, hint_tok(hh)] for k, hh in got],
                "exp": [[k, "?" if hh is _ANY else hint_tok(hh)] for k, hh in exp],
                "labels_ok": [g[0] for g in got] == [e[0] for e in exp],
                "ok": len(got) == len(exp) and all(g[0] == e[0] and (kind == "dc" or e[1] is _ANY or g[1] == e[1])
                                                   for g, e in zip(got, exp))}

    facts["preview_in"] = cmp_in([(k, hh, tok(d)) for k, (hh, d) in pin.items()])
    if exp_out is not None:
        facts["preview_out"] = cmp_out([(k, hh) for k, hh in pout.items()], exp_out)

    def io_line(node):
        return ("io ins=[" + ",".join(f"{k}:{hint_tok(c.type_hint)}:{tok(c.default)}={tok(c.value)}"
                                      for k, c in node.inputs.items())
                + "] outs=[" + ",".join(f"{k}:{'*' if kind == 'dc' else hint_tok(c.type_hint)}={tok(c.value)}"
                                        for k, c in node.outputs.items()) + "]")

    def mutate(node):
        """somebody changes, in place, every mutable object a default factory made for this instance"""
        if not case.get("mutate"):
            return
        for c in [case, *(case.get("chain") or [])]:
            for x, _a, k, d in c["fields"]:
                if k != "f" or is_pool(d) or x not in node.inputs.labels:
                    continue
                v = node.inputs[x].value
                if isinstance(v, list):
                    v.append("polluted")
                elif isinstance(v, dict):
                    v["polluted"] = True
                elif isinstance(v, set):
                    v.add("polluted")
        stats["mutated"] = stats.get("mutated", 0) + 1

    # ---- runs -----------------------------------------------------------------------------------------
    for run in case["runs"]:
        a1, k1 = _args(run["inst"])
        a2, k2 = _args(run["call"])
        rf: dict = {"inst": None, "call": None}
        ref = _reference(ref_params, a1, k1, a2, k2)
        status = ref["status"]
        rf["py"] = status
        rf["py_ret"] = None
        if kind == "fn" and any(q.get("kind", "pk") != "pk" for q in case["params"]):
            # the node's own binder knows no parameter kinds: what python would say were they all positional-or-keyword
            rf["py_plain"] = _reference(ref_params, a1, k1, a2, k2, plain=True)["status"]
        names = [sp[0] for sp in ref_params]
        if "b1" in ref:
            # what the input channels must hold once the node is built: the construction's value, else the default object
            rf["py_inst"] = [tok(ref["b1"][nm]) if nm in ref["b1"] else ("ND" if d is E else tok(d))
                             for nm, d in zip(names, py_defaults)]
        if status == "ok":
            ex = ref["explicit"]
            try:
                exp = ref_fn(ex)
            except TypeError:
                if kind != "fn":
                    raise
                exp = _NoDemand  # (a definition with a variadic: outside what is demanded)
            rf["py_ret"] = None if exp is _NoDemand else tok(exp)
            if kind == "dc":
                # "the dataclass built from the inputs": what the fields of Python's own instance hold
                # (an InitVar is an argument of the build, not an attribute of what is built)
                real = {f.name for f in _dcs.fields(exp)}
                rf["py_args"] = [tok(getattr(exp, nm)) if nm in real else (tok(ex[nm]) if nm in ex else tok(d))
                                 for nm, d in zip(names, py_defaults)]
            else:
                rf["py_args"] = [tok(ex[nm]) if nm in ex else tok(d) for nm, d in zip(names, py_defaults)]
        facts["runs"].append(rf)
        try:
            node = make_inst(a1, k1)
            node.recovery = None
        except Exception as e:  # noqa: BLE001
            c = _classify(e, kind)
            rf["inst"] = c
            obs.append(f"inst {c}")
            stats[f"inst:{c}"] = stats.get(f"inst:{c}", 0) + 1
            continue
        rf["inst"] = "ok"
        rf["inst_ins"] = [tok(c.value) for _k, c in node.inputs.items()]
        obs.append(f"inst ok ins={_panel(node.inputs)}")
        obs.append(io_line(node))
        # the instance's channels against the definition, and against the class-level preview
        rf["io_in"] = cmp_in([(k, c.type_hint, tok(c.default)) for k, c in node.inputs.items()])
        rf["io_out"] = cmp_out([(k, c.type_hint) for k, c in node.outputs.items()], [(k, hh) for k, hh in pout.items()])
        rf["io_in_labels"] = list(node.inputs.labels)
        try:
            ret = node(*a2, **k2)
            rf["call"] = "ret"
            rf["ret"] = tok(ret)
            rf["outs"] = [[k, tok(c.value)] for k, c in node.outputs.items()]
            rf["ins"] = [[k, tok(c.value)] for k, c in node.inputs.items()]
            obs.append(f"call ret={tok(ret)} outs={_vals(node.outputs)} ins={_panel(node.inputs)}")
            obs.append(io_line(node))
            stats["call:ret"] = stats.get("call:ret", 0) + 1
        except Exception as e:  # noqa: BLE001
            c = _classify(e, kind, node, rf["inst_ins"])
            rf["call"] = c
            rf["call_exc"] = f"{type(e).__name__}: {str(e)[:120]}"
            if c == "RunError":
                obs.append(f"call RunError outs={_vals(node.outputs)} ins={_panel(node.inputs)}")
            else:
                obs.append(f"call {c} ins={_panel(node.inputs)}")
            stats[f"call:{c}"] = stats.get(f"call:{c}", 0) + 1
            mutate(node)
            continue
        if run.get("again"):
            try:
                r2 = node()
                rf["again"] = tok(r2)
                rf["again_type"] = type(r2).__name__
                obs.append(f"again ret={tok(r2)}")
            except Exception as e:  # noqa: BLE001
                rf["again"] = f"EXC:{type(e).__name__}"
                obs.append(f"again {type(e).__name__}")
            stats["again"] = stats.get("again", 0) + 1
        mutate(node)
    return {"obs": obs, "variant": variant, "facts": facts, "stats": stats}


class _NoDemandT:
    pass


def _hint_eq(a, b):
    import dataclasses

    if isinstance(a, dataclasses.InitVar) and isinstance(b, dataclasses.InitVar):
        return a.type == b.type  # (InitVar objects compare by identity; two class bodies make two of them)
    return a == b


_ANY = _NoDemandT()  # "no demand on this hint"


_NoDemand = _NoDemandT()


def nontrivial(case, r):
    return (r.get("stats") or {}).get("call:ret", 0) >= 1


# ----------------------------------------------------------------------------- model side


def _args_line(op, part):
    pos, kw = part
    return " ".join([op, str(len(pos)), *pos, *[f"{k}={v}" for k, v in kw.items()]])


def scraped_labels(case):
    nvals = nvals_of(case)
    if nvals == 0:
        return ["None"]
    if case["single_tuple"]:
        return ["rt"]
    return [r[1] for r in case["rets"]]


def _def_expect(case):
    """what the property statement lets the oracle demand of a definition: 'ok' (the node class exists and shows the
    definition), 'refuse' (count validation: declared labels vs returned values), or 'any' (outside the statement:
    a parameter named like a keyword of Node.__init__, repeated labels, a second return statement together with
    scraping or validation, a return annotation that does not fit the number of outputs)"""
    if case["kind"] != "fn":
        return "ok"
    import typing

    if any(q["name"] in INIT_KW for q in case["params"]):
        return "any"
    if any(q["name"] in RUN_KW for q in case["params"]):
        # refusing such a definition is fine (like the __init__ names); a node class that exists is judged on its runs
        return "any"
    if any(q.get("kind") in ("vp", "vk") for q in case["params"]):
        return "any"  # variadics are documented as unsupported: refusing them or not is not demanded
    nested = sum(EXTRAS[x][1] for x in case.get("extras") or [])
    if nested:
        # `return` statements of functions / classes defined INSIDE the function are not the function's own. Demanded:
        # a function without any return statement of its own has the single output None whatever its helpers return.
        # Not demanded: that a function with a return of its own next to a helper's is accepted at all (the parser's
        # documented limitation "a single return expression in the body" is read textually by the pinned code).
        if case["ret_style"] == "none" and case["declared"] is None:
            return "ok"
        return "any"
    nvals = nvals_of(case)
    declared, validate = case["declared"], case["validate"]
    if case.get("layout") == "two_returns" and (validate or declared is None):
        return "any"
    labels = list(declared) if declared is not None else scraped_labels(case)
    if len(set(labels)) != len(labels):
        return "any"
    if declared is not None and validate and len(declared) != nvals:
        return "refuse"
    if case["ret_ann"] is not None and len(labels) > 1:
        x = eval(case["ret_ann"], _ns())
        if x is None or len(typing.get_args(x)) != len(labels):
            return "any"
    return "ok"


def model_input(case, impl=None):
    if case["kind"] == "malformed":
        return list(case["lines"])
    v = (impl or {}).get("variant") or [0] * 11
    lines = ["cfg " + " ".join(str(x) for x in v)]
    kind = case["kind"]
    if kind == "fn":
        specs = [r[0] for r in case["rets"]] if case["ret_style"] == "values" else []
        if case["single_tuple"] or case.get("layout") == "one_tuple":
            specs = ["T:" + ",".join(specs)]
        decl = ",".join(case["declared"]) if case["declared"] is not None else "-"
        lines.append(" ".join(["def", "fn", "1" if case["validate"] else "0", decl, *specs]))
        for q in case["params"]:
            lines.append(f"param {q['name']} {q['default'] if q['default'] is not None else '-'} {ann_tok(q['ann'])} "
                         f"{q.get('kind', 'pk')}")
        # the source of the function as PYTHON'S OWN `ast` reads it off the generated file: the source lines (as code
        # points) and the statement tree of the body with the spans of the returned values
        lines.extend(ast_lines(case))
        if case["ret_ann"] is not None:
            import typing

            x = eval(case["ret_ann"], _ns())
            lines.append(" ".join(["retann", "None" if x is None else hint_tok(x),
                                   *([] if x is None else [hint_tok(a) for a in typing.get_args(x)])]))
        lines.append("show")
    elif kind in ("list", "df", "unpack"):
        lines.append(f"def {kind} {case['n']}")
    elif kind == "dict":
        rk = (impl or {}).get("facts", {}).get("regkeys")
        if case.get("prior_spec") is not None and rk:
            # the names the factory gave the two classes are run-time facts (python's `hash`), observed on the
            # implementation; the numbers stand for the two specifications themselves
            lines.append(f"regkey {rk[0][0]} {rk[0][1]} {rk[0][2]}")
            lines.append(" ".join(["def", "dict", *[f"{x}:{ann_tok(a)}={d if d is not None else '-'}" for x, a, d in case["prior_spec"]]]))
            if len(rk) > 1:
                lines.append(f"regkey {rk[1][0]} {rk[1][1]} {rk[1][2]}")
        lines.append(" ".join(["def", "dict", *[f"{x}:{ann_tok(a)}={d if d is not None else '-'}" for x, a, d in case["spec"]]]))
    elif kind == "dc":
        rk = (impl or {}).get("facts", {}).get("regkeys")
        if case.get("prior_fields") is not None and rk:
            lines.append(f"regkey {rk[0][0]} {rk[0][1]}")
            lines.append(" ".join(["def", "dc", "1",
                                   *[f"{x}:{k}:{d if d is not None else '-'}:{ann_tok(a)}" for x, a, k, d in case["prior_fields"]]]))
            lines.append(f"regkey {rk[1][0]} {rk[1][1]}")
        def fld(x, a, k, d, opts):
            o = (opts or {}).get(x)
            return f"{x}:{k}:{d if d is not None else '-'}:{ann_tok(_dc_ann(a, o))}" + (f":{o}" if o else "")

        for c in case.get("chain") or []:
            lines.append(" ".join(["dcbase", "1" if c["deco"] else "0",
                                   *[fld(x, a, k, d, c.get("opts")) for x, a, k, d in c["fields"]]]))
        lines.append(" ".join(["def", "dc", "1" if case["already"] else "0",
                               *[fld(x, a, k, d, case.get("opts")) for x, a, k, d in case["fields"]]]))
    if impl is not None and impl.get("facts", {}).get("def_error"):
        # the model's own definition verdict is still printed by the driver; nothing can be instantiated
        return lines
    rfs = (impl or {}).get("facts", {}).get("runs") or [None] * len(case["runs"])
    for run, rf in zip(case["runs"], rfs):
        lines.append(_args_line("inst", run["inst"]))
        if rf is not None and rf["inst"] != "ok":
            continue
        lines.append("io")
        lines.append(_args_line("call", run["call"]))
        if rf is None or rf["call"] == "ret":
            lines.append("io")
            if run.get("again"):
                lines.append("again")
    return lines


def ast_lines(case):
    """`srcline` / `stmt` lines for the model: the text of the node function as `inspect.getsource` cuts it out of the
    generated file (decorators included, the function is at module level so `dedent` changes nothing), parsed by the real
    `ast`; the conversion below is the only trusted step between the source file and the model's term"""
    import ast

    h = _h({k: v for k, v in case.items() if k != "runs"})
    text = fn_source(case, h)
    module = ast.parse(text)
    fdef = next(n for n in module.body if isinstance(n, (ast.FunctionDef, ast.AsyncFunctionDef)) and n.name == f"F_{h}")
    first = min([fdef.lineno] + [d.lineno for d in fdef.decorator_list])
    snippet = "\n".join(text.split("\n")[first - 1: fdef.end_lineno]) + "\n"
    tree = ast.parse(snippet)  # what ParseOutput parses
    out = [("srcline " + (",".join(str(ord(ch)) for ch in ln) if ln else "-")) for ln in snippet.split("\n")[:-1]]

    def span(e):
        return f"{e.lineno} {e.col_offset} {e.end_lineno} {e.end_col_offset}"

    def below(node):  # the statements directly below a statement (through except handlers and match cases)
        for ch in ast.iter_child_nodes(node):
            if isinstance(ch, ast.stmt):
                yield ch
            elif isinstance(ch, (ast.excepthandler, ast.match_case)):
                yield from below(ch)

    def walk(st, depth):
        if isinstance(st, ast.Return):
            if st.value is None:
                out.append(f"stmt {depth} retbare")
            elif isinstance(st.value, ast.Tuple):
                out.append(" ".join([f"stmt {depth} rettuple", *[span(e) for e in st.value.elts]]))
            else:
                out.append(f"stmt {depth} retother {span(st.value)}")
            return
        kids = list(below(st))
        if isinstance(st, (ast.FunctionDef, ast.AsyncFunctionDef, ast.ClassDef)):
            out.append(f"stmt {depth} inner1")
        elif kids:
            out.append(f"stmt {depth} inner0")
        else:
            out.append(f"stmt {depth} leaf")
            return
        for k in kids:
            walk(k, depth + 1)

    for st in tree.body[0].body:
        walk(st, 0)
    return out


def corr_view(case, impl):
    return impl["obs"]


# ----------------------------------------------------------------------------- oracle (independent of the model)


def _f(case, clause, detail, **facts):
    sig = {"clause": clause, "trigger": case["kind"]}
    sig.update(facts)
    return {"clause": clause, "detail": f"case {case.get('id')}: {detail}", "signature": sig}


def oracle(case, r):
    kind = case["kind"]
    if kind == "malformed":
        return []
    fails = []
    F = r.get("facts") or {}
    sfacts = {}
    if kind == "dc":
        sfacts = {"already": bool(case["already"]), "has_factory": any(k == "f" for _x, _a, k, _d in case["fields"])}
        if case.get("prior_fields") is not None:
            sfacts["prior_same_name"] = True
        if any(o in ("cv", "i0") for c in [case, *(case.get("chain") or [])] for o in (c.get("opts") or {}).values()):
            sfacts["has_pseudo"] = True  # a ClassVar member / an init=False field somewhere in the hierarchy
    if kind == "dict" and case.get("prior_spec") is not None:
        # (do the two specifications differ only between defaults that are `==` and of one type -- signed zeros?)
        sfacts = {"prior_same_hash": True, "same_eq_class": _eq_key(case["prior_spec"]) == _eq_key(case["spec"])}
    if kind == "fn":
        if case.get("nonascii"):
            sfacts["nonascii"] = True
        if any(EXTRAS[x][1] for x in case.get("extras") or []) and case["ret_style"] == "none":
            sfacts["nested_ret_only"] = True
        if any(q.get("kind") == "po" for q in case["params"]):
            sfacts["has_posonly"] = True
        if any(q["name"] in RUN_KW for q in case["params"]):
            sfacts["run_kw_name"] = True

    def defsig(f):  # a failure of the definition stage
        f["signature"].update(sfacts)
        f["signature"]["stage"] = "def"
        return f

    # ---- the definition --------------------------------------------------------------------------
    expect = _def_expect(case)
    if F.get("def_error"):
        if expect in ("refuse", "any"):
            return []
        return [defsig(_f(case, "def-error", f"a valid definition was refused: {F['def_error']}"))]
    if expect == "refuse":
        return [defsig(_f(case, "def-accepted", f"{len(case['declared'])} labels declared for a function returning "
                          f"{nvals_of(case)} values, validation on, but the class was created"))]
    # inputs: one per parameter, in order, with default and annotation (class-level preview)
    pi = F.get("preview_in") or {}
    if not pi.get("ok"):
        got, exp = pi.get("got"), pi.get("exp")
        clause = _in_clause(got or [], exp or [], "preview")
        fails.append(_f(case, clause, f"the definition says {exp} (label, hint, default), preview_io gives {got}", **sfacts))
    # outputs: one per returned value, labelled as declared or as written in the return statement
    po = F.get("preview_out")
    if po is not None and expect == "ok" and not fails:
        if not po["labels_ok"]:
            fails.append(_f(case, "preview-outputs", f"expected {po['exp']}, preview_io gives {po['got']}"))
        elif not po["ok"]:
            fails.append(_f(case, "preview-output-hints", f"expected {po['exp']}, preview_io gives {po['got']}"))
    pp = F.get("parent_preview")
    if pp is not None and not pp["ok"] and not fails:
        fails.append(_f(case, "parent-preview", f"the parent class's own function has inputs/outputs {pp['exp']}, its "
                        f"preview_io shows {pp['got']}"))
    # every instance carries the class-level description
    if not fails:
        for i, rf in enumerate(F.get("runs", [])):
            if rf.get("inst") != "ok":
                continue
            ii, io = rf["io_in"], rf["io_out"]
            if not ii["ok"]:
                clause = _in_clause(ii["got"], ii["exp"], "instance")
                fails.append(_f(case, clause, f"run #{i}: the definition says {ii['exp']}, the instance has {ii['got']}", **sfacts))
            elif not io["ok"]:
                fails.append(_f(case, "instance-outputs", f"run #{i}: preview_io shows {io['exp']}, the instance has {io['got']}", **sfacts))
            if fails:
                break
    if fails:
        return [defsig(fails[0])]
    # ---- the runs ------------------------------------------------------------------------------------
    if kind == "fn" and any(q.get("kind") in ("vp", "vk") for q in case["params"]):
        return []  # variadics are documented as unsupported: no demand on what such a node does
    consistent_labels = True
    if kind == "fn" and case["declared"] is not None:
        consistent_labels = len(case["declared"]) in (1, nvals_of(case)) and len(set(case["declared"])) == len(case["declared"])
    for i, (run, rf) in enumerate(zip(case["runs"], F.get("runs", []))):
        py = rf["py"]
        where = f"run #{i} inst={run['inst']} call={run['call']}"
        if py in ("refuse1", "refuse2") and rf.get("py_plain") not in (None, py):
            # python refuses the split only because of a parameter's KIND (a keyword-only value given positionally, a
            # positional-only one by keyword); node arguments address input channels, by position or by label, and the
            # statement does not ask the node to refuse what only the kind forbids
            continue
        if py == "refuse1":
            if rf["inst"] == "ok":
                fails.append(_f(case, "bad-split-accepted", f"{where}: Python's binder refuses the construction "
                                "arguments, the node accepted them", **sfacts))
        elif rf["inst"] != "ok":
            fails.append(_f(case, "good-split-refused", f"{where}: construction raised {rf['inst']}", **sfacts))
        elif rf.get("py_inst") is not None and rf["inst_ins"] != rf["py_inst"]:
            # one input per parameter WITH THE PARAMETER'S DEFAULT: a freshly built node holds, per parameter, the value
            # it was constructed with and else the default object itself (`held is default`, tokens are by identity)
            ident = all(g == e or (is_pool(e) and g != "ND") for g, e in zip(rf["inst_ins"], rf["py_inst"]))
            fails.append(_f(case, "default-identity" if ident else "inputs-at-construction",
                            f"{where}: after construction the inputs must hold {rf['py_inst']} (values passed, else the "
                            f"default objects), they hold {rf['inst_ins']}", **sfacts))
        elif py == "refuse2":
            if rf["call"] == "ret":
                fails.append(_f(case, "bad-split-accepted", f"{where}: Python's binder refuses the call arguments, "
                                f"the node returned {rf.get('ret')}", **sfacts))
        elif py == "missing":
            if rf["call"] == "ret":
                fails.append(_f(case, "missing-not-refused", f"{where}: an argument is missing but the node "
                                f"returned {rf.get('ret')}", **sfacts))
        elif rf["py_ret"] is None:
            pass  # the reference makes no demand (ragged table, list longer than the outputs)
        elif not consistent_labels and rf["call"] != "ret":
            pass  # labels contradict the function and validation was switched off by the user
        elif rf["call"] != "ret":
            fails.append(_f(case, "run-refused", f"{where}: Python returns {rf['py_ret']}, the node raised "
                            f"{rf.get('call_exc') or rf['call']}", **sfacts))
        elif not consistent_labels:
            pass  # labels contradict the function and validation was switched off by the user
        else:
            exp = rf["py_ret"]
            if [v for _k, v in rf["ins"]] != rf["py_args"]:
                fails.append(_f(case, "inputs-bound", f"{where}: Python binds {rf['py_args']} to the parameters, the "
                                f"input channels hold {rf['ins']}", **sfacts))
            elif rf["ret"] != exp:
                fails.append(_f(case, "return-value", f"{where}: function returns {exp}, node returned {rf['ret']}", **sfacts))
            else:
                outs = [v for _k, v in rf["outs"]]
                if kind == "unpack":
                    want = val_items(exp)
                    if outs[: len(want)] != want:
                        fails.append(_f(case, "outputs", f"{where}: outputs {outs} vs items {want}"))
                elif len(outs) == 1:
                    if outs[0] != exp:
                        fails.append(_f(case, "outputs", f"{where}: output {outs[0]} vs returned {exp}", **sfacts))
                else:
                    if "tuple(" + ",".join(outs) + ")" != exp:
                        fails.append(_f(case, "outputs", f"{where}: outputs {outs} vs returned {exp}", **sfacts))
            if not fails and run.get("again") and "again" in rf and rf["again"] != rf["ret"]:
                if not (kind == "unpack" and val_items(rf["again"])[: len(val_items(rf["ret"]))] == val_items(rf["ret"])):
                    fails.append(_f(case, "again-return", f"{where}: first call returned {rf['ret']}, the same call "
                                    f"again returned {rf['again']} ({rf.get('again_type')})",
                                    family="FromManyInputs" if kind in ("list", "dict", "df", "dc") else kind))
        if fails:
            break
    return fails[:1]


def _in_clause(got, exp, prefix):
    """which part of "one input per parameter, in order, with the parameter's default and annotation" is off"""
    if [g[0] for g in got] != [e[0] for e in exp]:
        return f"{prefix}-inputs"
    if [g[2] for g in got] != [e[2] for e in exp]:
        # only defaults that are objects with an identity differ: the channel holds something else than THE default
        if all(g[2] == e[2] or (is_pool(e[2]) and g[2] != "ND") for g, e in zip(got, exp)):
            return "default-identity"
        return f"{prefix}-inputs"
    return f"{prefix}-input-hints"


def val_items(t: str) -> list[str]:
    """the item tokens of a dict(...) token, in order"""
    if not (t.startswith("dict(") and t.endswith(")")):
        return [t]
    body = t[5:-1]
    return [x[x.index("=") + 1:] for x in _split_top(body)] if body else []


def shrink_candidates(case):
    if case["kind"] == "malformed":
        return
    runs = case["runs"]
    if len(runs) > 1:
        for i in range(len(runs)):
            yield {**case, "runs": [runs[i]]}
    for i, run in enumerate(runs):
        if run.get("again"):
            rr = dict(run)
            rr.pop("again")
            yield {**case, "runs": runs[:i] + [rr] + runs[i + 1:]}
