"""
Importable node classes and the graph interpreter for C07 (save / load round trips on REAL objects).

A *graph spec* (plain JSON data) describes the inside of a workflow or of a macro:

    {"children": [child spec ...],
     "data":     [[dst_child, dst_input, ["child", src_child, src_output] | ["arg", name]] ...]   (in this order)
     "signals":  [[src_child, src_signal, dst_child, dst_signal] ...]                             (in this order)
     "starting": [child label ...],
     "returns":  [[child, output] ...]            (macros only)
     "auto":     bool                             (workflows only: automate_execution)}

    child spec = {"label": str, "kind": kind, "i": int (term index), "spec": graph spec (macros),
                  "const": {input label: value}}

The macro classes M1/M2/M3 are ordinary `as_macro_node` classes (module level, importable, so plain
`pickle` works); their graph creators interpret the spec on top of the stack `CUR`, which the builder
pushes before it instantiates them (unpickling never calls a graph creator).
"""

from __future__ import annotations

import pickle

import cloudpickle
from pyiron_workflow import NOT_DATA, as_function_node, as_macro_node
from pyiron_workflow.nodes import standard
from pyiron_workflow.nodes.for_loop import for_node_factory
from pyiron_workflow.nodes.transform import inputs_to_list_factory, list_to_outputs_factory

from . import execsim, nodes

SCHED: list = []  # the scheduler of the run in progress (global so that executor INSTRUCTIONS find it in any copy)


SUBMITS: list = []  # (which executor, whose job) in submission order, for every controllable executor below


class _Logged(execsim.CtlExecutor):
    """a controllable executor that says where each job was sent"""

    def __init__(self, tag):
        super().__init__(SCHED[0], "ctl")
        self.tag = tag

    def submit(self, fn, /, *args, **kwargs):
        owner = getattr(fn, "__self__", None)
        SUBMITS.append((self.tag, getattr(owner, "label", "?")))
        return super().submit(fn, *args, **kwargs)


class CtlByInstruction(_Logged):
    """what an executor instruction `(CtlByInstruction, (), {})` builds: a controllable executor of the current run"""

    def __init__(self):
        super().__init__("class:plain")


class CtlNamed(_Logged):
    """instructions by CLASS with arguments: `(CtlNamed, ("n",), {"flavour": "x"})`"""

    def __init__(self, name="anon", flavour="plain"):
        super().__init__(f"class:{name}:{flavour}")


_PROVIDED: dict = {}


def provide_ctl(name="shared", flavour="plain"):
    """instructions by PROVIDER FUNCTION — `(provide_ctl, ("pool",), {})` — the documented way to let several nodes
    share one executor: everybody asking under the same name (during one run) gets the same object"""
    key = (id(SCHED[0]), name, flavour)
    if key not in _PROVIDED:
        _PROVIDED.clear() if len(_PROVIDED) > 50 else None
        _PROVIDED[key] = _Logged(f"provider:{name}:{flavour}")
    return _PROVIDED[key]


class SnapScheduler(execsim.Scheduler):
    """a scheduler that, at its `snap_at`-th schedule point, lets the harness pickle the graph root — with children out
    on the executor, from inside a completion callback, at the composite's idle point … — deterministically"""

    def __init__(self, choices, snap_at=None):
        super().__init__(choices)
        self.snap_at = snap_at
        self.count = 0

    def _maybe_snap(self, idle=False):
        self.count += 1
        hit = self.snap_at is not None and (self.count == self.snap_at or (self.snap_at == -1 and idle and not SNAPS))
        if hit and ROOT and SNAP_HOOK:
            SNAPS.append(SNAP_HOOK[0](ROOT[0]))

    def at_emit(self):
        self._maybe_snap()
        super().at_emit()

    def at_sleep(self, *a):
        self._maybe_snap(idle=True)  # snap_at = -1: the first idle point (something is out, nothing left to deliver)
        super().at_sleep(*a)


CUR: list = []  # stack of graph specs for the macro creators
ROOT: list = []  # the graph root a Snap node pickles from inside a run
SNAPS: list = []  # what the Snap nodes captured: {"blob":…, "snap":…}
SNAP_HOOK: list = []  # [callable(root) -> dict] installed by the harness


# kind -> (input labels, output labels)
KIND_IO = {
    "F": (["a", "b", "c"], ["o"]),
    "M1": (["x"], ["out"]),
    "M2": (["x", "y"], ["out"]),
    "M3": (["x", "y", "z"], ["p", "q"]),
    "for": (["a", "b", "c"], ["o", "a"]),
    "i2l": (["item_0", "item_1"], ["list"]),
    "l2o": (["list"], ["item_0", "item_1"]),
    "snap": (["a"], ["o"]),
    "ui": (["user_input"], ["user_input"]),
    "add": (["obj", "other"], ["add"]),
    "lt": (["obj", "other"], ["lt"]),
    "if": (["condition"], ["truth"]),
    "loc": (["a"], ["o"]),
    "forsnap": (["a", "b"], ["o", "a"]),
    "T": (["i", "s", "u", "b"], ["oi", "os", "ou"]),
    "TO": (["i", "s", "u", "b"], ["oi", "os", "ob"]),
}
MACRO_ARGS = {"M1": ["x"], "M2": ["x", "y"], "M3": ["x", "y", "z"]}


@as_function_node("o", validate_output_labels=False)
def Snap(a="d"):
    """pickles the graph root from INSIDE the run (a state of partial execution, no timing involved)"""
    if ROOT and SNAP_HOOK:
        SNAPS.append(SNAP_HOOK[0](ROOT[0]))
    o = ("snap", a)
    return o


@as_function_node("o", validate_output_labels=False)
def Snap2(a="d", b="d"):
    """the same as a loop body: `a` is looped on, `b` is broadcast (= value-linked from the for-node's input)"""
    if ROOT and SNAP_HOOK:
        SNAPS.append(SNAP_HOOK[0](ROOT[0]))
    o = ("snap2", a, b)
    return o


def _make_local():
    """a node class that cannot be imported (defined in <locals>): plain pickle refuses it, cloudpickle and the
    `.cpckl` fallback of the file back end take it by value"""

    @as_function_node("o", validate_output_labels=False)
    def Loc(a="d"):
        o = ("loc", a)
        return o

    return Loc


Loc = _make_local()

ForF1 = for_node_factory(nodes.F1, ("a",), (), False, None, True)
ForSnap = for_node_factory(Snap2, ("a",), (), False, None, True)
I2L = inputs_to_list_factory(2, True)
L2O = list_to_outputs_factory(2, True)


def make_child(spec):
    """instantiate one child (parentless, labelled)"""
    kind = spec["kind"]
    label = spec["label"]
    const = dict(spec.get("const", {}))
    if kind == "F":
        n = nodes.term_node(spec["i"], label=label, **spec.get("_ctor", {}))
    elif kind in MACRO_ARGS:
        CUR.append(spec["spec"])
        try:
            n = globals()[kind](label=label, **spec.get("_ctor", {}))
        finally:
            CUR.pop()
    elif kind == "for":
        n = ForF1(label=label, **spec.get("_ctor", {}))
    elif kind == "i2l":
        n = I2L(label=label, **spec.get("_ctor", {}))
    elif kind == "l2o":
        n = L2O(label=label, **spec.get("_ctor", {}))
    elif kind == "snap":
        n = Snap(label=label, **spec.get("_ctor", {}))
    elif kind == "loc":
        n = Loc(label=label, **spec.get("_ctor", {}))
    elif kind == "forsnap":
        n = ForSnap(label=label, **spec.get("_ctor", {}))
    elif kind == "T":
        n = nodes.Typed(label=label, **spec.get("_ctor", {}))
    elif kind == "TO":
        n = nodes.TypedOut(label=label, **spec.get("_ctor", {}))
    elif kind == "ui":
        n = standard.UserInput(label=label, **spec.get("_ctor", {}))
    elif kind == "add":
        n = standard.Add(label=label, **spec.get("_ctor", {}))
    elif kind == "lt":
        n = standard.LessThan(label=label, **spec.get("_ctor", {}))
    elif kind == "if":
        n = standard.If(label=label, **spec.get("_ctor", {}))
    else:
        raise ValueError(f"unknown kind {kind}")
    for k, v in const.items():
        n.inputs[k].value = _val(v)
    for k in spec.get("nonstrict", []):
        n.inputs[k].strict_hints = False  # accepts any connection / value for now
    if spec.get("nocache"):
        n.use_cache = False
    if spec.get("exec") == "instr":
        from concurrent.futures import ThreadPoolExecutor

        n.executor = (ThreadPoolExecutor, (), {"max_workers": 1})
    elif spec.get("exec") == "ctl":
        n.executor = execsim.CtlExecutor(SCHED[0], "ctl")  # a live executor object (not part of any state)
    elif spec.get("exec") == "ctli":
        n.executor = (CtlByInstruction, (), {})  # instructions: survive the round trip
    elif spec.get("exec") == "ctlik":  # by class, with positional and keyword arguments
        n.executor = (CtlNamed, (spec.get("exec_name", "n"),), {"flavour": "kw"})
    elif spec.get("exec") == "ctlp":  # by provider function, positional argument
        n.executor = (provide_ctl, (spec.get("exec_name", "pool"),), {})
    elif spec.get("exec") == "ctlpk":  # by provider function, keyword arguments only
        n.executor = (provide_ctl, (), {"name": spec.get("exec_name", "pool"), "flavour": "kw"})
    if spec.get("serialize"):
        n._serialize_result = True  # the job leaves its result in a file: a broken process can be resumed
    return n


def _val(v):
    if v == "__ND__":
        return NOT_DATA
    if isinstance(v, list):
        return [_val(x) for x in v]
    return v


def populate(parent, spec, args=None):
    """add the children of `spec` to `parent` and wire them (shared by workflows and macro creators)"""
    kids = {}
    for cs in spec["children"]:
        n = make_child(cs)
        parent.add_child(n)
        kids[cs["label"]] = n
    for dst, dst_in, src in spec.get("data", []):
        if src[0] == "child":
            kids[dst].inputs[dst_in].connect(kids[src[1]].outputs[src[2]])
        elif src[0] == "arg":
            setattr(kids[dst].inputs, dst_in, args[src[1]])
        elif src[0] == "ext":
            kids[dst].inputs[dst_in].connect(src[1])
    for s_child, s_sig, d_child, d_sig in spec.get("signals", []):
        kids[d_child].signals.input[d_sig].connect(kids[s_child].signals.output[s_sig])
    if spec.get("starting"):
        parent.starting_nodes = [kids[x] for x in spec["starting"]]
    return kids


def _creator(self, argnames, argvals):
    spec = CUR[-1]
    kids = populate(self, spec, dict(zip(argnames, argvals, strict=True)))
    rets = tuple(kids[c].outputs[o] for c, o in spec["returns"])
    return rets[0] if len(rets) == 1 else rets


@as_macro_node("out", validate_output_labels=False)
def M1(self, x):
    return _creator(self, ["x"], [x])


@as_macro_node("out", validate_output_labels=False)
def M2(self, x, y="dy"):
    return _creator(self, ["x", "y"], [x, y])


@as_macro_node("p", "q", validate_output_labels=False)
def M3(self, x, y="dy", z="dz"):
    return _creator(self, ["x", "y", "z"], [x, y, z])


def dumps(node, backend):
    return (cloudpickle if backend == "cloudpickle" else pickle).dumps(node)


def loads(blob, backend):
    return (cloudpickle if backend == "cloudpickle" else pickle).loads(blob)
