"""
Importable node classes for the C14 harness (graph edits).

Function nodes with varying channel sets and hints.  Every function returns a free term
`(ClassName, *args)` so that results of runs can be compared syntactically.

  Pxy, Qxy      x, y untyped            -> o        (same interface, different function)
  Px            x                       -> o        (lacks input y)
  Pxyz          x, y, z                 -> o        (one more input)
  PxyP          x, y                    -> p        (lacks output o)
  PxyOP         x, y                    -> o, p     (one more output)
  Ixy           x:int, y:int            -> o:int
  Sxy           x:str, y:str            -> o:str    (wrongly hinted inputs and output)
  IxyS          x:int, y:int            -> o:str    (wrongly hinted output only)
  SxIy          x:str, y:int            -> o:int    (wrongly hinted input x only)
  Ux            x untyped               -> o:int    (typed output, lacks y)

Macros MacU (untyped IO) and MacT (int IO) build their body from `SPEC`, which the harness
sets right before instantiation:
  SPEC = {"children": [(label, cls)], "data": [(src, out, dst, inp)],
          "uses": {"p": [(child, inp)], "q": [...]}, "returns": [(child, out), (child, out)],
          "vals": [(child, inp, value)]}
"""

from __future__ import annotations

from pyiron_workflow import as_function_node, as_macro_node

SPEC: dict = {}


@as_function_node("o", validate_output_labels=False)
def Pxy(x="dx", y="dy"):
    return ("Pxy", x, y)


@as_function_node("o", validate_output_labels=False)
def Qxy(x="dx", y="dy"):
    return ("Qxy", x, y)


@as_function_node("o", validate_output_labels=False)
def Px(x="dx"):
    return ("Px", x)


@as_function_node("o", validate_output_labels=False)
def Pxyz(x="dx", y="dy", z="dz"):
    return ("Pxyz", x, y, z)


@as_function_node("p", validate_output_labels=False)
def PxyP(x="dx", y="dy"):
    return ("PxyP", x, y)


@as_function_node("o", "p", validate_output_labels=False)
def PxyOP(x="dx", y="dy"):
    return ("PxyOP", x, y), ("PxyOP2", x, y)


@as_function_node("o", validate_output_labels=False)
def Ixy(x: int = 1, y: int = 2) -> int:
    return x + y


@as_function_node("o", validate_output_labels=False)
def Sxy(x: str = "a", y: str = "b") -> str:
    return x + y


@as_function_node("o", validate_output_labels=False)
def IxyS(x: int = 1, y: int = 2) -> str:
    return str(x + y)


@as_function_node("o", validate_output_labels=False)
def SxIy(x: str = "a", y: int = 2) -> int:
    return y


@as_function_node("o", validate_output_labels=False)
def Ux(x=5) -> int:
    return 7


@as_function_node("r0", "r1", validate_output_labels=False)
def Mpq(p=3, q=4):
    """a function node with the interface of the macros below"""
    return ("Mpq0", p, q), ("Mpq1", p, q)


@as_macro_node("r0", "r1", validate_output_labels=False)
def MacIn(self, p=3, q=4):
    """a fixed two-node macro (depth 2 when it is the child of a workflow): p -> a.x, q -> b.x, a.o -> b.y"""
    self.a = Pxy(x=p)
    self.b = Pxy(x=q, y=self.a)
    return self.a, self.b


# labels that look like pieces of scoped keys (`{node}__{channel}`): delimiter inside, prefixes of each other
@as_function_node("o", validate_output_labels=False)
def Kbc(x="dx", b__c="d1"):
    return ("Kbc", x, b__c)


@as_function_node("o", validate_output_labels=False)
def Kc(c="d2", d="d3"):
    return ("Kc", c, d)


@as_function_node("o", "b__o", validate_output_labels=False)
def Kxo(x="dx", x__y="d4"):
    return ("Kxo", x, x__y), ("Kxo2", x)


@as_function_node("o", validate_output_labels=False)
def Kx(x="dx"):
    return ("Kx", x)


# a value-link chain whose end is stricter than its start: MacChain.q -> inner.b -> inner/scale.y (int)
@as_macro_node("r0", validate_output_labels=False)
def MacChainIn(self, y=1, b=2):
    self.scale = Ixy(x=y, y=b)
    return self.scale


@as_macro_node("r0", "r1", validate_output_labels=False)
def MacChain(self, p=3, q=4):
    self.first = Pxy(x=p)
    self.inner = MacChainIn(y=5, b=q)
    return self.first, self.inner


CLASSES = {
    c.__name__: c
    for c in (Pxy, Qxy, Px, Pxyz, PxyP, PxyOP, Ixy, Sxy, IxyS, SxIy, Ux, Mpq, MacIn, Kbc, Kc, Kxo, Kx, MacChain,
              MacChainIn)
}

# label of the channels per class (inputs, outputs) and their hints -- used by the generator only
SHAPE = {
    "Pxy": (["x", "y"], ["o"]),
    "Qxy": (["x", "y"], ["o"]),
    "Px": (["x"], ["o"]),
    "Pxyz": (["x", "y", "z"], ["o"]),
    "PxyP": (["x", "y"], ["p"]),
    "PxyOP": (["x", "y"], ["o", "p"]),
    "Ixy": (["x", "y"], ["o"]),
    "Sxy": (["x", "y"], ["o"]),
    "IxyS": (["x", "y"], ["o"]),
    "SxIy": (["x", "y"], ["o"]),
    "Ux": (["x"], ["o"]),
    "Mpq": (["p", "q"], ["r0", "r1"]),
    "MacIn": (["p", "q"], ["r0", "r1"]),
}
TYPED = {"Ixy", "Sxy", "IxyS", "SxIy", "Ux"}


def _build(macro, p, q):
    spec = SPEC
    kids = {}
    for label, cls in spec["children"]:
        n = CLASSES[cls](label=label)
        macro.add_child(n)
        kids[label] = n
    for child, inp, value in spec.get("vals", []):
        kids[child].inputs[inp].value = value
    for src, out, dst, inp in spec["data"]:
        kids[dst].inputs[inp].connect(kids[src].outputs[out])
    for name, ui in (("p", p), ("q", q)):
        for child, inp in spec.get("uses", {}).get(name, []):
            kids[child].inputs[inp].connect(ui.outputs.user_input)
    rets = [kids[c].outputs[o] for c, o in spec["returns"]]
    return tuple(rets)


@as_macro_node("r0", "r1", validate_output_labels=False)
def MacU(self, p=3, q=4):
    return _build(self, p, q)


@as_macro_node("r0", "r1", validate_output_labels=False)
def MacT(self, p: int = 3, q: int = 4) -> tuple[int, int]:
    return _build(self, p, q)


MACROS = {"MacU": MacU, "MacT": MacT}
