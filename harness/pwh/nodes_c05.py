"""node classes for the C05 twin histories"""

from __future__ import annotations

from pyiron_workflow import as_function_node, as_macro_node

from . import nodes

BADSET: set = set()
CALLS = {"c": [], "u": []}
WHO = "c"


class Boom(RuntimeError):
    pass


def reset(bad):
    BADSET.clear()
    BADSET.update(bad)
    CALLS["c"].clear()
    CALLS["u"].clear()


@as_function_node("o", validate_output_labels=False)
def G(x):
    CALLS[WHO].append(x)
    if x in BADSET:
        raise Boom(f"g({x})")
    r = ("g", x)
    return r


@as_macro_node("o")
def M3(self, a="d", b="d", c="d"):
    self.n0 = nodes.F0(a=a, b=b, c=c)
    self.n1 = nodes.F1(a=self.n0)
    self.n2 = nodes.F2(a=self.n1, b=self.n0)
    return self.n2
