"""node classes for the C05 twin histories"""

from __future__ import annotations

from pyiron_workflow import as_function_node, as_macro_node

from . import nodes

# what the node function does on an input (deterministic): "exc" | "kbd" | "fatal" | "procbad"; default "ok"
BEH: dict = {}
BADSET: set = set()  # kept for old replay files: inputs that raise Boom
CALLS = {"c": [], "u": []}
WHO = "c"


class Boom(RuntimeError):
    pass


class Fatal(BaseException):
    """a BaseException that is neither an Exception nor KeyboardInterrupt (SystemExit-like)"""


def reset(beh):
    BEH.clear()
    BADSET.clear()
    if isinstance(beh, dict):
        BEH.update({int(k): v for k, v in beh.items()})
    else:  # old style: list of raising inputs
        BEH.update({int(v): "exc" for v in beh})
    CALLS["c"].clear()
    CALLS["u"].clear()


@as_function_node("o", validate_output_labels=False)
def G(x) -> tuple:
    CALLS[WHO].append(x)
    k = BEH.get(x, "ok")
    if k == "exc":
        raise Boom(f"g({x})")
    if k == "kbd":
        raise KeyboardInterrupt()
    if k == "fatal":
        raise Fatal()
    if k == "procbad":
        r = ["g", x]  # not a tuple: the typed output channel refuses it inside process_run_result
        return r
    r = ("g", x)
    return r


@as_macro_node("o")
def M3(self, a="d", b="d", c="d"):
    self.n0 = nodes.F0(a=a, b=b, c=c)
    self.n1 = nodes.F1(a=self.n0)
    self.n2 = nodes.F2(a=self.n1, b=self.n0)
    return self.n2


DESC_CALLS: list = []


def describe(x):
    """everything a function can tell about a value: type, shape, dtype, content"""
    import numpy as np

    if isinstance(x, np.ndarray | np.generic):
        return f"{type(x).__name__}:{x.shape}:{x.dtype}:{np.asarray(x).ravel().tolist()}"
    return f"{type(x).__name__}:{x!r}"


@as_function_node("y", validate_output_labels=False)
def Desc(x):
    DESC_CALLS.append(1)
    y = describe(x)
    return y


@as_function_node("p", "q", validate_output_labels=False)
def Multi(x, how="tuple"):
    """two declared outputs; the function hands its two values back as whatever iterable `how` names"""
    DESC_CALLS.append(1)
    vals = [("p", x), ("q", x)]
    if how == "list":
        return vals
    if how == "gen":
        return (v for v in vals)
    if how == "iter":
        return iter(vals)
    if how == "dictkeys":
        return dict(vals).keys()
    r = (vals[0], vals[1])
    return r


@as_function_node("o", validate_output_labels=False)
def TY(x: int):
    """a typed input without default (NOT_DATA until set)"""
    DESC_CALLS.append(1)
    r = ("t", x)
    return r


@as_macro_node("o")
def ME(self):
    """no inputs of its own: its children's inputs are free"""
    self.n0 = nodes.F10()
    self.n1 = nodes.F11(a=self.n0)
    return self.n1


@as_macro_node("o")
def MF(self):
    self.m0 = ME()
    self.n0 = nodes.F12(a=self.m0)
    return self.n0


@as_macro_node("y")
def MDesc(self, x):
    self.d = Desc(x=x)
    return self.d


# ---- nested composites for the tree cases: labels n<k> (function nodes) and m<k> (macros) ----------------


@as_macro_node("o")
def MA(self, a="d", b="d"):
    """three function nodes"""
    self.n0 = nodes.F0(a=a, b=b)
    self.n1 = nodes.F1(a=self.n0, b=b)
    self.n2 = nodes.F2(a=self.n1, b=self.n0)
    return self.n2


@as_macro_node("o")
def MB(self, a="d"):
    """a macro holding a macro"""
    self.n0 = nodes.F3(a=a)
    self.m0 = MA(a=self.n0, b=a)
    self.n1 = nodes.F4(a=self.m0, b=self.n0)
    return self.n1


@as_macro_node("o")
def MC(self, a="d", b="d"):
    """macro -> macro -> macro -> function node"""
    self.m1 = MB(a=a)
    self.n0 = nodes.F5(a=self.m1, b=b)
    return self.n0


@as_macro_node("o")
def MD(self, a="d"):
    """a single function node (it is the last child: a replacement does not reorder anything)"""
    self.n0 = nodes.F6(a=a)
    return self.n0



import dataclasses as _dc


def _mk_dc(i):
    return _dc.make_dataclass(f"DC{i}", [("x", int, 1), ("y", str, "d")], namespace={"__module__": __name__})


for _i in range(8):
    globals()[f"DC{_i}"] = _mk_dc(_i)


MACROS = {"MA": MA, "MB": MB, "MC": MC, "MD": MD, "ME": ME, "MF": MF}
