"""Composite classes for the ownership property C13 (macros that can be children)."""

from __future__ import annotations

from pyiron_workflow import as_macro_node
from pyiron_workflow.nodes.standard import UserInput


# set by the harness around a construction whose graph creator is to raise before it adds anything
FAIL = False


class CreatorFails(RuntimeError):
    pass


@as_macro_node("o")
def M(self):
    if FAIL:
        raise CreatorFails("c13: the graph creator raises")
    self.u = UserInput(0)
    return self.u


@as_macro_node("o")
def MA(self):
    if FAIL:
        raise CreatorFails("c13: the graph creator raises")
    self.u = UserInput(0)
    return self.u


# a "very label-like attribute" (the edge case `_add_suffix_to_label` searches `dir` for)
MA.a0 = None


from concurrent.futures import Executor, Future, ProcessPoolExecutor  # noqa: E402


class Manual(Executor):
    """an executor whose futures stay pending until the harness says so"""

    def __init__(self):
        self.pending = []

    def submit(self, fn, *args, **kwargs):
        f = Future()
        self.pending.append((f, fn, args, kwargs))
        return f

    def finish(self):
        for f, fn, args, kwargs in self.pending:
            try:
                f.set_result(fn(*args, **kwargs))
            except BaseException as e:  # noqa: BLE001
                f.set_exception(e)
        self.pending = []


class Recording(ProcessPoolExecutor):
    """a process pool that keeps the futures it handed out (the spent copy of a composite is reachable through them)"""

    def __init__(self, *args, **kwargs):
        super().__init__(*args, **kwargs)
        self.handed_out = []

    def submit(self, *args, **kwargs):
        f = super().submit(*args, **kwargs)
        self.handed_out.append(f)
        return f
