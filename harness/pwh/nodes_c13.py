"""Composite classes for the ownership property C13 (macros that can be children)."""

from __future__ import annotations

from pyiron_workflow import as_macro_node
from pyiron_workflow.nodes.standard import UserInput


# set by the harness around a construction whose graph creator is to raise before it adds anything
FAIL = False


class CreatorFails(RuntimeError):
    pass


@as_macro_node("o")
def M(self):
    if FAIL:
        raise CreatorFails("c13: the graph creator raises")
    self.u = UserInput(0)
    return self.u


@as_macro_node("o")
def MA(self):
    if FAIL:
        raise CreatorFails("c13: the graph creator raises")
    self.u = UserInput(0)
    return self.u


# a "very label-like attribute" (the edge case `_add_suffix_to_label` searches `dir` for)
MA.a0 = None
