"""
The flow of one check (DESIGN.md §3.3): proofs → corpus + generated cases →
impl run, model run, correspondence diff, oracle → verdict → evidence.
"""

from __future__ import annotations

import importlib
import json
import sys
import time
from collections import Counter

from . import core
from .core import Failure


def _canon(case) -> str:
    return json.dumps(case, sort_keys=True, default=str)


def _run_one(mod, case):
    """impl + model + oracle for a single case (used by shrinking and replay)"""
    impl = core.run_impl_cases(mod.__name__, [case], workers=1)[0]
    model = None
    if impl.get("obs") and str(impl["obs"][0]).startswith("HARNESS-ERROR"):
        return impl, None, [{"clause": "harness-error", "detail": impl["obs"][0], "signature": {"clause": "harness-error"}}], None
    if getattr(mod, "DRIVER", None):
        m = core.run_model_cases(mod.DRIVER, [mod.model_input(case, impl)])
        model = m[0] if m else None
    fails = list(mod.oracle(case, impl))
    div = None
    if model is not None:
        div = mod.diff(case, impl, model) if hasattr(mod, "diff") else default_diff(mod, case, impl, model)
    return impl, model, fails, div


def default_diff(mod, case, impl, model):
    view = mod.corr_view(case, impl) if hasattr(mod, "corr_view") else impl["obs"]
    if view is None:
        return None
    if list(view) == list(model):
        return None
    for i, (a, b) in enumerate(zip(view, model)):
        if a != b:
            return {"index": i, "impl": a, "model": b}
    return {"index": min(len(view), len(model)), "impl": f"<{len(view)} lines>", "model": f"<{len(model)} lines>",
            "impl_tail": list(view)[-2:], "model_tail": list(model)[-2:]}


def shrink(mod, case, clause, budget=60):
    """greedy delta debugging with the module's candidate generator"""
    if not hasattr(mod, "shrink_candidates"):
        return case
    best = case
    improved = True
    while improved and budget > 0:
        improved = False
        for cand in mod.shrink_candidates(best):
            budget -= 1
            if budget <= 0:
                break
            try:
                impl = core.run_impl_cases(mod.__name__, [cand], workers=1)[0]
                fails = list(mod.oracle(cand, impl))
            except Exception:  # noqa: BLE001
                continue
            if any(f["clause"] == clause for f in fails):
                best = cand
                improved = True
                break
    return best


def run_check(modname: str, tier: str, replay: str | None = None) -> int:
    t0 = time.time()
    mod = importlib.import_module(modname)
    prop = mod.PROP
    rng = core.rng_for(prop)
    findings = core.load_known_findings(prop)

    if replay:
        body = json.loads(open(replay).read())
        impl, model, fails, div = _run_one(mod, body["case"])
        print(json.dumps({"impl": impl.get("obs"), "model": model, "oracle": fails, "divergence": div},
                         indent=1, default=str))
        return 1 if (fails or div) else 0

    # 1. proof obligations
    proofs = core.check_proofs(mod.PROP_FILE, mod.THEOREMS, getattr(mod, 'DRIVER', None))
    rechecked = None
    if tier == "thorough" and proofs.ok:
        ok, log = core.leanchecker(mod.PROP_FILE)
        rechecked = ok
        if not ok:
            proofs.broken.append("leanchecker rejected the compiled module: " + log[-300:])
            proofs.ok = False
    for b in proofs.broken:
        sys.stderr.write(f"[proof] {b}\n")

    # 2/3. cases
    cases = []
    corpus = list(mod.corpus()) if hasattr(mod, "corpus") else []
    cases.extend(corpus)
    escalate = (not proofs.ok)
    gen = list(mod.gen_cases(rng, "thorough" if escalate else tier))
    cases.extend(gen)
    # modelled source moved since the digests were pinned: not a verdict, but a reason to look harder —
    # two more independent generator streams in the quick tier
    moved = core.pins_changed(prop)
    if moved and tier == "quick" and not escalate:
        for stream in (1, 2):
            cases.extend(mod.gen_cases(core.rng_for(prop, stream), tier))
    seen = set()
    uniq = []
    for c in cases:
        k = _canon(c)
        if k not in seen:
            seen.add(k)
            uniq.append(c)
    cases = uniq

    impl_res = core.run_impl_cases(mod.__name__, cases)
    model_res = None
    model_broken = False
    def _is_err(r):
        return bool(r.get("obs")) and str(r["obs"][0]).startswith("HARNESS-ERROR")

    if getattr(mod, "DRIVER", None):
        # a case the implementation did not survive (exception out of the runner, per-case watchdog) has no
        # observations to feed back; it is reported on its own below
        model_res = core.run_model_cases(
            mod.DRIVER, [[] if _is_err(r) else mod.model_input(c, r) for c, r in zip(cases, impl_res)])
        if model_res is None:
            model_broken = True

    oracle_fail: list[Failure] = []
    diverge: list[Failure] = []
    harness_err = 0
    hist = Counter()
    nontrivial = set()
    for i, (c, r) in enumerate(zip(cases, impl_res)):
        if r.get("obs") and str(r["obs"][0]).startswith("HARNESS-ERROR"):
            harness_err += 1
            oracle_fail.append(Failure("oracle-failure", c, "harness-error", r["obs"][0] + "\n" + r.get("tb", ""),
                                       {"clause": "harness-error"}, r.get("obs", []), []))
            continue
        for k, v in (r.get("stats") or {}).items():
            hist[k] += v
        if mod.nontrivial(c, r) if hasattr(mod, "nontrivial") else True:
            nontrivial.add(_canon(c))
        for f in mod.oracle(c, r):
            oracle_fail.append(Failure("oracle-failure", c, f["clause"], f.get("detail", ""),
                                       f.get("signature", {"clause": f["clause"]}), r.get("obs", []),
                                       model_res[i] if model_res else []))
        if model_res is not None:
            d = mod.diff(c, r, model_res[i]) if hasattr(mod, "diff") else default_diff(mod, c, r, model_res[i])
            if d is not None:
                diverge.append(Failure("correspondence-divergence", c, "correspondence", json.dumps(d, default=str),
                                       {"clause": "correspondence"}, r.get("obs", []), model_res[i]))

    # 4. verdict
    violations: list[tuple[Failure, bool]] = []
    known_hit: dict[str, dict] = {}
    new_fail: dict[str, Failure] = {}
    for f in oracle_fail:
        kf = core.match_finding(f.signature, findings)
        if kf is not None:
            known_hit[kf["id"]] = kf
        else:
            key = json.dumps(f.signature, sort_keys=True, default=str)
            if key not in new_fail or len(_canon(f.case)) < len(_canon(new_fail[key].case)):
                new_fail[key] = f
    for f in list(new_fail.values())[:5]:
        small = shrink(mod, f.case, f.clause) if f.clause != "harness-error" else f.case
        if small is not f.case:
            impl, model, fails, _ = _run_one(mod, small)
            ff = next((x for x in fails if x["clause"] == f.clause), None)
            if ff is not None:
                sig = ff.get("signature", {"clause": ff["clause"]})
                kf = core.match_finding(sig, findings)
                if kf is not None:
                    # the minimal cause is a listed finding
                    known_hit[kf["id"]] = kf
                    continue
                f = Failure("oracle-failure", small, ff["clause"], ff.get("detail", ""), sig,
                            impl.get("obs", []), model or [])
        violations.append((f, False))

    unchecked = {}
    if not violations and (diverge or model_broken or not proofs.ok):
        unchecked = {"theorems": proofs.broken, "correspondence": None}
        # extended search: property-specific deeper generators + witness replay
        found = None
        if hasattr(mod, "extended_search"):
            found = mod.extended_search(rng, findings)
        if found is not None:
            violations.append((found, False))
        else:
            if diverge:
                f = min(diverge, key=lambda x: len(_canon(x.case)))
                unchecked["correspondence"] = f.detail
                violations.append((f, True))
            elif model_broken:
                violations.append((Failure("correspondence-divergence", {}, "model-driver",
                                           f"model driver {mod.DRIVER} cannot be run"), True))
            else:
                violations.append((Failure("proof-broken", {}, "proof", "; ".join(proofs.broken)), True))

    for kf in known_hit.values():
        print(f"KNOWN-FINDING: property={prop} {kf['id']} {kf['what']}")
    rc = 0
    for f, no_input in violations:
        p = core.write_replay(prop, tier, f, no_input=no_input, unchecked=unchecked)
        tail = " no-failing-input-found" if no_input else ""
        print(f"VIOLATION property={prop} replay={p}{tail}")
        sys.stderr.write(f"[violation] clause={f.clause} {f.detail[:600]}\n")
        rc = 1

    # 5. evidence
    samples = [c for c in cases[: len(corpus) + 3]][-3:]
    cov = {
        "obligations": proofs.obligations,
        "discharged": proofs.discharged,
        "checker_cmd": f"cd lean && lake build && lake env lean {mod.PROP_FILE}  (#print axioms on every property theorem)",
        "trusted_base": [
            "Lean 4.33.0 kernel",
            "axioms used: " + ", ".join(sorted({a for v in proofs.axioms.values() for a in v}) or ["none"]),
            "correspondence harness harness/pwh (generators, abstraction of live objects to observations, differ)",
        ] + list(getattr(mod, "TRUSTED", [])),
        "theorems": {k: v for k, v in proofs.axioms.items()},
        "evaluations": len(cases),
        "distinct_nontrivial": len(nontrivial),
        "rule": getattr(mod, "RULE", "seeded structured generator; distinct canonical cases reaching the property's alphabet"),
        "samples": samples,
        "traces_validated_against_impl": len(cases) if model_res is not None else 0,
        "disagreements_checked": len(diverge),
        "programs": len(cases),
        "corpus_cases": len(corpus),
        "histogram": dict(hist),
        "known_findings_hit": sorted(known_hit),
        "proof_broken": proofs.broken,
        "leanchecker_recheck": rechecked,
        "anchored_files_changed_since_pin": moved,
        "harness_errors": harness_err,
        "explanation": getattr(mod, "EXPLANATION", ""),
        "exhaustive": bool(getattr(mod, "EXHAUSTIVE", {}).get(tier, False)),
    }
    core.write_evidence(prop, tier, "proof", cov, list(getattr(mod, "ASSUMPTIONS", [])), time.time() - t0,
                        len(violations))
    sys.stderr.write(
        f"[{prop}] tier={tier} cases={len(cases)} nontrivial={len(nontrivial)} proofs={proofs.discharged}/{proofs.obligations} "
        f"oracle_fail={len(oracle_fail)} diverge={len(diverge)} known={sorted(known_hit)} wall={time.time()-t0:.1f}s\n"
    )
    return rc
