import PwVerif.Proofs.WfIO
import PwVerif.Proofs.MapHeap
/-!
# C15 — A workflow's inputs and outputs are exactly its children's open channels

"At any moment a workflow's inputs (outputs) are precisely the input (output) channels of its
children that have no connection, each under the key child-label__channel-label, plus any
connected channel explicitly exposed and minus any channel explicitly hidden by the one-to-one
renaming maps. They are the child channels themselves, so assigning through the workflow
assigns to the child, and the value returned by running the workflow is the dictionary of
those outputs."  — for every sequence of adding and removing children, connecting and
disconnecting them, and every pair of renaming/exposing/hiding maps, including attempts to map
two channels to one name.

All theorems quantify over an *arbitrary* world `w : W` (any children in any insertion order,
any connection graph, any pair of stored maps, any values), hence in particular over every
world reachable by an editing history (`C15_at_any_moment`).  A panel is the result of
`Workflow._build_io`, which *raises* when two channels would get the same key; `some p` is
"the access returned the panel `p`".

The second half (`C15_live_inv` … `C15_at_any_moment_live`) covers the larger editing alphabet:
in-place edits of the LIVE map objects returned by the `inputs_map`/`outputs_map` getters.

Only property theorems live here; the lemmas are in `Proofs/WfIO.lean`.
-/
namespace PwVerif.C15
open PwVerif PwVerif.WfIO

/-- **Key set, channel identity and order.** Whenever `workflow.inputs` (`.outputs`) returns,
it is exactly the stated set expression `(open ∪ exposed) \ hidden` over the children's
channels, keyed by the mapped name or else the scoped label, in child/channel order. -/
theorem C15_io_spec (w : W) (s : Side) (p : Panel) (h : w.panel s = some p) : p = w.spec s :=
  ((buildIO_some_iff _ _ _ p).mp h).2

/-- The same, spelled out in the words of the property: `k ↦ c` is in the panel iff `c` is a
channel `l` of some child and, looking up the canonical key `child__l` in the renaming map,
either the map names it `k` (explicitly exposed/renamed — connected or not), or the map does
not mention it, it has no connection and `k` is the canonical key. A key mapped to the
disabled marker never appears. -/
theorem C15_io_members (w : W) (s : Side) (p : Panel) (h : w.panel s = some p) (k : String) (c : Nat) :
    (k, c) ∈ p ↔
      ∃ child ∈ w.children, ∃ l, (l, c) ∈ child.side s ∧
        match ((w.map s).getD []).lookup (scopedLabel child.label l) with
        | some (.name n) => k = n
        | some (.disabled _) => False
        | some .rawNone => False
        | none => w.connected c = false ∧ k = scopedLabel child.label l := by
  rw [C15_io_spec w s p h, W.spec, mem_spec_iff]
  simp only [W.chans, List.mem_flatMap, Child.chans, List.mem_map]
  constructor
  · rintro ⟨ch, ⟨child, hchild, ⟨⟨l, c'⟩, hl, rfl⟩⟩, hc, hin, hk⟩
    simp only at hc; subst hc
    refine ⟨child, hchild, l, hl, ?_⟩
    simp only [inIO, keyFor, exposedAs, isHidden] at hin hk
    cases hlk : ((w.map s).getD []).lookup (scopedLabel child.label l) with
    | none => simp_all
    | some t => cases t <;> simp_all
  · rintro ⟨child, hchild, l, hl, hm⟩
    refine ⟨(scopedLabel child.label l, c), ⟨child, hchild, (l, c), hl, rfl⟩, rfl, ?_⟩
    simp only [inIO, keyFor, exposedAs, isHidden]
    cases hlk : ((w.map s).getD []).lookup (scopedLabel child.label l) with
    | none => simp_all
    | some t => cases t <;> simp_all

/-- The access returns a panel exactly when the effective naming of the visible channels is
one-to-one; otherwise (`Workflow._build_io` runs into `existing.connect(channel)` between two
channels of the same side) it raises — it never silently drops or overwrites a channel. -/
theorem C15_io_defined (w : W) (s : Side) :
    (w.panel s).isSome ↔ NoClash (w.map s) w.connected (w.chans s) := by
  constructor
  · intro h
    obtain ⟨p, hp⟩ := Option.isSome_iff_exists.mp h
    exact ((buildIO_some_iff _ _ _ p).mp hp).1
  · intro h
    exact Option.isSome_iff_exists.mpr ⟨_, (buildIO_some_iff _ _ _ _).mpr ⟨h, rfl⟩⟩

/-- … and when it is one-to-one the panel *is* the set expression (total form). -/
theorem C15_io_total (w : W) (s : Side) (h : NoClash (w.map s) w.connected (w.chans s)) :
    w.panel s = some (w.spec s) :=
  (buildIO_some_iff _ _ _ _).mpr ⟨h, rfl⟩

/-- A sufficient condition on the *inputs of the user*: scoped labels of the children's channels
pairwise different, the stored map one-to-one (a `bidict`), and no mapped name re-uses the
canonical key of an existing channel. Then the naming is one-to-one, for every connection state. -/
theorem C15_noclash (w : W) (s : Side)
    (hlab : ((w.chans s).map Prod.fst).Nodup)
    (hbi : ((((w.map s).getD [])).map Prod.snd).Nodup)
    (hdisj : ∀ k n, (k, Target.name n) ∈ (w.map s).getD [] → n ∉ (w.chans s).map Prod.fst) :
    NoClash (w.map s) w.connected (w.chans s) := by
  unfold NoClash
  rw [spec_eq_specL]
  generalize (w.map s).getD [] = m at *
  generalize w.chans s = chans at *
  unfold specL
  rw [List.map_map]
  have hpw : chans.Pairwise (fun a b => a.1 ≠ b.1) := List.pairwise_map.mp hlab
  refine List.pairwise_map.mpr ?_
  refine List.Pairwise.imp_of_mem ?_ (List.Pairwise.filter _ hpw)
  intro a b ha hb hab
  have ha' := (List.mem_filter.mp ha).1
  have hb' := (List.mem_filter.mp hb).1
  have hmem : ∀ (k : String) (t : Target), m.lookup k = some t → (k, t) ∈ m := mem_of_lookup m
  simp only [Function.comp, keyFor, exposedAs]
  cases hla : m.lookup a.1 with
  | none =>
    cases hlb : m.lookup b.1 with
    | none => simpa using hab
    | some tb =>
      cases tb with
      | disabled _ => simpa using hab
      | rawNone => simpa using hab
      | name nb =>
        simp only [Option.getD]
        intro e
        exact hdisj b.1 nb (hmem _ _ hlb) (e ▸ List.mem_map.mpr ⟨a, ha', rfl⟩)
  | some ta =>
    cases ta with
    | disabled _ =>
      cases hlb : m.lookup b.1 with
      | none => simpa using hab
      | some tb =>
        cases tb with
        | disabled _ => simpa using hab
        | rawNone => simpa using hab
        | name nb =>
          simp only [Option.getD]
          intro e
          exact hdisj b.1 nb (hmem _ _ hlb) (e ▸ List.mem_map.mpr ⟨a, ha', rfl⟩)
    | rawNone =>
      cases hlb : m.lookup b.1 with
      | none => simpa using hab
      | some tb =>
        cases tb with
        | disabled _ => simpa using hab
        | rawNone => simpa using hab
        | name nb =>
          simp only [Option.getD]
          intro e
          exact hdisj b.1 nb (hmem _ _ hlb) (e ▸ List.mem_map.mpr ⟨a, ha', rfl⟩)
    | name na =>
      cases hlb : m.lookup b.1 with
      | none =>
        simp only [Option.getD]
        intro e
        exact hdisj a.1 na (hmem _ _ hla) (e ▸ List.mem_map.mpr ⟨b, hb', rfl⟩)
      | some tb =>
        cases tb with
        | disabled _ =>
          simp only [Option.getD]
          intro e
          exact hdisj a.1 na (hmem _ _ hla) (e ▸ List.mem_map.mpr ⟨b, hb', rfl⟩)
        | rawNone =>
          simp only [Option.getD]
          intro e
          exact hdisj a.1 na (hmem _ _ hla) (e ▸ List.mem_map.mpr ⟨b, hb', rfl⟩)
        | name nb =>
          simp only [Option.getD]
          intro e; subst e
          exact not_nodup_of_two m a.1 b.1 (Target.name na) hab (hmem _ _ hla) (hmem _ _ hlb) hbi

/-- **By reference.** The panel entry *is* the child's channel: assigning a value through the
workflow is the assignment to that child channel (same effect, same refusal by the hint
check), connecting through the workflow connects the child channel, and the channel belongs
to a child. -/
theorem C15_by_reference (w : W) (s : Side) (p : Panel) (h : w.panel s = some p)
    (k : String) (c : Nat) (hk : (k, c) ∈ p) :
    (∀ v, assignVia w s k v = setValue w c v) ∧
    (∀ b, connectVia w s k b = step w (.connect c b)) ∧
    (∃ child ∈ w.children, ∃ l, (l, c) ∈ child.side s) := by
  have hnd : (p.map Prod.fst).Nodup := by
    have := (buildIO_some_iff _ _ _ p).mp h
    rw [this.2]; exact this.1
  have hl : panelGet p k = some c := lookup_of_mem_nodup p k c hnd hk
  refine ⟨?_, ?_, ?_⟩
  · intro v; simp [assignVia, h, hl]
  · intro b; simp [connectVia, h, hl, step]
  · obtain ⟨child, hc, l, hl', _⟩ := (C15_io_members w s p h k c).mp hk
    exact ⟨child, hc, l, hl'⟩

/-- assigning through a key that is not in the panel changes nothing -/
theorem C15_assign_unknown_noop (w : W) (s : Side) (p : Panel) (h : w.panel s = some p)
    (k : String) (hk : ∀ c, (k, c) ∉ p) (v : Val) : (assignVia w s k v).1 = w := by
  have : panelGet p k = none := by
    cases hl : panelGet p k with
    | none => rfl
    | some c => exact absurd (mem_of_lookup p k c hl) (hk c)
  simp [assignVia, h, this]

/-- **Return value.** `workflow()` returns the dictionary key ↦ value of exactly those outputs
(whatever values the run left in the children's channels). -/
theorem C15_return (w : W) (r : List (String × Val)) (h : runReturn w = some r) :
    r = (w.spec .outputs).map fun e => (e.1, w.val e.2) := by
  unfold runReturn at h
  cases hp : w.panel .outputs with
  | none => simp [hp] at h
  | some p =>
    simp only [hp, Option.map_some, Option.some.injEq] at h
    rw [← h, C15_io_spec w .outputs p hp]; rfl

/-- **Duplicates.** Mapping two channels to one name is rejected and the old map is kept. -/
theorem C15_dup_rejected (old : Option KeyMap) (m : UserMap) (k₁ k₂ n : String)
    (hne : k₁ ≠ k₂) (h₁ : (k₁, some n) ∈ m) (h₂ : (k₂, some n) ∈ m) :
    setMap old (some m) = (old, .dupErr) := by
  have : ¬ ((dedupNones m).map Prod.snd).Nodup :=
    not_nodup_of_two _ k₁ k₂ (Target.name n) hne
      ((mem_dedupNones_name m k₁ n).mpr h₁) ((mem_dedupNones_name m k₂ n).mpr h₂)
  simp [setMap, bidictOk, this]

/-- … and a rejected assignment of either map leaves the whole world unchanged. -/
theorem C15_rejected_noop (w : W) (s : Side) (m : Option UserMap)
    (h : (step w (.setMap s m)).2 ≠ .ok) : (step w (.setMap s m)).1 = w := by
  cases s <;> cases m <;> simp_all [step, setMap] <;> split at h <;> simp_all

/-- Conversely a `dict` whose names are pairwise different is accepted, however many channels
it hides (every `None` gets its own marker). -/
theorem C15_map_accepted (old : Option KeyMap) (m : UserMap) (hk : (m.map Prod.fst).Nodup)
    (hn : (m.filterMap Prod.snd).Nodup) : setMap old (some m) = (some (dedupNones m), .ok) := by
  simp [setMap, bidictOk, (dedupNones_values_nodup m hk).mpr hn]

/-- **At any moment.** After every editing history (add/remove children, connect/disconnect,
map assignments accepted or rejected, assignments through the panels, arbitrary value changes)
each panel is the set expression or the access raises on a key clash; never anything else. -/
theorem C15_at_any_moment (admits : Nat → Val → Bool) (valid : Nat → Nat → Bool) (ops : List Op) (s : Side) :
    let w := run (empty admits valid) ops
    (w.panel s = some (w.spec s) ∧ NoClash (w.map s) w.connected (w.chans s)) ∨
    (w.panel s = none ∧ ¬ NoClash (w.map s) w.connected (w.chans s)) := by
  intro w
  by_cases h : NoClash (w.map s) w.connected (w.chans s)
  · exact .inl ⟨C15_io_total w s h, h⟩
  · exact .inr ⟨(buildIO_none_iff _ _ _).mpr h, h⟩

/-- **`replace_child`'s IO rebuild** (full statement): whenever both panels can be built, the
rebuild finds every connected entry of the old panel in the new one, i.e. it does not raise. -/
def RebuildStatement (cfg : RebuildKey) : Prop :=
  ∀ w : W, (w.panel .inputs).isSome → (w.panel .outputs).isSome → rebuildOk cfg w = true

/-- it holds for the repaired lookup by panel key … -/
theorem C15_rebuild_repaired : RebuildStatement .panelKey := by
  intro w hi ho
  have side : ∀ s, (w.panel s).isSome → rebuildLookupOk .panelKey w s = true := by
    intro s hs
    obtain ⟨p, hp⟩ := Option.isSome_iff_exists.mp hs
    have hnd : (p.map Prod.fst).Nodup := by
      have := (buildIO_some_iff _ _ _ p).mp hp
      rw [this.2]; exact this.1
    simp only [rebuildLookupOk, hp, List.all_eq_true, Bool.or_eq_true]
    intro e he
    right
    have : panelGet p e.1 = some e.2 := lookup_of_mem_nodup p e.1 e.2 hnd he
    simp [this]
  simp [rebuildOk, side .inputs hi, side .outputs ho]

/-- the pinned lookup by the channel's own label, under the hypothesis that no connected
channel is in either panel (= nothing connected was explicitly exposed) -/
theorem C15_rebuild_partial (w : W) (hi : (w.panel .inputs).isSome) (ho : (w.panel .outputs).isSome)
    (hopen : ∀ s p, w.panel s = some p → ∀ e ∈ p, w.connected e.2 = false) :
    rebuildOk .chanLabel w = true := by
  have side : ∀ s, (w.panel s).isSome → rebuildLookupOk .chanLabel w s = true := by
    intro s hs
    obtain ⟨p, hp⟩ := Option.isSome_iff_exists.mp hs
    simp only [rebuildLookupOk, hp, List.all_eq_true, Bool.or_eq_true]
    intro e he
    left; simp [hopen s p hp e he]
  simp [rebuildOk, side .inputs hi, side .outputs ho]

/-! ## Non-vacuity: a concrete reachable world -/

def c0 : Child := { label := "n0", ins := [("a", 0), ("b", 1), ("c", 2)], outs := [("o", 3)] }
def c1 : Child := { label := "n1", ins := [("a", 4), ("b", 5), ("c", 6)], outs := [("o", 7)] }
def c2 : Child := { label := "n2", ins := [("a", 8), ("b", 9), ("c", 10)], outs := [("o", 11)] }

/-- three children, `n2` removed again, `n0.o → n1.a`, a connection made and broken, a rejected
duplicate map, then rename + expose-connected + hide-open maps, an assignment through the panel -/
def exW : W := run (empty (fun c v => !(c == 5 && v == "bad")) (fun _ _ => true))
  [.add c0, .add c1, .add c2, .connect 4 3, .connect 9 3, .remove "n2", .connect 5 3, .disconnect 5 3,
   .setMap .inputs (some [("n0__a", some "z"), ("n0__b", some "z")]),
   .setMap .inputs (some [("n0__a", some "x"), ("n1__a", some "y"), ("n0__b", none), ("n0__c", none), ("q__q", some "r")]),
   .setMap .outputs (some [("n0__o", some "mid")]),
   .assign .inputs "x" "5", .assign .inputs "n1__b" "bad", .setVal 3 "t0", .setVal 7 "t1"]

example : exW.panel .inputs = some [("x", 0), ("y", 4), ("n1__b", 5), ("n1__c", 6)] := by decide
example : exW.panel .outputs = some [("mid", 3), ("n1__o", 7)] := by decide
example : exW.connected 4 = true ∧ exW.connected 3 = true ∧ exW.connected 5 = false := by decide
example : exW.val 0 = "5" ∧ exW.val 5 = "ND" := by decide
example : runReturn exW = some [("mid", "t0"), ("n1__o", "t1")] := by decide
example : NoClash (exW.map .inputs) exW.connected (exW.chans .inputs) := by
  have h : (exW.panel .inputs).isSome := by decide
  exact (C15_io_defined exW .inputs).mp h
/-- hypotheses of `C15_noclash` hold for the example -/
example : ((exW.chans .inputs).map Prod.fst).Nodup ∧ (((exW.map .inputs).getD []).map Prod.snd).Nodup := by decide
/-- hypotheses of `C15_dup_rejected` / `C15_map_accepted` -/
example : setMap exW.imap (some [("n0__a", some "z"), ("n0__b", some "z")]) = (exW.imap, .dupErr) :=
  C15_dup_rejected _ _ "n0__a" "n0__b" "z" (by decide) (by decide) (by decide)
example : (setMap none (some [("a", none), ("b", none), ("c", some "z")])).2 = .ok := by decide
/-- a clash (mapped name = canonical key of another open channel): the access raises -/
def clashW : W := run (empty (fun _ _ => true) (fun _ _ => true))
  [.add c0, .setMap .inputs (some [("n0__a", some "n0__b")])]
example : clashW.panel .inputs = none ∧ clashW.panel .outputs = some [("n0__o", 3)] := by decide

/-- … and is false for the pinned code: `n0.o → n1.a` with the connected `n0.o` exposed as
`mid` (the README's own example); `new["o"]` does not exist, `replace_child` raises. -/
def readmeW : W := run (empty (fun _ _ => true) (fun _ _ => true))
  [.add c0, .add c1, .connect 4 3, .setMap .outputs (some [("n0__o", some "mid"), ("n1__o", some "y")])]

theorem C15_rebuild_pinned_witness : ¬ RebuildStatement .chanLabel := by
  intro h
  have := h readmeW (by decide) (by decide)
  revert this; decide

example : readmeW.panel .outputs = some [("mid", 3), ("y", 7)] ∧ readmeW.connected 3 = true ∧
    readmeW.labelOf .outputs 3 = "o" := by decide
example : rebuildOk .chanLabel exW = false ∧ rebuildOk .panelKey exW = true := by decide

/-! ## The larger editing alphabet: in-place edits of the LIVE map objects

`wf.inputs_map` / `wf.outputs_map` return the stored `bidict` itself; the user may keep the
reference and edit it entry by entry (`m[k] = None`, `del m[k]`, `m.update(…)`, `m.pop(k)`,
`m.forceput(…)`, `m.inverse[name] = k`, …), and a `bidict` argument of the setter is stored
without any clean-up.  `Op.read` is the getter (it cleans the stored object in place and is
called by every access of `wf.inputs`/`wf.outputs`), `Op.edit` a raw edit of the live object,
`Op.setMapB` the assignment of a `bidict`.  All theorems above quantify over arbitrary worlds
and therefore hold after these operations too; the theorems below say what is specific to them. -/

/-- **The stored maps stay one-to-one.** After every history over the larger alphabet (the
arguments of whole-map assignments being Python mappings, i.e. with pairwise different keys)
both stored maps have pairwise different keys, pairwise different values, and every disabled
marker sits under the key it names. -/
theorem C15_live_inv (admits : Nat → Val → Bool) (valid : Nat → Nat → Bool) (ops : List Op)
    (hwf : ∀ op ∈ ops, op.WF) : WInv (run (empty admits valid) ops) :=
  run_inv ops hwf _ (empty_inv _ _)

/-- **Reading is harmless.** On well-formed stored maps the getter never raises, the panel
access as the code runs it (`W.access`: clean up the stored object, then `_build_io`) returns
what `_build_io` returns on the stored map as it is — a raw `None` is read as *hidden*, not as
"not in the map" —, the user sees the same map before and after, and afterwards no raw `None`
is stored. -/
theorem C15_read_ok (w : W) (h : WInv w) (s : Side) :
    (step w (.read s)).2 = .ok ∧ (w.access s).2 = w.panel s ∧
    userView (((step w (.read s)).1.map s).getD []) = userView ((w.map s).getD []) ∧
    (∀ m, (step w (.read s)).1.map s = some m → MapInv m ∧ Normal m) := by
  obtain ⟨h1, h2, h3, h4, _⟩ := read_map w s
  have hm := h.map s
  have key : (readMap (w.map s)).2 = .ok ∧
      userView ((readMap (w.map s)).1.getD []) = userView ((w.map s).getD []) ∧
      (∀ m, (readMap (w.map s)).1 = some m → MapInv m ∧ Normal m) := by
    cases hw : w.map s with
    | none => simp [readMap]
    | some m =>
      rw [hw] at hm
      obtain ⟨a, b, c, d⟩ := normalize_spec hm
      refine ⟨a, c, ?_⟩
      intro m' e
      simp only [readMap, Option.some.injEq] at e
      subst e; exact ⟨b, d⟩
  refine ⟨h2 ▸ key.1, ?_, h1 ▸ key.2.1, h1 ▸ key.2.2⟩
  unfold W.access
  simp only [h2, key.1, if_true]
  exact panel_congr w _ s h3 h4 (h1 ▸ key.2.1)

/-- **The set expression in the user's terms.** Whenever the access returns, the panel is the
stated set expression computed from the map *as the user sees it* (key ↦ name, `None` = hidden):
exposed if mapped to a name, hidden if mapped to `None` (however that is stored at the moment),
otherwise present iff unconnected, under the mapped name or else `child__channel`. -/
theorem C15_io_user_spec (w : W) (s : Side) (p : Panel) (h : w.panel s = some p) :
    p = uspec (userView ((w.map s).getD [])) w.connected (w.chans s) := by
  rw [C15_io_spec w s p h, W.spec, spec_eq_uspec]

/-- **A refused in-place edit leaves everything as it was** (`ValueDuplicationError`,
`KeyAndValueDuplicationError` — also of a multi-item `update`, which is rolled back —, `KeyError`,
or the `TypeError`/`AttributeError` of editing a map that is `None`). -/
theorem C15_edit_refused_noop (w : W) (s : Side) (e : Edit) (h : (step w (.edit s e)).2 ≠ .ok) :
    (step w (.edit s e)).1 = w := by
  cases s
  · simp only [step] at h ⊢
    cases hm : w.imap with
    | none => cases w; simp_all [editStored]
    | some m =>
      rw [hm] at h
      have := editMap_err_same m e (by simpa [editStored] using h)
      cases w; simp_all [editStored]
  · simp only [step] at h ⊢
    cases hm : w.omap with
    | none => cases w; simp_all [editStored]
    | some m =>
      rw [hm] at h
      have := editMap_err_same m e (by simpa [editStored] using h)
      cases w; simp_all [editStored]

/-- … and so does a refused assignment of a `bidict`. -/
theorem C15_setMapB_refused_noop (w : W) (s : Side) (m : UserMap) (h : (step w (.setMapB s m)).2 ≠ .ok) :
    (step w (.setMapB s m)).1 = w := by
  cases s <;> simp_all [step, setMapB] <;> split at h <;> simp_all

/-- **`m[k] = v` on the live map, completely.** On a well-formed stored map the item assignment
is refused iff the value already sits under ANOTHER key (two channels to one name — or a second
raw `None` on a reference that was held across the first); a refused one changes nothing; an
accepted one makes the map say `k ↦ v` and nothing else new. -/
theorem C15_put_spec {m : KeyMap} (h : MapInv m) (k : String) (v : Option String) :
    ((editMap m (.put k v)).2 ≠ .ok ↔ ∃ k', k' ≠ k ∧ (k', Target.ofUser v) ∈ m) ∧
    ((editMap m (.put k v)).2 ≠ .ok → (editMap m (.put k v)).1 = m) ∧
    ((editMap m (.put k v)).2 = .ok → ∀ x, (userView (editMap m (.put k v)).1).lookup x =
      if x = k then some v else (userView m).lookup x) := by
  refine ⟨bput_refused_iff h k _, bput_err_same m k _, ?_⟩
  intro hok x
  simp only [editMap] at hok ⊢
  rw [lookup_userView, lookup_userView, bput_ok_lookup h k _ hok x]
  by_cases hx : x = k <;> simp [hx, view_ofUser]

/-- through the getter (`wf.inputs_map[k] = None`) hiding is never refused: the getter has
just replaced every raw `None`, however many channels are hidden already -/
theorem C15_getter_hide_accepted (w : W) (h : WInv w) (s : Side) (k : String) (m : KeyMap)
    (hm : w.map s = some m) :
    (step (step w (.read s)).1 (.edit s (.put k none))).2 = .ok := by
  obtain ⟨_, _, _, h4⟩ := C15_read_ok w h s
  obtain ⟨h1, _, _, _, _⟩ := read_map w s
  obtain ⟨_, e2, _, _⟩ := edit_map (step w (.read s)).1 s (.put k none)
  rw [e2]
  have : ∃ m1, (step w (.read s)).1.map s = some m1 := by
    rw [h1, hm]; exact ⟨_, rfl⟩
  obtain ⟨m1, hm1⟩ := this
  rw [hm1]
  exact bput_none_ok (h4 m1 hm1).2 k

/-- **Hidden stays hidden.** After an accepted `m[k] = None` on the live map — with or without
any clean-up before or after — no channel whose canonical key is `k` is in the panel. -/
theorem C15_live_hide (w : W) (h : WInv w) (s : Side) (k : String)
    (hok : (step w (.edit s (.put k none))).2 = .ok) (hsome : (w.map s).isSome) :
    ∀ p, (step w (.edit s (.put k none))).1.panel s = some p →
      ∀ e ∈ p, ∃ ch ∈ w.chans s, ch.2 = e.2 ∧ ch.1 ≠ k := by
  obtain ⟨e1, e2, e3, e4⟩ := edit_map w s (.put k none)
  obtain ⟨m, hm⟩ := Option.isSome_iff_exists.mp hsome
  have hinv : MapInv m := by have := h.map s; rwa [hm] at this
  intro p hp e he
  rw [C15_io_user_spec _ s p hp] at he
  have hch : ((step w (.edit s (.put k none))).1.chans s) = w.chans s := by simp [W.chans, e3]
  rw [hch, e1, hm] at he
  simp only [editStored, Option.getD_some, uspec, List.mem_map, List.mem_filter] at he
  obtain ⟨ch, ⟨hmem, hin⟩, rfl⟩ := he
  refine ⟨ch, hmem, rfl, ?_⟩
  intro hk
  rw [e2, hm] at hok
  simp only [editStored] at hok
  have := (C15_put_spec hinv k none).2.2 hok ch.1
  simp only [hk, if_true] at this
  simp [uInIO, hk, this] at hin

/-- **At any moment, larger alphabet.** After every history of adding/removing children,
connecting/disconnecting, whole-map assignments (dict or bidict, accepted or refused), getter
calls and in-place edits of the live maps (accepted or refused), for either side: the stored
maps are well-formed, the access as the code runs it does not raise in the getter and equals
`_build_io` on the stored map, and that is the set expression over the map as the user sees it
— or the access raises because two visible channels would share one key; never anything else. -/
theorem C15_at_any_moment_live (admits : Nat → Val → Bool) (valid : Nat → Nat → Bool) (ops : List Op)
    (hwf : ∀ op ∈ ops, op.WF) (s : Side) :
    let w := run (empty admits valid) ops
    WInv w ∧ (step w (.read s)).2 = .ok ∧ (w.access s).2 = w.panel s ∧
    ((w.panel s = some (uspec (userView ((w.map s).getD [])) w.connected (w.chans s)) ∧
        NoClash (w.map s) w.connected (w.chans s)) ∨
      (w.panel s = none ∧ ¬ NoClash (w.map s) w.connected (w.chans s))) := by
  intro w
  have hinv : WInv w := C15_live_inv admits valid ops hwf
  obtain ⟨r1, r2, _, _⟩ := C15_read_ok w hinv s
  refine ⟨hinv, r1, r2, ?_⟩
  by_cases h : NoClash (w.map s) w.connected (w.chans s)
  · refine .inl ⟨?_, h⟩
    have := C15_io_total w s h
    rw [this, W.spec, spec_eq_uspec]
  · exact .inr ⟨(buildIO_none_iff _ _ _).mpr h, h⟩


/-! ### Non-vacuity: a concrete history with live edits -/

/-- `n0.o → n1.a`; outputs map assigned, then `wf.outputs_map['n1__o'] = None`; inputs map assigned
(one `None`), then on a HELD reference `m['n0__c'] = None` (accepted, raw), `m['n1__b'] = None`
(refused: second raw `None`), a panel access (cleans up), `m['n1__b'] = None` again (accepted),
`m.inverse['x'] = 'n1__c'` (drops `n0__a ↦ x`), a two-item `update` that is rolled back,
`del m['nokey']` (KeyError), a `bidict` assigned to the outputs and one entry popped. -/
def liveOps : List Op :=
  [.add c0, .add c1, .connect 4 3,
   .setMap .outputs (some [("n0__o", some "mid")]),
   .read .outputs, .edit .outputs (.put "n1__o" none),
   .setMap .inputs (some [("n0__a", some "x"), ("n0__b", none)]),
   .read .inputs, .edit .inputs (.put "n0__c" none), .edit .inputs (.put "n1__b" none),
   .read .inputs, .edit .inputs (.put "n1__b" none),
   .edit .inputs (.invPut (some "x") "n1__c"),
   .edit .inputs (.update [("n0__a", some "k"), ("n0__b", some "x")]),
   .edit .inputs (.del "nokey")]

def liveW : W := run (empty (fun _ _ => true) (fun _ _ => true)) liveOps

theorem liveOps_wf : ∀ op ∈ liveOps, op.WF := by simp [liveOps, Op.WF]
example : liveW.imap = some [("n0__b", .disabled "n0__b"), ("n0__c", .disabled "n0__c"),
    ("n1__b", .rawNone), ("n1__c", .name "x")] := by decide
example : liveW.omap = some [("n0__o", .name "mid"), ("n1__o", .rawNone)] := by decide
/-- the raw `None`s are read as hidden, before and after the getter's clean-up -/
example : liveW.panel .inputs = some [("n0__a", 0), ("x", 6)] ∧ liveW.panel .outputs = some [("mid", 3)] := by decide
example : (liveW.access .inputs).2 = some [("n0__a", 0), ("x", 6)] ∧
    (liveW.access .inputs).1.imap = some [("n0__b", .disabled "n0__b"), ("n0__c", .disabled "n0__c"),
      ("n1__b", .disabled "n1__b"), ("n1__c", .name "x")] := by decide
/-- the outcomes of the individual edits -/
example : (liveOps.foldl (fun (acc : W × List Res) o => ((step acc.1 o).1, acc.2 ++ [(step acc.1 o).2]))
    (empty (fun _ _ => true) (fun _ _ => true), [])).2 =
    [.ok, .ok, .ok, .ok, .ok, .ok, .ok, .ok, .ok, .dupErr, .ok, .ok, .ok, .kvDupErr, .keyErr] := by decide
/-- hypotheses of `C15_live_hide` / `C15_getter_hide_accepted` / `C15_put_spec` hold in the example -/
example : WInv liveW := C15_live_inv _ _ liveOps liveOps_wf
example : (step liveW (.edit .inputs (.put "n0__a" none))).2 = .dupErr ∧
    (step (step liveW (.read .inputs)).1 (.edit .inputs (.put "n0__a" none))).2 = .ok ∧
    (step (step liveW (.read .inputs)).1 (.edit .inputs (.put "n0__a" none))).1.panel .inputs = some [("x", 6)] := by
  decide
/-- a `bidict` argument is stored uncleaned; edits of a map that is `None` raise -/
example : (step liveW (.setMapB .outputs [("n1__o", none), ("n0__o", some "z")])).1.omap =
    some [("n1__o", .rawNone), ("n0__o", .name "z")] := by decide
example : (step (empty (fun _ _ => true) (fun _ _ => true)) (.edit .inputs (.put "a" none))).2 = .typeErr ∧
    (step (empty (fun _ _ => true) (fun _ _ => true)) (.edit .inputs .clear)).2 = .refused := by decide
/-- `forceput` drops the item that held the name; `popitem`, `setdefault`, `pop(k, None)` -/
example : (editMap [("a", .name "x"), ("b", .name "y"), ("c", .rawNone)] (.force "b" (some "x"))).1 =
    [("b", .name "x"), ("c", .rawNone)] := by decide
example : (editMap [("a", .name "x"), ("b", .name "y")] .popitem).1 = [("a", .name "x")] ∧
    (editMap [("a", .name "x")] (.setdefault "a" none)).1 = [("a", .name "x")] ∧
    (editMap [("a", .name "x")] (.setdefault "b" none)).1 = [("a", .name "x"), ("b", .rawNone)] ∧
    (editMap [("a", .name "x")] (.popd "zz")) = ([("a", .name "x")], .ok) ∧
    (editMap [("a", .name "x")] (.invDel (some "x"))) = ([], .ok) := by decide

/-- **`replace_child`.** An accepted replacement leaves a world whose children are the old ones
without the replaced child, followed by the replacement under the OLD label (whatever label it
carried itself); the maps are untouched; and both accesses return — exactly the set expression
over the NEW children (channels only the replacement has included, as the maps say). -/
theorem C15_replace_panel (w : W) (l : String) (new : Child) (h : (step w (.replace l new)).2 = .ok) :
    let w' := (step w (.replace l new)).1
    (∃ old ∈ w.children, old.label = l ∧
      w'.children = w.children.filter (fun d => !(d.label == l)) ++ [{ new with label := l }]) ∧
    w'.imap = w.imap ∧ w'.omap = w.omap ∧ ∀ s, w'.panel s = some (w'.spec s) := by
  intro w'
  have hmaps := replaceChild_maps false w l new
  have hw' : w' = (replaceChild false w l new).1 := rfl
  simp only [step] at h
  unfold replaceChild at h hw'
  cases hf : w.children.find? (fun d => d.label == l) with
  | none => simp [hf] at h
  | some old =>
    simp only [hf, Bool.false_eq_true, if_false] at h hw'
    have hmem := List.mem_of_find?_eq_some hf
    have hlab : old.label = l := by simpa using List.find?_some hf
    by_cases c1 : (!superset old new) = true
    · simp [c1] at h
    · by_cases c2 : ((w.panel .inputs).isNone || (!old.outs.isEmpty && (w.panel .outputs).isNone)) = true
      · simp [c1, c2] at h
      · cases hb : (replaceSwap w old l l new).buildable with
        | false => simp [c1, c2, hb] at h
        | true =>
          simp only [c1, c2, hb, Bool.not_true, Bool.false_eq_true, if_false, if_true] at hw'
          refine ⟨⟨old, hmem, hlab, by rw [hw']; rfl⟩, hmaps.1, hmaps.2, ?_⟩
          intro s
          have hp : (w'.panel s).isSome := by
            simp only [W.buildable, Bool.and_eq_true] at hb
            cases s
            · rw [hw']; exact hb.1
            · rw [hw']; exact hb.2
          obtain ⟨p, hp'⟩ := Option.isSome_iff_exists.mp hp
          rw [hp', C15_io_spec w' s p hp']

/-- **A refused replacement leaves everything as it was** — no such child, a replacement lacking
a channel, a panel that cannot be built now, or one that could not be built AFTERWARDS (the keys
the IO would have are worked out up front, under the label the replacement is about to receive):
children, connections, maps and both panels are literally as before. -/
theorem C15_replace_refused_noop (w : W) (l : String) (new : Child)
    (h : (step w (.replace l new)).2 ≠ .ok) : (step w (.replace l new)).1 = w := by
  simp only [step] at h ⊢
  unfold replaceChild at h ⊢
  cases hf : w.children.find? (fun d => d.label == l) with
  | none => rfl
  | some old =>
    simp only [hf, Bool.false_eq_true, if_false] at h ⊢
    by_cases c1 : (!superset old new) = true
    · simp [c1]
    · by_cases c2 : ((w.panel .inputs).isNone || (!old.outs.isEmpty && (w.panel .outputs).isNone)) = true
      · simp [c1, c2]
      · cases hb : (replaceSwap w old l l new).buildable with
        | false => simp [c1, c2, hb]
        | true => simp [c1, c2, hb] at h

/-- keying the replacement's channels by the label it carries at that moment is not the same: a
map that renames a channel only the replacement has onto a taken key goes unnoticed up front,
the swap happens, and the workflow is left with an IO that cannot be built -/
theorem C15_replace_own_label_witness :
    ∃ (w : W) (l : String) (new : Child), (replaceChild true w l new).2 ≠ .ok ∧
      ((replaceChild true w l new).1.panel .inputs).isNone ∧ (w.panel .inputs).isSome ∧
      (replaceChild false w l new) = (w, .valueErr) := by
  refine ⟨run (empty (fun _ _ => true) (fun _ _ => true))
      [.add c0, .add c1, .setMap .inputs (some [("n1__d", some "n0__a")])], "n1",
    { label := "upgrade", ins := [("a", 20), ("b", 21), ("c", 22), ("d", 23)], outs := [("o", 24)] },
    by decide, by decide, by decide, ?_⟩
  have h2 : (replaceChild false (run (empty (fun _ _ => true) (fun _ _ => true))
      [.add c0, .add c1, .setMap .inputs (some [("n1__d", some "n0__a")])]) "n1"
      { label := "upgrade", ins := [("a", 20), ("b", 21), ("c", 22), ("d", 23)], outs := [("o", 24)] }).2 = .valueErr := by decide
  have h1 := C15_replace_refused_noop _ "n1"
    { label := "upgrade", ins := [("a", 20), ("b", 21), ("c", 22), ("d", 23)], outs := [("o", 24)] }
    (by simp only [step]; rw [h2]; decide)
  simp only [step] at h1
  exact Prod.ext h1 h2

/-- the same replacement with a harmless map is accepted and exposes the new channel under its mapped name -/
example : (step (run (empty (fun _ _ => true) (fun _ _ => true)) [.add c0, .add c1, .setMap .inputs (some [("n1__d", some "offset")])])
    (.replace "n1" { label := "upgrade", ins := [("a", 20), ("b", 21), ("c", 22), ("d", 23)], outs := [("o", 24)] })).1.panel .inputs =
    some [("n0__a", 0), ("n0__b", 1), ("n0__c", 2), ("n1__a", 20), ("n1__b", 21), ("n1__c", 22), ("offset", 23)] := by decide

/-- non-vacuity: the README-like world, `n0` replaced by a node with channels 20…23 -/
example : (step readmeW (.replace "n0" { label := "r", ins := [("a", 20), ("b", 21), ("c", 22)], outs := [("o", 23)] })).2 = .ok ∧
    (step readmeW (.replace "n0" { label := "r", ins := [("a", 20), ("b", 21), ("c", 22)], outs := [("o", 23)] })).1.panel .outputs
      = some [("y", 7), ("mid", 23)] ∧
    (step readmeW (.replace "n0" { label := "r", ins := [("a", 20), ("b", 21), ("c", 22)], outs := [("o", 23)] })).1.connected 3 = false := by
  decide
/-- in a clash state the replacement is refused before anything changes -/
example : (step clashW (.replace "n0" { label := "r", ins := [("a", 20), ("b", 21), ("c", 22)], outs := [("o", 23)] })).2 = .typeErr ∧
    (step clashW (.replace "n0" { label := "r", ins := [("a", 20), ("b", 21), ("c", 22)], outs := [("o", 23)] })).1.chans .inputs
      = clashW.chans .inputs := by
  decide

/-! ## Pulls, re-labelling of held children, runs that do not reach every child -/

/-- **A pull changes nothing the workflow IO is built from** — whether the upstream run succeeded
or raised: the temporary `label+id` labels are put back node by node (a `finally`), so the world
after `child.pull()` / `child()` is the world before (values aside, which the run proper sets);
both panels are literally as before. -/
theorem C15_pull_frame (w : W) (l : String) (fails : Bool) : (step w (.pull l fails)).1 = w := by
  simp only [step, pullChild]
  split
  · rfl
  · simp [labelBack_labelTemp]

/-- … and that is what the `finally` is for: without the restoration on the failure path a pull
that fails upstream leaves the temporary labels, and the workflow IO is keyed by them. -/
theorem C15_pull_no_restore_witness :
    ∃ (w : W) (l : String), (pullChild false w l true).panel .inputs ≠ w.panel .inputs ∧
      (pullChild false w l false) = w := by
  refine ⟨readmeW, "n1", by decide, ?_⟩
  simp only [pullChild]
  split
  · rfl
  · simp [labelBack_labelTemp]

/-- **A refused re-labelling leaves everything as it was** (a label with the delimiter, a
non-string, the label of a sibling, a name that is an attribute of the workflow, a node that is
no child): the IO is literally as before. -/
theorem C15_relabel_refused_noop (w : W) (o : String) (n : LabelArg)
    (h : (step w (.relabel o n)).2 ≠ .ok) : (step w (.relabel o n)).1 = w := by
  simp only [step, relabelChild] at h ⊢
  split
  · rfl
  · cases n with
    | attr _ => rfl
    | nonStr => rfl
    | str s =>
      simp only at h ⊢
      split
      · rfl
      · split
        · rfl
        · split
          · rfl
          · rename_i h1 h2 h3 h4
            simp [h1, h2, h3, h4] at h

/-- **An accepted re-labelling** to a different label files the very same child (same channels)
under the new label at the end of `children`; nothing else changes, and both panels are the set
expression over the children with that label. -/
theorem C15_relabel_ok (w : W) (o s : String) (hne : s ≠ o) (h : (step w (.relabel o (.str s))).2 = .ok) :
    let w' := (step w (.relabel o (.str s))).1
    (∃ c ∈ w.children, c.label = o ∧
      w'.children = w.children.filter (fun d => !(d.label == o)) ++ [{ c with label := s }]) ∧
    w'.g = w.g ∧ w'.imap = w.imap ∧ w'.omap = w.omap ∧
    ∀ sd p, w'.panel sd = some p → p = w'.spec sd := by
  intro w'
  refine ⟨?_, ?_, (relabelChild_maps false w o _).1, (relabelChild_maps false w o _).2,
    fun sd p hp => C15_io_spec w' sd p hp⟩
  · have hw' : w' = (relabelChild false w o (.str s)).1 := rfl
    simp only [step, relabelChild] at h
    unfold relabelChild at hw'
    cases hf : w.children.find? (fun d => d.label == o) with
    | none => simp [hf] at h
    | some c =>
      have hmem := List.mem_of_find?_eq_some hf
      have hlab : c.label = o := by simpa using List.find?_some hf
      simp only [hf] at h hw'
      have h0 : (s == o) = false := by simpa using hne
      simp only [h0, Bool.false_eq_true, if_false] at h hw'
      split at h
      · simp at h
      · rw [if_neg (by assumption)] at hw'
        split at h
        · simp at h
        · rw [if_neg (by assumption)] at hw'
          exact ⟨c, hmem, hlab, by rw [hw']⟩
  · show (relabelChild false w o (.str s)).1.g = w.g
    unfold relabelChild
    split
    · rfl
    · simp only
      split
      · rfl
      · split
        · rfl
        · split <;> rfl

/-- popping the stale entry BEFORE the label is validated is not the same: a refused label then
drops the child, and its open channels, from the workflow IO -/
theorem C15_relabel_pop_first_witness :
    ∃ (w : W) (o : String) (n : LabelArg), (relabelChild true w o n).2 ≠ .ok ∧
      (relabelChild true w o n).1.panel .inputs ≠ w.panel .inputs ∧ (relabelChild false w o n).1.panel .inputs = w.panel .inputs :=
  ⟨readmeW, "n0", .str "in/valid", by decide, by decide, by decide⟩

/-- **The run's return dictionary has exactly the keys of the outputs panel**, whatever the values
are — also the `NOT_DATA` placeholder of a child the execution flow did not reach (an `If` branch
not taken, manual starting nodes, a child that returns `NOT_DATA`). -/
theorem C15_return_keys (w : W) (r : List (String × Val)) (h : runReturn w = some r) :
    r.map Prod.fst = (w.spec .outputs).map Prod.fst ∧
    ∀ p, w.panel .outputs = some p → r.map Prod.fst = p.map Prod.fst := by
  have := C15_return w r h
  refine ⟨by rw [this, List.map_map]; rfl, ?_⟩
  intro p hp
  rw [this, ← C15_io_spec w .outputs p hp, List.map_map]; rfl

/-- leaving out the outputs that still hold `NOT_DATA` returns fewer keys than the panel has -/
theorem C15_return_skip_nd_witness :
    ∃ w : W, (runReturnSkipND w).map (·.map Prod.fst) ≠ (w.panel .outputs).map (·.map Prod.fst) :=
  ⟨readmeW, by decide⟩

example : runReturn readmeW = some [("mid", "ND"), ("y", "ND")] ∧ runReturnSkipND readmeW = some [] := by decide
/-- the temporary labels of the pull on `n1` (data tree `n1`, `n0`), and their restoration -/
example : (pullChild false readmeW "n1" true).children.map (·.label) = ["n0#0", "n1#4"] ∧
    (pullChild false readmeW "n1" true).panel .inputs = some [("n0#0__a", 0), ("n0#0__b", 1), ("n0#0__c", 2),
      ("n1#4__b", 5), ("n1#4__c", 6)] ∧ dataTree readmeW "n0" = ["n0"] := by decide
/-- re-labellings on the example: accepted (child moves to the end), refused five ways -/
example : (step readmeW (.relabel "n0" (.str "first"))).2 = .ok ∧
    (step readmeW (.relabel "n0" (.str "first"))).1.panel .inputs =
      some [("n1__b", 5), ("n1__c", 6), ("first__a", 0), ("first__b", 1), ("first__c", 2)] ∧
    (step readmeW (.relabel "n0" (.str "n1"))).2 = .refused ∧ (step readmeW (.relabel "n0" (.str "a/b"))).2 = .valueErr ∧
    (step readmeW (.relabel "n0" .nonStr)).2 = .typeErr ∧ (step readmeW (.relabel "n0" (.attr "inputs"))).2 = .refused ∧
    (step readmeW (.relabel "zz" (.str "q"))).2 = .refused ∧ (step readmeW (.relabel "n0" (.str "n0"))).2 = .ok := by decide

/-! ## Leaving by parent assignment, in-place load, names that are attributes of the panel class -/

/-- **Leaving is leaving, by whatever route** (`wf.remove_child(child)`, `child.parent = None`,
`child.parent = other_workflow` all end in `Composite.remove_child`): the child is gone from
`children`, none of its channels has a connection left — so the former siblings' channels it fed
or was fed by are open again — and the maps are untouched; the panels are the set expression over
the remaining children. -/
theorem C15_leave (w : W) (l : String) (c : Child) (hc : w.children.find? (fun d => d.label == l) = some c) :
    let w' := (step w (.remove l)).1
    (step w (.remove l)).2 = .ok ∧
    w'.children = w.children.filter (fun d => !(d.label == l)) ∧
    w'.g = Conn.disconnectChans w.g c.ids ∧ w'.imap = w.imap ∧ w'.omap = w.omap ∧
    ∀ sd p, w'.panel sd = some p → p = w'.spec sd := by
  intro w'
  have hw' : w' = (removeChild w l).1 := rfl
  simp only [step, removeChild, hc] at hw' ⊢
  refine ⟨trivial, by rw [hw'], by rw [hw'], by rw [hw'], by rw [hw'], fun sd p hp => C15_io_spec w' sd p hp⟩

/-- **An in-place `child.load()`** leaves the child where it is, under its label, with the loaded
channels in place of the old ones; maps untouched; the panels are the set expression over the
children with the loaded channels. -/
theorem C15_load_panel (w : W) (l : String) (new : Child) (h : (step w (.load l new)).2 = .ok) :
    let w' := (step w (.load l new)).1
    w'.children = w.children.map (fun d => if d.label == l then { new with label := l } else d) ∧
    w'.imap = w.imap ∧ w'.omap = w.omap ∧ ∀ sd p, w'.panel sd = some p → p = w'.spec sd := by
  intro w'
  have hm := loadChild_maps false w l new
  refine ⟨?_, hm.1, hm.2, fun sd p hp => C15_io_spec w' sd p hp⟩
  have hw' : w' = (loadChild false w l new).1 := rfl
  simp only [step] at h
  unfold loadChild at h hw'
  cases hf : w.children.find? (fun d => d.label == l) with
  | none => simp [hf] at h
  | some old => simp only [hf] at hw'; rw [hw']

/-- a node with a same-named input and output (`x = f(x); return x`) between two term nodes:
`n0.o → s.x(in)`, `s.x(out) → n1.a` -/
def sameW : W := run (empty (fun _ _ => true) (fun _ _ => true))
  [.add c0, .add { label := "s", ins := [("x", 30), ("by", 31)], outs := [("x", 32)] }, .add c1,
   .connect 30 3, .connect 4 32]
def sameNew : Child := { label := "s", ins := [("x", 40), ("by", 41)], outs := [("x", 42)] }

/-- matching the loaded channels by (class, label) keeps the wiring: the connected input stays
out of the workflow inputs, the upstream output stays hidden … -/
example : ((loadChild false sameW "s" sameNew).1.panel .inputs).map (·.map Prod.fst) =
      (sameW.panel .inputs).map (·.map Prod.fst) ∧
    (loadChild false sameW "s" sameNew).1.connected 40 = true ∧ (loadChild false sameW "s" sameNew).1.connected 42 = true ∧
    (loadChild false sameW "s" sameNew).1.g.conns 3 = [40] ∧ (loadChild false sameW "s" sameNew).1.g.conns 4 = [42] ∧
    sameW.panel .inputs = some [("n0__a", 0), ("n0__b", 1), ("n0__c", 2), ("s__by", 31), ("n1__b", 5), ("n1__c", 6)] := by
  decide

/-- … matching by label only does not: the output `x` shadows the input `x`, the connected input
is dropped by the hand-over and shows up in the workflow inputs -/
theorem C15_load_by_label_witness :
    ∃ (w : W) (l : String) (new : Child),
      ((loadChild true w l new).1.panel .inputs).map (·.map Prod.fst) ≠
      ((loadChild false w l new).1.panel .inputs).map (·.map Prod.fst) :=
  ⟨sameW, "s", sameNew, by decide⟩

example : ((loadChild true sameW "s" sameNew).1.panel .inputs).map (·.map Prod.fst) =
    some ["n0__a", "n0__b", "n0__c", "s__x", "s__by", "n1__b", "n1__c"] := by decide

/-- **Access by item gives the child channel itself, whatever the key is called** — also a
mapped name that happens to be an attribute or method of the panel class (`items`, `labels`,
`connected`, `fetch`, `ready` …): `panel[key]` looks in the panel's channels only. -/
theorem C15_item_access (w : W) (s : Side) (p : Panel) (h : w.panel s = some p) (k : String) (c : Nat)
    (hk : (k, c) ∈ p) : panelGet p k = some c := by
  have hnd : (p.map Prod.fst).Nodup := by
    have := (buildIO_some_iff _ _ _ p).mp h
    rw [this.2]; exact this.1
  exact lookup_of_mem_nodup p k c hnd hk

/-- going through `getattr(panel, key)` instead is not the same: the class attribute shadows the channel -/
theorem C15_item_via_getattr_witness :
    ∃ (w : W) (p : Panel) (k : String) (c : Nat), w.panel .inputs = some p ∧ (k, c) ∈ p ∧
      itemViaGetattr ["items", "labels", "connected", "connections", "fetch", "ready"] p k ≠ some c := by
  refine ⟨run (empty (fun _ _ => true) (fun _ _ => true)) [.add c0, .setMap .inputs (some [("n0__a", some "items")])],
    [("items", 0), ("n0__b", 1), ("n0__c", 2)], "items", 0, by decide, by decide, by decide⟩

/-! ## Map objects with identity: who is affected by an edit

`Model/MapHeap.lean`: map objects live in a heap, the workflow under study (`wfIn`, `wfOut`), a
second workflow (`otherIn`, `otherOut`) and the user hold references.  The setter cleans a plain
`dict` argument in place and stores a NEW `bidict`; the getter hands out the stored reference. -/

/-- **No aliasing, ever.** After every history of object creations, assignments of any object
(a user's dict or bidict, a live map obtained from a getter, a replaced live map, `None`) to any
of the four map attributes, getter calls, in-place edits through ANY reference, pickle round
trips and structural edits: every object has distinct keys (a bidict also distinct values), the
four stored references name four DIFFERENT objects, and each of them is a bidict. -/
theorem C15_heap_inv (admits : Nat → Val → Bool) (valid : Nat → Nat → Bool) (ops : List HOp)
    (hwf : ∀ op ∈ ops, op.WF) : HInv (hrun (hempty admits valid) ops) :=
  hrun_inv ops hwf _ (hempty_inv _ _)

/-- **An edit of a detached object never changes the workflow**: if the reference is not the one
stored in `inputs_map` nor the one stored in `outputs_map` (the object the user assigned, a live
map that has been replaced, the live map of another workflow that was given the same object …),
the world — hence both panels, the return value, everything above — is the same afterwards. -/
theorem C15_detached_edit (h : HS) (r : Nat) (e : Edit)
    (hi : h.slot .wfIn ≠ some r) (ho : h.slot .wfOut ≠ some r) :
    (hstep h (.edit r e)).1.world = h.world :=
  world_ext _ _ (hedit_base h r e).1 (hedit_deref_other h r e _ hi) (hedit_deref_other h r e _ ho)

/-- **The setter copies.** An accepted assignment of the object `r` stores a reference that did
not exist before (so it is neither `r` nor anybody else's), the stored object holds the cleaned
items of `r`, a plain dict `r` has been cleaned in place, a bidict `r` is untouched — and a
refused one (`ValueDuplicationError`) changes no stored reference but has cleaned the dict as well. -/
theorem C15_setter_copies (h : HS) (s : Slot) (r : Nat) (o : MObj) (ho : h.obj r = some o) :
    let items := if o.bidict then o.items else cleanDict o.items
    let h' := (hassign h s (some r)).1
    h'.obj r = some { o with items := items } ∧
    ((hassign h s (some r)).2 = .ok →
      h'.slot s = some h.heap.length ∧ h'.deref s = some items ∧ (∀ s', s' ≠ s → h'.slot s' = h.slot s')) ∧
    ((hassign h s (some r)).2 ≠ .ok → h'.slot = h.slot) := by
  have hlt := obj_lt ho
  simp only [hassign, ho]
  cases hb : o.bidict with
  | true =>
    simp only [if_true]
    split
    · refine ⟨?_, fun _ => ⟨by simp [updSlot], ?_, fun s' hs' => by simp [updSlot, hs']⟩, fun hne => absurd rfl hne⟩
      · simp only [HS.obj] at ho ⊢
        rw [List.getElem?_append_left hlt, ho]
        cases o; simp_all
      · simp [HS.deref, HS.obj, updSlot]
    · refine ⟨?_, fun hne => by simp at hne, fun _ => rfl⟩
      simp only [HS.obj] at ho ⊢
      rw [ho]
      cases o; simp_all
  | false =>
    simp only [Bool.false_eq_true, if_false]
    split
    · refine ⟨?_, fun _ => ⟨by simp [updSlot], ?_, fun s' hs' => by simp [updSlot, hs']⟩, fun hne => absurd rfl hne⟩
      · simp only [HS.obj]
        rw [List.getElem?_append_left (by simpa using hlt), List.getElem?_set_self hlt]
      · simp [HS.deref, HS.obj, updSlot]
    · refine ⟨?_, fun hne => by simp at hne, fun _ => rfl⟩
      simp only [HS.obj]
      rw [List.getElem?_set_self hlt]

/-- **One object given to both sides (or to two workflows) is not shared afterwards.** In a
reachable state an edit through the reference stored in one map attribute leaves every other
map attribute as it was. -/
theorem C15_no_alias_edit (h : HS) (hi : HInv h) (s s' : Slot) (r : Nat) (hs : h.slot s = some r)
    (hne : s' ≠ s) (e : Edit) : (hstep h (.edit r e)).1.deref s' = h.deref s' :=
  hedit_deref_other h r e s' (fun h' => hne (hi.noAlias s' s r h' hs))

/-- **The heap model and the flat model agree** on edits through the stored reference and on the
getter: the world after the heap operation is the world after `Op.edit` / `Op.read`, with the
same outcome. (So every theorem about `Op.edit`/`Op.read` speaks about the heap model too.) -/
theorem C15_heap_edit_is_edit (h : HS) (hi : HInv h) (sd : Side) (r : Nat)
    (hs : h.slot (Slot.ofSide sd) = some r) (e : Edit) :
    (hstep h (.edit r e)).1.world = (step h.world (.edit sd e)).1 ∧
    (hstep h (.edit r e)).2 = (step h.world (.edit sd e)).2 := by
  obtain ⟨o, ho, hb⟩ := hi.stored _ r hs
  have hlt := obj_lt ho
  have hother : ∀ s', s' ≠ Slot.ofSide sd → (hstep h (.edit r e)).1.deref s' = h.deref s' :=
    fun s' hne => C15_no_alias_edit h hi _ s' r hs hne e
  have ho' : h.heap[r]? = some o := ho
  have hself : (hstep h (.edit r e)).1.deref (Slot.ofSide sd) = some (editMap o.items e).1 ∧
      (hstep h (.edit r e)).2 = (editMap o.items e).2 := by
    simp [hstep, hedit, HS.obj, ho', editObj, hb, HS.deref, hs, List.getElem?_set_self hlt]
  have hd : h.deref (Slot.ofSide sd) = some o.items := by simp [HS.deref, hs, ho]
  have hbase := (hedit_base h r e).1
  cases sd with
  | inputs =>
    have h2 := hother .wfOut (by decide)
    simp only [Slot.ofSide] at hself hd
    refine ⟨?_, ?_⟩
    · simp only [hstep] at hself h2 ⊢
      simp [HS.world, step, hbase, hself.1, h2, hd, editStored]
    · rw [hself.2]; simp [HS.world, step, hd, editStored]
  | outputs =>
    have h2 := hother .wfIn (by decide)
    simp only [Slot.ofSide] at hself hd
    refine ⟨?_, ?_⟩
    · simp only [hstep] at hself h2 ⊢
      simp [HS.world, step, hbase, hself.1, h2, hd, editStored]
    · rw [hself.2]; simp [HS.world, step, hd, editStored]

/-- **A pickle round trip**: both maps come back as equal NEW objects — the old ones are
detached from then on —, children and values are the same, and of the connections exactly those
to nodes outside the workflow are gone (so the panels are the set expression over the same
children, the same maps and the cut graph). -/
theorem C15_reload_same (h : HS) (hi : HInv h) :
    (hreload h).world = cutOutside h.world ∧
    ∀ sd r, h.slot (Slot.ofSide sd) = some r → (hreload h).slot (Slot.ofSide sd) ≠ some r := by
  have h1 := copySlot_inv hi .wfIn
  have hd : ∀ s, (hreload h).deref s = h.deref s := by
    intro s
    have : (hreload h).deref s = (copySlot (copySlot h .wfIn) .wfOut).deref s := rfl
    rw [this, copySlot_deref h1, copySlot_deref hi]
  refine ⟨?_, ?_⟩
  · have hb : (hreload h).base = cutOutside h.base := by simp [hreload, copySlot_base]
    simp [HS.world, hd, hb, cutOutside]
  · intro sd r hs hs'
    have hlt := stored_lt hi _ r hs
    have hd : ∃ m, h.deref (Slot.ofSide sd) = some m := by
      obtain ⟨o, ho, _⟩ := hi.stored _ r hs
      exact ⟨o.items, by simp [HS.deref, hs, ho]⟩
    obtain ⟨m, hm⟩ := hd
    have hsl : ∀ s, (hreload h).slot s = (copySlot (copySlot h .wfIn) .wfOut).slot s := fun _ => rfl
    cases sd with
    | inputs =>
      simp only [Slot.ofSide] at hs hs' hm
      rw [hsl, copySlot_slot_other _ _ _ (by decide), copySlot_slot_self h _ m hm] at hs'
      simp at hs'; omega
    | outputs =>
      simp only [Slot.ofSide] at hs hs' hm
      have hm' : (copySlot h .wfIn).deref .wfOut = some m := by rw [copySlot_deref hi]; exact hm
      have e2 := copySlot_len h .wfIn
      rw [hsl, copySlot_slot_self _ _ m hm'] at hs'
      simp at hs'; omega

/-- **At any moment, with object identity.** After every heap history the stored maps of the
workflow under study are well-formed, the getter does not raise, the access equals `_build_io` on
the stored object, and that is the set expression over the map as the user sees it — or the
access raises on a key clash. -/
theorem C15_at_any_moment_heap (admits : Nat → Val → Bool) (valid : Nat → Nat → Bool) (ops : List HOp)
    (hwf : ∀ op ∈ ops, op.WF) (s : Side) :
    let w := (hrun (hempty admits valid) ops).world
    WInv w ∧ (step w (.read s)).2 = .ok ∧ (w.access s).2 = w.panel s ∧
    ((w.panel s = some (uspec (userView ((w.map s).getD [])) w.connected (w.chans s)) ∧
        NoClash (w.map s) w.connected (w.chans s)) ∨
      (w.panel s = none ∧ ¬ NoClash (w.map s) w.connected (w.chans s))) := by
  intro w
  have hinv : WInv w := world_inv (C15_heap_inv admits valid ops hwf)
  obtain ⟨r1, r2, _, _⟩ := C15_read_ok w hinv s
  refine ⟨hinv, r1, r2, ?_⟩
  by_cases h : NoClash (w.map s) w.connected (w.chans s)
  · refine .inl ⟨?_, h⟩
    have := C15_io_total w s h
    rw [this, W.spec, spec_eq_uspec]
  · exact .inr ⟨(buildIO_none_iff _ _ _).mpr h, h⟩


/-! ### Non-vacuity: a concrete heap history -/

/-- the user's dict `d` (#0: two `None`s and a name) is given to the second workflow's
`inputs_map`, then to `inputs_map` and `outputs_map` of the workflow under study (stored copies
#1, #2, #3; `d` itself now holds markers); `d['n1__b'] = 'w'` (detached); `m = wf.inputs_map`
(#2), `m['n0__c'] = None`; a bidict `b` (#4) assigned to `outputs_map` (copy #5, #3 is replaced),
`b.clear()`, the replaced live map #3 edited; a pickle round trip (#6, #7). -/
def heapOps : List HOp :=
  [.base (.add c0), .base (.add c1),
   .new false [("n0__a", none), ("n0__b", none), ("n1__a", some "x")],
   .assign .otherIn (some 0), .assign .wfIn (some 0), .assign .wfOut (some 0),
   .edit 0 (.put "n1__b" (some "w")),
   .get .wfIn, .edit 2 (.put "n0__c" none),
   .new true [("n0__o", some "res")], .assign .wfOut (some 4), .edit 4 .clear, .edit 3 (.put "n1__o" none),
   .edit 1 .clear, .reload]

def heapS : HS := hrun (hempty (fun _ _ => true) (fun _ _ => true)) heapOps

theorem heapOps_wf : ∀ op ∈ heapOps, op.WF := by simp [heapOps, HOp.WF]
example : HInv heapS := C15_heap_inv _ _ heapOps heapOps_wf
example : heapS.slot .wfIn = some 6 ∧ heapS.slot .wfOut = some 7 ∧ heapS.slot .otherIn = some 1 := by decide
example : heapS.world.imap = some [("n0__a", .disabled "n0__a"), ("n0__b", .disabled "n0__b"), ("n1__a", .name "x"),
    ("n0__c", .rawNone)] ∧ heapS.world.omap = some [("n0__o", .name "res")] := by decide
/-- the user's dict was cleaned in place and took the detached edit; the detached objects kept theirs -/
example : (heapS.obj 0).map (·.items) = some [("n0__a", .disabled "n0__a"), ("n0__b", .disabled "n0__b"),
    ("n1__a", .name "x"), ("n1__b", .name "w")] ∧ (heapS.obj 4).map (·.items) = some [] ∧
    (heapS.obj 1).map (·.items) = some [] := by decide
example : heapS.world.panel .inputs = some [("x", 4), ("n1__b", 5), ("n1__c", 6)] ∧
    heapS.world.panel .outputs = some [("res", 3), ("n1__o", 7)] := by decide
/-- hypotheses of `C15_detached_edit` / `C15_no_alias_edit` / `C15_heap_edit_is_edit` in the example -/
example : heapS.slot .wfIn ≠ some 0 ∧ heapS.slot .wfOut ≠ some 0 := by decide
example : (hstep heapS (.edit 0 .clear)).1.world.panel .inputs = heapS.world.panel .inputs := by
  rw [C15_detached_edit heapS 0 .clear (by decide) (by decide)]
/-- a dict whose cleaned values clash is refused — and stays cleaned -/
example : let h := (hstep (hempty (fun _ _ => true) (fun _ _ => true)) (.new false [("a", some "z"), ("b", some "z"), ("c", none)])).1
    (hassign h .wfIn (some 0)).2 = .dupErr ∧ ((hassign h .wfIn (some 0)).1.obj 0).map (·.items) =
      some [("a", .name "z"), ("b", .name "z"), ("c", .disabled "c")] ∧ (hassign h .wfIn (some 0)).1.slot .wfIn = none := by
  decide

end PwVerif.C15

#print axioms PwVerif.C15.C15_io_spec
#print axioms PwVerif.C15.C15_io_members
#print axioms PwVerif.C15.C15_io_defined
#print axioms PwVerif.C15.C15_io_total
#print axioms PwVerif.C15.C15_noclash
#print axioms PwVerif.C15.C15_by_reference
#print axioms PwVerif.C15.C15_assign_unknown_noop
#print axioms PwVerif.C15.C15_return
#print axioms PwVerif.C15.C15_dup_rejected
#print axioms PwVerif.C15.C15_rejected_noop
#print axioms PwVerif.C15.C15_map_accepted
#print axioms PwVerif.C15.C15_at_any_moment
#print axioms PwVerif.C15.C15_rebuild_repaired
#print axioms PwVerif.C15.C15_rebuild_partial
#print axioms PwVerif.C15.C15_rebuild_pinned_witness
#print axioms PwVerif.C15.C15_live_inv
#print axioms PwVerif.C15.C15_read_ok
#print axioms PwVerif.C15.C15_io_user_spec
#print axioms PwVerif.C15.C15_edit_refused_noop
#print axioms PwVerif.C15.C15_setMapB_refused_noop
#print axioms PwVerif.C15.C15_put_spec
#print axioms PwVerif.C15.C15_getter_hide_accepted
#print axioms PwVerif.C15.C15_live_hide
#print axioms PwVerif.C15.C15_at_any_moment_live
#print axioms PwVerif.C15.C15_heap_inv
#print axioms PwVerif.C15.C15_detached_edit
#print axioms PwVerif.C15.C15_setter_copies
#print axioms PwVerif.C15.C15_no_alias_edit
#print axioms PwVerif.C15.C15_heap_edit_is_edit
#print axioms PwVerif.C15.C15_reload_same
#print axioms PwVerif.C15.C15_at_any_moment_heap
#print axioms PwVerif.C15.C15_replace_panel
#print axioms PwVerif.C15.C15_pull_frame
#print axioms PwVerif.C15.C15_pull_no_restore_witness
#print axioms PwVerif.C15.C15_relabel_refused_noop
#print axioms PwVerif.C15.C15_relabel_ok
#print axioms PwVerif.C15.C15_relabel_pop_first_witness
#print axioms PwVerif.C15.C15_return_keys
#print axioms PwVerif.C15.C15_return_skip_nd_witness
#print axioms PwVerif.C15.C15_leave
#print axioms PwVerif.C15.C15_load_panel
#print axioms PwVerif.C15.C15_load_by_label_witness
#print axioms PwVerif.C15.C15_item_access
#print axioms PwVerif.C15.C15_item_via_getattr_witness
#print axioms PwVerif.C15.C15_replace_refused_noop
#print axioms PwVerif.C15.C15_replace_own_label_witness
