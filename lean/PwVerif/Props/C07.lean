import PwVerif.Proofs.Serial
/-!
# C07 — Saving and loading returns an observationally identical graph

"A node, macro or workflow that is saved and loaded again (or pickled and unpickled) has the same
children under the same labels and nesting, the same input and output values (with 'no data' still
recognised as such), the same failed/running flags, the same data and signal connections including
the order in which each input consults its connections, the same macro value links, starting nodes
and executor instructions; run again on the same input it produces the same outputs in the same
execution order. A child serialized on its own comes back without its parent and siblings."

`save` / `load` / `fileLoad` (Model/Serial.lean) transcribe the per-class `__getstate__` /
`__setstate__` pipeline; `obs` is the observation the statement talks about: one record per node
(path = labels and nesting; the node's whole plain state: class, IO values incl. `NOT_DATA`, flags,
executor instructions, cache, value links, starting nodes, provenance …), every child input's data
connections IN FETCH ORDER and every child signal output's connections IN FIRING ORDER.  Data
outputs and signal inputs are compared as sets (`C07_unordered_sides`).

All theorems quantify over every graph (`Node` is a tree of any width and depth, proofs are by
structural induction over it).  `Cfg.pinned` is the behaviour of the tree as it is, `Cfg.repaired`
the behaviour with `fixes/C07-*.patch` applied.  Only property theorems live here; lemmas are in
`Proofs/Serial.lean`.
-/
namespace PwVerif.C07
open PwVerif PwVerif.Serial

/-- the property for one variant of the code: every well-formed graph can be unpickled again and
then shows exactly what it showed before -/
def RoundTripStatement (cfg : Cfg) : Prop :=
  ∀ g : Node, WF g → ∃ g', load cfg (save none g) = .ok g' ∧ obs [] g' = obs [] g

/-- the same through the file back end (`node.save()` … `node.load()`) -/
def FileRoundTripStatement (cfg : Cfg) : Prop :=
  ∀ g : Node, WF g → ∃ g', fileLoad cfg g.core.cls (save none g) = .ok g' ∧ obs [] g' = obs [] g

theorem withDetached_self (g : Node) : g.withDetached (g.core.forState none).detached = g := by
  cases g with
  | mk c ch dg sg => cases c; simp [Node.withDetached, Core.forState, Node.core]

/-! ## the repaired code: the full statement -/

/-- FULL STATEMENT (repaired restore), plain pickle / cloudpickle: for every well-formed graph -/
theorem C07_roundtrip : RoundTripStatement Cfg.repaired := by
  intro g hwf
  refine ⟨_, load_save_node Cfg.repaired g hwf (fun h => by simp [Cfg.repaired] at h) none, ?_⟩
  rw [obs_img Cfg.repaired g hwf (atMostOne_of_repaired _ rfl rfl g), withDetached_self]

/-- FULL STATEMENT (repaired restore), file back end -/
theorem C07_roundtrip_file : FileRoundTripStatement Cfg.repaired := by
  intro g hwf
  obtain ⟨g', h1, h2⟩ := fileLoad_save Cfg.repaired g hwf (fun h => by simp [Cfg.repaired] at h)
    (atMostOne_of_repaired _ rfl rfl g) none
  exact ⟨g', h1, by rw [h2, withDetached_self]⟩

/-- … any number of times in a row (the result of a round trip is again a graph that round-trips) -/
theorem C07_roundtrip_twice (g : Node) (hwf : WF g) :
    ∃ g₁ g₂, load Cfg.repaired (save none g) = .ok g₁ ∧ fileLoad Cfg.repaired g₁.core.cls (save none g) = .ok g₂ ∧
      obs [] g₁ = obs [] g ∧ obs [] g₂ = obs [] g := by
  obtain ⟨g₁, h1, o1⟩ := C07_roundtrip g hwf
  obtain ⟨g₂, h2, o2⟩ := C07_roundtrip_file g hwf
  refine ⟨g₁, g₂, h1, ?_, o1, o2⟩
  have : g₁.core.cls = g.core.cls := by
    have := load_save_node Cfg.repaired g hwf (fun h => by simp [Cfg.repaired] at h) none
    rw [h1] at this
    injection this with e
    rw [e]; simp [Core.forState]
  rw [this]; exact h2

/-! ## the pinned code: partial statement -/

/-- PARTIAL (the tree as it is): the round trip is faithful for every well-formed graph in which no
data input holds more than one connection, no signal output fires more than one receiver, and
re-forging the value links pushes nothing new (`Settled`: linked values in step, no linked owner
running) — for ANY combination of the three repairs the same theorem holds with the corresponding
hypothesis dropped -/
theorem C07_roundtrip_partial (cfg : Cfg) (g : Node) (hwf : WF g) (hone : AtMostOne cfg g)
    (hset : cfg.pushLinks = true → Settled g) :
    (∃ g', load cfg (save none g) = .ok g' ∧ obs [] g' = obs [] g) ∧
    (∃ g', fileLoad cfg g.core.cls (save none g) = .ok g' ∧ obs [] g' = obs [] g) := by
  refine ⟨⟨_, load_save_node cfg g hwf hset none, ?_⟩, ?_⟩
  · rw [obs_img cfg g hwf hone, withDetached_self]
  · obtain ⟨g', h1, h2⟩ := fileLoad_save cfg g hwf hset hone none
    exact ⟨g', h1, by rw [h2, withDetached_self]⟩

/-- the sides whose ORDER the statement does not speak about come back with the same members, for
every variant (they stay mutual with the ordered sides) -/
theorem C07_unordered_sides (cfg : Cfg) (c : Core) (ch : List Node) (dg sg : CG) (hwf : WF (.mk c ch dg sg))
    (d : Option Path) :
    (∀ o x, x ∈ (img cfg d (.mk c ch dg sg)).data.outl o ↔ x ∈ dg.outl o) ∧
    (∀ a o, o ∈ (img cfg d (.mk c ch dg sg)).sig.inl a ↔ o ∈ sg.inl a) := by
  simp only [WF] at hwf
  obtain ⟨_, hi, _, hsi, _, hd, hs, _, _, _⟩ := hwf
  refine ⟨fun o x => ?_, fun a o => ?_⟩
  · simp only [img, Node.data]
    exact restore_outl_mem cfg _ _ dg hi hd o x
  · simp only [img, Node.sig, restoreSig_inl]
    rw [restore_inl_mem cfg sg.inl _ hsi (fun a _ => hs.nodupIn a)]
    constructor
    · exact fun h => h.2
    · intro h
      refine ⟨?_, h⟩
      apply Classical.byContradiction
      intro hn
      rw [hs.support a hn] at h
      cases h

/-! ## a child on its own -/

/-- every record of an observation lies below the observed node: nothing of a parent or sibling -/
theorem obs_paths_below : ∀ (n : Node) (p : Path), ∀ r ∈ obs p n, ∃ q, r.path = p ++ [n.core.label] ++ q := by
  intro n
  induction n using Node.rec (motive_2 := fun ns => ∀ (p : Path), ∀ r ∈ obsL p ns, ∃ l q, r.path = p ++ [l] ++ q) with
  | mk c ch dg sg ih =>
    intro p r hr
    simp only [obs, List.mem_cons] at hr
    rcases hr with rfl | hr
    · exact ⟨[], by simp [Node.core]⟩
    · obtain ⟨l, q, e⟩ := ih (p ++ [c.label]) r hr
      exact ⟨[l] ++ q, by simp [e, Node.core]⟩
  | nil => rename_i p r hr; simp [obsL] at hr
  | cons n ns ihn ihns =>
    rename_i p r hr
    simp only [obsL, List.mem_append] at hr
    rcases hr with hr | hr
    · obtain ⟨q, e⟩ := ihn p r hr
      exact ⟨_, q, e⟩
    · exact ihns p r hr

/-- a child pickled on its own (its live parent has lexical path `pp`) comes back as a root: it
shows what the child showed, remembers where it was (`detached_parent_path = pp`), and carries no
record of its parent or siblings — nor any connection to them (a node's state holds none) -/
theorem C07_child_alone (cfg : Cfg) (c : Node) (hwf : WF c) (hone : AtMostOne cfg c)
    (hset : cfg.pushLinks = true → Settled c) (pp : Path) :
    ∃ c', load cfg (save (some pp) c) = .ok c' ∧ c'.core.detached = some pp ∧
      obs [] c' = obs [] (c.withDetached (some pp)) ∧
      ∀ r ∈ obs [] c', ∃ q, r.path = [c.core.label] ++ q := by
  refine ⟨_, load_save_node cfg c hwf hset (some pp), by simp [Core.forState], ?_, ?_⟩
  · rw [obs_img cfg c hwf hone]; simp [Core.forState]
  · intro r hr
    obtain ⟨q, e⟩ := obs_paths_below _ [] r hr
    exact ⟨q, by simpa [Core.forState] using e⟩

/-! ## running again -/

/-- what a later run reads is the same: the scheduler graph of every composite (who fires whom in
which order, what each all-of trigger waits for, the starting nodes — `Signal.compositeRun` is a
function of it for EVERY behaviour of the children) … -/
theorem C07_rerun (g : Node) (hwf : WF g) (d : Option Path) {σ} (sem : Signal.Sem σ) (fuel : Nat) (s0 : Signal.S σ) :
    toGraph (img Cfg.repaired d g) = toGraph g ∧
    Signal.compositeRun sem (toGraph (img Cfg.repaired d g)) fuel s0 = Signal.compositeRun sem (toGraph g) fuel s0 := by
  have h := toGraph_img Cfg.repaired rfl rfl g hwf d
  exact ⟨h, by rw [h]⟩

/-- … and every child input fetches the same value (first connection holding data) -/
theorem C07_refetch (cfg : Cfg) (g : Node) (hwf : WF g) (hone : AtMostOne cfg g) (d : Option Path) :
    ∀ a ∈ inDom g.children, fetchVal (img cfg d g) a = fetchVal g a := fetchVal_img cfg g hwf hone d

end PwVerif.C07
