import PwVerif.Proofs.Serial
import PwVerif.Proofs.BridgeC07Run
/-!
# C07 — Saving and loading returns an observationally identical graph

"A node, macro or workflow that is saved and loaded again (or pickled and unpickled) has the same
children under the same labels and nesting, the same input and output values (with 'no data' still
recognised as such), the same failed/running flags, the same data and signal connections including
the order in which each input consults its connections, the same macro value links, starting nodes
and executor instructions; run again on the same input it produces the same outputs in the same
execution order. A child serialized on its own comes back without its parent and siblings."

`save` / `load` / `fileLoad` (Model/Serial.lean) transcribe the per-class `__getstate__` /
`__setstate__` pipeline; `obs` is the observation the statement talks about: one record per node
(path = labels and nesting; the node's whole plain state: class, IO values incl. `NOT_DATA`, flags,
executor instructions — a live executor object is not state —, cache, value links, starting nodes,
provenance …), every child input's data connections IN FETCH ORDER and every child signal output's
connections IN FIRING ORDER.  Data outputs and signal inputs are compared as sets
(`C07_unordered_sides`).

All theorems quantify over every graph (`Node` is a tree of any width and depth, proofs are by
structural induction over it).  `Cfg.pinned` is the behaviour of the tree as this work found it,
`Cfg.repaired` the behaviour with `fixes/C07-*.patch` applied — which is the tree as it is now (the
harness probes the variant on the real code and tells the driver).  Only property theorems live
here; lemmas are in `Proofs/Serial.lean`.
-/
namespace PwVerif.C07
open PwVerif PwVerif.Serial

/-- the property for one variant of the code: every well-formed graph can be unpickled again and
then shows exactly what it showed before -/
def RoundTripStatement (cfg : Cfg) : Prop :=
  ∀ g : Node, WF g → ∃ g', load cfg (save none g) = .ok g' ∧ obs [] g' = obs [] g

/-- the same through the file back end (`node.save()` … `node.load()`) -/
def FileRoundTripStatement (cfg : Cfg) : Prop :=
  ∀ g : Node, WF g → ∃ g', fileLoad cfg g.core.cls (save none g) = .ok g' ∧ obs [] g' = obs [] g

theorem withDetached_self (g : Node) : g.withDetached (g.core.forState none).detached = g := by
  cases g with
  | mk c ch dg sg => cases c; simp [Node.withDetached, Core.forState, Node.core]

/-! ## the repaired code: the full statement -/

/-- FULL STATEMENT (repaired restore), plain pickle / cloudpickle: for every well-formed graph -/
theorem C07_roundtrip : RoundTripStatement Cfg.repaired := by
  intro g hwf
  refine ⟨_, load_save_node Cfg.repaired g hwf (fun h => by simp [Cfg.repaired, Cfg.anyPush] at h)
    (atMostOne_of_repaired _ rfl rfl rfl rfl g) none, ?_⟩
  rw [obs_img Cfg.repaired g hwf (atMostOne_of_repaired _ rfl rfl rfl rfl g), withDetached_self]

/-- FULL STATEMENT (repaired restore), file back end -/
theorem C07_roundtrip_file : FileRoundTripStatement Cfg.repaired := by
  intro g hwf
  obtain ⟨g', h1, h2⟩ := fileLoad_save Cfg.repaired g hwf (fun h => by simp [Cfg.repaired, Cfg.anyPush] at h)
    (atMostOne_of_repaired _ rfl rfl rfl rfl g) none
  exact ⟨g', h1, by rw [h2, withDetached_self]⟩

/-- the same for `Node.load` as it is since /repo dcaa030 (the loading node keeps its own — empty —
detached path): a fresh parentless node that loads a saved root shows what the root showed -/
theorem C07_roundtrip_file_own (g : Node) (hwf : WF g) (hdet : g.core.detached = none) :
    ∃ g', fileLoadAt Cfg.repaired g.core.cls (some none) (save none g) = .ok g' ∧ obs [] g' = obs [] g := by
  obtain ⟨g', h1, h2⟩ := fileLoadAt_save Cfg.repaired g hwf (fun h => by simp [Cfg.repaired, Cfg.anyPush] at h)
    (atMostOne_of_repaired _ rfl rfl rfl rfl g) hdet
  exact ⟨g', h1, h2 []⟩

/-- … any number of times in a row (the result of a round trip is again a graph that round-trips) -/
theorem C07_roundtrip_twice (g : Node) (hwf : WF g) :
    ∃ g₁ g₂, load Cfg.repaired (save none g) = .ok g₁ ∧ fileLoad Cfg.repaired g₁.core.cls (save none g) = .ok g₂ ∧
      obs [] g₁ = obs [] g ∧ obs [] g₂ = obs [] g := by
  obtain ⟨g₁, h1, o1⟩ := C07_roundtrip g hwf
  obtain ⟨g₂, h2, o2⟩ := C07_roundtrip_file g hwf
  refine ⟨g₁, g₂, h1, ?_, o1, o2⟩
  have : g₁.core.cls = g.core.cls := by
    have := load_save_node Cfg.repaired g hwf (fun h => by simp [Cfg.repaired, Cfg.anyPush] at h)
      (atMostOne_of_repaired _ rfl rfl rfl rfl g) none
    rw [h1] at this
    injection this with e
    rw [e]; simp [Core.forState]
  rw [this]; exact h2

/-! ## the pinned code: partial statement -/

/-- PARTIAL (any variant, in particular the tree as it was found): the round trip is faithful for every well-formed graph in which no
data input holds more than one connection, no signal output fires more than one receiver, no
composite holds a cache, no stored connection would be refused by today's hints (`AtMostOne`), and re-forging the value links pushes nothing new (`Settled`:
linked values in step, no linked owner running) — for ANY combination of the four repairs the same
theorem holds with the corresponding hypothesis dropped -/
theorem C07_roundtrip_partial (cfg : Cfg) (g : Node) (hwf : WF g) (hone : AtMostOne cfg g)
    (hset : cfg.anyPush = true → Settled g) :
    (∃ g', load cfg (save none g) = .ok g' ∧ obs [] g' = obs [] g) ∧
    (∃ g', fileLoad cfg g.core.cls (save none g) = .ok g' ∧ obs [] g' = obs [] g) := by
  refine ⟨⟨_, load_save_node cfg g hwf hset hone none, ?_⟩, ?_⟩
  · rw [obs_img cfg g hwf hone, withDetached_self]
  · obtain ⟨g', h1, h2⟩ := fileLoad_save cfg g hwf hset hone none
    exact ⟨g', h1, by rw [h2, withDetached_self]⟩

/-- the sides whose ORDER the statement does not speak about come back with the same members, for
every variant (they stay mutual with the ordered sides) -/
theorem C07_unordered_sides (cfg : Cfg) (c : Core) (ch : List Node) (dg sg : CG) (hwf : WF (.mk c ch dg sg))
    (d : Option Path) :
    (∀ o x, x ∈ (img cfg d (.mk c ch dg sg)).data.outl o ↔ x ∈ dg.outl o) ∧
    (∀ a o, o ∈ (img cfg d (.mk c ch dg sg)).sig.inl a ↔ o ∈ sg.inl a) := by
  simp only [WF] at hwf
  obtain ⟨_, hi, _, hsi, _, hd, hs, _, _, _⟩ := hwf
  refine ⟨fun o x => ?_, fun a o => ?_⟩
  · simp only [img, Node.data]
    exact restore_outl_mem cfg _ _ dg hi hd o x
  · simp only [img, Node.sig, restoreSig_inl]
    rw [restore_inl_mem cfg sg.inl _ hsi (fun a _ => hs.nodupIn a)]
    constructor
    · exact fun h => h.2
    · intro h
      refine ⟨?_, h⟩
      apply Classical.byContradiction
      intro hn
      rw [hs.support a hn] at h
      cases h

/-! ## executor instructions -/

/-- executor INSTRUCTIONS — whatever their form: `(class, args, kwargs)` or `(provider function, args,
kwargs)`; the model treats them as opaque data `instr k` — are part of what comes back, at every depth
and for a node stored on its own: `Runnable.__getstate__` (`Exec.strip`) drops live executor objects and
nothing else, and the round trip returns every node's record with exactly that executor -/
theorem C07_executor_instructions (cfg : Cfg) (d : Option Path) (g : Node) (k : Nat) :
    Exec.strip (.instr k) = .instr k ∧
    (img cfg d g).core.exec = g.core.exec.strip ∧
    (g.core.exec = .instr k → (img cfg d g).core.exec = .instr k) ∧
    (∀ p, ∀ r ∈ obs p g, ∀ j, r.core.exec = .instr j → ∃ c : Core, r.core = c.seen ∧ c.exec = .instr j) := by
  refine ⟨rfl, by cases g; simp [img, Node.core, Core.forState], fun h => by cases g; simp_all [img, Node.core, Core.forState, Exec.strip], ?_⟩
  intro p
  induction g using Node.rec (motive_2 := fun ns => ∀ (p : Path), ∀ r ∈ obsL p ns, ∀ j, r.core.exec = .instr j →
      ∃ c : Core, r.core = c.seen ∧ c.exec = .instr j) generalizing p with
  | mk c ch dg sg ih =>
    intro r hr j hj
    simp only [obs, List.mem_cons] at hr
    rcases hr with rfl | hr
    · refine ⟨c, rfl, ?_⟩
      simp only [Core.seen] at hj
      cases he : c.exec <;> simp_all [Exec.strip]
    · exact ih _ r hr j hj
  | nil => rename_i q r hr j hj; simp [obsL] at hr
  | cons n ns ihn ihns =>
    rename_i q r hr j hj
    simp only [obsL, List.mem_append] at hr
    rcases hr with hr | hr
    · exact ihn q r hr j hj
    · exact ihns q r hr j hj

/-- the stripping variant: a `__getstate__` that recognises only class-based instructions loses a
provider-function instruction (3 below) on every round trip — the copy's node has no executor and
computes in-process — while the class-based one (4) survives -/
theorem C07_narrow_strip_loses_instructions :
    Exec.stripNarrow (fun k => k == 4) (.instr 3) = .none ∧ Exec.strip (.instr 3) = .instr 3 ∧
    Exec.stripNarrow (fun k => k == 4) (.instr 4) = .instr 4 ∧ Exec.stripNarrow (fun k => k == 4) .live = Exec.strip .live := by
  decide

/-! ## a child on its own -/

/-- every record of an observation lies below the observed node: nothing of a parent or sibling -/
theorem obs_paths_below : ∀ (n : Node) (p : Path), ∀ r ∈ obs p n, ∃ q, r.path = p ++ [n.core.label] ++ q := by
  intro n
  induction n using Node.rec (motive_2 := fun ns => ∀ (p : Path), ∀ r ∈ obsL p ns, ∃ l q, r.path = p ++ [l] ++ q) with
  | mk c ch dg sg ih =>
    intro p r hr
    simp only [obs, List.mem_cons] at hr
    rcases hr with rfl | hr
    · exact ⟨[], by simp [Node.core]⟩
    · obtain ⟨l, q, e⟩ := ih (p ++ [c.label]) r hr
      exact ⟨[l] ++ q, by simp [e, Node.core]⟩
  | nil => rename_i p r hr; simp [obsL] at hr
  | cons n ns ihn ihns =>
    rename_i p r hr
    simp only [obsL, List.mem_append] at hr
    rcases hr with hr | hr
    · obtain ⟨q, e⟩ := ihn p r hr
      exact ⟨_, q, e⟩
    · exact ihns p r hr

/-- a child pickled on its own (its live parent has lexical path `pp`) comes back as a root: it
shows what the child showed, remembers where it was (`detached_parent_path = pp`), and carries no
record of its parent or siblings — nor any connection to them (a node's state holds none) -/
theorem C07_child_alone (cfg : Cfg) (c : Node) (hwf : WF c) (hone : AtMostOne cfg c)
    (hset : cfg.anyPush = true → Settled c) (pp : Path) :
    ∃ c', load cfg (save (some pp) c) = .ok c' ∧ c'.core.detached = some pp ∧
      obs [] c' = obs [] (c.withDetached (some pp)) ∧
      ∀ r ∈ obs [] c', ∃ q, r.path = [c.core.label] ++ q := by
  refine ⟨_, load_save_node cfg c hwf hset hone (some pp), by simp [Core.forState], ?_, ?_⟩
  · rw [obs_img cfg c hwf hone]; simp [Core.forState]
  · intro r hr
    obtain ⟨q, e⟩ := obs_paths_below _ [] r hr
    exact ⟨q, by simpa [Core.forState] using e⟩

/-! ## autoload at construction -/

/-- the usual way of picking a saved workflow up again — `Workflow(label)`, which finds the file while it is
being constructed — returns the STORED state whatever arguments the constructor was given or defaulted to
(`automate_execution` defaults to `True`): the result shows what the saved graph showed, the automation
flag and the IO maps included -/
theorem C07_autoload_stored_wins (g : Node) (hwf : WF g) (hdet : g.core.detached = none) (ctorAuto : Bool)
    (ctorMaps : Option Nat) :
    ∃ g', autoloadAt Cfg.repaired false ctorAuto ctorMaps g.core.cls (some none) (save none g) = .ok g' ∧
      obs [] g' = obs [] g := by
  obtain ⟨g', h1, h2⟩ := C07_roundtrip_file_own g hwf hdet
  refine ⟨g', ?_, h2⟩
  cases g' with
  | mk c ch dg sg => simp [autoloadAt, h1]

/-! ## saving again -/

/-- the file back end returns the LAST save of a location, whatever was saved there before and whichever
of the two formats either save needed (so `load` after `save; edit; save` is the round trip of the
edited graph, to which `C07_roundtrip_file` applies) -/
theorem C07_last_save_wins (s : Slots) (imp : Bool) (p : PNode) : (s.save true imp p).read = some p := by
  cases imp <;> simp [Slots.save, Slots.read]

/-- … which is lost if a save leaves the file of the other format behind: a location first saved by plain
pickle and then, after a node class that cannot be imported was added, by the cloudpickle fallback
reads back the OLD graph -/
theorem C07_stale_file_shadows (old new : PNode) :
    ((Slots.save false ⟨none, none⟩ true old).save false false new).read = some old := by
  simp [Slots.save, Slots.read]

/-! ## loading in place -/

/-- a child of any composite that saves its state and loads it again IN PLACE (`child.save()` …
`child.load()`, or a child constructed with `parent=…, autoload=…`): with the repaired `Node.load`
(`keepPlace = 2`) the parent shows exactly what it showed — the child is still its child, still connected
and linked as before -/
theorem C07_load_in_place (cfg : Cfg) (c : Core) (ch : List Node) (dg sg : CG) (l : Lbl) (child : Node)
    (hnd : (childLabels ch).Nodup) (hf : ch.find? (fun x => decide (x.core.label = l)) = some child)
    (hwf : WF child) (hdet : child.core.detached = none) (hone : AtMostOne cfg child)
    (hset : cfg.anyPush = true → Settled child) (pp : Option Path) :
    ∃ g', loadInPlace cfg 2 pp (.mk c ch dg sg) l = .ok g' ∧ ∀ p, obs p g' = obs p (.mk c ch dg sg) :=
  loadInPlace_keeps cfg c ch dg sg l child hnd hf hwf hdet hone hset pp

/-! ## running again -/

/-- what a later run reads is the same: the scheduler graph of every composite (who fires whom in
which order, what each all-of trigger waits for, the starting nodes — `Signal.compositeRun` is a
function of it for EVERY behaviour of the children) … -/
theorem C07_rerun (g : Node) (hwf : WF g) (d : Option Path) {σ} (sem : Signal.Sem σ) (fuel : Nat) (s0 : Signal.S σ) :
    toGraph (img Cfg.repaired d g) = toGraph g ∧
    Signal.compositeRun sem (toGraph (img Cfg.repaired d g)) fuel s0 = Signal.compositeRun sem (toGraph g) fuel s0 := by
  have h := toGraph_img Cfg.repaired rfl rfl g hwf d
  exact ⟨h, by rw [h]⟩

/-- EQUAL RUNS, DAG-automated composites (C01's execution model `Exec`): the round-tripped composite
induces the same `Exec.Dag`, so from the same start EVERY schedule — any interleaving of starts,
signal deliveries and executor completions, for any assignment of executors, any set of failing
nodes, either failure-handling variant — is enabled for both or for neither and ends in the same
state: same outputs, call counts and arguments, `provenance_by_execution` / `_by_completion`,
collected errors -/
theorem C07_rerun_dag (g : Node) (hwf : WF g) (d : Option Path) (ecfg : Exec.Cfg) (onExec fails : Nat → Bool)
    (acts : List Exec.Act) :
    Exec.runActs ecfg (toDag (img Cfg.repaired d g) onExec fails) (Exec.init (toDag (img Cfg.repaired d g) onExec fails)) acts =
    Exec.runActs ecfg (toDag g onExec fails) (Exec.init (toDag g onExec fails)) acts := by
  rw [toDag_img Cfg.repaired rfl rfl d g hwf]

/-- EQUAL RUNS, hand-wired composites (C02's scheduler `Signal.compositeRun`) with the children
behaving as the graph says (`dataSem`: fetch through the data connections in list order, compute,
store, emit): same store of output values, same firing order, same refused/failed children — from
every initial store and trigger state, for every fuel -/
theorem C07_rerun_store (g : Node) (hwf : WF g) (d : Option Path) (fuel : Nat) (s0 : Signal.S (Addr → Val)) :
    Signal.compositeRun (dataSem (img Cfg.repaired d g)) (toGraph (img Cfg.repaired d g)) fuel s0 =
    Signal.compositeRun (dataSem g) (toGraph g) fuel s0 := by
  rw [dataSem_img Cfg.repaired rfl d g hwf, toGraph_img Cfg.repaired rfl rfl g hwf d]

/-- … and every child input fetches the same value (first connection holding data) -/
theorem C07_refetch (cfg : Cfg) (g : Node) (hwf : WF g) (hone : AtMostOne cfg g) (d : Option Path) :
    ∀ a ∈ inDom g.children, fetchVal (img cfg d g) a = fetchVal g a := fetchVal_img cfg g hwf hone d

/-! ## concrete graphs: non-vacuity, and what the pinned code does to them -/

def v (k : Nat) : Val := .t [k]
def chn (l : Lbl) (x : Val) : DChan := ⟨l, x, true⟩
/-- a plain node: signal inputs `run`=0, `accumulate_and_run`=1; outputs `ran`=0, `failed`=1 -/
def core0 (label cls : Nat) (kind : Kind) (ins outs : List DChan) : Core :=
  { label, cls, kind, ins, outs, sigIns := [0, 1], sigOuts := [0, 1], received := [], running := false,
    failed := false, exec := .none, bodyExec := .none, cached := none, starting := [], inLinks := [],
    outLinks := [], detached := none, prov := [], refused := [], automate := true, maps := 0 }
def noC : CG := CG.ofTables [] []
def leaf (label cls : Nat) (ins outs : List DChan) : Node := .mk (core0 label cls .leaf ins outs) [] noC noC

theorem wf_leaf (label cls : Nat) (ins outs : List DChan) : WF (leaf label cls ins outs) := by
  simp only [leaf, WF, WFL]
  exact ⟨by decide, by decide, by decide, by decide, by decide, cgCheck_sound _ _ _ _ (by decide),
    cgCheck_sound _ _ _ _ (by decide), by simp [core0], by simp [core0, Kind.hasLinks], trivial⟩

/-- what a round trip shows (`none` = the pickle cannot be loaded) -/
def shows (cfg : Cfg) (g : Node) : Option (List Rec) :=
  match load cfg (save none g) with
  | .ok g' => some (obs [] g')
  | .error _ => none
def showsFile (cfg : Cfg) (g : Node) : Option (List Rec) :=
  match fileLoad cfg g.core.cls (save none g) with
  | .ok g' => some (obs [] g')
  | .error _ => none
def errorOf (cfg : Cfg) (g : Node) : Option Err :=
  match load cfg (save none g) with
  | .ok _ => none
  | .error e => some e
/-- a reading taken on the graph a round trip returns -/
def after {α} (cfg : Cfg) (g : Node) (f : Node → α) : Option α :=
  match load cfg (save none g) with
  | .ok g' => some (f g')
  | .error _ => none

/-- W1 — workflow `w`: `c.a ← a.o` then `c.a ← b.o` (so `c.a.connections = [b.o, a.o]`) -/
def w1kids : List Node :=
  [leaf 1 1 [chn 0 (v 1)] [chn 0 (v 11)], leaf 2 2 [chn 0 (v 2)] [chn 0 (v 12)], leaf 3 3 [chn 0 .nd] [chn 0 .nd]]
def w1 : Node :=
  .mk (core0 0 100 .workflow [] []) w1kids
    (CG.ofTables [((3, 0), [(2, 0), (1, 0)])] [((1, 0), [(3, 0)]), ((2, 0), [(3, 0)])]) noC

theorem wf_w1 : WF w1 := by
  simp only [w1, w1kids, WF, WFL]
  refine ⟨by decide, by decide, by decide, by decide, by decide, cgCheck_sound _ _ _ _ (by decide),
    cgCheck_sound _ _ _ _ (by decide), by decide, by simp [core0, Kind.hasLinks], rfl, wf_leaf _ _ _ _, rfl,
    wf_leaf _ _ _ _, rfl, wf_leaf _ _ _ _, trivial⟩

/-- non-vacuity of the full statement: a graph with a doubly connected input, and its round trip -/
example : shows Cfg.repaired w1 = some (obs [] w1) := by decide
example : showsFile Cfg.repaired w1 = some (obs [] w1) := by decide
example : ∃ g', load Cfg.repaired (save none w1) = .ok g' ∧ obs [] g' = obs [] w1 := C07_roundtrip w1 wf_w1

/-- KF-C07-1: the pinned restore reverses the priority of a multiply connected input: `c.a` comes back
as `[a.o, b.o]`, and `fetch` now takes `a`'s value (11) where it took `b`'s (12) -/
theorem C07_restore_reverses_priority :
    shows Cfg.pinned w1 ≠ some (obs [] w1) ∧
    after Cfg.pinned w1 (fun g' => (g'.data.inl (3, 0), fetchVal g' (3, 0))) = some ([(1, 0), (2, 0)], some (v 11)) ∧
    w1.data.inl (3, 0) = [(2, 0), (1, 0)] ∧ fetchVal w1 (3, 0) = some (v 12) := by decide

/-- W9 — hand-wired macro: `a.ran >> c.run`, start `a`; `c.a ← a.o` then `c.a ← b.o` -/
def w9 : Node :=
  .mk { core0 0 100 .macro [] [] with starting := [1] }
    [leaf 1 1 [] [chn 0 .nd], leaf 2 2 [] [chn 0 (v 12)], leaf 3 3 [chn 0 .nd] [chn 0 .nd]]
    (CG.ofTables [((3, 0), [(2, 0), (1, 0)])] [((1, 0), [(3, 0)]), ((2, 0), [(3, 0)])])
    (CG.ofTables [((3, 0), [(1, 0)])] [((1, 0), [(3, 0)])])

/-- what `c` has computed after the composite ran, `b.o` holding 12 -/
def cAfterRun (g : Node) : Val :=
  (Signal.compositeRun (dataSem g) (toGraph g) 5
    (Signal.S.init (fun a => if a = (2, 0) then v 12 else .nd) fun _ => [])).store (3, 0)

/-- non-vacuity of `C07_rerun_store`, and the defect it excludes: the run of w9 and of its repaired copy
computes `c = f3(12)` from `b`; the copy with reversed priority computes `f3(f1())` from `a` -/
example : cAfterRun w9 = .t [3, 2, 12] ∧ after Cfg.repaired w9 cAfterRun = some (.t [3, 2, 12]) ∧
    after Cfg.pinned w9 cAfterRun = some (.t [3, 2, 1]) := by decide

/-- hence the full statement is FALSE of the tree as it was found -/
theorem C07_pinned_statement_false : ¬ RoundTripStatement Cfg.pinned := by
  intro h
  obtain ⟨g', h1, h2⟩ := h w1 wf_w1
  have := C07_restore_reverses_priority.1
  simp only [shows, h1, h2] at this
  exact this rfl

/-- the file back end re-states the TOP composite a second time, so the pinned code reverses its
lists twice (w1 survives `save()`/`load()`) — but a nested composite only once -/
def w1nested : Node :=
  .mk (core0 9 101 .workflow [] []) [.mk (core0 0 100 .macro [] []) w1kids
    (CG.ofTables [((3, 0), [(2, 0), (1, 0)])] [((1, 0), [(3, 0)]), ((2, 0), [(3, 0)])]) noC] noC noC
theorem C07_file_double_restore :
    showsFile Cfg.pinned w1 = some (obs [] w1) ∧ showsFile Cfg.pinned w1nested ≠ some (obs [] w1nested) ∧
    showsFile Cfg.repaired w1nested = some (obs [] w1nested) := by decide

/-- W2 — macro with hand-made signals: `a.ran` fires `b.run` and then `c.run` (wired `c` first) -/
def w2kids : List Node := [leaf 1 1 [] [], leaf 2 2 [] [], leaf 3 3 [] []]
def w2 : Node :=
  .mk { core0 0 100 .macro [] [] with starting := [1] } w2kids noC
    (CG.ofTables [((2, 0), [(1, 0)]), ((3, 0), [(1, 0)])] [((1, 0), [(2, 0), (3, 0)])])

theorem wf_w2 : WF w2 := by
  simp only [w2, w2kids, WF, WFL]
  refine ⟨by decide, by decide, by decide, by decide, by decide, cgCheck_sound _ _ _ _ (by decide),
    cgCheck_sound _ _ _ _ (by decide), by decide, ?_, rfl, wf_leaf _ _ _ _, rfl, wf_leaf _ _ _ _, rfl,
    wf_leaf _ _ _ _, trivial⟩
  simp only [core0, Kind.hasLinks, if_true]
  exact ⟨by decide, by decide, by decide, by decide⟩

/-- every child just emits `ran` -/
def emitRan : Signal.Sem Unit := ⟨fun _ i => ((), false, [4 * i])⟩
def firedOrder (g : Node) : List Nat :=
  (Signal.compositeRun emitRan (toGraph g) 10 (Signal.S.init () fun _ => [])).fired

/-- KF-C07-2: the pinned restore rebuilds every signal output's list from the iteration over the
inputs: `a.ran` comes back firing `c` before `b`, and the execution order of a later run changes
from a, b, c to a, c, b; the repaired restore keeps both -/
theorem C07_firing_order_changes :
    shows Cfg.pinned w2 ≠ some (obs [] w2) ∧ firedOrder w2 = [1, 2, 3] ∧
    after Cfg.pinned w2 (fun g' => (g'.sig.outl (1, 0), firedOrder g')) = some ([(3, 0), (2, 0)], [1, 3, 2]) ∧
    after Cfg.repaired w2 (fun g' => (g'.sig.outl (1, 0), firedOrder g')) = some ([(2, 0), (3, 0)], [1, 2, 3]) := by
  decide

/-- W3 — a macro whose argument `x` no child uses: its interface node was purged, the value link
still names it (label 7 is no child) -/
def w3 : Node :=
  .mk { core0 0 100 .macro [chn 0 (v 5)] [chn 0 .nd] with inLinks := [(0, (7, 0))], outLinks := [((1, 0), 0)] }
    [leaf 1 1 [chn 0 (v 1)] [chn 0 .nd]] noC noC

/-- KF-C07-3: such a macro can be pickled but never unpickled (`KeyError`), whatever the restore order -/
theorem C07_dangling_link_unloadable :
    errorOf Cfg.pinned w3 = some .key ∧ errorOf Cfg.repaired w3 = some .key := by decide

/-- W4 — a macro pickled while it runs: child `s` (input value-linked to the macro's `x`) is running -/
def w4 : Node :=
  .mk { core0 0 100 .macro [chn 0 (v 5)] [chn 0 .nd] with
          inLinks := [(0, (1, 0))], outLinks := [((1, 0), 0)], running := true }
    [.mk { core0 1 1 .leaf [chn 0 (v 5)] [chn 0 .nd] with running := true } [] noC noC] noC noC

theorem wf_w4 : WF w4 := by
  simp only [w4, WF, WFL]
  refine ⟨by decide, by decide, by decide, by decide, by decide, cgCheck_sound _ _ _ _ (by decide),
    cgCheck_sound _ _ _ _ (by decide), by decide, ?_, rfl, ?_, trivial⟩
  · simp only [core0, Kind.hasLinks, if_true]
    exact ⟨by decide, by decide, by decide, by decide⟩
  · exact ⟨by decide, by decide, by decide, by decide, by decide, cgCheck_sound _ _ _ _ (by decide),
      cgCheck_sound _ _ _ _ (by decide), by decide, by simp [core0, Kind.hasLinks], trivial⟩

/-- the same situation in a for-node (whose `__setstate__` duplicates the macro's) -/
def w4for : Node :=
  .mk { core0 0 100 .forLoop [chn 0 (v 5)] [chn 0 .nd] with
          inLinks := [(0, (1, 0))], outLinks := [((1, 0), 0)], running := true }
    [.mk { core0 1 1 .leaf [chn 0 (v 5)] [chn 0 .nd] with running := true } [] noC noC] noC noC

/-- KF-C07-4: value links re-forged through the value setter push the value into the receiver, and an
input refuses to be written while its owner runs: a pickle taken mid-run cannot be loaded
(`RuntimeError`).  For `Macro` input links the tree assigns directly since 60885c9 (the macro w4 loads
and shows the same state, `running` flags included); `For.__setstate__` still goes through the setter
(w4for cannot be loaded); with the links assigned directly everywhere both load -/
theorem C07_running_link_unloadable :
    errorOf { Cfg.pinned with pushIn := true } w4 = some .runtime ∧ shows Cfg.pinned w4 = some (obs [] w4) ∧
    errorOf Cfg.pinned w4for = some .runtime ∧ shows Cfg.repaired w4for = some (obs [] w4for) ∧
    shows Cfg.repaired w4 = some (obs [] w4) := by decide

/-- W5 — a child input connected to a channel of a node outside the pickled composite (8 is no child) -/
def w5 : Node :=
  .mk (core0 0 100 .workflow [] []) [leaf 1 1 [chn 0 (v 1)] [chn 0 .nd]]
    (CG.ofTables [((1, 0), [(8, 0)])] []) noC

/-- not `Closed`: the stored string names a label the loader cannot resolve (`KeyError`) -/
theorem C07_foreign_connection_unloadable :
    errorOf Cfg.pinned w5 = some .key ∧ errorOf Cfg.repaired w5 = some .key := by decide

/-- W6 — a composite that holds a cache (it ran) -/
def w6 : Node :=
  .mk { core0 0 100 .workflow [] [] with cached := some [v 1] } [leaf 1 1 [chn 0 (v 1)] [chn 0 (v 2)]] noC noC

/-- KF-C07-5: every re-adopted child calls back `add_child`, which resets the composite's cache: the
copy has forgotten it (and will execute where the original answers from its cache) -/
theorem C07_composite_cache_forgotten :
    shows Cfg.pinned w6 ≠ some (obs [] w6) ∧ shows Cfg.repaired w6 = some (obs [] w6) ∧
    after Cfg.pinned w6 (fun g' => g'.core.cached) = some none := by decide

/-- KF-C07-6 repaired: with connections to non-siblings left out of the state the graph loads -/
theorem C07_foreign_connection_dropped :
    errorOf Cfg.repaired (closeUp w5) = none ∧ shows Cfg.repaired (closeUp w1) = some (obs [] w1) := by decide

/-- W7 — a macro with a linked input that was loaded from file: its channels belong to the twin -/
def w7 : Node :=
  .mk { core0 0 100 .macro [chn 0 (v 5)] [chn 0 .nd] with inLinks := [(0, (1, 0))], outLinks := [((1, 0), 0)] }
    [leaf 1 1 [chn 0 (v 5)] [chn 0 .nd]] noC noC

/-- KF-C07-7: after the pinned `load()` a macro cannot be saved and loaded a second time: the twin that
owns its channels is pickled along (`loadHaunted`) and cannot be set up — it reports value links but
has no children —, whatever the restore variant; a plain node (no links) survives; and without a
twin (`load()` takes the channels over) the macro round-trips as often as one likes -/
theorem C07_loaded_macro_not_resavable :
    (match loadHaunted Cfg.pinned none w7 with | .error e => some e | .ok _ => none) = some Err.key ∧
    (match loadHaunted Cfg.repaired none w7 with | .error e => some e | .ok _ => none) = some Err.key ∧
    shows Cfg.repaired w7 = some (obs [] w7) ∧
    (match loadHaunted Cfg.pinned none (leaf 1 1 [chn 0 (v 5)] [chn 0 .nd]) with | .error e => some e | .ok _ => none) = none := by
  decide

/-- W8 — a workflow holding macro `m` (input 0 value-linked to its child) and a plain node; after
`replace_child` of the plain node the workflow carries the view `[m.0, n.0]` of its exposed inputs -/
def w8 : Node :=
  .mk (core0 0 100 .workflow [] [])
    [.mk { core0 1 50 .macro [chn 0 (v 5), chn 1 (v 6)] [chn 0 .nd] with
             inLinks := [(0, (1, 0)), (1, (1, 1))], outLinks := [((1, 0), 0)] }
       [leaf 1 1 [chn 0 (v 5), chn 1 (v 6)] [chn 0 .nd]] noC noC,
     leaf 2 2 [chn 0 (v 1)] [chn 0 .nd]] noC noC

/-- KF-C07-8: the round trip of a workflow that carries the view drops the value link of the first
exposed input of every macro child (here link 0 of `m`; link 1 survives), for every restore variant;
without the view (it is derived data and need not be stored) the same graph round-trips -/
theorem C07_cached_io_view_drops_link :
    (match loadViewed Cfg.repaired [(1, 0), (1, 1), (2, 0)] w8 with
     | .ok g => some (obs [] g) | .error _ => none) ≠ some (obs [] w8) ∧
    (match loadViewed Cfg.repaired [(1, 0), (1, 1), (2, 0)] w8 with
     | .ok g => some (g.children.map fun c => c.core.inLinks) | .error _ => none) = some [[(1, (1, 1))], []] ∧
    (match loadViewed Cfg.repaired [] w8 with
     | .ok g => some (obs [] g) | .error _ => none) = some (obs [] w8) := by decide

/-- KF-C07-9: `c.load()` in place in workflow w1 with the unrepaired `Node.load`: the child comes back
with the detached path of a node that has no parent (while `w` still lists it), its own connection
list is empty, but `a.o` and `b.o` still list it — the connection graph is no longer mutual; with
`keepPlace` the workflow shows what it showed -/
def inPlaceRead {α} (keep : Nat) (f : Node → α) : Option α :=
  match loadInPlace Cfg.repaired keep none w1 3 with
  | .ok g => some (f g)
  | .error _ => none

theorem C07_load_in_place_orphans :
    inPlaceRead 0 (fun g => g.data.inl (3, 0)) = some [] ∧
    inPlaceRead 0 (fun g => g.data.outl (1, 0)) = some [(3, 0)] ∧
    inPlaceRead 0 (fun g => g.children.map fun x => x.core.detached.isSome) = some [false, false, true] ∧
    inPlaceRead 0 (obs []) ≠ some (obs [] w1) ∧
    -- the parent kept (dcaa030), the connections still lost:
    inPlaceRead 1 (fun g => g.children.map fun x => x.core.detached.isSome) = some [false, false, false] ∧
    inPlaceRead 1 (fun g => (g.data.inl (3, 0), g.data.outl (1, 0))) = some ([], [(3, 0)]) ∧
    inPlaceRead 1 (obs []) ≠ some (obs [] w1) ∧
    inPlaceRead 2 (obs []) = some (obs [] w1) := by decide

/-- W10 — `b.i ← a.os` was accepted while `b.i` was not strict; it is strict again now, so the hint
check would refuse the connection today -/
def w10 : Node :=
  .mk { core0 0 100 .workflow [] [] with refused := [((2, 0), (1, 0))] }
    [leaf 1 1 [] [chn 0 (v 1)], leaf 2 2 [chn 0 (v 2)] [chn 0 .nd]]
    (CG.ofTables [((2, 0), [(1, 0)])] [((1, 0), [(2, 0)])]) noC

/-- KF-C07-10: re-creating the stored connections with `connect` validates the hints again: a graph
whose strictness (or hints) changed after connecting can be saved but not loaded
(`ChannelConnectionError`); re-created as stored it round-trips -/
theorem C07_refused_connection_unloadable :
    errorOf { Cfg.repaired with revalidate := true } w10 = some .conn ∧
    shows Cfg.repaired w10 = some (obs [] w10) := by decide

/-- a constructor that re-applies its arguments AFTER the autoload: the hand-wired workflow `w2h` (automation
off, stored so) comes back with automation ON from a plain `Workflow(label)` — everything else still
looks the same, but the next run re-derives signals and starting nodes from the data DAG; with the
stored state winning it shows what it showed -/
def w2h : Node :=
  .mk { core0 0 100 .workflow [] [] with starting := [1], automate := false } w2kids noC
    (CG.ofTables [((2, 0), [(1, 0)]), ((3, 0), [(1, 0)])] [((1, 0), [(2, 0), (3, 0)])])
def autoShows (ctorLast : Bool) : Option (List Rec) :=
  match autoloadAt Cfg.repaired ctorLast true none w2h.core.cls (some none) (save none w2h) with
  | .ok g => some (obs [] g)
  | .error _ => none
theorem C07_ctor_last_overrides_stored :
    autoShows true ≠ some (obs [] w2h) ∧ autoShows false = some (obs [] w2h) ∧
    (match autoloadAt Cfg.repaired true true none w2h.core.cls (some none) (save none w2h) with
     | .ok g => some g.core.automate | .error _ => none) = some true := by decide

/-- non-vacuity of the partial statement on the pinned code: a nested graph (workflow ⊃ macro with
value links ⊃ leaves) in a partly run, partly failed state with `NOT_DATA`, executor instructions
and single connections satisfies its hypotheses and round-trips through both back ends -/
def exInner : Node :=
  .mk { core0 2 50 .macro [chn 0 (v 7)] [chn 0 (v 9)] with
          inLinks := [(0, (1, 0))], outLinks := [((2, 0), 0)], starting := [1], exec := .instr 3 }
    [leaf 1 1 [chn 0 (v 7)] [chn 0 (v 8)],
     .mk { core0 2 2 .leaf [chn 0 (v 8)] [chn 0 (v 9)] with failed := true, exec := .live } [] noC noC]
    (CG.ofTables [((2, 0), [(1, 0)])] [((1, 0), [(2, 0)])])
    (CG.ofTables [((2, 1), [(1, 0)])] [((1, 0), [(2, 1)])])
def exG : Node :=
  .mk { core0 0 100 .workflow [] [] with failed := true, prov := [1, 2] }
    [leaf 1 1 [chn 0 .nd] [chn 0 (v 7)], exInner]
    (CG.ofTables [((2, 0), [(1, 0)])] [((1, 0), [(2, 0)])]) noC

example : shows Cfg.pinned exG = some (obs [] exG) ∧ showsFile Cfg.pinned exG = some (obs [] exG) := by decide +kernel

theorem short_of_table (t : List (Addr × List Addr)) (h : (t.all fun p => decide (p.2.length ≤ 1)) = true) (a : Addr) :
    (lookupD t a).length ≤ 1 := by
  unfold lookupD
  cases hf : t.find? (fun p => decide (p.1 = a)) with
  | none => simp
  | some p =>
    have := List.all_eq_true.mp h p (List.mem_of_find?_eq_some hf)
    simpa using this

theorem wf_exG : WF exG := by
  simp only [exG, exInner, WF, WFL]
  refine ⟨by decide, by decide, by decide, by decide, by decide, cgCheck_sound _ _ _ _ (by decide),
    cgCheck_sound _ _ _ _ (by decide), by decide, by simp [core0, Kind.hasLinks], rfl, wf_leaf _ _ _ _, rfl, ?_, trivial⟩
  refine ⟨by decide, by decide, by decide, by decide, by decide, cgCheck_sound _ _ _ _ (by decide),
    cgCheck_sound _ _ _ _ (by decide), by decide, ?_, rfl, wf_leaf _ _ _ _, rfl, ?_, trivial⟩
  · simp only [core0, Kind.hasLinks, if_true]
    exact ⟨by decide, by decide, by decide, by decide⟩
  · exact ⟨by decide, by decide, by decide, by decide, by decide, cgCheck_sound _ _ _ _ (by decide),
      cgCheck_sound _ _ _ _ (by decide), by decide, by simp [core0, Kind.hasLinks], trivial⟩

theorem one_exG : AtMostOne Cfg.pinned exG := by
  simp only [exG, exInner, leaf, AtMostOne, AtMostOneL, noC, CG.ofTables]
  refine ⟨fun _ => short_of_table _ (by decide), fun _ => short_of_table _ (by decide), fun _ _ => rfl, fun _ => rfl, ?_, ?_, trivial⟩
  · exact ⟨fun _ => short_of_table _ (by decide), fun _ => short_of_table _ (by decide), fun _ _ => rfl, fun _ => rfl, trivial⟩
  · refine ⟨fun _ => short_of_table _ (by decide), fun _ => short_of_table _ (by decide), fun _ _ => rfl, fun _ => rfl, ?_, ?_, trivial⟩
    · exact ⟨fun _ => short_of_table _ (by decide), fun _ => short_of_table _ (by decide), fun _ _ => rfl, fun _ => rfl, trivial⟩
    · exact ⟨fun _ => short_of_table _ (by decide), fun _ => short_of_table _ (by decide), fun _ _ => rfl, fun _ => rfl, trivial⟩

theorem settled_exG : Settled exG := by
  simp only [exG, exInner, leaf, Settled, SettledL]
  refine ⟨by simp [core0, Kind.hasLinks], ⟨by simp [core0, Kind.hasLinks], trivial⟩, ?_, trivial⟩
  refine ⟨fun _ => ⟨?_, ?_⟩, ⟨by simp [core0, Kind.hasLinks], trivial⟩, ⟨by simp [core0, Kind.hasLinks], trivial⟩, trivial⟩
  · intro p hp w hw
    simp only [List.mem_singleton] at hp
    subst hp
    simp only [core0, valOf, chn, List.find?, decide_true, Option.map_some, Option.some.injEq] at hw
    subst hw
    simp [QuietL, Quiet, core0, Node.core, setVal, chn, lookupLink]
  · intro p hp w hw
    simp only [List.mem_singleton] at hp
    subst hp
    have : w = v 9 := by
      have h2 : outValOf [.mk (core0 1 1 .leaf [chn 0 (v 7)] [chn 0 (v 8)]) [] noC noC,
          .mk { core0 2 2 .leaf [chn 0 (v 8)] [chn 0 (v 9)] with failed := true, exec := .live } [] noC noC] (2, 0)
          = some (v 9) := by decide
      rw [h2] at hw
      exact (Option.some.inj hw).symm
    subst this
    simp [setVal, core0, chn]

/-- … and it satisfies the hypotheses of the partial theorem, which therefore applies to it -/
example : (∃ g', load Cfg.pinned (save none exG) = .ok g' ∧ obs [] g' = obs [] exG) :=
  (C07_roundtrip_partial Cfg.pinned exG wf_exG one_exG (fun _ => settled_exG)).1
example : (obs [] exG).length = 5 := by decide

end PwVerif.C07

#print axioms PwVerif.C07.C07_roundtrip
#print axioms PwVerif.C07.C07_roundtrip_file
#print axioms PwVerif.C07.C07_roundtrip_file_own
#print axioms PwVerif.C07.C07_roundtrip_twice
#print axioms PwVerif.C07.C07_roundtrip_partial
#print axioms PwVerif.C07.C07_unordered_sides
#print axioms PwVerif.C07.C07_executor_instructions
#print axioms PwVerif.C07.C07_narrow_strip_loses_instructions
#print axioms PwVerif.C07.C07_child_alone
#print axioms PwVerif.C07.C07_rerun
#print axioms PwVerif.C07.C07_refetch
#print axioms PwVerif.C07.C07_rerun_dag
#print axioms PwVerif.C07.C07_rerun_store
#print axioms PwVerif.C07.C07_restore_reverses_priority
#print axioms PwVerif.C07.C07_pinned_statement_false
#print axioms PwVerif.C07.C07_file_double_restore
#print axioms PwVerif.C07.C07_firing_order_changes
#print axioms PwVerif.C07.C07_dangling_link_unloadable
#print axioms PwVerif.C07.C07_running_link_unloadable
#print axioms PwVerif.C07.C07_foreign_connection_unloadable
#print axioms PwVerif.C07.C07_composite_cache_forgotten
#print axioms PwVerif.C07.C07_foreign_connection_dropped
#print axioms PwVerif.C07.C07_loaded_macro_not_resavable
#print axioms PwVerif.C07.C07_cached_io_view_drops_link
#print axioms PwVerif.C07.C07_autoload_stored_wins
#print axioms PwVerif.C07.C07_ctor_last_overrides_stored
#print axioms PwVerif.C07.C07_last_save_wins
#print axioms PwVerif.C07.C07_stale_file_shadows
#print axioms PwVerif.C07.C07_load_in_place
#print axioms PwVerif.C07.C07_load_in_place_orphans
#print axioms PwVerif.C07.C07_refused_connection_unloadable
