import PwVerif.Proofs.Recovery
import PwVerif.Proofs.ExecFin
import PwVerif.Props.C01
import PwVerif.Props.C06
/-!
# C08 — A failed run can be restored from its recovery file and resumed to the same end

"When a run of a workflow fails, a recovery file holding the graph as it stood at the failure is
written for the outermost graph and only there. Loading it, removing the cause and clearing the
failure flags, then running again yields exactly the outputs an uninterrupted run would have produced,
without calling again the functions of nodes that had already completed. The same holds for a graph
restored from a checkpoint that a node wrote when it finished, as if the process had died right after
that save."

Quantification: every wired DAG `d` (`WF d`, acyclic by a ranking), every fault set `d.fails`, every
executor assignment, every schedule of the first run and EVERY state `s` that run can reach (`Cut`):
the end of a failed run (recovery file) as well as the moment right after any child finished
(checkpoint; siblings may be in flight on executors) — i.e. every point at which the run may be cut;
then every schedule of the resumed run (`Resumed`).  A composite level with macro children is an
instance: a macro child is a node whose function is its sub-graph (DESIGN §5/C09), it fails iff a node
inside fails, a reloaded composite never keeps its own cache (`__setstate__` re-adopts the children,
which resets it), so it is re-run and the theorems apply to its own level with the file's part for
that level; the ownership tree itself is the subject of `C08_recovery_root_only`.

`RCfg.now` is /repo as it is (fix 0699958 applied), `RCfg.repaired` adds the proposed
fixes/C08-inflight-cache.patch, `RCfg.original` is the tree as first pinned.
-/
namespace PwVerif.C08
open PwVerif PwVerif.Exec PwVerif.Recovery

/-- a cut: any state the first run can reach -/
def Cut (cfg : Cfg) (d : Dag) (s : S) : Prop := ∃ acts, runActs cfg d (init d) acts = some s

/-- file written at the cut, loaded, flags cleared, cause removed, run again: any state of that run -/
def Resumed (rc : RCfg) (cfg : Cfg) (d : Dag) (s : S) (rs : RS) : Prop :=
  ∃ acts, rrunActs cfg d (resumeFrom rc d s) acts = some rs

theorem resumed_inv {rc cfg d s rs} (wf : WF d) (hc : Cut cfg d s) (hok : CacheOK rc s)
    (hr : Resumed rc cfg d s rs) : RInv d s.received (doneAt s) rs := by
  obtain ⟨acts, ha⟩ := hc
  obtain ⟨racts, hra⟩ := hr
  have hinv := runActs_inv cfg d wf acts _ _ (init_inv cfg d wf) ha
  have hargs := runActs_argsInv cfg d acts _ _ (init_argsInv d) ha
  exact rrunActs_inv cfg (snapOK_of_cut hinv.core) wf racts _ _ (resume_inv rc wf hinv hargs hok) hra

/-! ## (b) the resumed run ends where an uninterrupted run ends -/

/-- when the resumed run has returned, every child holds the value of the plain composition: its
function applied to the first connection of every input -/
theorem C08_resume_equations {rc cfg d s rs} (wf : WF d) (rank : Nat → Nat)
    (hrank : ∀ i j, j ∈ d.deps i → rank j < rank i) (hc : Cut cfg d s) (hok : CacheOK rc s)
    (hr : Resumed rc cfg d s rs) (hex : rs.s.phase = .exited) (i : Nat) (hm : d.member i) :
    rs.s.st i = .done ∧ rs.s.out i = .app i (headArgs d rs.s.out i) := by
  have hinv := resumed_inv wf hc hok hr
  have hd := rexit_all_done wf rs hinv rank hrank hex i hm
  obtain ⟨acts, ha⟩ := hc
  have hcut := runActs_inv cfg d wf acts _ _ (init_inv cfg d wf) ha
  exact ⟨hd, rgood_value (snapOK_of_cut hcut.core) rs hinv i (Or.inl hd)⟩

/-- … and these are exactly the outputs of ANY uninterrupted run of the same graph (same data
connections; executor assignment, signal orders and schedule may all differ) -/
theorem C08_resume_same_end {rc cfg cfg0 d d0 s rs c} (wf : WF d) (wf0 : WF d0) (rank : Nat → Nat)
    (hrank : ∀ i j, j ∈ d.deps i → rank j < rank i)
    (hsl : d0.slots = d.slots) (hst : ∀ i, i ∈ d0.starters ↔ i ∈ d.starters)
    (hnf : C01.NoFaults d0) (hclean : C01.Reach cfg0 d0 c) (hcex : c.phase = .exited)
    (hc : Cut cfg d s) (hok : CacheOK rc s) (hr : Resumed rc cfg d s rs) (hex : rs.s.phase = .exited) :
    ∀ i, d.member i → rs.s.out i = c.out i := by
  have hdeps : ∀ i, d0.deps i = d.deps i := by intro i; simp [Dag.deps, hsl]
  have hmem : ∀ i, d.member i → d0.member i := by
    intro i hm
    rcases hm with hm | hm
    · exact Or.inl ((hst i).mpr hm)
    · exact Or.inr (by rw [hdeps]; exact hm)
  have hhead : ∀ o i, headArgs d0 o i = headArgs d o i := by intro o i; simp [headArgs, hsl]
  have hrank0 : ∀ i j, j ∈ d0.deps i → rank j < rank i := by
    intro i j hj; rw [hdeps] at hj; exact hrank i j hj
  apply C01.C01_value_unique d wf rank hrank
  · intro i hm
    exact (C08_resume_equations wf rank hrank hc hok hr hex i hm).2
  · intro i hm
    rw [← hhead]
    exact C01.C01_value wf0 rank hrank0 hnf hclean hcex i (hmem i hm)

/-! ## (c) completed nodes are not executed again, the others are — exactly once -/

/-- at every moment of the resumed run: the function of a node that had completed before the cut
has not been called -/
theorem C08_no_recall {rc cfg d s rs} (wf : WF d) (hc : Cut cfg d s) (hok : CacheOK rc s)
    (hr : Resumed rc cfg d s rs) (i : Nat) (hi : s.st i = .done) : rs.fcalls i = 0 := by
  have := (resumed_inv wf hc hok hr).book.fc i
  simpa [doneAt, hi] using this

/-- no function is ever called twice, and when the resumed run has returned every node that had NOT
completed before the cut (the failed node, everything downstream of it, whatever was in flight) has
been executed exactly once -/
theorem C08_rest_runs_once {rc cfg d s rs} (wf : WF d) (rank : Nat → Nat)
    (hrank : ∀ i j, j ∈ d.deps i → rank j < rank i) (hc : Cut cfg d s) (hok : CacheOK rc s)
    (hr : Resumed rc cfg d s rs) :
    (∀ i, rs.fcalls i ≤ 1) ∧
    (rs.s.phase = .exited → ∀ i, d.member i → s.st i ≠ .done → rs.fcalls i = 1) := by
  have hinv := resumed_inv wf hc hok hr
  refine ⟨?_, ?_⟩
  · intro i
    have := hinv.book.fc i
    split at this <;> omega
  · intro hex i hm hi
    have hd := rexit_all_done wf rs hinv rank hrank hex i hm
    have := hinv.book.fc i
    simpa [doneAt, hi, hd] using this

/-- the resumed run never raises, nothing fails, and (when it has returned) nothing is left running -/
theorem C08_resume_no_error {rc cfg d s rs} (wf : WF d) (hc : Cut cfg d s) (hok : CacheOK rc s)
    (hr : Resumed rc cfg d s rs) :
    rs.s.errs = [] ∧ rs.s.phase ≠ .aborted ∧ (∀ i, rs.s.st i ≠ .failed) ∧
    (rs.s.phase = .exited → rs.s.running = [] ∧ rs.s.queue = []) := by
  have hinv := resumed_inv wf hc hok hr
  refine ⟨hinv.core.noErr, hinv.notAborted, hinv.core.noFail, ?_⟩
  intro hex
  obtain ⟨hq, hrun, _⟩ := hinv.phase.exited hex
  exact ⟨hrun, hq⟩

/-- a node of the resumed run starts only when every node it takes data from holds its final output
(produced in this run, or kept from before the cut) -/
theorem C08_resume_order {rc cfg d s rs} (wf : WF d) (hc : Cut cfg d s) (hok : CacheOK rc s)
    (hr : Resumed rc cfg d s rs) (i j : Nat) (hi : rs.s.st i ≠ .idle) (hj : j ∈ d.deps i) :
    rs.s.st j = .done ∨ s.st j = .done := by
  rcases (resumed_inv wf hc hok hr).core.avail i j hi hj with h | h
  · exact Or.inl h
  · right; simpa [doneAt] using h

/-- until it has returned the resumed run can always take a step -/
theorem C08_resume_progress {rc cfg d s rs} (wf : WF d) (hc : Cut cfg d s) (hok : CacheOK rc s)
    (hr : Resumed rc cfg d s rs) (r : List Nat) (hph : rs.s.phase = .run r) :
    ∃ a rs', rstep cfg d rs a = some rs' :=
  rprogress cfg rs (resumed_inv wf hc hok hr) r hph

/-! ## the full statement per configuration -/

/-- the statement of the property for one composite level -/
def ResumeStatement (rc : RCfg) (cfg : Cfg) : Prop :=
  ∀ (d : Dag) (s : S) (rs : RS) (rank : Nat → Nat), WF d → (∀ i j, j ∈ d.deps i → rank j < rank i) →
    Cut cfg d s → Resumed rc cfg d s rs → rs.s.phase = .exited →
    (∀ i, d.member i → rs.s.out i = .app i (headArgs d rs.s.out i)) ∧ (∀ i, s.st i = .done → rs.fcalls i = 0)

theorem cacheOK_repaired (s : S) : CacheOK RCfg.repaired s := ⟨Or.inl rfl, Or.inl rfl⟩

/-- REPAIRED code: every cut — recovery file or checkpoint, whatever is in flight -/
theorem C08_resume_repaired (cfg : Cfg) : ResumeStatement RCfg.repaired cfg := by
  intro d s rs rank wf hrank hc hr hex
  refine ⟨fun i hm => (C08_resume_equations wf rank hrank hc (cacheOK_repaired s) hr hex i hm).2, ?_⟩
  intro i hi
  exact C08_no_recall wf hc (cacheOK_repaired s) hr i hi

/-- the code as it is NOW, partial: every cut at which no child is in flight on an executor -/
theorem C08_resume_now_partial {cfg d s rs} (wf : WF d) (rank : Nat → Nat)
    (hrank : ∀ i j, j ∈ d.deps i → rank j < rank i) (hc : Cut cfg d s)
    (hquiet : ∀ i, s.st i ≠ .out) (hr : Resumed RCfg.now cfg d s rs) (hex : rs.s.phase = .exited) :
    (∀ i, d.member i → rs.s.out i = .app i (headArgs d rs.s.out i)) ∧ (∀ i, s.st i = .done → rs.fcalls i = 0) := by
  have hok : CacheOK RCfg.now s := ⟨Or.inr hquiet, Or.inl rfl⟩
  refine ⟨fun i hm => (C08_resume_equations wf rank hrank hc hok hr hex i hm).2, ?_⟩
  intro i hi
  exact C08_no_recall wf hc hok hr i hi

/-- the code as it is NOW: the RECOVERY file (written when the failed run has returned) always
resumes to the same end — by C06 nothing is in flight when the loop has exited -/
theorem C08_recovery_now {cfg d s rs} (wf : WF d) (rank : Nat → Nat)
    (hrank : ∀ i j, j ∈ d.deps i → rank j < rank i) (hc : Cut cfg d s) (hend : s.phase = .exited)
    (hr : Resumed RCfg.now cfg d s rs) (hex : rs.s.phase = .exited) :
    (∀ i, d.member i → rs.s.out i = .app i (headArgs d rs.s.out i)) ∧ (∀ i, s.st i = .done → rs.fcalls i = 0) :=
  C08_resume_now_partial wf rank hrank hc (C06.C06_nobody_running_exited wf hc hend).2 hr hex

/-! ## (d) checkpoints -/

/-- the cut "child `c` has just finished (and saved the graph); nothing later survives" -/
def CheckpointCut (cfg : Cfg) (d : Dag) (c : Nat) (s : S) : Prop :=
  ∃ acts s0 a, runActs cfg d (init d) acts = some s0 ∧ step cfg d s0 a = some s ∧
    s0.st c ≠ .done ∧ s.st c = .done

theorem CheckpointCut.cut {cfg d c s} (h : CheckpointCut cfg d c s) : Cut cfg d s := by
  obtain ⟨acts, s0, a, h0, h1, _, _⟩ := h
  refine ⟨acts ++ [a], ?_⟩
  have : ∀ (l : List Act) (t : S), runActs cfg d t l = some s0 → runActs cfg d t (l ++ [a]) = some s := by
    intro l
    induction l with
    | nil => intro t ht; simp [runActs] at ht; subst ht; simp [runActs, h1]
    | cons x xs ih =>
      intro t ht
      simp only [runActs, List.cons_append] at ht ⊢
      split at ht
      · rename_i t1 ht1; rw [ht1]; exact ih t1 ht
      · simp at ht
  exact this acts _ h0

/-- REPAIRED code: a graph restored from the checkpoint of ANY child, with anything in flight,
resumes to the same end, re-executing nothing that had completed (`c` itself included) -/
theorem C08_checkpoint_repaired {cfg d c s rs} (wf : WF d) (rank : Nat → Nat)
    (hrank : ∀ i j, j ∈ d.deps i → rank j < rank i) (hc : CheckpointCut cfg d c s)
    (hr : Resumed RCfg.repaired cfg d s rs) (hex : rs.s.phase = .exited) :
    (∀ i, d.member i → rs.s.out i = .app i (headArgs d rs.s.out i)) ∧
    (∀ i, s.st i = .done → rs.fcalls i = 0) ∧ rs.fcalls c = 0 := by
  obtain ⟨h1, h2⟩ := C08_resume_repaired cfg d s rs rank wf hrank hc.cut hr hex
  obtain ⟨_, _, _, _, _, _, hcd⟩ := hc
  exact ⟨h1, h2, h2 c hcd⟩

/-! ### machine-checked counterexamples (both replayed on the real code by harness/pwh/c08.py) -/

/-- roots `0` (on an executor) and `1` (local, checkpointing), `2` takes data from both -/
def wFlight : FinDag :=
  { n := 3, slots := [[], [], [[1], [0]]], down := [[2], [2]], starters := [0, 1],
    onExec := [true, false, false], fails := [], rank := [0, 0, 1] }

/-- first run: `0` submitted, `1` runs to the end and writes the checkpoint — cut here -/
def actsFlight : List Act := [.start, .start]
theorem someFlight : (runActs Cfg.repaired wFlight.toDag (init wFlight.toDag) actsFlight).isSome = true := by decide
def sFlight : S := (runActs Cfg.repaired wFlight.toDag (init wFlight.toDag) actsFlight).get someFlight
theorem cutFlight : Cut Cfg.repaired wFlight.toDag sFlight := ⟨actsFlight, (Option.some_get someFlight).symm⟩

/-- resumed run: `0` and `1` both answer from cache, `2` runs, exit -/
def ractsFlight : List Act := [.start, .start, .deliver, .deliver, .exit]
theorem someRFlight : (rrunActs Cfg.repaired wFlight.toDag (resumeFrom RCfg.now wFlight.toDag sFlight) ractsFlight).isSome = true := by
  decide
def rsFlight : RS := (rrunActs Cfg.repaired wFlight.toDag (resumeFrom RCfg.now wFlight.toDag sFlight) ractsFlight).get someRFlight

/-- NOW: a checkpoint written while a sibling is in flight cannot be resumed: the in-flight node's
`_cached_inputs` are in the file, it takes a cache hit, is never executed, its output stays NOT_DATA
and the node downstream silently runs on its default -/
theorem C08_inflight_cache_witness : ¬ ResumeStatement RCfg.now Cfg.repaired := by
  intro hS
  obtain ⟨hwf, hrk⟩ := FinDag.check_sound wFlight (by decide)
  have := (hS wFlight.toDag sFlight rsFlight wFlight.rankF hwf hrk cutFlight
    ⟨ractsFlight, (Option.some_get someRFlight).symm⟩ (by decide)).1 0 (Or.inl (by decide))
  revert this
  decide

/-- what exactly goes wrong in that run -/
theorem C08_inflight_cache_detail :
    rsFlight.s.phase = .exited ∧ rsFlight.s.errs = [] ∧ rsFlight.fcalls 0 = 0 ∧ rsFlight.s.out 0 = .nd ∧
    rsFlight.s.out 2 = .app 2 [.app 1 [], .d] := by
  decide

/-- `0 → 1`, `0` raises -/
def wFail : FinDag :=
  { n := 2, slots := [[], [[0]]], down := [[1], []], starters := [0], onExec := [false, false],
    fails := [true, false], rank := [0, 1] }
def actsFail : List Act := [.start, .exit]
theorem someFail : (runActs Cfg.repaired wFail.toDag (init wFail.toDag) actsFail).isSome = true := by decide
def sFail : S := (runActs Cfg.repaired wFail.toDag (init wFail.toDag) actsFail).get someFail
def ractsFail : List Act := [.start, .deliver, .exit]
theorem someRFail : (rrunActs Cfg.repaired wFail.toDag (resumeFrom RCfg.original wFail.toDag sFail) ractsFail).isSome = true := by
  decide
def rsFail : RS := (rrunActs Cfg.repaired wFail.toDag (resumeFrom RCfg.original wFail.toDag sFail) ractsFail).get someRFail

/-- ORIGINALLY pinned (before fix 0699958): the failed node itself keeps the inputs it failed on in
its cache; after `failed = False` it takes a cache hit and is never executed again -/
theorem C08_original_stale_cache_witness : ¬ ResumeStatement RCfg.original Cfg.repaired := by
  intro hS
  obtain ⟨hwf, hrk⟩ := FinDag.check_sound wFail (by decide)
  have := (hS wFail.toDag sFail rsFail wFail.rankF hwf hrk ⟨actsFail, (Option.some_get someFail).symm⟩
    ⟨ractsFail, (Option.some_get someRFail).symm⟩ (by decide)).1 0 (Or.inl (by decide))
  revert this
  decide

/-! ## (a) the recovery file is written once, by the root, and only there -/

/-- whatever set of leaves raises, wherever in the ownership tree: of all the nodes that end up
failed exactly one passes the guard of `_run_finally` — the parent-most one — so exactly one recovery
file exists and it is in the root's directory; no child, no macro in between writes one -/
theorem C08_recovery_root_only (f : Forest) (depth : Nat → Nat) (hr : f.Ranked depth) (fuel : Nat)
    (nodes ks : List Nat) (r : Nat) (hnd : nodes.Nodup) (hfuel : ∀ n ∈ nodes, depth n ≤ fuel)
    (hrn : r ∈ nodes) (hrec : f.recovery r = true)
    (hks : ks ≠ []) (hkn : ∀ k ∈ ks, k ∈ nodes ∧ f.root fuel k = r)
    (hclosed : ∀ k ∈ ks, ∀ m ∈ f.chain fuel k, m ∈ nodes) :
    f.recoveryFiles fuel nodes ks = [r] ∧ f.parent r = none := by
  obtain ⟨k0, hk0⟩ := List.exists_mem_of_ne_nil _ hks
  have hrp : f.parent r = none := by
    have := f.root_parent_none depth hr fuel k0 (hfuel k0 (hkn k0 hk0).1)
    rwa [(hkn k0 hk0).2] at this
  refine ⟨?_, hrp⟩
  apply filter_eq_singleton nodes _ r hnd hrn
  intro n hn
  simp only [Forest.failedNodes, Forest.writesRecovery, Bool.and_eq_true, List.any_eq_true,
    List.contains_iff_mem, beq_iff_eq]
  constructor
  · rintro ⟨⟨k, hk, hnk⟩, _, hroot⟩
    have hpn := (f.root_eq_self_iff depth hr fuel n (hfuel n hn)).mp hroot
    have := f.chain_parentless fuel k n (by simpa using hnk) hpn
    rw [this]; exact (hkn k hk).2
  · intro e
    subst e
    refine ⟨⟨k0, hk0, ?_⟩, hrec, (f.root_eq_self_iff depth hr fuel n (hfuel n hn)).mpr hrp⟩
    have := f.root_mem_chain fuel k0
    rw [(hkn k0 hk0).2] at this
    simpa using this

/-- a checkpoint of any child, however deep, goes to the root's directory as well -/
theorem C08_checkpoint_at_root (f : Forest) (depth : Nat → Nat) (hr : f.Ranked depth) (fuel c : Nat)
    (hc : depth c ≤ fuel) :
    f.parent (f.checkpointDir fuel c) = none ∧ f.checkpointDir fuel c ∈ f.chain fuel c :=
  ⟨f.root_parent_none depth hr fuel c hc, f.root_mem_chain fuel c⟩

/-! ## Non-vacuity -/

/-- a diamond `0 → {1, 2} → 3` with a side branch `0 → 4`; `1` on an executor, `2` raises -/
def exF : FinDag :=
  { n := 5, slots := [[], [[0]], [[0]], [[2, 1], [1]], [[0]]], down := [[2, 1, 4], [3], [3], [], []],
    starters := [0], onExec := [false, true, false, false, false], fails := [false, false, true, false, false],
    rank := [0, 1, 1, 2, 1] }

example : WF exF.toDag := (FinDag.check_sound exF (by decide)).1

/-- the failed run: `2` raises, `1` completes later, `4` runs, `3` never starts (its trigger keeps the
token of `1`: a stale `received` entry goes into the file) -/
def exActs : List Act := [.start, .deliver, .deliver, .deliver, .complete 1, .deliver, .exit]
theorem exSome : (runActs Cfg.repaired exF.toDag (init exF.toDag) exActs).isSome = true := by decide
def exS : S := (runActs Cfg.repaired exF.toDag (init exF.toDag) exActs).get exSome

example : (exS.phase, exS.errs, [0, 1, 2, 3, 4].map exS.st, exS.received 3)
    = (.exited, [2], [.done, .done, .failed, .idle, .done], [1]) := by decide
example : Cut Cfg.repaired exF.toDag exS := ⟨exActs, (Option.some_get exSome).symm⟩
example : CacheOK RCfg.now exS :=
  ⟨Or.inr (C06.C06_nobody_running_exited (FinDag.check_sound exF (by decide)).1
      ⟨exActs, (Option.some_get exSome).symm⟩ (by decide)).2, Or.inl rfl⟩

/-- the resumed run (code as it is now): `0`, `1`, `4` answer from cache, `2` runs, and `3` fires on the
arrival of `2`'s token alone — BEFORE the token of the re-run `1` is delivered — because `1`'s token of the
first run is still in its trigger; the late token is then left over in `received 3` -/
def exRActs : List Act := [.start, .deliver, .deliver, .deliver, .deliver, .deliver, .exit]
theorem exRSome : (rrunActs Cfg.repaired exF.toDag (resumeFrom RCfg.now exF.toDag exS) exRActs).isSome = true := by
  decide
def exRS : RS := (rrunActs Cfg.repaired exF.toDag (resumeFrom RCfg.now exF.toDag exS) exRActs).get exRSome

example : (exRS.s.phase, exRS.s.execLog, [0, 1, 2, 3, 4].map exRS.fcalls, exRS.s.received 3, exRS.s.errs)
    = (.exited, [0, 2, 1, 4, 3], [0, 0, 1, 1, 0], [1], []) := by decide
example : exRS.s.out 3 = .app 3 [.app 2 [.app 0 []], .app 1 [.app 0 []]] := by decide
example : Resumed RCfg.now Cfg.repaired exF.toDag exS exRS := ⟨exRActs, (Option.some_get exRSome).symm⟩

/-- a checkpoint cut with a child in flight: `4` has just finished, `1` is out on its executor, `2` has failed -/
def ckActs : List Act := [.start, .deliver, .deliver]
theorem ckSome0 : (runActs Cfg.repaired exF.toDag (init exF.toDag) ckActs).isSome = true := by decide
def ckS0 : S := (runActs Cfg.repaired exF.toDag (init exF.toDag) ckActs).get ckSome0
theorem ckSome : (step Cfg.repaired exF.toDag ckS0 .deliver).isSome = true := by decide
def ckS : S := (step Cfg.repaired exF.toDag ckS0 .deliver).get ckSome

example : CheckpointCut Cfg.repaired exF.toDag 4 ckS :=
  ⟨ckActs, ckS0, .deliver, (Option.some_get ckSome0).symm, (Option.some_get ckSome).symm, by decide, by decide⟩
example : ([0, 1, 2, 3, 4].map ckS.st, ckS.running) = ([.done, .out, .failed, .idle, .done], [1]) := by decide

/-- the ownership tree `w ⊃ {a, m ⊃ {x, n ⊃ {y}}}` (ids w=0 a=1 m=2 x=3 n=4 y=5); `y` and `a` raise -/
def exForest : Forest :=
  { parent := fun i => match i with | 1 => some 0 | 2 => some 0 | 3 => some 2 | 4 => some 2 | 5 => some 4 | _ => none,
    recovery := fun _ => true }

example : exForest.recoveryFiles 3 [0, 1, 2, 3, 4, 5] [5, 1] = [0] := by decide
example : [0, 1, 2, 3, 4, 5].filter (exForest.failedNodes 3 [5, 1]) = [0, 1, 2, 4, 5] := by decide
example : exForest.checkpointDir 3 5 = 0 := by decide

end PwVerif.C08

#print axioms PwVerif.C08.C08_resume_equations
#print axioms PwVerif.C08.C08_resume_same_end
#print axioms PwVerif.C08.C08_no_recall
#print axioms PwVerif.C08.C08_rest_runs_once
#print axioms PwVerif.C08.C08_resume_no_error
#print axioms PwVerif.C08.C08_resume_order
#print axioms PwVerif.C08.C08_resume_progress
#print axioms PwVerif.C08.C08_resume_repaired
#print axioms PwVerif.C08.C08_resume_now_partial
#print axioms PwVerif.C08.C08_recovery_now
#print axioms PwVerif.C08.C08_checkpoint_repaired
#print axioms PwVerif.C08.C08_inflight_cache_witness
#print axioms PwVerif.C08.C08_inflight_cache_detail
#print axioms PwVerif.C08.C08_original_stale_cache_witness
#print axioms PwVerif.C08.C08_recovery_root_only
#print axioms PwVerif.C08.C08_checkpoint_at_root
