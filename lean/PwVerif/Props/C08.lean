import PwVerif.Proofs.Recovery
import PwVerif.Proofs.ExecFin
import PwVerif.Proofs.Storage
import PwVerif.Proofs.RecoveryNest
import PwVerif.Proofs.RecoveryFlow
import PwVerif.Props.C01
import PwVerif.Props.C06
/-!
# C08 — A failed run can be restored from its recovery file and resumed to the same end

"When a run of a workflow fails, a recovery file holding the graph as it stood at the failure is
written for the outermost graph and only there. Loading it, removing the cause and clearing the
failure flags, then running again yields exactly the outputs an uninterrupted run would have produced,
without calling again the functions of nodes that had already completed. The same holds for a graph
restored from a checkpoint that a node wrote when it finished, as if the process had died right after
that save."

Quantification: every wired DAG `d` (`WF d`, acyclic by a ranking), every fault set `d.fails`, every
executor assignment, every schedule of the first run and EVERY state `s` that run can reach (`Cut`):
the end of a failed run (recovery file) as well as the moment right after any child finished
(checkpoint; siblings may be in flight on executors) — i.e. every point at which the run may be cut;
then every schedule of the resumed run (`Resumed`).  A composite level with macro children is an
instance: a macro child is a node whose function is its sub-graph (DESIGN §5/C09), it fails iff a node
inside fails, a reloaded composite never keeps its own cache (`__setstate__` re-adopts the children,
which resets it), so it is re-run and the theorems apply to its own level with the file's part for
that level; the ownership tree itself is the subject of `C08_recovery_root_only`.

"Removing the cause" = the failing function works again and, possibly, unconnected inputs of some
nodes get new values (`Fix.dirty`; such a node computes with the fresh symbol `Fix.sym`, and `A` is any
set containing those nodes and everything downstream of them).

`RCfg.now` = `RCfg.repaired` is /repo as it is; `RCfg.mid` is /repo when this check was first built (fixes
0699958 and bc0a763 applied, not yet 3c6698c / 60885c9 / C07's repairs), `RCfg.stale` is the tree before bc0a763 (all-of triggers keep what an
interrupted run had collected), `RCfg.original` the tree as first pinned.
-/
namespace PwVerif.C08
open PwVerif PwVerif.Exec PwVerif.Recovery

/-- a cut: any state the first run can reach -/
def Cut (cfg : Cfg) (d : Dag) (s : S) : Prop := ∃ acts, runActs cfg d (init d) acts = some s

/-- file written at the cut, loaded, flags cleared, cause removed, run again: any state of that run -/
def ResumedC (rc : RCfg) (T : Nat → Bool) (fx : Fix) (cfg : Cfg) (d : Dag) (s : S) (rs : RS) : Prop :=
  ∃ acts, rrunActs fx cfg d (resumeFromC rc T d s) acts = some rs

/-- … for a level whose children are all function nodes (`T i`: child `i` is itself a composite) -/
def Resumed (rc : RCfg) (fx : Fix) (cfg : Cfg) (d : Dag) (s : S) (rs : RS) : Prop :=
  ResumedC rc (fun _ => false) fx cfg d s rs

/-- the side conditions under which the restored graph can be trusted -/
structure Sound (rc : RCfg) (fx : Fix) (d : Dag) (s : S) (A : Nat → Bool) : Prop where
  cache    : CacheOK rc s
  triggers : TriggersOK rc fx
  affected : Affected fx d A
  tight    : (∀ i, fx.dirty i = false) → ∀ i, A i = false

theorem resumed_inv {rc fx cfg d s rs A T} (wf : WF d) (hc : Cut cfg d s) (hs : Sound rc fx d s A)
    (hr : ResumedC rc T fx cfg d s rs) :
    SnapOK fx d (startReceived rc s) (kept s A) ∧
    RInv fx d (startReceived rc s) (kept s A) (doneAt s) T rs := by
  obtain ⟨acts, ha⟩ := hc
  obtain ⟨racts, hra⟩ := hr
  have hinv := runActs_inv cfg d wf acts _ _ (init_inv cfg d wf) ha
  have hargs := runActs_argsInv cfg d acts _ _ (init_argsInv d) ha
  have hok := snapOK_of_cut (rc := rc) hinv.core hs.affected hs.triggers hs.tight
  exact ⟨hok, rrunActs_inv cfg hok wf racts _ _
    (resume_inv rc fx A T wf hinv hargs hs.cache hs.affected hs.triggers hs.tight) hra⟩

/-! ## (b) the resumed run ends where an uninterrupted run ends -/

/-- when the resumed run has returned, every child has run and holds the value of the plain
composition: its function (with its own inputs as they are after the fix) applied to the first
connection of every input -/
theorem C08_resume_equations {rc fx cfg d s rs A T} (wf : WF d) (rank : Nat → Nat)
    (hrank : ∀ i j, j ∈ d.deps i → rank j < rank i) (hc : Cut cfg d s) (hs : Sound rc fx d s A)
    (hr : ResumedC rc T fx cfg d s rs) (hex : rs.s.phase = .exited) (i : Nat) (hm : d.member i) :
    rs.s.st i = .done ∧ rs.s.out i = .app (fx.sym i) (headArgs d rs.s.out i) := by
  obtain ⟨hok, hinv⟩ := resumed_inv wf hc hs hr
  have hd := rexit_all_done wf rs hinv rank hrank hex i hm
  exact ⟨hd, rgood_value hok rs hinv i (Or.inl hd)⟩

/-- the value equations have one solution (C01_value_unique, for the symbols after the fix) -/
theorem value_unique_sym (sym : Nat → Nat) (d : Dag) (wf : WF d) (rank : Nat → Nat)
    (hrank : ∀ i j, j ∈ d.deps i → rank j < rank i) (o o' : Nat → Val)
    (ho : ∀ i, d.member i → o i = .app (sym i) (headArgs d o i))
    (ho' : ∀ i, d.member i → o' i = .app (sym i) (headArgs d o' i)) :
    ∀ i, d.member i → o i = o' i := by
  have key : ∀ n i, rank i < n → d.member i → o i = o' i := by
    intro n
    induction n with
    | zero => intro i hi; omega
    | succ n ih =>
      intro i hi hm
      rw [ho i hm, ho' i hm]
      congr 1
      unfold headArgs
      apply List.map_congr_left
      intro cs hcs
      cases cs with
      | nil => rfl
      | cons c cs' =>
        have hc : c ∈ d.deps i := mem_deps_of_slot d i _ c hcs (by simp)
        apply ih c (by have := hrank i c hc; omega)
        by_cases hd : d.deps c = []
        · exact Or.inl (wf.rootsStart i c hc hd)
        · exact Or.inr hd
  intro i
  exact key (rank i + 1) i (by omega)

/-- no input changed: the outputs are exactly those of ANY uninterrupted run (`Exec`, C01) of the same
graph — executor assignment, signal orders and schedule may all differ -/
theorem C08_resume_same_end {rc cfg cfg0 d d0 s rs c} (wf : WF d) (wf0 : WF d0) (rank : Nat → Nat)
    (hrank : ∀ i j, j ∈ d.deps i → rank j < rank i)
    (hsl : d0.slots = d.slots) (hst : ∀ i, i ∈ d0.starters ↔ i ∈ d.starters)
    (hnf : C01.NoFaults d0) (hclean : C01.Reach cfg0 d0 c) (hcex : c.phase = .exited)
    (hc : Cut cfg d s) (hs : Sound rc Fix.none d s (fun _ => false))
    (hr : Resumed rc Fix.none cfg d s rs) (hex : rs.s.phase = .exited) :
    ∀ i, d.member i → rs.s.out i = c.out i := by
  have hdeps : ∀ i, d0.deps i = d.deps i := by intro i; simp [Dag.deps, hsl]
  have hmem : ∀ i, d.member i → d0.member i := by
    intro i hm
    rcases hm with hm | hm
    · exact Or.inl ((hst i).mpr hm)
    · exact Or.inr (by rw [hdeps]; exact hm)
  have hhead : ∀ o i, headArgs d0 o i = headArgs d o i := by intro o i; simp [headArgs, hsl]
  have hrank0 : ∀ i j, j ∈ d0.deps i → rank j < rank i := by
    intro i j hj; rw [hdeps] at hj; exact hrank i j hj
  apply C01.C01_value_unique d wf rank hrank
  · intro i hm
    have := (C08_resume_equations wf rank hrank hc hs hr hex i hm).2
    simpa [Fix.sym, Fix.none] using this
  · intro i hm
    rw [← hhead]
    exact C01.C01_value wf0 rank hrank0 hnf hclean hcex i (hmem i hm)

/-- inputs changed: the outputs are exactly those of a run of the same graph, with the same new
inputs, that starts from nothing (`init`: nothing completed, nothing cached) -/
theorem C08_resume_same_end_changed {rc rc0 fx cfg cfg0 d s rs c A A0} (wf : WF d) (rank : Nat → Nat)
    (hrank : ∀ i j, j ∈ d.deps i → rank j < rank i)
    (hs0 : Sound rc0 fx d (init d) A0) (hfresh : Resumed rc0 fx cfg0 d (init d) c) (hcex : c.s.phase = .exited)
    (hc : Cut cfg d s) (hs : Sound rc fx d s A) (hr : Resumed rc fx cfg d s rs) (hex : rs.s.phase = .exited) :
    ∀ i, d.member i → rs.s.out i = c.s.out i := by
  apply value_unique_sym fx.sym d wf rank hrank
  · intro i hm; exact (C08_resume_equations wf rank hrank hc hs hr hex i hm).2
  · intro i hm; exact (C08_resume_equations wf rank hrank ⟨[], rfl⟩ hs0 hfresh hcex i hm).2

/-! ## (c) completed nodes are not executed again, the others are — exactly once -/

/-- at every moment of the resumed run: the function of a node that had completed before the cut
(whose inputs are not touched by the fix; a function node, not a composite) has not been called -/
theorem C08_no_recall {rc fx cfg d s rs A T} (wf : WF d) (hc : Cut cfg d s) (hs : Sound rc fx d s A)
    (hr : ResumedC rc T fx cfg d s rs) (i : Nat) (hi : s.st i = .done) (ha : A i = false)
    (ht : T i = false) : rs.fcalls i = 0 :=
  (resumed_inv wf hc hs hr).2.book.fcG i (by simp [kept, doneAt, hi, ha]) ht

/-- no function is ever called twice, and when the resumed run has returned every node that had NOT
completed before the cut (the failed node, everything downstream of it, whatever was in flight) and
every node that got new inputs has been executed exactly once; a child that is a composite is always
run again (its own children are protected by this very theorem one level down) -/
theorem C08_rest_runs_once {rc fx cfg d s rs A T} (wf : WF d) (rank : Nat → Nat)
    (hrank : ∀ i j, j ∈ d.deps i → rank j < rank i) (hc : Cut cfg d s) (hs : Sound rc fx d s A)
    (hr : ResumedC rc T fx cfg d s rs) :
    (∀ i, rs.fcalls i ≤ 1) ∧
    (rs.s.phase = .exited → ∀ i, d.member i → (s.st i ≠ .done ∨ fx.dirty i = true ∨ T i = true) →
      rs.fcalls i = 1) := by
  obtain ⟨_, hinv⟩ := resumed_inv wf hc hs hr
  refine ⟨hinv.book.fcLe, ?_⟩
  intro hex i hm hi
  have hd := rexit_all_done wf rs hinv rank hrank hex i hm
  rcases hi with hi | hi | hi
  · exact hinv.book.fcN i (by simp [doneAt, hi]) (by simp [hd])
  · exact hinv.book.fcD i hi (by simp [hd])
  · exact hinv.book.fcT i hi (by simp [hd])

/-- the resumed run never raises, nothing fails, and (when it has returned) nothing is left running -/
theorem C08_resume_no_error {rc fx cfg d s rs A T} (wf : WF d) (hc : Cut cfg d s) (hs : Sound rc fx d s A)
    (hr : ResumedC rc T fx cfg d s rs) :
    rs.s.errs = [] ∧ rs.s.phase ≠ .aborted ∧ (∀ i, rs.s.st i ≠ .failed) ∧
    (rs.s.phase = .exited → rs.s.running = [] ∧ rs.s.queue = []) := by
  obtain ⟨_, hinv⟩ := resumed_inv wf hc hs hr
  refine ⟨hinv.core.noErr, hinv.notAborted, hinv.core.noFail, ?_⟩
  intro hex
  obtain ⟨hq, hrun, _⟩ := hinv.phase.exited hex
  exact ⟨hrun, hq⟩

/-- a node of the resumed run starts only when every node it takes data from holds its final output:
produced in this run, or kept from before the cut and untouched by the fix -/
theorem C08_resume_order {rc fx cfg d s rs A T} (wf : WF d) (hc : Cut cfg d s) (hs : Sound rc fx d s A)
    (hr : ResumedC rc T fx cfg d s rs) (i j : Nat) (hi : rs.s.st i ≠ .idle) (hj : j ∈ d.deps i) :
    rs.s.st j = .done ∨ (s.st j = .done ∧ A j = false) := by
  rcases (resumed_inv wf hc hs hr).2.core.avail i j hi hj with h | h
  · exact Or.inl h
  · right; simpa [kept, doneAt] using h

/-- until it has returned the resumed run can always take a step -/
theorem C08_resume_progress {rc fx cfg d s rs A T} (wf : WF d) (hc : Cut cfg d s) (hs : Sound rc fx d s A)
    (hr : ResumedC rc T fx cfg d s rs) (r : List Nat) (hph : rs.s.phase = .run r) :
    ∃ a rs', rstep fx cfg d rs a = some rs' :=
  rprogress cfg rs (resumed_inv wf hc hs hr).2 r hph

/-! ## the full statement per configuration -/

/-- the statement of the property for one composite level -/
def ResumeStatement (rc : RCfg) (cfg : Cfg) : Prop :=
  ∀ (d : Dag) (s : S) (fx : Fix) (A : Nat → Bool) (rs : RS) (rank : Nat → Nat),
    WF d → (∀ i j, j ∈ d.deps i → rank j < rank i) → Affected fx d A →
    ((∀ i, fx.dirty i = false) → ∀ i, A i = false) →
    Cut cfg d s → Resumed rc fx cfg d s rs → rs.s.phase = .exited →
    (∀ i, d.member i → rs.s.out i = .app (fx.sym i) (headArgs d rs.s.out i)) ∧
    (∀ i, s.st i = .done → A i = false → rs.fcalls i = 0)

theorem statement_of_sound {rc cfg}
    (h : ∀ (d : Dag) (s : S) (fx : Fix) (A : Nat → Bool), Cut cfg d s → Affected fx d A →
      ((∀ i, fx.dirty i = false) → ∀ i, A i = false) → Sound rc fx d s A) :
    ResumeStatement rc cfg := by
  intro d s fx A rs rank wf hrank hA hA0 hc hr hex
  have hs := h d s fx A hc hA hA0
  exact ⟨fun i hm => (C08_resume_equations wf rank hrank hc hs hr hex i hm).2,
    fun i hi ha => C08_no_recall wf hc hs hr i hi ha rfl⟩

/-- REPAIRED code: every cut — recovery file or checkpoint, whatever is in flight — and every fix -/
theorem C08_resume_repaired (cfg : Cfg) : ResumeStatement RCfg.repaired cfg :=
  statement_of_sound (fun _ _ _ _ _ hA hA0 => ⟨⟨Or.inl rfl, Or.inl rfl⟩, Or.inl rfl, hA, hA0⟩)

/-- the code at `RCfg.mid`, partial: every cut at which no child is in flight on an executor -/
theorem C08_resume_mid_partial {fx cfg d s rs A} (wf : WF d) (rank : Nat → Nat)
    (hrank : ∀ i j, j ∈ d.deps i → rank j < rank i) (hA : Affected fx d A)
    (hA0 : (∀ i, fx.dirty i = false) → ∀ i, A i = false) (hc : Cut cfg d s)
    (hquiet : ∀ i, s.st i ≠ .out) (hr : Resumed RCfg.mid fx cfg d s rs) (hex : rs.s.phase = .exited) :
    (∀ i, d.member i → rs.s.out i = .app (fx.sym i) (headArgs d rs.s.out i)) ∧
    (∀ i, s.st i = .done → A i = false → rs.fcalls i = 0) := by
  have hs : Sound RCfg.mid fx d s A := ⟨⟨Or.inr hquiet, Or.inl rfl⟩, Or.inl rfl, hA, hA0⟩
  exact ⟨fun i hm => (C08_resume_equations wf rank hrank hc hs hr hex i hm).2,
    fun i hi ha => C08_no_recall wf hc hs hr i hi ha rfl⟩

/-- the code at `RCfg.mid`: the RECOVERY file (written when the failed run has returned) always
resumes to the same end — by C06 nothing is in flight when the loop has exited -/
theorem C08_recovery_mid {fx cfg d s rs A} (wf : WF d) (rank : Nat → Nat)
    (hrank : ∀ i j, j ∈ d.deps i → rank j < rank i) (hA : Affected fx d A)
    (hA0 : (∀ i, fx.dirty i = false) → ∀ i, A i = false) (hc : Cut cfg d s) (hend : s.phase = .exited)
    (hr : Resumed RCfg.mid fx cfg d s rs) (hex : rs.s.phase = .exited) :
    (∀ i, d.member i → rs.s.out i = .app (fx.sym i) (headArgs d rs.s.out i)) ∧
    (∀ i, s.st i = .done → A i = false → rs.fcalls i = 0) :=
  C08_resume_mid_partial wf rank hrank hA hA0 hc (C06.C06_nobody_running_exited wf hc hend).2 hr hex

/-- the code BEFORE fix bc0a763 (triggers keep the tokens of the interrupted run), partial: nothing
in flight and no input changed — then the early firings it allows are harmless -/
theorem C08_resume_stale_partial {cfg d s rs} (wf : WF d) (rank : Nat → Nat)
    (hrank : ∀ i j, j ∈ d.deps i → rank j < rank i) (hc : Cut cfg d s)
    (hquiet : ∀ i, s.st i ≠ .out) (hr : Resumed RCfg.stale Fix.none cfg d s rs) (hex : rs.s.phase = .exited) :
    (∀ i, d.member i → rs.s.out i = .app i (headArgs d rs.s.out i)) ∧
    (∀ i, s.st i = .done → rs.fcalls i = 0) := by
  have hs : Sound RCfg.stale Fix.none d s (fun _ => false) :=
    ⟨⟨Or.inr hquiet, Or.inl rfl⟩, Or.inr (fun _ => rfl), ⟨fun i h => by simp [Fix.none] at h, fun _ _ _ h => h⟩,
     fun _ _ => rfl⟩
  refine ⟨fun i hm => ?_, fun i hi => C08_no_recall wf hc hs hr i hi rfl rfl⟩
  have := (C08_resume_equations wf rank hrank hc hs hr hex i hm).2
  simpa [Fix.sym, Fix.none] using this

/-- the code as it is NOW: the full statement, every cut and every fix -/
theorem C08_resume_now (cfg : Cfg) : ResumeStatement RCfg.now cfg := C08_resume_repaired cfg

/-- NOW (a restored composite keeps its cache): a child that is itself a composite, had completed
before the cut and has no new input values anywhere inside or upstream is NOT run again either — so
nothing inside it is; before fix 60dc3d1 (`keepCompositeCache = false`) every composite child is run
again (`C08_rest_runs_once`) and only its function-node descendants are spared -/
theorem C08_no_recall_composite {rc fx cfg d s rs A isComp innerChanged} (wf : WF d) (hc : Cut cfg d s)
    (hs : Sound rc fx d s A) (hk : rc.keepCompositeCache = true)
    (hr : ResumedC rc (rerunSet rc isComp innerChanged) fx cfg d s rs)
    (i : Nat) (hi : s.st i = .done) (ha : A i = false) (hin : innerChanged i = false) : rs.fcalls i = 0 :=
  C08_no_recall wf hc hs hr i hi ha (by simp [rerunSet, hk, hin])

/-- before 60dc3d1: at exit every composite child has been run again -/
theorem C08_composite_rerun_before {rc fx cfg d s rs A isComp innerChanged} (wf : WF d) (rank : Nat → Nat)
    (hrank : ∀ i j, j ∈ d.deps i → rank j < rank i) (hc : Cut cfg d s)
    (hs : Sound rc fx d s A) (hk : rc.keepCompositeCache = false)
    (hr : ResumedC rc (rerunSet rc isComp innerChanged) fx cfg d s rs) (hex : rs.s.phase = .exited)
    (i : Nat) (hm : d.member i) (hcomp : isComp i = true) : rs.fcalls i = 1 :=
  (C08_rest_runs_once wf rank hrank hc hs hr).2 hex i hm (Or.inr (Or.inr (by simp [rerunSet, hk, hcomp])))

/-- clearing only the failure flags is the whole procedure for the file of a run that failed and has
returned: nothing is left running then (C06), so the graph it gives is the one `resumeFromC` starts from -/
theorem C08_clear_failed_suffices {cfg d s} (rc : RCfg) (T : Nat → Bool) (wf : WF d) (hc : Cut cfg d s)
    (hend : s.phase = .exited) : resumeFromFailed rc T d s = resumeFromC rc T d s := by
  have hq := (C06.C06_nobody_running_exited wf hc hend).2
  have : (snapshot rc s).clearFailed = (snapshot rc s).clearFlags := by
    simp only [Snap.clearFailed, Snap.clearFlags, snapshot]
    congr 1
    funext i
    have := hq i
    cases h : s.st i <;> simp_all
  simp [resumeFromFailed, resumeFromC, this]

/-! ## (d) checkpoints -/

/-- the cut "child `c` has just finished (and saved the graph); nothing later survives" -/
def CheckpointCut (cfg : Cfg) (d : Dag) (c : Nat) (s : S) : Prop :=
  ∃ acts s0 a, runActs cfg d (init d) acts = some s0 ∧ step cfg d s0 a = some s ∧
    s0.st c ≠ .done ∧ s.st c = .done

theorem CheckpointCut.cut {cfg d c s} (h : CheckpointCut cfg d c s) : Cut cfg d s := by
  obtain ⟨acts, s0, a, h0, h1, _, _⟩ := h
  refine ⟨acts ++ [a], ?_⟩
  have : ∀ (l : List Act) (t : S), runActs cfg d t l = some s0 → runActs cfg d t (l ++ [a]) = some s := by
    intro l
    induction l with
    | nil => intro t ht; simp [runActs] at ht; subst ht; simp [runActs, h1]
    | cons x xs ih =>
      intro t ht
      simp only [runActs, List.cons_append] at ht ⊢
      split at ht
      · rename_i t1 ht1; exact ih t1 ht
      · simp at ht
  exact this acts _ h0

/-- REPAIRED code: a graph restored from the checkpoint of ANY child, with anything in flight,
resumes to the same end, re-executing nothing that had completed (`c` itself included) -/
theorem C08_checkpoint_repaired {cfg d c s rs} (wf : WF d) (rank : Nat → Nat)
    (hrank : ∀ i j, j ∈ d.deps i → rank j < rank i) (hc : CheckpointCut cfg d c s)
    (hr : Resumed RCfg.repaired Fix.none cfg d s rs) (hex : rs.s.phase = .exited) :
    (∀ i, d.member i → rs.s.out i = .app i (headArgs d rs.s.out i)) ∧
    (∀ i, s.st i = .done → rs.fcalls i = 0) ∧ rs.fcalls c = 0 := by
  have hA : Affected Fix.none d (fun _ => false) := ⟨fun i h => by simp [Fix.none] at h, fun _ _ _ h => h⟩
  obtain ⟨h1, h2⟩ := C08_resume_repaired cfg d s Fix.none (fun _ => false) rs rank wf hrank hA (fun _ _ => rfl)
    hc.cut hr hex
  obtain ⟨_, _, _, _, _, _, hcd⟩ := hc
  refine ⟨fun i hm => ?_, fun i hi => h2 i hi rfl, h2 c hcd rfl⟩
  simpa [Fix.sym, Fix.none] using h1 i hm

/-- the code at `RCfg.mid`, partial: the checkpoint of a child written while no sibling is in flight -/
theorem C08_checkpoint_mid_partial {cfg d c s rs} (wf : WF d) (rank : Nat → Nat)
    (hrank : ∀ i j, j ∈ d.deps i → rank j < rank i) (hc : CheckpointCut cfg d c s)
    (hquiet : ∀ i, s.st i ≠ .out)
    (hr : Resumed RCfg.mid Fix.none cfg d s rs) (hex : rs.s.phase = .exited) :
    (∀ i, d.member i → rs.s.out i = .app i (headArgs d rs.s.out i)) ∧
    (∀ i, s.st i = .done → rs.fcalls i = 0) ∧ rs.fcalls c = 0 := by
  have hA : Affected Fix.none d (fun _ => false) := ⟨fun i h => by simp [Fix.none] at h, fun _ _ _ h => h⟩
  obtain ⟨h1, h2⟩ := C08_resume_mid_partial wf rank hrank hA (fun _ _ => rfl) hc.cut hquiet hr hex
  obtain ⟨_, _, _, _, _, _, hcd⟩ := hc
  refine ⟨fun i hm => ?_, fun i hi => h2 i hi rfl, h2 c hcd rfl⟩
  simpa [Fix.sym, Fix.none] using h1 i hm

/-! ## nesting: macros in macros, executors and cuts at ANY depth (over C06's `ExecNest`)

The first run is the nested machine `ExecNest.nrun` (every composite runs `Exec.step` on its own level;
executor children of any level complete whenever the schedule says); a cut is ANY tree it can reach from a
fresh one — so also the moment after a checkpoint save deep inside, with children of several levels in
flight and the composites above in the middle of their loops.  The resumed run is `RecoveryNest.rnrun`. -/
section nested
open PwVerif.ExecNest PwVerif.RecoveryNest
variable {E : Type}

/-- a cut of the nested first run -/
def NCut (cfg0 : Cfg) (t : Tree E) : Prop :=
  ∃ t0 acts, NWF t0 ∧ Fresh t0 ∧ nrun cfg0 t0 acts = some t

/-- any state of the nested resumed run -/
def NResumed (rc : RCfg) (cfg : Cfg) (t : Tree E) (rt : RTree) : Prop :=
  ∃ acts, rnrun cfg (resumeTree rc t) acts = some rt

theorem nested_inv {cfg0 cfg : Cfg} {rc : RCfg} {t : Tree E} {rt : RTree} (hcut : NCut cfg0 t) (hc : Clean rc)
    (hr : NResumed rc cfg t rt) : NWF t ∧ NInv cfg0 t ∧ RNInv rc t rt := by
  obtain ⟨t0, acts, wf0, hf, hrun⟩ := hcut
  obtain ⟨racts, hrr⟩ := hr
  obtain ⟨hinv, wf⟩ := nrun_inv cfg0 acts t0 t wf0 (fresh_ninv cfg0 t0 wf0 hf) hrun
  have hargs := nrun_nargs cfg0 acts t0 t (fresh_nargs t0 hf) hrun
  exact ⟨wf, hinv, rnrun_inv cfg0 cfg rc t racts _ _ wf hinv (resume_rninv cfg0 rc hc t wf hinv hargs) hrr⟩

/-- the level at path `p` of the cut and of the resumed run, side by side, with its invariant -/
theorem nested_level {cfg0 cfg : Cfg} {rc : RCfg} {t : Tree E} {rt : RTree} (hcut : NCut cfg0 t) (hc : Clean rc)
    (hr : NResumed rc cfg t rt) (p : List Nat) (d : Dag) (exc : Nat → E) (s : S) (kids : Nat → Tree E)
    (hp : t.sub p = .comp d exc s kids) :
    ∃ rs rk, rt.sub p = .comp (effDag d kids) rs rk ∧ WF (effDag d kids) ∧ Inv cfg0 (effDag d kids) s ∧
      RInv Fix.none (effDag d kids) (startReceived rc s) (kept s (fun _ => false)) (doneAt s) (rerunOf rc kids) rs := by
  obtain ⟨wf, hinv, hrn⟩ := nested_inv hcut hc hr
  have h1 := rninv_sub rc t rt p hrn
  have h2 := ninv_sub cfg0 t p hinv
  have h3 := nwf_sub t p wf
  rw [hp] at h1 h2 h3
  cases hrt : rt.sub p with
  | leaf => rw [hrt] at h1; exact absurd h1 (by simp [RNInv])
  | comp d' rs rk =>
    rw [hrt] at h1
    obtain ⟨hd, hR, _⟩ := h1
    subst hd
    exact ⟨rs, rk, rfl, wf_eff kids h3.1, h2.1, hR⟩

/-- at every moment of the nested resumed run, at every depth: a child that had completed before the cut
and can answer from its cache has not been run — a function node always can; a composite child can on the
code as it is (`keepCompositeCache`), and then NOTHING inside it runs -/
theorem C08_nested_no_recall {cfg0 cfg : Cfg} {rc : RCfg} {t : Tree E} {rt : RTree} (hcut : NCut cfg0 t)
    (hc : Clean rc) (hr : NResumed rc cfg t rt) (p : List Nat) (d : Dag) (exc : Nat → E) (s : S)
    (kids : Nat → Tree E) (hp : t.sub p = .comp d exc s kids) (i : Nat) (hi : s.st i = .done)
    (hk : rerunOf rc kids i = false) :
    ∃ rs rk, rt.sub p = .comp (effDag d kids) rs rk ∧ rs.fcalls i = 0 := by
  obtain ⟨rs, rk, hrt, _, _, hR⟩ := nested_level hcut hc hr p d exc s kids hp
  exact ⟨rs, rk, hrt, hR.book.fcG i (by simp [kept, doneAt, hi]) hk⟩

/-- … in particular every function node, wherever it sits -/
theorem C08_nested_leaf_no_recall {cfg0 cfg : Cfg} {rc : RCfg} {t : Tree E} {rt : RTree} (hcut : NCut cfg0 t)
    (hc : Clean rc) (hr : NResumed rc cfg t rt) (p : List Nat) (d : Dag) (exc : Nat → E) (s : S)
    (kids : Nat → Tree E) (hp : t.sub p = .comp d exc s kids) (i : Nat) (hi : s.st i = .done)
    (hl : kids i = .leaf) :
    ∃ rs rk, rt.sub p = .comp (effDag d kids) rs rk ∧ rs.fcalls i = 0 :=
  C08_nested_no_recall hcut hc hr p d exc s kids hp i hi (by simp [rerunOf, rerunSet, isComp, hl])

/-- every level whose loop has ended holds, at every child, the value of the plain composition of that
level; every child is done, none was run twice, the ones that had not completed were run exactly once -/
theorem C08_nested_same_end {cfg0 cfg : Cfg} {rc : RCfg} {t : Tree E} {rt : RTree} (hcut : NCut cfg0 t)
    (hc : Clean rc) (hr : NResumed rc cfg t rt) (p : List Nat) (d : Dag) (exc : Nat → E) (s : S)
    (kids : Nat → Tree E) (hp : t.sub p = .comp d exc s kids) (rank : Nat → Nat)
    (hrank : ∀ i j, j ∈ d.deps i → rank j < rank i) :
    ∃ rs rk, rt.sub p = .comp (effDag d kids) rs rk ∧ rs.s.errs = [] ∧ rs.s.phase ≠ .aborted ∧
      (∀ i, rs.fcalls i ≤ 1) ∧
      (rs.s.phase = .exited → ∀ i, (effDag d kids).member i →
        rs.s.st i = .done ∧ rs.s.out i = .app i (headArgs (effDag d kids) rs.s.out i) ∧
        (s.st i ≠ .done → rs.fcalls i = 1)) := by
  obtain ⟨rs, rk, hrt, hwf, hI, hR⟩ := nested_level hcut hc hr p d exc s kids hp
  refine ⟨rs, rk, hrt, hR.core.noErr, hR.notAborted, hR.book.fcLe, ?_⟩
  intro hex i hm
  have hd := rexit_all_done hwf rs hR rank (fun i j hj => hrank i j hj) hex i hm
  have hok := snapOK_of_cut (rc := rc) (fx := Fix.none) (A := fun _ => false) hI.core (RecoveryNest.affected_none _)
    (Or.inr (fun _ => rfl)) (fun _ _ => rfl)
  refine ⟨hd, ?_, fun hnd => hR.book.fcN i (by simp [doneAt, hnd]) (by simp [hd])⟩
  have := rgood_value hok rs hR i (Or.inl hd)
  simpa [Fix.sym, Fix.none] using this

end nested

/-! ## hand-wired flows (any signal graph: any-of and all-of triggers, `If` branches, cycles — C02's model)

A hand-made flow that failed, was restored and had its failure flags cleared and its cause removed is
`Signal.compositeRun` from the loaded store with the children's semantics `Signal.runNode` (cache included). -/

/-- the resumed run, which answers from the cache wherever it can, IS the run that executes every function
again — same outputs, failures, signals, queue, execution order, whatever the shape of the signal graph —
provided the entries of the loaded store belong to the outputs next to them and functions agree on inputs
that compare equal (C05's proviso) -/
theorem C08_flow_resume_transparent (nodes : Nat → Signal.Node) (hnf : ∀ i, (nodes i).failAt = [])
    (hext : RecoveryFlow.EqExt nodes) (g : Signal.Graph) (fuel : Nat) (st : Signal.Store)
    (received : Nat → List Signal.Label) (hcv : RecoveryFlow.CacheValid nodes st) :
    let a := Signal.compositeRun (Signal.nodeSem nodes) g fuel (Signal.S.init st received)
    let b := Signal.compositeRun (Signal.nodeSem (RecoveryFlow.uncached nodes)) g fuel (Signal.S.init st received)
    a.store.out = b.store.out ∧ a.store.failed = b.store.failed ∧ a.store.execLog = b.store.execLog ∧
    a.store.doneLog = b.store.doneLog ∧ a.queue = b.queue ∧ a.errs = b.errs ∧ a.fired = b.fired ∧
    RecoveryFlow.CacheValid nodes a.store := by
  have h := RecoveryFlow.flow_resume_transparent nodes hnf hext g fuel st received hcv
  exact ⟨h.store.1.out, h.store.1.failed, h.store.1.execLog, h.store.1.doneLog, h.queue, h.errs, h.fired, h.store.2⟩

/-- a child whose cache entry equals what it fetches is not executed and keeps its outputs -/
theorem C08_flow_hit_no_call (nodes : Nat → Signal.Node) (st : Signal.Store) (i : Nat) (c : List Signal.Val)
    (hu : (nodes i).useCache = true) (hf : st.failed i = false)
    (hd : (Signal.fetchArgs nodes st.out i).any Signal.Val.isNd = false)
    (hc : st.cached i = some c) (hb : Signal.Val.beqL c (Signal.fetchArgs nodes st.out i) = true) :
    (Signal.runNode nodes st i).1.callLog = st.callLog ∧ (Signal.runNode nodes st i).1.out = st.out :=
  RecoveryFlow.hit_no_call nodes st i c hu hf hd hc hb

/-- non-vacuity: a cycle of two `If` nodes signalling each other, nothing cached yet -/
def flowIf : Nat → Signal.Node := fun _ => { kind := .ifk, slots := [{ own := .bool true, conns := [] }], useCache := true, failAt := [] }
def flowG : Signal.Graph :=
  { conns := fun s => if s == Signal.sigTrue 0 then [{ node := 1, acc := false }]
                       else if s == Signal.sigTrue 1 then [{ node := 0, acc := false }] else [],
    accConns := fun _ => [], lab := id, starters := [0], sigs := [] }
example : RecoveryFlow.EqExt flowIf := RecoveryFlow.eqExt_if flowIf (fun _ => rfl)
example : RecoveryFlow.CacheValid flowIf Signal.Store.init := by intro i c h; simp [Signal.Store.init] at h
example : ((Signal.compositeRun (Signal.nodeSem flowIf) flowG 6 (Signal.S.init Signal.Store.init (fun _ => []))).store.callLog.map (·.1),
           (Signal.compositeRun (Signal.nodeSem flowIf) flowG 6 (Signal.S.init Signal.Store.init (fun _ => []))).fired)
    = ([0, 1], [0, 1, 0, 1, 0, 1, 0]) := by decide +kernel

/-! ## the file after a HISTORY of cuts (several checkpoints in one run; a failure, a resume, a second failure)

Every cut is saved to the same name; whether plain `pickle` can serialise the graph may change from one
save to the next (`Content.ok` lands as `.pckl`, `Content.pickleFails` — e.g. a node output that is a
closure — as `.cpckl`), and `_load` prefers `.pckl`.  The file-system model is C19's (`Model/Storage.lean`). -/

/-- the saves of cuts `1, 2, …` in order, each with its own picklability -/
def savesFS (cfg : Storage.Cfg) (cls : Storage.Cls) : Storage.FS → Nat → List Storage.Content → Storage.FS
  | fs, _, [] => fs
  | fs, v, c :: cs => savesFS cfg cls (Storage.saveFS cfg fs c cls v) (v + 1) cs

/-- whatever was saved before, in whatever form: what `Node.load` reads after the save of cut `v` is cut `v` -/
theorem C08_file_holds_last_cut (cfg : Storage.Cfg) (cls : Storage.Cls) (fs : Storage.FS) (v0 : Nat)
    (earlier : List Storage.Content) (c : Storage.Content) (hc : c.fails = false) :
    Storage.storageLoad (savesFS cfg cls fs v0 (earlier ++ [c])) = .ok cls (v0 + earlier.length) := by
  induction earlier generalizing fs v0 with
  | nil => simpa [savesFS] using Storage.save_last_wins cfg fs c cls v0 hc
  | cons e es ih =>
    simp only [List.cons_append, savesFS, List.length_cons]
    rw [ih]; congr 1; omega

/-- the history of the seeded change C08-2 on the code as it is: cut 1 plain-picklable, cut 2 only by
cloudpickle — the second recovery file is what loads, and no `.pckl` is left to shadow it -/
example : let fs := savesFS Storage.Cfg.current Storage.Cls.graph Storage.FS.init 1 [.ok, .pickleFails]
    Storage.storageLoad fs = .ok Storage.Cls.graph 2 ∧ fs.pckl = .absent := by decide +kernel

/-! ### a resumed run that fails again (`rstepF`), and the resume from the SECOND recovery file -/

def rrunActsF (fails : Nat → Bool) (fx : Fix) (cfg : Cfg) (d : Dag) (rs : RS) : List Act → Option RS
  | [] => some rs
  | a :: as => match rstepF fails fx cfg d rs a with
    | some rs' => rrunActsF fails fx cfg d rs' as
    | none => none

/-- with no failing function a run of `rstepF` is a run of the machine the theorems above are about -/
theorem C08_refail_conservative (fx : Fix) (cfg : Cfg) (d : Dag) (rs : RS) (acts : List Act) :
    rrunActsF (fun _ => false) fx cfg d rs acts = rrunActs fx cfg d rs acts := by
  induction acts generalizing rs with
  | nil => rfl
  | cons a as ih =>
    simp only [rrunActsF, rrunActs, rstepF_nofail]
    cases h : rstep fx cfg d rs a with
    | none => rfl
    | some r => exact ih r

/-! ### machine-checked counterexamples (all replayed on the real code by harness/pwh/c08.py) -/

theorem affected_all (fx : Fix) (d : Dag) : Affected fx d (fun _ => true) := ⟨fun _ _ => rfl, fun _ _ _ _ => rfl⟩
theorem affected_none (d : Dag) : Affected Fix.none d (fun _ => false) :=
  ⟨fun i h => by simp [Fix.none] at h, fun _ _ _ h => h⟩

/-- roots `0` (on an executor) and `1` (local, checkpointing), `2` takes data from both -/
def wFlight : FinDag :=
  { n := 3, slots := [[], [], [[1], [0]]], down := [[2], [2]], starters := [0, 1],
    onExec := [true, false, false], fails := [], rank := [0, 0, 1] }

/-- first run: `0` submitted, `1` runs to the end and writes the checkpoint — cut here -/
def actsFlight : List Act := [.start, .start]
theorem someFlight : (runActs Cfg.repaired wFlight.toDag (init wFlight.toDag) actsFlight).isSome = true := by
  decide +kernel
def sFlight : S := (runActs Cfg.repaired wFlight.toDag (init wFlight.toDag) actsFlight).get someFlight
theorem cutFlight : Cut Cfg.repaired wFlight.toDag sFlight := ⟨actsFlight, (Option.some_get someFlight).symm⟩

/-- resumed run: `0` and `1` both answer from cache, `2` runs, exit -/
def ractsFlight : List Act := [.start, .start, .deliver, .deliver, .exit]
theorem someRFlight : (rrunActs Fix.none Cfg.repaired wFlight.toDag (resumeFrom RCfg.mid wFlight.toDag sFlight)
    ractsFlight).isSome = true := by
  decide +kernel
def rsFlight : RS := (rrunActs Fix.none Cfg.repaired wFlight.toDag (resumeFrom RCfg.mid wFlight.toDag sFlight)
    ractsFlight).get someRFlight

/-- what goes wrong in that run -/
theorem C08_inflight_cache_detail :
    rsFlight.s.phase = .exited ∧ rsFlight.s.errs = [] ∧ rsFlight.fcalls 0 = 0 ∧ rsFlight.s.out 0 = .nd ∧
    rsFlight.s.out 2 = .app 2 [.app 1 [], .d] := by
  decide +kernel

/-- `RCfg.mid`: a checkpoint written while a sibling is in flight cannot be resumed: the in-flight node's
`_cached_inputs` are in the file, it takes a cache hit, is never executed, its output stays NOT_DATA
and the node downstream silently runs on its default -/
theorem C08_inflight_cache_witness : ¬ ResumeStatement RCfg.mid Cfg.repaired := by
  intro hS
  obtain ⟨hwf, hrk⟩ := FinDag.check_sound wFlight (by decide +kernel)
  have := (hS wFlight.toDag sFlight Fix.none (fun _ => false) rsFlight wFlight.rankF hwf hrk
    (affected_none _) (fun _ _ => rfl) cutFlight
    ⟨ractsFlight, (Option.some_get someRFlight).symm⟩ C08_inflight_cache_detail.1).1 0 (Or.inl (by decide))
  rw [C08_inflight_cache_detail.2.2.2.1] at this
  cases this

/-! ## restarting a checkpoint with the `running` flags kept (`_serialize_result`: results come from disk) -/

theorem runActs_append (cfg : Cfg) (d : Dag) (l1 l2 : List Act) : ∀ (s s1 : S),
    runActs cfg d s l1 = some s1 → runActs cfg d s (l1 ++ l2) = runActs cfg d s1 l2 := by
  induction l1 with
  | nil => intro s s1 h; simp [runActs] at h; subst h; rfl
  | cons a as ih =>
    intro s s1 h
    simp only [runActs, List.cons_append] at h ⊢
    cases hs : step cfg d s a with
    | none => simp [hs] at h
    | some t => simp only [hs] at h ⊢; exact ih t s1 h

/-- REPAIRED: for a cut in the drain phase (every starting node started) the restart is the first run going
on — the state it reaches is a state of that run, so everything C01/C06 prove about it holds -/
theorem C08_continue_reachable {cfg d s s'} {order : List Nat} (hc : Cut cfg d s) (hph : s.phase = .run [])
    (h : continueFrom CCfg.repaired cfg d order s = some s') : Cut cfg d s' := by
  obtain ⟨acts, ha⟩ := hc
  have hs : ({ s with queue := s.queue, phase := .run [] } : S) = s := by
    cases s; simp_all
  simp only [continueFrom, CCfg.repaired, if_true, hs] at h
  exact ⟨acts ++ (order.filter (fun i => s.running.contains i)).map Act.complete,
    by rw [runActs_append cfg d _ _ _ s ha]; exact h⟩

/-- … hence it ends where an uninterrupted run ends, every function called exactly once over both processes -/
theorem C08_continue_same_end {cfg d s s' s''} {order : List Nat} (wf : WF d) (rank : Nat → Nat)
    (hrank : ∀ i j, j ∈ d.deps i → rank j < rank i) (hnf : C01.NoFaults d) (hc : Cut cfg d s)
    (hph : s.phase = .run []) (h : continueFrom CCfg.repaired cfg d order s = some s') (acts : List Act)
    (hr : runActs cfg d s' acts = some s'') (hex : s''.phase = .exited) (i : Nat) (hm : d.member i) :
    s''.calls i = 1 ∧ s''.st i = .done ∧ s''.out i = .app i (headArgs d s''.out i) := by
  obtain ⟨a0, h0⟩ := C08_continue_reachable hc hph h
  have hreach : C01.Reach cfg d s'' := ⟨a0 ++ acts, by rw [runActs_append cfg d _ _ _ s' h0]; exact hr⟩
  obtain ⟨h1, h2⟩ := C01.C01_once wf rank hrank hnf hreach hex i hm
  exact ⟨h1, h2, C01.C01_value wf rank hrank hnf hreach hex i hm⟩

/-- roots `0` (executor) and `1`, `2` takes data from both; cut: `0` out, `1` finished, its signal queued -/
def sQueued : S := sFlight

/-- NOW: the queued signal of `1` is dropped by the restart; `0`'s result is processed, `2` waits for `1`
for ever — the run RETURNS, `2` never executed, its output NOT_DATA -/
theorem C08_continue_queue_lost_witness :
    ((continueFrom CCfg.now Cfg.repaired wFlight.toDag [0, 1, 2] sQueued).bind
      (fun s => runActs Cfg.repaired wFlight.toDag s [.deliver, .exit])).map
      (fun s => (s.phase, s.st 2, s.out 2, s.errs)) = some (.exited, .idle, .nd, []) ∧
    ((continueFrom CCfg.repaired Cfg.repaired wFlight.toDag [0, 1, 2] sQueued).bind
      (fun s => runActs Cfg.repaired wFlight.toDag s [.deliver, .deliver, .exit])).map
      (fun s => (s.phase, s.st 2, s.out 2)) = some (.exited, .done, .app 2 [.app 1 [], .app 0 []]) := by
  decide +kernel

/-- two roots on executors, both out at the cut -/
def wTwo : FinDag :=
  { n := 3, slots := [[], [], [[1], [0]]], down := [[2], [2]], starters := [0, 1],
    onExec := [true, true, false], fails := [], rank := [0, 0, 1] }
theorem someTwo : (runActs Cfg.repaired wTwo.toDag (init wTwo.toDag) [.start, .start]).isSome = true := by decide +kernel
def sTwo : S := (runActs Cfg.repaired wTwo.toDag (init wTwo.toDag) [.start, .start]).get someTwo

/-- NOW: with two children out the restart processes the result of the first only (the loop runs over the
list it shrinks); the second stays marked running, no action of the loop will ever finish it: after the one
delivery that is left the composite can neither exit nor do anything else — it idles for ever -/
theorem C08_continue_skips_job_witness :
    ((continueFrom CCfg.now Cfg.repaired wTwo.toDag [0, 1, 2] sTwo).bind
      (fun s => runActs Cfg.repaired wTwo.toDag s [.deliver])).map
      (fun s => (s.running, s.queue, (step Cfg.repaired wTwo.toDag s .exit).isSome,
                 (step Cfg.repaired wTwo.toDag s .deliver).isSome, (step Cfg.repaired wTwo.toDag s .start).isSome))
      = some ([1], [], false, false, false) ∧
    ((continueFrom CCfg.repaired Cfg.repaired wTwo.toDag [0, 1, 2] sTwo).bind
      (fun s => runActs Cfg.repaired wTwo.toDag s [.deliver, .deliver, .exit])).map
      (fun s => (s.phase, s.running, s.st 2)) = some (.exited, [], .done) := by
  decide +kernel

/-- `0 → 2 ← 1`, `1` on an executor; `0` raises in the first run -/
def wStale : FinDag :=
  { n := 3, slots := [[], [], [[0], [1]]], down := [[2], [2]], starters := [0, 1],
    onExec := [false, true, false], fails := [true, false, false], rank := [0, 0, 1] }

/-- first run: `0` raises, `1` is submitted and completes, its token reaches `2`'s trigger, exit -/
def actsStale : List Act := [.start, .start, .complete 1, .deliver, .exit]
theorem someStale : (runActs Cfg.repaired wStale.toDag (init wStale.toDag) actsStale).isSome = true := by
  decide +kernel
def sStale : S := (runActs Cfg.repaired wStale.toDag (init wStale.toDag) actsStale).get someStale

/-- the fix: `0` works again and node `1` gets a new own input -/
def fxStale : Fix := { dirty := fun i => i == 1, off := 3 }

/-- resumed run: `0` runs, `1` (new input: no cache hit) is submitted again, `0`'s token completes
`2`'s trigger — which still holds `1`'s token of the FIRST run — so `2` runs now, on `1`'s OLD output;
then `1` completes -/
def ractsStale : List Act := [.start, .start, .deliver, .complete 1, .deliver, .exit]
theorem someRStale : (rrunActs fxStale Cfg.repaired wStale.toDag (resumeFrom RCfg.stale wStale.toDag sStale)
    ractsStale).isSome = true := by
  decide +kernel
def rsStale : RS := (rrunActs fxStale Cfg.repaired wStale.toDag (resumeFrom RCfg.stale wStale.toDag sStale)
    ractsStale).get someRStale

theorem C08_stale_trigger_detail :
    rsStale.s.phase = .exited ∧ rsStale.s.errs = [] ∧ rsStale.s.execLog = [0, 1, 2] ∧
    rsStale.s.doneLog = [0, 2, 1] ∧ rsStale.s.out 1 = .app 4 [] ∧
    rsStale.s.out 2 = .app 2 [.app 0 [], .app 1 []] := by
  decide +kernel

/-- BEFORE fix bc0a763: with a changed input the resumed run ends somewhere else — a trigger that kept
a token of the interrupted run fires before the re-executed upstream node has finished -/
theorem C08_stale_trigger_witness : ¬ ResumeStatement RCfg.stale Cfg.repaired := by
  intro hS
  obtain ⟨hwf, hrk⟩ := FinDag.check_sound wStale (by decide +kernel)
  have := (hS wStale.toDag sStale fxStale (fun _ => true) rsStale wStale.rankF hwf hrk
    (affected_all _ _) (fun h => by have := h 1; simp [fxStale] at this)
    ⟨actsStale, (Option.some_get someStale).symm⟩
    ⟨ractsStale, (Option.some_get someRStale).symm⟩ C08_stale_trigger_detail.1).1 2 (Or.inr (by decide))
  rw [C08_stale_trigger_detail.2.2.2.2.2] at this
  have h1 : headArgs wStale.toDag rsStale.s.out 2 = [rsStale.s.out 0, rsStale.s.out 1] := by
    simp [headArgs, FinDag.toDag, wStale]
  rw [h1, C08_stale_trigger_detail.2.2.2.2.1] at this
  simp at this

/-- the same cut and the same fix on the code as it is NOW: `2` waits for the re-executed `1` -/
theorem C08_stale_trigger_now :
    ((rrunActs fxStale Cfg.repaired wStale.toDag (resumeFrom RCfg.mid wStale.toDag sStale)
        [.start, .start, .deliver, .complete 1, .deliver, .exit]).map
      (fun r => (r.s.phase, r.s.execLog, r.s.out 2)))
    = some (.exited, [0, 1, 2], .app 2 [.app 0 [], .app 4 []]) := by
  decide +kernel

/-- `0 → 1`, `0` raises -/
def wFail : FinDag :=
  { n := 2, slots := [[], [[0]]], down := [[1], []], starters := [0], onExec := [false, false],
    fails := [true, false], rank := [0, 1] }
def actsFail : List Act := [.start, .exit]
theorem someFail : (runActs Cfg.repaired wFail.toDag (init wFail.toDag) actsFail).isSome = true := by decide +kernel
def sFail : S := (runActs Cfg.repaired wFail.toDag (init wFail.toDag) actsFail).get someFail
def ractsFail : List Act := [.start, .deliver, .exit]
theorem someRFail : (rrunActs Fix.none Cfg.repaired wFail.toDag (resumeFrom RCfg.original wFail.toDag sFail)
    ractsFail).isSome = true := by
  decide +kernel
def rsFail : RS := (rrunActs Fix.none Cfg.repaired wFail.toDag (resumeFrom RCfg.original wFail.toDag sFail)
    ractsFail).get someRFail

theorem C08_original_stale_cache_detail :
    rsFail.s.phase = .exited ∧ rsFail.fcalls 0 = 0 ∧ rsFail.s.out 0 = .nd ∧ rsFail.s.out 1 = .app 1 [.d] := by
  decide +kernel

/-- ORIGINALLY pinned (before fix 0699958): the failed node itself keeps the inputs it failed on in
its cache; after `failed = False` it takes a cache hit and is never executed again -/
theorem C08_original_stale_cache_witness : ¬ ResumeStatement RCfg.original Cfg.repaired := by
  intro hS
  obtain ⟨hwf, hrk⟩ := FinDag.check_sound wFail (by decide +kernel)
  have := (hS wFail.toDag sFail Fix.none (fun _ => false) rsFail wFail.rankF hwf hrk
    (affected_none _) (fun _ _ => rfl) ⟨actsFail, (Option.some_get someFail).symm⟩
    ⟨ractsFail, (Option.some_get someRFail).symm⟩ C08_original_stale_cache_detail.1).1 0 (Or.inl (by decide))
  rw [C08_original_stale_cache_detail.2.2.1] at this
  cases this

/-- `0 → {1, 2} → 3`, input `a` of `3` connected to `1` then to `2` (so `2` has priority) -/
def wOrder : FinDag :=
  { n := 4, slots := [[], [[0]], [[0]], [[2, 1], [1]]], down := [[2, 1], [3], [3], []],
    starters := [0], onExec := [], fails := [], rank := [0, 1, 1, 2] }

/-- `RCfg.mid`: a checkpoint written from inside a macro that is itself a value-linked child of an outer macro
cannot even be loaded — `Macro.__setstate__` re-sends the linked value to a child that is marked
`running` (here node `0` of `wFlight`, standing for the macro that was running when the node inside it
saved the graph), which the input lock refuses; with the links re-forged silently the load goes through -/
theorem C08_load_refused_witness :
    loadRefused RCfg.mid [0] (snapshot RCfg.mid sFlight) = true ∧
    loadRefused RCfg.repaired [0] (snapshot RCfg.repaired sFlight) = false := by
  decide +kernel

/-- `RCfg.mid`: `Node.load` brings every level below the root back with the fetch priority of multiply
connected inputs reversed (C07's subject: one unpickling reverses, the root is restored twice) — the
resumed run of such a level is a run of a DIFFERENT graph, outside the hypotheses of the theorems above -/
theorem C08_reload_reverses_witness :
    (reloadDag RCfg.mid false wOrder.toDag).slots 3 = [[1, 2], [1]] ∧
    (reloadDag RCfg.mid true wOrder.toDag).slots 3 = [[2, 1], [1]] ∧
    (reloadDag RCfg.repaired false wOrder.toDag).slots 3 = [[2, 1], [1]] := by
  decide +kernel

/-! ## (a) the recovery file is written once, by the root, and only there -/

/-- whatever set of leaves raises, wherever in the ownership tree: of all the nodes that end up
failed exactly one passes the guard of `_run_finally` — the parent-most one — so exactly one recovery
file exists and it is in the root's directory; no child, no macro in between writes one -/
theorem C08_recovery_root_only (f : Forest) (depth : Nat → Nat) (hr : f.Ranked depth) (fuel : Nat)
    (nodes ks : List Nat) (r : Nat) (hnd : nodes.Nodup) (hfuel : ∀ n ∈ nodes, depth n ≤ fuel)
    (hrn : r ∈ nodes) (hrec : f.recovery r = true)
    (hks : ks ≠ []) (hkn : ∀ k ∈ ks, k ∈ nodes ∧ f.root fuel k = r) :
    f.recoveryFiles fuel nodes ks = [r] ∧ f.parent r = none := by
  obtain ⟨k0, hk0⟩ := List.exists_mem_of_ne_nil _ hks
  have hrp : f.parent r = none := by
    have := f.root_parent_none depth hr fuel k0 (hfuel k0 (hkn k0 hk0).1)
    rwa [(hkn k0 hk0).2] at this
  refine ⟨?_, hrp⟩
  apply filter_eq_singleton nodes _ r hnd hrn
  intro n hn
  simp only [Forest.failedNodes, Forest.writesRecovery, Bool.and_eq_true, List.any_eq_true,
    List.contains_iff_mem, beq_iff_eq]
  constructor
  · rintro ⟨⟨k, hk, hnk⟩, _, hroot⟩
    have hpn := (f.root_eq_self_iff depth hr fuel n (hfuel n hn)).mp hroot
    have := f.chain_parentless fuel k n (by simpa using hnk) hpn
    rw [this]; exact (hkn k hk).2
  · intro e
    subst e
    refine ⟨⟨k0, hk0, ?_⟩, hrec, (f.root_eq_self_iff depth hr fuel n (hfuel n hn)).mpr hrp⟩
    have := f.root_mem_chain fuel k0
    rw [(hkn k0 hk0).2] at this
    simpa using this

/-- asked to raise (the default), the guard with the caller's flag is the guard above -/
theorem C08_recovery_files_raising (f : Forest) (fuel : Nat) (nodes ks : List Nat) :
    f.recoveryFilesR (fun _ => true) fuel nodes ks = f.recoveryFiles fuel nodes ks := by
  simp [Forest.recoveryFilesR, Forest.recoveryFiles]

/-- `run(raise_run_exceptions=False)` on the outermost graph: the run fails (flags as in C06) but NO recovery
file is written anywhere — the parent-most node is the only one that passes `graph_root is self`, and it
was asked not to raise -/
theorem C08_suppressed_no_file (f : Forest) (depth : Nat → Nat) (hr : f.Ranked depth) (fuel : Nat)
    (raises : Nat → Bool) (nodes ks : List Nat) (hfuel : ∀ n ∈ nodes, depth n ≤ fuel)
    (hsup : ∀ n, f.parent n = none → raises n = false) :
    f.recoveryFilesR raises fuel nodes ks = [] := by
  apply List.filter_eq_nil_iff.mpr
  intro n hn hp
  simp only [Forest.writesRecovery, Bool.and_eq_true, beq_iff_eq] at hp
  obtain ⟨_, hra, _, hroot⟩ := hp
  have := (f.root_eq_self_iff depth hr fuel n (hfuel n hn)).mp hroot
  rw [hsup n this] at hra
  cases hra

/-- the graph left by such a run is resumed in place (clear the failure flags, remove the cause, run
again): the full statement holds for it, for every cut and every fix, whatever a load would lose -/
theorem C08_resume_in_place (rc : RCfg) (cfg : Cfg)
    (h1 : rc.dropInFlight = true) (h2 : rc.cache.clearOnFail = true) (h3 : rc.resetReceived = true) :
    ResumeStatement rc.inPlace cfg :=
  statement_of_sound (fun _ _ _ _ _ hA hA0 =>
    ⟨⟨Or.inl (by simpa [RCfg.inPlace] using h1), Or.inl (by simpa [RCfg.inPlace] using h2)⟩,
     Or.inl (by simpa [RCfg.inPlace] using h3), hA, hA0⟩)

/-- whatever fails, whenever, whoever is running at that moment (inside a run of the outermost graph, a child run
or pulled by hand while its parent is idle, a node run while the graph is being assembled): every recovery file
is written by a parent-most node — nothing is ever written below the outermost graph -/
theorem C08_recovery_only_at_roots (f : Forest) (depth : Nat → Nat) (hr : f.Ranked depth) (fuel : Nat)
    (nodes : List Nat) (evs : List FailEv) (hfuel : ∀ n ∈ nodes, depth n ≤ fuel) :
    ∀ n ∈ f.recoveryFilesEv fuel nodes evs, f.parent n = none := by
  intro n hn
  simp only [Forest.recoveryFilesEv, List.mem_filter, Bool.and_eq_true, Forest.writesRecovery, beq_iff_eq] at hn
  obtain ⟨hmem, _, _, hroot⟩ := hn
  exact (f.root_eq_self_iff depth hr fuel n (hfuel n hmem)).mp hroot

/-- a child that raises while its parent is idle fails alone and writes nothing -/
theorem C08_idle_parent_no_file (f : Forest) (depth : Nat → Nat) (hr : f.Ranked depth) (fuel : Nat)
    (nodes : List Nat) (k p : Nat) (running : Nat → Bool) (hfuel : ∀ n ∈ nodes, depth n ≤ fuel)
    (hp : f.parent k = some p) (hidle : running p = false) :
    f.recoveryFilesEv fuel nodes [⟨k, running⟩] = [] := by
  apply List.filter_eq_nil_iff.mpr
  intro n hn hc
  simp only [List.any_cons, List.any_nil, Bool.or_false, Bool.and_eq_true, Forest.writesRecovery, beq_iff_eq] at hc
  obtain ⟨hch, _, hroot⟩ := hc
  have hpn := (f.root_eq_self_iff depth hr fuel n (hfuel n hn)).mp hroot
  have hnk : n = k := by
    cases fuel with
    | zero => simpa [Forest.chainR] using hch
    | succ fuel => simpa [Forest.chainR, hp, hidle] using hch
  subst hnk
  rw [hp] at hpn; cases hpn

/-- a checkpoint of any child, however deep, goes to the root's directory as well -/
theorem C08_checkpoint_at_root (f : Forest) (depth : Nat → Nat) (hr : f.Ranked depth) (fuel c : Nat)
    (hc : depth c ≤ fuel) :
    f.parent (f.checkpointDir fuel c) = none ∧ f.checkpointDir fuel c ∈ f.chain fuel c :=
  ⟨f.root_parent_none depth hr fuel c hc, f.root_mem_chain fuel c⟩

/-! ## Non-vacuity -/

/-- a diamond `0 → {1, 2} → 3` with a side branch `0 → 4`; `1` on an executor, `2` raises -/
def exF : FinDag :=
  { n := 5, slots := [[], [[0]], [[0]], [[2, 1], [1]], [[0]]], down := [[2, 1, 4], [3], [3], [], []],
    starters := [0], onExec := [false, true, false, false, false], fails := [false, false, true, false, false],
    rank := [0, 1, 1, 2, 1] }

theorem exWF : WF exF.toDag := (FinDag.check_sound exF (by decide +kernel)).1

/-- the failed run: `2` raises, `1` completes later, `4` runs, `3` never starts (its trigger keeps the
token of `1`: a stale `received` entry goes into the file) -/
def exActs : List Act := [.start, .deliver, .deliver, .deliver, .complete 1, .deliver, .exit]
theorem exSome : (runActs Cfg.repaired exF.toDag (init exF.toDag) exActs).isSome = true := by decide +kernel
def exS : S := (runActs Cfg.repaired exF.toDag (init exF.toDag) exActs).get exSome
theorem exCut : Cut Cfg.repaired exF.toDag exS := ⟨exActs, (Option.some_get exSome).symm⟩

example : (exS.phase, exS.errs, [0, 1, 2, 3, 4].map exS.st, exS.received 3)
    = (.exited, [2], [.done, .done, .failed, .idle, .done], [1]) := by decide +kernel

/-- the hypotheses of the theorems hold at this cut, for the code as it is now, with a changed input at `4` -/
def exFx : Fix := { dirty := fun i => i == 4, off := 5 }
def exA : Nat → Bool := fun i => i == 4
example : Sound RCfg.mid exFx exF.toDag exS exA := by
  refine ⟨⟨Or.inr (C06.C06_nobody_running_exited exWF exCut (by decide +kernel)).2, Or.inl rfl⟩, Or.inl rfl,
    ⟨fun i h => by simpa [exFx, exA] using h, ?_⟩, fun h => by have := h 4; simp [exFx] at this⟩
  intro i j hj hA
  have hj4 : j = 4 := by simpa [exA] using hA
  subst hj4
  have : i < 5 := by
    apply Classical.byContradiction
    intro hn
    have : exF.toDag.deps i = [] := by
      simp [Dag.deps, FinDag.toDag, exF, List.getD_eq_getElem?_getD, List.getElem?_eq_none (by simp; omega : [[], [[0]], [[0]], [[2, 1], [1]], [[0]]].length ≤ i)]
    rw [this] at hj; cases hj
  have hdec : ∀ i < 5, 4 ∈ exF.toDag.deps i → exA i = true := by decide +kernel
  exact hdec i this hj

/-- the resumed run on the code BEFORE bc0a763: `0`, `1`, `4` answer from cache, `2` runs, and `3` fires on
the arrival of `2`'s token alone — BEFORE the token of the re-run `1` is delivered — because `1`'s token of
the first run is still in its trigger; the late token is then left over in `received 3` (harmless here:
no input changed) -/
def exRActs : List Act := [.start, .deliver, .deliver, .deliver, .deliver, .deliver, .exit]
theorem exRSome : (rrunActs Fix.none Cfg.repaired exF.toDag (resumeFrom RCfg.stale exF.toDag exS) exRActs).isSome = true := by
  decide +kernel
def exRS : RS := (rrunActs Fix.none Cfg.repaired exF.toDag (resumeFrom RCfg.stale exF.toDag exS) exRActs).get exRSome

example : (exRS.s.phase, exRS.s.execLog, [0, 1, 2, 3, 4].map exRS.fcalls, exRS.s.received 3, exRS.s.errs)
    = (.exited, [0, 2, 1, 4, 3], [0, 0, 1, 1, 0], [1], []) := by decide +kernel
example : exRS.s.out 3 = .app 3 [.app 2 [.app 0 []], .app 1 [.app 0 []]] := by decide +kernel
example : Resumed RCfg.stale Fix.none Cfg.repaired exF.toDag exS exRS := ⟨exRActs, (Option.some_get exRSome).symm⟩

/-- the same on the code as it is now, with the changed input at `4`: `3` waits for both, `4` is executed again -/
example : ((rrunActs exFx Cfg.repaired exF.toDag (resumeFrom RCfg.mid exF.toDag exS)
      [.start, .deliver, .deliver, .deliver, .deliver, .deliver, .exit]).map
      (fun r => (r.s.phase, r.s.execLog, [0, 1, 2, 3, 4].map r.fcalls, r.s.out 4)))
    = some (.exited, [0, 2, 1, 4, 3], [0, 0, 1, 1, 1], .app 9 [.app 0 []]) := by decide +kernel

/-! ### nested non-vacuity: `w ⊃ {0 → m → 2}`, `m ⊃ {a (executor), b} → c`; the cut is the moment after `b`
finished inside `m` (a checkpoint written by `b`): `a` is in flight, `m` is in the middle of its loop -/
section nestedExample
open PwVerif.ExecNest PwVerif.RecoveryNest

def nInner : FinDag :=
  { n := 3, slots := [[], [], [[1], [0]]], down := [[2], [2]], starters := [0, 1],
    onExec := [true, false, false], fails := [], rank := [0, 0, 1] }
def nOuter : FinDag :=
  { n := 3, slots := [[], [[0]], [[1]]], down := [[1], [2], []], starters := [0],
    onExec := [], fails := [], rank := [0, 1, 2] }
def nTree : Tree Unit := mkComp nOuter.toDag (fun _ => ()) [(1, mkComp nInner.toDag (fun _ => ()) [])]

theorem nTree_ok : NWF nTree ∧ Fresh nTree := by
  have h1 := (FinDag.check_sound nInner (by decide +kernel)).1
  have h2 := (FinDag.check_sound nOuter (by decide +kernel)).1
  refine ⟨nwf_mkComp _ _ _ h2 ?_, fresh_mkComp _ _ _ ?_⟩
  · intro x hx
    simp at hx; subst hx
    exact nwf_mkComp _ _ _ h1 (by intro y hy; cases hy)
  · intro x hx
    simp at hx; subst hx
    exact fresh_mkComp _ _ _ (by intro y hy; cases hy)

/-- first run up to the cut -/
def nActs : List (List Nat × Act) := [([], .start), ([], .deliver), ([1], .start), ([1], .start)]
theorem nSome : (nrun Cfg.repaired nTree nActs).isSome = true := by decide +kernel
def nCutTree : Tree Unit := (nrun Cfg.repaired nTree nActs).get nSome

example : NCut Cfg.repaired nCutTree := ⟨nTree, nActs, nTree_ok.1, nTree_ok.2, (Option.some_get nSome).symm⟩

def stAt : Tree Unit → List Nat → Nat → Option St
  | t, p, i => match t.sub p with | .comp _ _ s _ => some (s.st i) | .leaf => none
def fcAt : RTree → List Nat → Nat → Option Nat
  | t, p, i => match t.sub p with | .comp _ rs _ => some (rs.fcalls i) | .leaf => none
def outAt : RTree → List Nat → Nat → Option Val
  | t, p, i => match t.sub p with | .comp _ rs _ => some (rs.s.out i) | .leaf => none
def phaseAt : RTree → List Nat → Option Phase
  | t, p => match t.sub p with | .comp _ rs _ => some rs.s.phase | .leaf => none

example : ([0, 1, 2].map (stAt nCutTree []), [0, 1, 2].map (stAt nCutTree [1]))
    = ([some .done, some .out, some .idle], [some .out, some .done, some .idle]) := by decide +kernel

/-- the nested resumed run: `0` answers from cache, `m` runs its loop again, inside it `b` answers from cache,
`a` (which was in flight) and `c` are executed, then `2` -/
def nRActs : List (List Nat × Act) :=
  [([], .start), ([], .deliver), ([1], .start), ([1], .start), ([1], .deliver), ([1], .complete 0), ([1], .deliver),
   ([1], .exit), ([], .complete 1), ([], .deliver), ([], .exit)]
theorem nRSome : (rnrun Cfg.repaired (resumeTree RCfg.now nCutTree) nRActs).isSome = true := by decide +kernel
def nRT : RTree := (rnrun Cfg.repaired (resumeTree RCfg.now nCutTree) nRActs).get nRSome

example : NResumed RCfg.now Cfg.repaired nCutTree nRT := ⟨nRActs, (Option.some_get nRSome).symm⟩
example : (phaseAt nRT [], phaseAt nRT [1], [0, 1, 2].map (fcAt nRT []), [0, 1, 2].map (fcAt nRT [1]))
    = (some .exited, some .exited, [some 0, some 1, some 1], [some 1, some 0, some 1]) := by decide +kernel
example : outAt nRT [1] 2 = some (.app 2 [.app 1 [], .app 0 []]) := by decide +kernel
example : Clean RCfg.now := ⟨rfl, rfl⟩

end nestedExample

/-- two failures in a row on `exF`: the run resumed from `exS` fails again at `3`; the file written then
(`RS.snapshot`) shows `0, 1, 2, 4` completed and `3` failed; the run resumed from THAT file calls `3` only
and ends where an uninterrupted run ends -/
def ex2Fails : Nat → Bool := fun i => i == 3
def ex2Acts : List Act := [.start, .deliver, .deliver, .deliver, .deliver, .deliver, .exit]
theorem ex2Some : (rrunActsF ex2Fails Fix.none Cfg.repaired exF.toDag (resumeFrom RCfg.now exF.toDag exS) ex2Acts).isSome = true := by
  decide +kernel
def ex2RS : RS := (rrunActsF ex2Fails Fix.none Cfg.repaired exF.toDag (resumeFrom RCfg.now exF.toDag exS) ex2Acts).get ex2Some

example : (ex2RS.s.phase, ex2RS.s.errs, [0, 1, 2, 3, 4].map ex2RS.s.st, [0, 1, 2, 3, 4].map ex2RS.fcalls)
    = (.exited, [3], [.done, .done, .done, .failed, .done], [0, 0, 1, 1, 0]) := by decide +kernel

example : ((rrunActs Fix.none Cfg.repaired exF.toDag
      (resumeInit RCfg.now (fun _ => false) exF.toDag ex2RS.snapshot.clearFlags)
      [.start, .deliver, .deliver, .deliver, .deliver, .deliver, .exit]).map
      (fun r => (r.s.phase, r.s.errs, [0, 1, 2, 3, 4].map r.fcalls, r.s.out 3)))
    = some (.exited, [], [0, 0, 0, 1, 0], .app 3 [.app 2 [.app 0 []], .app 1 [.app 0 []]]) := by decide +kernel

/-- a checkpoint cut with a child in flight: `4` has just finished, `1` is out on its executor, `2` has failed -/
def ckActs : List Act := [.start, .deliver, .deliver]
theorem ckSome0 : (runActs Cfg.repaired exF.toDag (init exF.toDag) ckActs).isSome = true := by decide +kernel
def ckS0 : S := (runActs Cfg.repaired exF.toDag (init exF.toDag) ckActs).get ckSome0
theorem ckSome : (step Cfg.repaired exF.toDag ckS0 .deliver).isSome = true := by decide +kernel
def ckS : S := (step Cfg.repaired exF.toDag ckS0 .deliver).get ckSome

example : CheckpointCut Cfg.repaired exF.toDag 4 ckS :=
  ⟨ckActs, ckS0, .deliver, (Option.some_get ckSome0).symm, (Option.some_get ckSome).symm, by decide +kernel,
   by decide +kernel⟩
example : ([0, 1, 2, 3, 4].map ckS.st, ckS.running) = ([.done, .out, .failed, .idle, .done], [1]) := by
  decide +kernel

/-- the ownership tree `w ⊃ {a, m ⊃ {x, n ⊃ {y}}}` (ids w=0 a=1 m=2 x=3 n=4 y=5); `y` and `a` raise -/
def exForest : Forest :=
  { parent := fun i => match i with | 1 => some 0 | 2 => some 0 | 3 => some 2 | 4 => some 2 | 5 => some 4 | _ => none,
    recovery := fun _ => true }

example : exForest.recoveryFiles 3 [0, 1, 2, 3, 4, 5] [5, 1] = [0] := by decide +kernel
example : [0, 1, 2, 3, 4, 5].filter (exForest.failedNodes 3 [5, 1]) = [0, 1, 2, 4, 5] := by decide +kernel
example : exForest.checkpointDir 3 5 = 0 := by decide +kernel

/-- the seeded variant `not parent_is_running`: the same event leaves a file in the child's directory -/
theorem C08_parent_idle_variant_witness :
    exForest.recoveryFilesPR 3 [0, 1, 2, 3, 4, 5] [⟨3, fun _ => false⟩] = [3] ∧
    exForest.recoveryFilesEv 3 [0, 1, 2, 3, 4, 5] [⟨3, fun _ => false⟩] = [] ∧
    -- … and a node run while its for-loop / macro is being assembled inside a run of the root (`5` raises, its parent `4`
    -- is not running yet, then `4` raises with `2` and `0` running): variant two files, the code one — the root's
    exForest.recoveryFilesPR 3 [0, 1, 2, 3, 4, 5] [⟨5, fun i => i == 0 || i == 2⟩, ⟨4, fun i => i == 0 || i == 2⟩] = [0, 5] ∧
    exForest.recoveryFilesEv 3 [0, 1, 2, 3, 4, 5] [⟨5, fun i => i == 0 || i == 2⟩, ⟨4, fun i => i == 0 || i == 2⟩] = [0] := by
  decide +kernel

example : exForest.recoveryFilesR (fun n => n != 0) 3 [0, 1, 2, 3, 4, 5] [5, 1] = [] := by decide +kernel

/-! ### the hit test on opaque data (last round)

The term model treats values opaquely and takes "the stored record of a kept node is recognised as equal to its
inputs" as a hypothesis (`Sound`: the kept nodes' caches are valid — the hypothesis of `C08_no_recall`).  What that
hypothesis rests on in python: `inputs == record` on dicts tries IDENTITY of each value first and only then asks
the value's own `==`, which for array-like data (numpy arrays, DataFrames) has no truth value — the comparison raises
and counts as a miss.  The record holds the very objects of the channels (and pickle's memo keeps that identity in
the file), so the question is never asked. -/

/-- one entry of the comparison: `(scalar, sameObject)` — does `==` on this kind of data give a yes/no answer, and
is the recorded object the object on the channel.  Contents are equal in any case (a completed, untouched node). -/
def valueHit (e : Bool × Bool) : Bool := e.2 || e.1

/-- the record is recognised iff every entry is -/
def recordHit (es : List (Bool × Bool)) : Bool := es.all valueHit

/-- **the hypothesis of `C08_no_recall`, made explicit**: a record that shares its objects with the channels is
recognised whatever kind of data flows along the edges -/
theorem C08_record_identity_hit (es : List (Bool × Bool)) (h : ∀ e ∈ es, e.2 = true) : recordHit es = true := by
  simp only [recordHit, List.all_eq_true]
  intro e he; simp [valueHit, h e he]

/-- for scalar data a copy is as good as the object itself -/
theorem C08_record_scalar_hit (es : List (Bool × Bool)) (h : ∀ e ∈ es, e.1 = true) : recordHit es = true := by
  simp only [recordHit, List.all_eq_true]
  intro e he; simp [valueHit, h e he]

/-- **witness for the copying variant** (seeded change C08-14, `_cache_snapshot` stores a deep copy): one array-like
input whose record is a copy is enough for a miss — the completed node is executed again on resume — while the same
record sharing its object, or scalar data copied, is a hit -/
theorem C08_record_copy_witness :
    recordHit [(true, false), (false, false)] = false ∧ recordHit [(true, false), (false, true)] = true ∧
    recordHit [(true, false), (true, false)] = true := by decide

/-! ### restoring value links (round 4)

The stored state of a macro already holds every input value at every depth; putting the macro-input → child-input
links back must not move any of them. -/

/-- **restoring a link never writes a value**: with the private assignment the restored graph holds, on every
channel at every depth, exactly the stored value — whatever links there are, in whatever order they are forged,
and whether or not the two ends of a link agree -/
theorem C08_restore_links_writes_nothing {α} (fuel : Nat) (ps : List (Nat × Nat)) (r : Recv) (v : Nat → α) :
    (restoreLinks false fuel ps r v).2 = v := by
  induction ps generalizing r v with
  | nil => rfl
  | cons p rest ih => obtain ⟨s, d⟩ := p; simp only [restoreLinks]; exact ih _ _

/-- both ways of restoring forge the same links -/
theorem C08_restore_links_same_links {α} (fuel : Nat) (ps : List (Nat × Nat)) (r : Recv) (v w : Nat → α) (b : Bool) :
    (restoreLinks b fuel ps r v).1 = (restoreLinks false fuel ps r w).1 := by
  induction ps generalizing r v w with
  | nil => rfl
  | cons p rest ih => obtain ⟨s, d⟩ := p; simp only [restoreLinks]; exact ih _ _ _

theorem assign_agree {α} (r : Recv) (v : Nat → α) (h : Agree r v) (fuel c : Nat) :
    assign r fuel c (v c) v = v := by
  have hu : ∀ c, updF v c (v c) = v := by
    intro c; funext x; by_cases hx : x = c <;> simp [updF, hx]
  induction fuel generalizing c with
  | zero => simp [assign, hu]
  | succ n ih =>
    simp only [assign]
    cases hr : r c with
    | none => simp [hu]
    | some d => simp only [hu]; rw [h c d hr]; exact ih d

/-- the setter variant is harmless only where nobody ever assigned a linked child input directly: if all links
(already forged and to be forged) connect equal values, it leaves the values alone as well -/
theorem C08_restore_links_setter_partial {α} (fuel : Nat) (ps : List (Nat × Nat)) (r : Recv) (v : Nat → α)
    (hr : Agree r v) (hp : ∀ p ∈ ps, v p.1 = v p.2) :
    (restoreLinks true fuel ps r v).2 = v := by
  induction ps generalizing r with
  | nil => rfl
  | cons p rest ih =>
    obtain ⟨s, d⟩ := p
    have hsd : v s = v d := hp (s, d) (by simp)
    have hr' : Agree (fun c => if c = s then some d else r c) v := by
      intro c e hce
      by_cases hc : c = s
      · simp [hc] at hce; subst hc; subst hce; exact hsd
      · simp [hc] at hce; exact hr c e hce
    simp only [restoreLinks, if_true]
    rw [hsd, assign_agree _ v hr' fuel d]
    exact ih _ hr' (fun p hp' => hp p (by simp [hp']))

/-- **witness for the setter variant** (seeded change C08-12): channels 0 (outer macro input) → 1 (inner macro
input) → 2 (input of a child two macros down); the arguments stay at 1, the child input was set directly to 5.
The inner macro's link is forged first (its own `__setstate__`), then the outer one: the value 1 is pushed onto the
inner macro's input and cascades onto the child — the restored graph is not the stored one.  The private assignment
leaves it as stored. -/
theorem C08_restore_links_setter_witness :
    let v : Nat → Nat := fun c => if c = 2 then 5 else 1
    let ps := [(1, 2), (0, 1)]
    ((restoreLinks true 3 ps (fun _ => none) v).2 2 = 1 ∧ v 2 = 5) ∧
    (restoreLinks false 3 ps (fun _ => none) v).2 2 = 5 ∧
    -- one level is enough
    (restoreLinks true 3 [(1, 2)] (fun _ => none) v).2 2 = 1 := by decide

end PwVerif.C08

#print axioms PwVerif.C08.C08_resume_equations
#print axioms PwVerif.C08.C08_resume_same_end
#print axioms PwVerif.C08.C08_resume_same_end_changed
#print axioms PwVerif.C08.C08_no_recall
#print axioms PwVerif.C08.C08_rest_runs_once
#print axioms PwVerif.C08.C08_resume_no_error
#print axioms PwVerif.C08.C08_resume_order
#print axioms PwVerif.C08.C08_resume_progress
#print axioms PwVerif.C08.C08_resume_repaired
#print axioms PwVerif.C08.C08_resume_now
#print axioms PwVerif.C08.C08_no_recall_composite
#print axioms PwVerif.C08.C08_composite_rerun_before
#print axioms PwVerif.C08.C08_clear_failed_suffices
#print axioms PwVerif.C08.C08_resume_mid_partial
#print axioms PwVerif.C08.C08_recovery_mid
#print axioms PwVerif.C08.C08_resume_stale_partial
#print axioms PwVerif.C08.C08_checkpoint_repaired
#print axioms PwVerif.C08.C08_checkpoint_mid_partial
#print axioms PwVerif.C08.C08_inflight_cache_witness
#print axioms PwVerif.C08.C08_inflight_cache_detail
#print axioms PwVerif.C08.C08_stale_trigger_witness
#print axioms PwVerif.C08.C08_stale_trigger_detail
#print axioms PwVerif.C08.C08_stale_trigger_now
#print axioms PwVerif.C08.C08_original_stale_cache_witness
#print axioms PwVerif.C08.C08_load_refused_witness
#print axioms PwVerif.C08.C08_reload_reverses_witness
#print axioms PwVerif.C08.C08_nested_no_recall
#print axioms PwVerif.C08.C08_nested_leaf_no_recall
#print axioms PwVerif.C08.C08_nested_same_end
#print axioms PwVerif.C08.C08_flow_resume_transparent
#print axioms PwVerif.C08.C08_flow_hit_no_call
#print axioms PwVerif.C08.C08_continue_reachable
#print axioms PwVerif.C08.C08_continue_same_end
#print axioms PwVerif.C08.C08_continue_queue_lost_witness
#print axioms PwVerif.C08.C08_continue_skips_job_witness
#print axioms PwVerif.C08.C08_file_holds_last_cut
#print axioms PwVerif.C08.C08_refail_conservative
#print axioms PwVerif.C08.C08_recovery_files_raising
#print axioms PwVerif.C08.C08_suppressed_no_file
#print axioms PwVerif.C08.C08_resume_in_place
#print axioms PwVerif.C08.C08_recovery_only_at_roots
#print axioms PwVerif.C08.C08_idle_parent_no_file
#print axioms PwVerif.C08.C08_parent_idle_variant_witness
#print axioms PwVerif.C08.C08_record_identity_hit
#print axioms PwVerif.C08.C08_record_scalar_hit
#print axioms PwVerif.C08.C08_record_copy_witness
#print axioms PwVerif.C08.C08_restore_links_writes_nothing
#print axioms PwVerif.C08.C08_restore_links_same_links
#print axioms PwVerif.C08.C08_restore_links_setter_partial
#print axioms PwVerif.C08.C08_restore_links_setter_witness
#print axioms PwVerif.C08.C08_recovery_root_only
#print axioms PwVerif.C08.C08_checkpoint_at_root
