import PwVerif.Proofs.Exec
import PwVerif.Proofs.ExecFin
import PwVerif.Proofs.ExecFine
import PwVerif.Proofs.ExecNest
/-!
# C01 — Automatic DAG execution is complete, ordered and correct under every schedule

"When a workflow or macro whose data connections form a directed acyclic graph is run, every child
node executes exactly once, never before all nodes it takes data from have finished, and the final
outputs equal what the same functions give when composed directly in plain Python. This holds
whichever of the children are handed to executors and in whatever order those executors complete
them, and the run always terminates with nothing left marked as running."

Quantification: every wired DAG `d` (`WF d`, acyclic by a ranking), every executor assignment
(`d.onExec`), every order of `ran` connections and starting nodes (`d.down`, `d.starters`), every
schedule = every list of enabled actions `start | deliver | complete k | exit` (`runActs`), for both
the pinned and the repaired error-handling configuration (`cfg`). No faults here (`NoFaults`); C06
treats faults. Granularity: in the first part a completion callback is one atomic action; the second
part (`C01_fine_*`) splits the callback of an executor-run child into its two bookkeeping calls on the
parent and lets the parent's loop test fall between them (`Model/ExecFine.lean`).
-/
namespace PwVerif.C01
open PwVerif PwVerif.Exec

def Reach (cfg : Cfg) (d : Dag) (s : S) : Prop := ∃ acts, runActs cfg d (init d) acts = some s

def NoFaults (d : Dag) : Prop := ∀ i, d.fails i = false

theorem reach_inv {cfg d s} (wf : WF d) (h : Reach cfg d s) : Inv cfg d s := by
  obtain ⟨acts, ha⟩ := h
  exact runActs_inv cfg d wf acts _ _ (init_inv cfg d wf) ha

/-- never before all nodes it takes data from have finished — at every moment of every schedule -/
theorem C01_order {cfg d s} (wf : WF d) (h : Reach cfg d s) (i j : Nat)
    (hi : s.st i ≠ .idle) (hj : j ∈ d.deps i) : s.st j = .done :=
  (reach_inv wf h).core.order i j hi hj

/-- never more than once — at every moment of every schedule -/
theorem C01_at_most_once {cfg d s} (wf : WF d) (h : Reach cfg d s) (i : Nat) : s.calls i ≤ 1 := by
  have := (reach_inv wf h).core.calls1 i
  split at this <;> omega

/-- exactly once, and done, for every child when the run has returned -/
theorem C01_once {cfg d s} (wf : WF d) (rank : Nat → Nat) (hrank : ∀ i j, j ∈ d.deps i → rank j < rank i)
    (hnf : NoFaults d) (h : Reach cfg d s) (hex : s.phase = .exited) (i : Nat) (hm : d.member i) :
    s.calls i = 1 ∧ s.st i = .done := by
  have hinv := reach_inv wf h
  have hd := exit_all_done cfg d wf s hinv rank hrank hex (no_faults_no_failed cfg d s hinv hnf) i hm
  have := hinv.core.calls1 i
  simp [hd] at this
  exact ⟨this, hd⟩

/-- the outputs satisfy the equations of plain composition: each child's output is its function
applied to the output of the FIRST (most recently made) connection of every input, or to the input's
own value where it has none -/
theorem C01_value {cfg d s} (wf : WF d) (rank : Nat → Nat) (hrank : ∀ i j, j ∈ d.deps i → rank j < rank i)
    (hnf : NoFaults d) (h : Reach cfg d s) (hex : s.phase = .exited) (i : Nat) (hm : d.member i) :
    s.out i = .app i (headArgs d s.out i) :=
  done_value cfg d s (reach_inv wf h) i (C01_once wf rank hrank hnf h hex i hm).2

/-- those equations have exactly one solution on an acyclic graph, so the outputs ARE the direct
composition (any evaluation order of the same functions yields the same terms) -/
theorem C01_value_unique (d : Dag) (wf : WF d) (rank : Nat → Nat)
    (hrank : ∀ i j, j ∈ d.deps i → rank j < rank i) (o o' : Nat → Val)
    (ho : ∀ i, d.member i → o i = .app i (headArgs d o i))
    (ho' : ∀ i, d.member i → o' i = .app i (headArgs d o' i)) :
    ∀ i, d.member i → o i = o' i := by
  have key : ∀ n i, rank i < n → d.member i → o i = o' i := by
    intro n
    induction n with
    | zero => intro i hi; omega
    | succ n ih =>
      intro i hi hm
      rw [ho i hm, ho' i hm]
      congr 1
      unfold headArgs
      apply List.map_congr_left
      intro cs hcs
      cases cs with
      | nil => rfl
      | cons c cs' =>
        have hc : c ∈ d.deps i := mem_deps_of_slot d i _ c hcs (by simp)
        apply ih c (by have := hrank i c hc; omega)
        by_cases hd : d.deps c = []
        · exact Or.inl (wf.rootsStart i c hc hd)
        · exact Or.inr hd
  intro i
  exact key (rank i + 1) i (by omega)

/-- nothing is left marked as running, nothing pending, and (without faults) no error was collected
and the run was never aborted -/
theorem C01_clean {cfg d s} (wf : WF d) (h : Reach cfg d s) (hex : s.phase = .exited) :
    s.running = [] ∧ s.queue = [] ∧ ∀ i, s.st i ≠ .out := by
  have hinv := reach_inv wf h
  obtain ⟨hq, hr, _⟩ := hinv.phase.exited hex
  refine ⟨hr, hq, ?_⟩
  intro i hi
  have := (hinv.core.running i).mpr hi
  rw [hr] at this; cases this

theorem C01_no_error {cfg d s} (wf : WF d) (hnf : NoFaults d) (h : Reach cfg d s) :
    s.errs = [] ∧ s.phase ≠ .aborted := by
  have hinv := reach_inv wf h
  have hnofail := no_faults_no_failed cfg d s hinv hnf
  constructor
  · cases he : s.errs with
    | nil => rfl
    | cons x xs => exact absurd (hinv.core.errsFailed x (by simp [he])) (hnofail x)
  · intro hab
    obtain ⟨acts, ha⟩ := h
    have hab0 : AbInv (init d) := by intro hp; simp [init] at hp
    obtain ⟨i, hi⟩ := runActs_abInv cfg d wf acts _ _ (init_inv cfg d wf) hab0 ha hab
    exact hnofail i hi

/-- until the run has ended some action is always enabled (no deadlock: a state with children out
and an empty queue enables exactly their completions — the executable face of the idle `sleep`) -/
theorem C01_progress {cfg d s} (wf : WF d) (h : Reach cfg d s) (r : List Nat) (hph : s.phase = .run r) :
    ∃ a s', step cfg d s a = some s' :=
  progress cfg d s (reach_inv wf h) r hph

/-- the run always terminates: along ANY schedule the number of actions (starts, deliveries,
completions, exit) is bounded by a number that depends on the graph only — every action strictly
decreases the potential `|queue| + Σ weight(node) + [still running]`. With `C01_progress` (something
is enabled until the end) every maximal schedule therefore ends in `exited`/`aborted`. -/
theorem C01_terminates {cfg d s} (wf : WF d) (nodes : List Nat) (hn : nodes.Nodup)
    (hcover : ∀ i, d.member i → i ∈ nodes) (acts : List Act)
    (hr : runActs cfg d (init d) acts = some s) :
    acts.length ≤ 1 + (nodes.map (fun i => 2 + (d.down i).length)).sum := by
  have hm0 : MemInv d (init d) := by intro i hi; simp [init] at hi
  have := runActs_bounded cfg d wf nodes hn hcover acts _ _ (init_inv cfg d wf) hm0 hr
  have h0 : potential d nodes (init d) = 1 + (nodes.map (fun i => 2 + (d.down i).length)).sum := by
    have hw : weight d (init d) = fun i => 2 + (d.down i).length := by
      funext i; simp [weight, init]
    simp only [potential, hw]
    simp [init]; omega
  omega

/-! ## Non-vacuity: a diamond with two executor children, completed in the "wrong" order -/
def exF : FinDag :=
  { n := 4, slots := [[], [[0]], [[0]], [[2, 1], [1]]], down := [[2, 1], [3], [3], []],
    starters := [0], onExec := [false, true, true, false], fails := [], rank := [0, 1, 1, 2] }

example : exF.check = true := by decide
example : WF exF.toDag := (FinDag.check_sound exF (by decide)).1

def exActs : List Act :=
  [.start, .deliver, .deliver, .complete 2, .deliver, .complete 1, .deliver, .exit]

example : (runActs Cfg.pinned exF.toDag (init exF.toDag) exActs).map (fun s => (s.phase, s.execLog, s.doneLog))
    = some (.exited, [0, 2, 1, 3], [0, 2, 1, 3]) := by decide

/-! ## The finer interleaving: a completion callback is two actions

`FReach fc cfg d f`: `f` is reachable by ANY list of fine actions `start | deliver | exit | cbFirst k |
cbSecond k`. `fc.emitFirst` is the order of the two calls `register_child_emitting` /
`register_child_finished` in `Node._run_finally` (repaired: emitting first). -/
open PwVerif.ExecFine

def FReach (fc : FCfg) (cfg : Cfg) (d : Dag) (f : F) : Prop :=
  ∃ acts, runF cfg fc d (initF d) acts = some f

/-- the statement "when the loop has been left, every child has executed exactly once, nothing is
half-way and nothing was fired outside the run" for a given order of the two calls -/
def FineOnceStatement (fc : FCfg) : Prop :=
  ∀ (cfg : Cfg) (d : Dag), WF d → (∃ rank : Nat → Nat, ∀ i j, j ∈ d.deps i → rank j < rank i) →
    NoFaults d → ∀ f, FReach fc cfg d f → f.core.phase = .exited →
      (∀ i, d.member i → f.core.calls i = 1 ∧ f.core.st i = .done) ∧ f.mid = [] ∧ f.late = []

/-- REFINEMENT: with the repaired order the core of every fine-reachable state is reachable in the
coarse model — all theorems above therefore hold at every moment of every fine schedule -/
theorem C01_fine_refines {cfg d f} (h : FReach FCfg.repaired cfg d f) : Reach cfg d f.core := by
  obtain ⟨acts, ha⟩ := h
  exact runF_sim cfg d acts (initF d) f (init d) [] rfl ha

theorem C01_fine_order {cfg d f} (wf : WF d) (h : FReach FCfg.repaired cfg d f) (i j : Nat)
    (hi : f.core.st i ≠ .idle) (hj : j ∈ d.deps i) : f.core.st j = .done :=
  C01_order wf (C01_fine_refines h) i j hi hj

theorem C01_fine_at_most_once {cfg d f} (wf : WF d) (h : FReach FCfg.repaired cfg d f) (i : Nat) :
    f.core.calls i ≤ 1 :=
  C01_at_most_once wf (C01_fine_refines h) i

/-- the full statement holds for the repaired order -/
theorem C01_fine_once : FineOnceStatement FCfg.repaired := by
  intro cfg d wf ⟨rank, hrank⟩ hnf f h hex
  refine ⟨fun i hm => C01_once wf rank hrank hnf (C01_fine_refines h) hex i hm, ?_, ?_⟩
  · obtain ⟨acts, ha⟩ := h
    exact runF_midInv cfg d acts (initF d) f (by intro hp; simp [initF, init] at hp) ha hex
  · obtain ⟨acts, ha⟩ := h
    exact runF_late cfg d acts (initF d) f ha

theorem C01_fine_value {cfg d f} (wf : WF d) (rank : Nat → Nat)
    (hrank : ∀ i j, j ∈ d.deps i → rank j < rank i) (hnf : NoFaults d)
    (h : FReach FCfg.repaired cfg d f) (hex : f.core.phase = .exited) (i : Nat) (hm : d.member i) :
    f.core.out i = .app i (headArgs d f.core.out i) :=
  C01_value wf rank hrank hnf (C01_fine_refines h) hex i hm

/-- nothing running, nothing queued, no callback half-way when the loop has been left -/
theorem C01_fine_clean {cfg d f} (wf : WF d) (h : FReach FCfg.repaired cfg d f)
    (hex : f.core.phase = .exited) :
    visRunning FCfg.repaired f = [] ∧ f.core.queue = [] ∧ ∀ i, f.core.st i ≠ .out := by
  obtain ⟨hr, hq, hout⟩ := C01_clean wf (C01_fine_refines h) hex
  obtain ⟨acts, ha⟩ := h
  have hm := runF_midInv cfg d acts (initF d) f (by intro hp; simp [initF, init] at hp) ha hex
  exact ⟨by simp [visRunning, FCfg.repaired, hr, hm], hq, hout⟩

theorem C01_fine_progress {cfg d f} (wf : WF d) (h : FReach FCfg.repaired cfg d f) (r : List Nat)
    (hph : f.core.phase = .run r) : ∃ a f', stepF cfg FCfg.repaired d f a = some f' :=
  progressF cfg d f (reach_inv wf (C01_fine_refines h)) r hph

/-- every fine schedule is finite: at most twice the coarse bound -/
theorem C01_fine_terminates {cfg d f} (wf : WF d) (nodes : List Nat) (hn : nodes.Nodup)
    (hcover : ∀ i, d.member i → i ∈ nodes) (acts : List ActF)
    (hr : runF cfg FCfg.repaired d (initF d) acts = some f) :
    acts.length ≤ 2 * (1 + (nodes.map (fun i => 2 + (d.down i).length)).sum) := by
  obtain ⟨acts', hr', hlen⟩ := runF_sim_len cfg d acts (initF d) f (init d) [] rfl hr
  have := C01_terminates wf nodes hn hcover acts' hr'
  simp [initF] at hlen
  omega

/-- with atomic callbacks either order IS the coarse model: the first part of this file is exactly
the fine model restricted to schedules in which nothing happens between the two calls -/
theorem C01_fine_atomic (cfg : Cfg) (fc : FCfg) (d : Dag) (acts : List Act) :
    runF cfg fc d (initF d) (expand acts)
      = (runActs cfg d (init d) acts).map fun s => { core := s, mid := [], late := [] } :=
  runF_expand cfg fc d acts (init d)

/-- PINNED ORDER, machine-checked counterexample: chain `0 → 1`, node 0 on an executor. Its callback
removes it from `running_children`; the parent's loop sees nothing running and nothing queued and
returns; node 1 has never run (`calls 1 = 0`); the `ran` of node 0 is fired late, outside the run. -/
def chainF : FinDag :=
  { n := 2, slots := [[], [[0]]], down := [[1], []], starters := [0], onExec := [true, false],
    fails := [], rank := [0, 1] }

theorem C01_fine_pinned_witness :
    (runF Cfg.repaired FCfg.pinned chainF.toDag (initF chainF.toDag)
        [.start, .cbFirst 0, .exit, .cbSecond 0]).map
      (fun f => (f.core.phase, f.core.calls 1, f.core.st 1, f.late)) = some (.exited, 0, .idle, [0]) := by
  decide

theorem C01_fine_pinned_not_once : ¬ FineOnceStatement FCfg.pinned := by
  intro h
  have hwf : WF chainF.toDag := (FinDag.check_sound chainF (by decide)).1
  have hreach : FReach FCfg.pinned Cfg.repaired chainF.toDag
      ((runF Cfg.repaired FCfg.pinned chainF.toDag (initF chainF.toDag)
        [.start, .cbFirst 0, .exit]).get (by decide)) :=
    ⟨[.start, .cbFirst 0, .exit], by simp⟩
  have := (h Cfg.repaired chainF.toDag hwf
    ⟨chainF.rankF, (FinDag.check_sound chainF (by decide)).2⟩
    (by intro i; simp [chainF, FinDag.toDag]) _ hreach (by decide)).1 1
    (Or.inr (by decide))
  revert this
  decide

/-- the same schedule under the repaired order is not even enabled: the loop cannot be left while
the callback is half-way -/
example : runF Cfg.repaired FCfg.repaired chainF.toDag (initF chainF.toDag)
    [.start, .cbFirst 0, .exit] = none := by decide

example : (runF Cfg.repaired FCfg.repaired chainF.toDag (initF chainF.toDag)
    [.start, .cbFirst 0, .deliver, .cbSecond 0, .exit]).map
      (fun f => (f.core.phase, f.core.calls 1, f.core.st 1, f.mid, f.late))
    = some (.exited, 1, .done, [], []) := by decide

/-! ## Re-runs: the composite is run again after a run that ended or failed

`Exec.restart resetReceived d s fails' onExec'` is the state in which the next run starts: outputs as
the previous run left them, statuses cleared, and the all-of triggers' `received` sets either dropped
(`true`: repaired `Composite._on_run`) or kept (`false`: pinned). -/

theorem wf_rerun {d : Dag} (wf : WF d) (s : S) (f e : Nat → Bool) : WF (rerunDag d s f e) :=
  ⟨wf.downSpec, wf.downNodup, wf.noSelf, wf.startNodup, wf.startRoots, wf.rootsStart⟩

/-- with the reset, a re-run IS a fresh run of the same wiring whose children start from the outputs
of the previous run — so every theorem of this file (and of C06) applies to it, with `d.out0` = those
outputs; by induction, to any number of consecutive runs -/
theorem C01_rerun_is_fresh (d : Dag) (s : S) (f e : Nat → Bool) :
    restart true d s f e = init (rerunDag d s f e) := rfl

/-- the property for run number two, three, …: whatever state `s` an earlier run ended in, a re-run
without faults executes every child exactly once, in dependency order, and recomputes every output
from the outputs of THIS run (`headArgs … t.out`), not from stale ones -/
theorem C01_rerun {cfg : Cfg} {d : Dag} (wf : WF d) (rank : Nat → Nat)
    (hrank : ∀ i j, j ∈ d.deps i → rank j < rank i) (s : S) (e : Nat → Bool) (acts : List Act) (t : S)
    (hr : runActs cfg (rerunDag d s (fun _ => false) e) (restart true d s (fun _ => false) e) acts = some t) :
    (∀ i j, t.st i ≠ .idle → j ∈ d.deps i → t.st j = .done) ∧
    (t.phase = .exited → ∀ i, d.member i →
      t.calls i = 1 ∧ t.st i = .done ∧ t.out i = .app i (headArgs d t.out i)) := by
  have hreach : Reach cfg (rerunDag d s (fun _ => false) e) t := ⟨acts, hr⟩
  have wf' := wf_rerun wf s (fun _ => false) e
  refine ⟨fun i j hi hj => C01_order wf' hreach i j hi hj, fun hex i hm => ?_⟩
  have hnf : NoFaults (rerunDag d s (fun _ => false) e) := fun _ => rfl
  have h1 := C01_once wf' rank hrank hnf hreach hex i hm
  exact ⟨h1.1, h1.2, C01_value wf' rank hrank hnf hreach hex i hm⟩

/-- PINNED (`received` kept): machine-checked counterexample. `0 → 2 ← 1`, node 1 on an executor.
Run one: node 0 raises, node 1 completes, trigger of 2 holds {1}. Failure cleared, cause removed; run
two: node 0 finishes, its signal completes the stale set and node 2 executes while node 1 is still
out — before its upstream has finished, on the output node 1 produced in run one. -/
def veeF : FinDag :=
  { n := 3, slots := [[], [], [[0], [1]]], down := [[2], [2], []], starters := [0, 1],
    onExec := [false, true, false], fails := [true, false, false], rank := [0, 0, 1] }

def veeRun1 : List Act := [.start, .start, .complete 1, .deliver, .exit]
def veeRun2 : List Act := [.start, .start, .deliver]

theorem C01_rerun_pinned_witness :
    ((runActs Cfg.repaired veeF.toDag (init veeF.toDag) veeRun1).bind fun s1 =>
      (runActs Cfg.repaired (rerunDag veeF.toDag s1 (fun _ => false) veeF.toDag.onExec)
        (restart false veeF.toDag s1 (fun _ => false) veeF.toDag.onExec) veeRun2).map
        fun t => (s1.received 2, t.st 2, t.st 1, t.calls 2)) = some ([1], .done, .out, 1) := by
  decide

/-- the same history with the reset: node 2 is still idle at that point -/
example :
    ((runActs Cfg.repaired veeF.toDag (init veeF.toDag) veeRun1).bind fun s1 =>
      (runActs Cfg.repaired (rerunDag veeF.toDag s1 (fun _ => false) veeF.toDag.onExec)
        (restart true veeF.toDag s1 (fun _ => false) veeF.toDag.onExec) veeRun2).map
        fun t => (t.st 2, t.st 1, t.calls 2)) = some (.idle, .out, 0) := by
  decide

/-! ## Nesting: children that are composites themselves (macros inside workflows inside …)

`ExecNest.Tree` (built for C06): a child may be a composite with its own wiring, executor children and
run loop, to any depth; actions are addressed by a path of child indices and every level runs the
flat machine on its effective wiring (a composite child counts as out until its own loop has ended).
The flat invariant holds at every level of every reachable tree (`nrun_inv`), so order and
exactly-once hold at every depth. -/
section Nest
open PwVerif.ExecNest
variable {E : Type}

def NReachFresh (cfg : Cfg) (t : Tree E) : Prop :=
  ∃ t₀ acts, NWF t₀ ∧ Fresh t₀ ∧ nrun cfg t₀ acts = some t

theorem nreachFresh_inv {cfg : Cfg} {t : Tree E} (h : NReachFresh cfg t) : NInv cfg t ∧ NWF t := by
  obtain ⟨t₀, acts, wf, hf, hr⟩ := h
  exact nrun_inv cfg acts t₀ t wf (fresh_ninv cfg t₀ wf hf) hr

/-- no function node anywhere in the tree raises -/
def NoFaultsN : Tree E → Prop
  | .leaf => True
  | .comp d _ _ kids => (∀ i, kids i = .leaf → d.fails i = false) ∧ ∀ k, NoFaultsN (kids k)

/-- every level's data graph is acyclic -/
def RankedN : Tree E → Prop
  | .leaf => True
  | .comp d _ _ kids => (∃ rank : Nat → Nat, ∀ i j, j ∈ d.deps i → rank j < rank i) ∧ ∀ k, RankedN (kids k)

/-- every child of every composite of the tree has executed exactly once and is done -/
def AllOnce : Tree E → Prop
  | .leaf => True
  | .comp d _ s kids => (∀ i, d.member i → s.calls i = 1 ∧ s.st i = .done) ∧ ∀ k, d.member k → AllOnce (kids k)

/-- ORDER at every depth, at every moment of every nested schedule: in whichever composite of the
tree, a child has started only if every child it takes data from is done -/
theorem C01_nest_order {cfg : Cfg} {t : Tree E} (h : NReachFresh cfg t) (p : List Nat) (d : Dag)
    (exc : Nat → E) (s : S) (kids : Nat → Tree E) (hs : t.sub p = .comp d exc s kids) (i j : Nat)
    (hi : s.st i ≠ .idle) (hj : j ∈ d.deps i) : s.st j = .done := by
  have hinv := ninv_sub cfg t p (nreachFresh_inv h).1
  rw [hs] at hinv
  exact hinv.1.core.order i j hi hj

theorem C01_nest_at_most_once {cfg : Cfg} {t : Tree E} (h : NReachFresh cfg t) (p : List Nat) (d : Dag)
    (exc : Nat → E) (s : S) (kids : Nat → Tree E) (hs : t.sub p = .comp d exc s kids) (i : Nat) :
    s.calls i ≤ 1 := by
  have hinv := ninv_sub cfg t p (nreachFresh_inv h).1
  rw [hs] at hinv
  have := hinv.1.core.calls1 i
  split at this <;> omega

theorem nofaults_no_failed (t : Tree E) : NInv Cfg.repaired t → NoFaultsN t →
    ∀ p i, ¬ FailedLeafAt t p i := by
  induction t with
  | leaf =>
    intro _ _ p i ⟨d, exc, s, kids, hsub, _, _⟩
    cases p <;> simp [Tree.sub] at hsub
  | comp d exc s kids ih =>
    intro hinv hnf p i hfl
    cases p with
    | nil =>
      rw [failedLeafAt_nil] at hfl
      have := hinv.1.core.failedFails i hfl.2
      simp only [effDag, hfl.1] at this
      rw [hnf.1 i hfl.1] at this
      cases this
    | cons k q =>
      rw [failedLeafAt_cons] at hfl
      exact ih k (hinv.2.1 k) (hnf.2 k) q i hfl

/-- EXACTLY ONCE at every depth: when the outermost loop has ended and no function raises, every child
of every composite in the tree — function nodes and nested composites alike — has executed exactly
once and is done -/
theorem C01_nest_once (t : Tree E) : NInv Cfg.repaired t → NWF t → NoFaultsN t → RankedN t →
    t.over = true → AllOnce t := by
  induction t with
  | leaf => intro _ _ _ _ _; trivial
  | comp d exc s kids ih =>
    intro hinv wf hnf hrk ho
    obtain ⟨hI, hK, hL⟩ := hinv
    obtain ⟨rank, hrank⟩ := hrk.1
    have hex := over_exited Cfg.repaired rfl _ s hI ho
    have hnofail : ∀ i, s.st i ≠ .failed := by
      intro i hi
      have hf := hI.core.failedFails i hi
      cases hk : kids i with
      | leaf =>
        simp only [effDag, hk] at hf
        rw [hnf.1 i hk] at hf; cases hf
      | comp d' exc' s' kids' =>
        simp only [effDag, hk] at hf
        have hov : (kids i).over = true := (hL i).2 (Or.inr hi)
        have hinv' := hK i
        rw [hk] at hov hinv'
        obtain ⟨p, j, hfl⟩ := ((over_failed_iff Cfg.repaired rfl rfl _ d' exc' s' kids' rfl hinv' hov).1).mp hf
        have hnf' := hnf.2 i
        rw [hk] at hnf'
        exact nofaults_no_failed _ hinv' hnf' p j hfl
    have hdone := exit_all_done Cfg.repaired (effDag d kids) (wf_eff kids wf.1) s hI rank hrank hex hnofail
    refine ⟨?_, ?_⟩
    · intro i hm
      have hd := hdone i hm
      have := hI.core.calls1 i
      simp [hd] at this
      exact ⟨this, hd⟩
    · intro k hm
      have hd := hdone k hm
      exact ih k (hK k) (wf.2 k) (hnf.2 k) (hrk.2 k) ((hL k).2 (Or.inl hd))

/-- the same, stated for runs: any nested schedule from a fresh tree -/
theorem C01_nest_once_reach {t : Tree E} (h : NReachFresh Cfg.repaired t) (hnf : NoFaultsN t)
    (hrk : RankedN t) (ho : t.over = true) : AllOnce t :=
  C01_nest_once t (nreachFresh_inv h).1 (nreachFresh_inv h).2 hnf hrk ho

/-! non-vacuity: `0 → 1` where child 1 is itself a composite with one function node; a complete nested
schedule ends with every child at both levels executed once and done -/
def outerF : FinDag :=
  { n := 2, slots := [[], [[0]]], down := [[1], []], starters := [0], onExec := [false, false], fails := [],
    rank := [0, 1] }
def innerF : FinDag :=
  { n := 1, slots := [[]], down := [[]], starters := [0], onExec := [false], fails := [], rank := [0] }
def nestT : Tree Unit := mkComp outerF.toDag (fun _ => ()) [(1, mkComp innerF.toDag (fun _ => ()) [])]
def nestActs : List (List Nat × Act) :=
  [([], .start), ([], .deliver), ([1], .start), ([1], .exit), ([], .complete 1), ([], .exit)]

example : (nrun Cfg.repaired nestT nestActs).map (fun t => match t with
    | .comp _ _ s kids => (t.over, s.st 0, s.st 1, s.calls 1,
        match kids 1 with | .comp _ _ s' _ => (s'.st 0, s'.calls 0) | .leaf => (Exec.St.idle, 0))
    | .leaf => (false, Exec.St.idle, Exec.St.idle, 0, (Exec.St.idle, 0)))
    = some (true, .done, .done, 1, (.done, 1)) := by decide

end Nest

end PwVerif.C01

#print axioms PwVerif.C01.C01_order
#print axioms PwVerif.C01.C01_at_most_once
#print axioms PwVerif.C01.C01_once
#print axioms PwVerif.C01.C01_value
#print axioms PwVerif.C01.C01_value_unique
#print axioms PwVerif.C01.C01_clean
#print axioms PwVerif.C01.C01_no_error
#print axioms PwVerif.C01.C01_progress
#print axioms PwVerif.C01.C01_terminates
#print axioms PwVerif.C01.C01_fine_refines
#print axioms PwVerif.C01.C01_fine_order
#print axioms PwVerif.C01.C01_fine_at_most_once
#print axioms PwVerif.C01.C01_fine_once
#print axioms PwVerif.C01.C01_fine_value
#print axioms PwVerif.C01.C01_fine_clean
#print axioms PwVerif.C01.C01_fine_progress
#print axioms PwVerif.C01.C01_fine_terminates
#print axioms PwVerif.C01.C01_fine_atomic
#print axioms PwVerif.C01.C01_fine_pinned_witness
#print axioms PwVerif.C01.C01_fine_pinned_not_once
#print axioms PwVerif.C01.C01_rerun_is_fresh
#print axioms PwVerif.C01.C01_rerun
#print axioms PwVerif.C01.C01_rerun_pinned_witness
#print axioms PwVerif.C01.C01_nest_order
#print axioms PwVerif.C01.C01_nest_at_most_once
#print axioms PwVerif.C01.C01_nest_once
#print axioms PwVerif.C01.C01_nest_once_reach
