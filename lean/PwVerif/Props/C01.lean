import PwVerif.Proofs.Exec
import PwVerif.Proofs.ExecFin
/-!
# C01 — Automatic DAG execution is complete, ordered and correct under every schedule

"When a workflow or macro whose data connections form a directed acyclic graph is run, every child
node executes exactly once, never before all nodes it takes data from have finished, and the final
outputs equal what the same functions give when composed directly in plain Python. This holds
whichever of the children are handed to executors and in whatever order those executors complete
them, and the run always terminates with nothing left marked as running."

Quantification: every wired DAG `d` (`WF d`, acyclic by a ranking), every executor assignment
(`d.onExec`), every order of `ran` connections and starting nodes (`d.down`, `d.starters`), every
schedule = every list of enabled actions `start | deliver | complete k | exit` (`runActs`), for both
the pinned and the repaired error-handling configuration (`cfg`). No faults here (`NoFaults`); C06
treats faults. Granularity: a completion callback is one atomic action (see `Exec.fine` in DESIGN.md
for the finer interleaving, which is NOT claimed here).
-/
namespace PwVerif.C01
open PwVerif PwVerif.Exec

def Reach (cfg : Cfg) (d : Dag) (s : S) : Prop := ∃ acts, runActs cfg d (init d) acts = some s

def NoFaults (d : Dag) : Prop := ∀ i, d.fails i = false

theorem reach_inv {cfg d s} (wf : WF d) (h : Reach cfg d s) : Inv cfg d s := by
  obtain ⟨acts, ha⟩ := h
  exact runActs_inv cfg d wf acts _ _ (init_inv cfg d wf) ha

/-- never before all nodes it takes data from have finished — at every moment of every schedule -/
theorem C01_order {cfg d s} (wf : WF d) (h : Reach cfg d s) (i j : Nat)
    (hi : s.st i ≠ .idle) (hj : j ∈ d.deps i) : s.st j = .done :=
  (reach_inv wf h).core.order i j hi hj

/-- never more than once — at every moment of every schedule -/
theorem C01_at_most_once {cfg d s} (wf : WF d) (h : Reach cfg d s) (i : Nat) : s.calls i ≤ 1 := by
  have := (reach_inv wf h).core.calls1 i
  split at this <;> omega

/-- exactly once, and done, for every child when the run has returned -/
theorem C01_once {cfg d s} (wf : WF d) (rank : Nat → Nat) (hrank : ∀ i j, j ∈ d.deps i → rank j < rank i)
    (hnf : NoFaults d) (h : Reach cfg d s) (hex : s.phase = .exited) (i : Nat) (hm : d.member i) :
    s.calls i = 1 ∧ s.st i = .done := by
  have hinv := reach_inv wf h
  have hd := exit_all_done cfg d wf s hinv rank hrank hex (no_faults_no_failed cfg d s hinv hnf) i hm
  have := hinv.core.calls1 i
  simp [hd] at this
  exact ⟨this, hd⟩

/-- the outputs satisfy the equations of plain composition: each child's output is its function
applied to the output of the FIRST (most recently made) connection of every input, or to the input's
own value where it has none -/
theorem C01_value {cfg d s} (wf : WF d) (rank : Nat → Nat) (hrank : ∀ i j, j ∈ d.deps i → rank j < rank i)
    (hnf : NoFaults d) (h : Reach cfg d s) (hex : s.phase = .exited) (i : Nat) (hm : d.member i) :
    s.out i = .app i (headArgs d s.out i) :=
  done_value cfg d s (reach_inv wf h) i (C01_once wf rank hrank hnf h hex i hm).2

/-- those equations have exactly one solution on an acyclic graph, so the outputs ARE the direct
composition (any evaluation order of the same functions yields the same terms) -/
theorem C01_value_unique (d : Dag) (wf : WF d) (rank : Nat → Nat)
    (hrank : ∀ i j, j ∈ d.deps i → rank j < rank i) (o o' : Nat → Val)
    (ho : ∀ i, d.member i → o i = .app i (headArgs d o i))
    (ho' : ∀ i, d.member i → o' i = .app i (headArgs d o' i)) :
    ∀ i, d.member i → o i = o' i := by
  have key : ∀ n i, rank i < n → d.member i → o i = o' i := by
    intro n
    induction n with
    | zero => intro i hi; omega
    | succ n ih =>
      intro i hi hm
      rw [ho i hm, ho' i hm]
      congr 1
      unfold headArgs
      apply List.map_congr_left
      intro cs hcs
      cases cs with
      | nil => rfl
      | cons c cs' =>
        have hc : c ∈ d.deps i := mem_deps_of_slot d i _ c hcs (by simp)
        apply ih c (by have := hrank i c hc; omega)
        by_cases hd : d.deps c = []
        · exact Or.inl (wf.rootsStart i c hc hd)
        · exact Or.inr hd
  intro i
  exact key (rank i + 1) i (by omega)

/-- nothing is left marked as running, nothing pending, and (without faults) no error was collected
and the run was never aborted -/
theorem C01_clean {cfg d s} (wf : WF d) (h : Reach cfg d s) (hex : s.phase = .exited) :
    s.running = [] ∧ s.queue = [] ∧ ∀ i, s.st i ≠ .out := by
  have hinv := reach_inv wf h
  obtain ⟨hq, hr, _⟩ := hinv.phase.exited hex
  refine ⟨hr, hq, ?_⟩
  intro i hi
  have := (hinv.core.running i).mpr hi
  rw [hr] at this; cases this

theorem C01_no_error {cfg d s} (wf : WF d) (hnf : NoFaults d) (h : Reach cfg d s) :
    s.errs = [] ∧ s.phase ≠ .aborted := by
  have hinv := reach_inv wf h
  have hnofail := no_faults_no_failed cfg d s hinv hnf
  constructor
  · cases he : s.errs with
    | nil => rfl
    | cons x xs => exact absurd (hinv.core.errsFailed x (by simp [he])) (hnofail x)
  · intro hab
    obtain ⟨acts, ha⟩ := h
    have hab0 : AbInv (init d) := by intro hp; simp [init] at hp
    obtain ⟨i, hi⟩ := runActs_abInv cfg d wf acts _ _ (init_inv cfg d wf) hab0 ha hab
    exact hnofail i hi

/-- until the run has ended some action is always enabled (no deadlock: a state with children out
and an empty queue enables exactly their completions — the executable face of the idle `sleep`) -/
theorem C01_progress {cfg d s} (wf : WF d) (h : Reach cfg d s) (r : List Nat) (hph : s.phase = .run r) :
    ∃ a s', step cfg d s a = some s' :=
  progress cfg d s (reach_inv wf h) r hph

/-- the run always terminates: along ANY schedule the number of actions (starts, deliveries,
completions, exit) is bounded by a number that depends on the graph only — every action strictly
decreases the potential `|queue| + Σ weight(node) + [still running]`. With `C01_progress` (something
is enabled until the end) every maximal schedule therefore ends in `exited`/`aborted`. -/
theorem C01_terminates {cfg d s} (wf : WF d) (nodes : List Nat) (hn : nodes.Nodup)
    (hcover : ∀ i, d.member i → i ∈ nodes) (acts : List Act)
    (hr : runActs cfg d (init d) acts = some s) :
    acts.length ≤ 1 + (nodes.map (fun i => 2 + (d.down i).length)).sum := by
  have hm0 : MemInv d (init d) := by intro i hi; simp [init] at hi
  have := runActs_bounded cfg d wf nodes hn hcover acts _ _ (init_inv cfg d wf) hm0 hr
  have h0 : potential d nodes (init d) = 1 + (nodes.map (fun i => 2 + (d.down i).length)).sum := by
    have hw : weight d (init d) = fun i => 2 + (d.down i).length := by
      funext i; simp [weight, init]
    simp only [potential, hw]
    simp [init]; omega
  omega

/-! ## Non-vacuity: a diamond with two executor children, completed in the "wrong" order -/
def exF : FinDag :=
  { n := 4, slots := [[], [[0]], [[0]], [[2, 1], [1]]], down := [[2, 1], [3], [3], []],
    starters := [0], onExec := [false, true, true, false], fails := [], rank := [0, 1, 1, 2] }

example : exF.check = true := by decide
example : WF exF.toDag := (FinDag.check_sound exF (by decide)).1

def exActs : List Act :=
  [.start, .deliver, .deliver, .complete 2, .deliver, .complete 1, .deliver, .exit]

example : (runActs Cfg.pinned exF.toDag (init exF.toDag) exActs).map (fun s => (s.phase, s.execLog, s.doneLog))
    = some (.exited, [0, 2, 1, 3], [0, 2, 1, 3]) := by decide

end PwVerif.C01

#print axioms PwVerif.C01.C01_order
#print axioms PwVerif.C01.C01_at_most_once
#print axioms PwVerif.C01.C01_once
#print axioms PwVerif.C01.C01_value
#print axioms PwVerif.C01.C01_value_unique
#print axioms PwVerif.C01.C01_clean
#print axioms PwVerif.C01.C01_no_error
#print axioms PwVerif.C01.C01_progress
#print axioms PwVerif.C01.C01_terminates
