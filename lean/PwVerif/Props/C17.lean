import PwVerif.Proofs.FuncWrap
import PwVerif.Proofs.PyAst
import PwVerif.Proofs.Kinds
import PwVerif.Proofs.DcMro
/-!
# C17 — Node classes faithfully wrap their definitions

"A node made from a Python function has one input per parameter, in order, with the parameter's
default and annotation, and one output per returned value labelled as declared or as written in the
return statement; running it with given positional and keyword values returns exactly what the
function returns for them and stores it in the outputs.  The same fidelity holds for the transformer
nodes (inputs-to-list/dict/table, list-to-outputs) and for dataclass nodes, whose output is the
dataclass built from the inputs with field defaults and default factories applied."

What is proved here (for every parameter list, every return statement shape, every set of declared
labels, every signature of positional-or-keyword parameters of any length, every split of the supplied
values into positional / keyword form at construction and at call time, every function body `F`, every
transformer size, every field layout):

* `C17_inputs` — one input per parameter, in order, with its default and annotation (and exactly the
  definitions with a parameter named like a keyword of `Node.__init__` are refused).
* `C17_labels_declared / _scraped / _none / _refused`, `C17_output_count` — one output per returned value,
  labelled as declared, else as written in the return statement; count validation refuses a mismatch.
* `C17_preview_is_instance` — the instance's channels are the class-level preview, one for one.
* `C17_bind`, `C17_run` — the node hands the body exactly the values Python's own call binds
  (`pyArgs`, written independently as a walk over the parameter list), refuses exactly what Python's
  binder refuses, and turns a *missing* argument into a readiness refusal instead of a `TypeError`.
* `C17_outputs_single/_multi`, `C17_fn_again` — what the body returns lands on the outputs in order; `run`
  (also a repeated one) returns it.
* `C17_fn_faithful` — all of the above end to end, from the definition to the stored outputs.
* `C17_xf_preview`, `C17_xf_list/_dict/_df/_unpack`, `C17_dc_preview`, `C17_xf_dataclass*`, `C17_xf_rerun*` —
  the transformer and dataclass nodes are the obvious maps, for every size and layout.
* `C17_bind_positions`, `C17_default_identity`, `C17_default_copy_witness` — values carry an identity
  (`Val.obj id kind`): position `i` receives, by precedence, the call's / the construction's positional or
  keyword value and else the parameter's default OBJECT (same identity tag, in the preview, in the instance
  channel and in what the body is handed); a `_setup_node` that copied the defaults is refuted by a witness
  whose body asks `arg is _DEFAULT`.
* `C17_class_per_definition_repaired / _witness` — the registry of made classes (`classfactory`) hands every
  defining object its own class when consulted by name and defining object; consulted by name alone (pinned
  `inputs_to_dict`: name = hash of the specification; `dataclass_node`: name = `__name__`) the second of two
  definitions sharing a name gets the class of the first.
* `C17_xf_list_index_order`, `C17_xf_list_sorted_witness` — entry `i` of the list is the value supplied for
  `item_i` for every `n` (labels live in channel creation order, nothing is sorted); sorting the labels as
  strings is the same order up to `n = 10` and a different one at `n = 11`, by computation.

* `C17_scrape_own_return`, `C17_scrape_text`, `C17_labels_from_source`, `C17_scrape_nested_witness`,
  `C17_scrape_bytecols_witness` — `ParseOutput` itself (`Model/PyAst.lean`): the walk over the statement tree of
  the function body (branches, loops, `try`/`with`, nested `def`s and classes at any depth) and the cutting of
  the texts out of the source lines by `lineno/col_offset`; the labels are the texts of the values of the
  function's OWN return, in order; the pinned walk also enters nested functions and the pinned cutter uses byte
  offsets as character indices — both refuted by witnesses.
* `C17_inputs_kinds`, `C17_bind_kinds`, `C17_run_kinds_partial/_repaired/_witness`, `C17_variadic_witness` —
  parameters of every kind (`Model/Kinds.lean`): one input per parameter whatever its kind; whatever Python's
  kind-aware binder binds, the node hands its body; positional-only parameters handed over by keyword make the
  pinned node unrunnable; variadics are refused by name only.

What python's `ast` module makes of the source TEXT (the tree and the positions of its nodes) and what
`inspect.signature(eval_str=True)` makes of the annotations are inputs of the model: the harness converts the
real `ast` tree of the real generated file into the model's term (statement skeleton + spans of the returned
values + the source lines as code points); everything `ParseOutput` does with them is modelled and proved.

Only property theorems live here; lemmas are in `Proofs/FuncWrap.lean`.
-/
namespace PwVerif.C17
open PwVerif PwVerif.FuncWrap PwVerif.PyAst PwVerif.Kinds PwVerif.DcMro

/-- **binding**: for every signature, both splits and all values, with `n0` the freshly set-up node:
(1) if Python binds `vs`, construction succeeds and the call's gate hands the body exactly `vs`;
(2) if Python complains about a missing argument, the node was built and the call is a readiness refusal;
(3) any other complaint of Python's binder is a `ValueError` of the node at the same stage or earlier.
(The three cases are exhaustive and the node outcomes mutually exclusive, so the converse holds too.) -/
theorem C17_bind (sig : Sig) (outs : List String)
    (a1 : List Val) (k1 : List (String × Val)) (a2 : List Val) (k2 : List (String × Val))
    (hnd : (sig.map (·.name)).Nodup) (hk1 : (k1.map (·.1)).Nodup) (hk2 : (k2.map (·.1)).Nodup)
    (hs : DataSig sig) (hd1 : DataVals a1 k1) (hd2 : DataVals a2 k2) :
    (∀ vs, pyArgs sig a1 k1 a2 k2 = .ok vs →
      ∃ n1, construct (mkNode sig outs) a1 k1 = .ok n1 ∧ (gate n1 a2 k2).2 = .ok vs) ∧
    (pyArgs sig a1 k1 a2 k2 = .error .missing →
      ∃ n1, construct (mkNode sig outs) a1 k1 = .ok n1 ∧ (gate n1 a2 k2).2 = .error .readiness) ∧
    (∀ e, e ≠ .missing → pyArgs sig a1 k1 a2 k2 = .error e →
      (∃ e', construct (mkNode sig outs) a1 k1 = .error e') ∨
      (∃ n1, construct (mkNode sig outs) a1 k1 = .ok n1 ∧ gate n1 a2 k2 = (n1, .error .valueError))) := by
  have h := bind_spec (mkNode sig outs) sig rfl a1 k1 a2 k2 hnd hk1 hk2 hs hd1 hd2
  refine ⟨?_, h.2.1, h.2.2⟩
  intro vs hv
  obtain ⟨n1, hc, hg, _⟩ := h.1 vs hv
  exact ⟨n1, hc, hg⟩

/-- **running**: whatever Python's call `f(**{**bound(a1,k1), **bound(a2,k2)})` returns, the node run
processes exactly that object (`finish`), with its outputs panel still the freshly made one. -/
theorem C17_run (sig : Sig) (outs : List String) (F : List Val → Val)
    (a1 : List Val) (k1 : List (String × Val)) (a2 : List Val) (k2 : List (String × Val))
    (hnd : (sig.map (·.name)).Nodup) (hk1 : (k1.map (·.1)).Nodup) (hk2 : (k2.map (·.1)).Nodup)
    (hs : DataSig sig) (hd1 : DataVals a1 k1) (hd2 : DataVals a2 k2)
    (r : Val) (hr : pyCall2 sig F a1 k1 a2 k2 = .ok r) :
    ∃ n1 n2, construct (mkNode sig outs) a1 k1 = .ok n1 ∧ call F n1 a2 k2 = finish n2 r ∧
      n2.outs = outs.map fun l => (l, Val.nd) := by
  unfold pyCall2 at hr
  cases hp : pyArgs sig a1 k1 a2 k2 with
  | error e => rw [hp] at hr; simp [Except.map] at hr
  | ok vs =>
    rw [hp] at hr
    simp only [Except.map, Except.ok.injEq] at hr
    obtain ⟨n1, g, hc, hg, _, _, ho⟩ :=
      bind_ok (mkNode sig outs) sig rfl a1 k1 a2 k2 hnd hk1 hk2 hs hd1 hd2 vs hp
    refine ⟨n1, g, hc, ?_, ho⟩
    unfold call
    rw [hg]
    show finish g (F vs) = finish g r
    rw [hr]

/-- plain single-stage form: build the node without arguments, call it like the function -/
theorem C17_run_plain (sig : Sig) (outs : List String) (F : List Val → Val)
    (args : List Val) (kw : List (String × Val))
    (hnd : (sig.map (·.name)).Nodup) (hk : (kw.map (·.1)).Nodup)
    (hs : DataSig sig) (hd : DataVals args kw) (r : Val) (hr : pyCall sig F args kw = .ok r) :
    ∃ n1 n2, construct (mkNode sig outs) [] [] = .ok n1 ∧ call F n1 args kw = finish n2 r ∧
      n2.outs = outs.map fun l => (l, Val.nd) :=
  C17_run sig outs F [] [] args kw hnd (by simp) hk hs ⟨by simp, by simp⟩ hd r hr

/-- **outputs, one label**: the whole returned object (also a tuple) is stored and returned -/
theorem C17_outputs_single (n : Node) (l : String) (x r : Val) (h : n.outs = [(l, x)]) :
    finish n r = ({ n with outs := [(l, r)] }, .ret r) := by
  simp [finish, processRunResult, h, zipOut, runReturn, values]

/-- **outputs, several labels**: a returned tuple of matching length is unpacked onto the outputs in
order, and `run` returns the tuple of the output values, i.e. the same tuple -/
theorem C17_outputs_multi (n : Node) (vs : List Val) (h1 : n.outs.length ≠ 1) (hl : vs.length = n.outs.length) :
    finish n (Val.tuple vs) = ({ n with outs := (labels n.outs).zip vs }, .ret (Val.tuple vs)) := by
  have hz := zipOut_eq_zip n.outs vs hl
  have hlen : ((labels n.outs).zip vs).length ≠ 1 := by
    simp [labels, List.length_zip, hl, h1]
  have hv : values ((labels n.outs).zip vs) = vs := by rw [← hz]; exact zipOut_values n.outs vs hl
  simp only [finish, processRunResult, h1, if_false, unpack, Val.tuple, Option.map_some, hz]
  rw [runReturn_multi _ hlen, hv]
  rfl

/-- asking a function node again (cache hit) returns what the run returned -/
theorem C17_fn_again (n : Node) (r : Val) (n' : Node) (v : Val) (h : finish n r = (n', .ret v)) :
    fnAgain n' = v := by
  unfold finish at h
  split at h
  · cases h
  · simp only [Prod.mk.injEq, Outcome.ret.injEq] at h
    obtain ⟨h1, h2⟩ := h
    subst h1; simpa [fnAgain] using h2

/-! ### transformers: for every split that Python would bind to the values `vs` -/

/-- `inputs_to_list(n)`: the list of the `n` values in input order -/
theorem C17_xf_list (n : Nat) (a1 : List Val) (k1 : List (String × Val)) (a2 : List Val) (k2 : List (String × Val))
    (hk1 : (k1.map (·.1)).Nodup) (hk2 : (k2.map (·.1)).Nodup) (hd1 : DataVals a1 k1) (hd2 : DataVals a2 k2)
    (vs : List Val) (hp : pyArgs (noDefault (itemLabels "item_" n)) a1 k1 a2 k2 = .ok vs) :
    ∃ n1 n2, construct (inputsToListNode n) a1 k1 = .ok n1 ∧
      xfCall .toList n1 a2 k2 = (n2, .ret (Val.list vs)) ∧ n2.outs = [("list", Val.list vs)] := by
  obtain ⟨n1, g, hc, hg, hv, _, ho⟩ :=
    bind_ok (inputsToListNode n) (noDefault (itemLabels "item_" n)) rfl a1 k1 a2 k2
      (by rw [noDefault_names]; exact itemLabels_nodup _ _) hk1 hk2 (noDefault_data _) hd1 hd2 vs hp
  refine ⟨n1, { g with outs := g.outs.map fun o => (o.1, Val.list vs) }, hc, ?_, ?_⟩
  · rw [xfCall_ok _ _ _ _ _ _ hg]
    simp only [xfBody, hv]
  · simp [ho, inputsToListNode, mkNode]

/-- `inputs_to_dict(spec)`: the dictionary key ↦ value in key order (defaults of the specification
filling what was not supplied) -/
theorem C17_xf_dict (spec : Sig) (a1 : List Val) (k1 : List (String × Val)) (a2 : List Val) (k2 : List (String × Val))
    (hnd : (spec.map (·.name)).Nodup) (hs : DataSig spec)
    (hk1 : (k1.map (·.1)).Nodup) (hk2 : (k2.map (·.1)).Nodup) (hd1 : DataVals a1 k1) (hd2 : DataVals a2 k2)
    (vs : List Val) (hp : pyArgs spec a1 k1 a2 k2 = .ok vs) :
    ∃ n1 n2, construct (inputsToDictNode spec) a1 k1 = .ok n1 ∧
      xfCall .toDict n1 a2 k2 = (n2, .ret (.node "dict" (spec.map (·.name)) vs)) ∧
      n2.outs = [("dict", .node "dict" (spec.map (·.name)) vs)] := by
  obtain ⟨n1, g, hc, hg, hv, hl, ho⟩ :=
    bind_ok (inputsToDictNode spec) spec rfl a1 k1 a2 k2 hnd hk1 hk2 hs hd1 hd2 vs hp
  have hb : Val.dict g.ins = .node "dict" (spec.map (·.name)) vs := by
    simp only [Val.dict]; rw [← hl, ← hv]; rfl
  refine ⟨n1, { g with outs := g.outs.map fun o => (o.1, .node "dict" (spec.map (·.name)) vs) }, hc, ?_, ?_⟩
  · rw [xfCall_ok _ _ _ _ _ _ hg]
    simp only [xfBody, hb]
  · simp [ho, inputsToDictNode, mkNode]

/-- `inputs_to_dataframe(n)`: rows over common keys `ks` give the table whose column `k` lists the rows'
`k` entries in row order -/
theorem C17_xf_df (n : Nat) (a1 : List Val) (k1 : List (String × Val)) (a2 : List Val) (k2 : List (String × Val))
    (hk1 : (k1.map (·.1)).Nodup) (hk2 : (k2.map (·.1)).Nodup) (hd1 : DataVals a1 k1) (hd2 : DataVals a2 k2)
    (ks : List String) (hks : ks.Nodup) (r0 : List Val) (rest : List (List Val))
    (h0 : r0.length = ks.length) (hr : ∀ r ∈ rest, r.length = ks.length)
    (hp : pyArgs (noDefault (itemLabels "row_" n)) a1 k1 a2 k2
      = .ok ((r0 :: rest).map fun r => Val.dict (ks.zip r))) :
    ∃ n1 n2, construct (inputsToDataframeNode n) a1 k1 = .ok n1 ∧
      xfCall .toDf n1 a2 k2 = (n2, .ret (Val.df (colsOf ks (r0 :: rest)))) := by
  obtain ⟨n1, g, hc, hg, hv, _, _⟩ :=
    bind_ok (inputsToDataframeNode n) (noDefault (itemLabels "row_" n)) rfl a1 k1 a2 k2
      (by rw [noDefault_names]; exact itemLabels_nodup _ _) hk1 hk2 (noDefault_data _) hd1 hd2 _ hp
  refine ⟨n1, { g with outs := g.outs.map fun o => (o.1, Val.df (colsOf ks (r0 :: rest))) }, hc, ?_⟩
  rw [xfCall_ok _ _ _ _ _ _ hg]
  simp only [xfBody, hv, dfBuild_rows ks r0 rest hks h0 hr]

/-- `list_to_outputs(n)`: a list of at most `n` items is stored item by item on `item_0 …` (the others
stay untouched) and the dictionary `{item_i: v_i}` is returned -/
theorem C17_xf_unpack (n : Nat) (a1 : List Val) (k1 : List (String × Val)) (a2 : List Val) (k2 : List (String × Val))
    (hk1 : (k1.map (·.1)).Nodup) (hk2 : (k2.map (·.1)).Nodup) (hd1 : DataVals a1 k1) (hd2 : DataVals a2 k2)
    (vs : List Val) (hlen : vs.length ≤ n) (hp : pyArgs (noDefault ["list"]) a1 k1 a2 k2 = .ok [Val.list vs]) :
    ∃ n1 n2, construct (listToOutputsNode n) a1 k1 = .ok n1 ∧
      unpackCall n1 a2 k2 = (n2, .ret (Val.dict ((itemLabels "item_" vs.length).zip vs))) ∧
      n2.outs = zipOut ((itemLabels "item_" n).map fun l => (l, Val.nd)) vs := by
  obtain ⟨n1, g, hc, hg, _, _, ho⟩ :=
    bind_ok (listToOutputsNode n) (noDefault ["list"]) rfl a1 k1 a2 k2
      (by simp [noDefault]) hk1 hk2 (noDefault_data _) hd1 hd2 _ hp
  have houts : g.outs = (itemLabels "item_" n).map fun l => (l, Val.nd) := by
    rw [ho]; rfl
  have hlab : labels ((itemLabels "item_" n).map fun l => (l, Val.nd)) = itemLabels "item_" n := by
    simp [labels, Function.comp_def]
  have hst := storeItems_ok ((itemLabels "item_" n).map fun l => (l, Val.nd)) 0 vs (by
    intro j _ hj
    rw [hlab]
    simp only [itemLabels, List.mem_map, List.mem_range]
    exact ⟨j, by omega, rfl⟩)
  have hz : assignAll ((itemLabels "item_" n).map fun l => (l, Val.nd))
      (((List.range' 0 vs.length).map fun j => "item_" ++ toString j).zip vs)
      = zipOut ((itemLabels "item_" n).map fun l => (l, Val.nd)) vs := by
    rw [← itemLabels_zip_prefix "item_" n vs hlen]
    have := assignAll_zip ((itemLabels "item_" n).map fun l => (l, Val.nd)) vs
      (by rw [hlab]; exact itemLabels_nodup _ _)
    rw [hlab] at this
    exact this
  refine ⟨n1, { g with outs := zipOut ((itemLabels "item_" n).map fun l => (l, Val.nd)) vs }, hc, ?_, rfl⟩
  unfold unpackCall
  rw [hg]
  simp only [List.head?_cons, Option.bind_eq_bind, Option.bind_some, unpack, Val.list, houts, hst, hz]
  rfl

/-! ### dataclass nodes -/

/-- the fields are usable as a signature: distinct names, data defaults -/
def FieldsOk (fs : List Field) : Prop :=
  (fs.map (·.name)).Nodup ∧ DataSig (dcSig fs)

/-- what the property demands of a dataclass node made from the field list `fs` (the class being
already a dataclass or not), for every split at construction and call: the node class exists and its
instances agree with Python building the dataclass itself — same object, a missing field is a
readiness refusal, anything else refused by Python is refused by the node. -/
def DataclassStatement (cfg : Cfg) : Prop :=
  ∀ (already : Bool) (fs : List Field) (a1 : List Val) (k1 : List (String × Val)) (a2 : List Val)
    (k2 : List (String × Val)),
    FieldsOk fs → orderOk fs = true → (k1.map (·.1)).Nodup → (k2.map (·.1)).Nodup →
    DataVals a1 k1 → DataVals a2 k2 →
    ∃ fs', nodeFields cfg already fs = some fs' ∧
      (∀ r, pyDataclass fs a1 k1 a2 k2 = .ok r →
        ∃ n1 n2, construct (dcNode fs') a1 k1 = .ok n1 ∧ dcCall n1 a2 k2 = (n2, .ret r) ∧
          n2.outs = [("dataclass", r)]) ∧
      (pyDataclass fs a1 k1 a2 k2 = .error .missing →
        ∃ n1, construct (dcNode fs') a1 k1 = .ok n1 ∧ (dcCall n1 a2 k2).2 = .readiness)

/-- the statement holds whenever the class is not converted a second time, or has no default factory -/
theorem C17_xf_dataclass_partial (cfg : Cfg) (already : Bool) (fs : List Field)
    (hyp : cfg.recast = false ∨ already = false ∨ ∀ f ∈ fs, ∀ v, f.dflt ≠ .factory v)
    (a1 : List Val) (k1 : List (String × Val)) (a2 : List Val) (k2 : List (String × Val))
    (hf : FieldsOk fs) (hord : orderOk fs = true)
    (hk1 : (k1.map (·.1)).Nodup) (hk2 : (k2.map (·.1)).Nodup) (hd1 : DataVals a1 k1) (hd2 : DataVals a2 k2) :
    ∃ fs', nodeFields cfg already fs = some fs' ∧
      (∀ r, pyDataclass fs a1 k1 a2 k2 = .ok r →
        ∃ n1 n2, construct (dcNode fs') a1 k1 = .ok n1 ∧ dcCall n1 a2 k2 = (n2, .ret r) ∧
          n2.outs = [("dataclass", r)]) ∧
      (pyDataclass fs a1 k1 a2 k2 = .error .missing →
        ∃ n1, construct (dcNode fs') a1 k1 = .ok n1 ∧ (dcCall n1 a2 k2).2 = .readiness) := by
  have hid : nodeFields cfg already fs = some fs := by
    rcases nodeFields_id cfg already fs hyp with h | ⟨_, h⟩
    · exact h
    · rw [hord] at h; cases h
  refine ⟨fs, hid, ?_, ?_⟩
  · intro r hr
    unfold pyDataclass pyCall2 at hr
    cases hp : pyArgs (dcSig fs) a1 k1 a2 k2 with
    | error e => rw [hp] at hr; simp [Except.map] at hr
    | ok vs =>
      rw [hp] at hr
      simp only [Except.map, Except.ok.injEq] at hr
      obtain ⟨n1, g, hc, hg, hv, hl, ho⟩ := bind_ok (dcNode fs) (dcSig fs) (dcNode_ins fs) a1 k1 a2 k2
        (by rw [dcSig_names]; exact hf.1) hk1 hk2 hf.2 hd1 hd2 vs hp
      have hlen : vs.length = fs.length := by
        have := congrArg List.length hv
        have h2 := congrArg List.length hl
        simp only [values, labels, List.length_map, dcSig] at this h2
        omega
      have hdc : Val.dc g.ins = r := by
        rw [← hr]
        simp only [Val.dc, hv, hl, dcSig_names]
        have e1 : labels ((fs.map (·.name)).zip vs) = fs.map (·.name) := by
          simp only [labels]; rw [List.map_fst_zip]; simp; omega
        have e2 : values ((fs.map (·.name)).zip vs) = vs := by
          simp only [values]; rw [List.map_snd_zip]; simp; omega
        rw [e1, e2]
      refine ⟨n1, { g with outs := g.outs.map fun o => (o.1, r) }, hc, ?_, ?_⟩
      · rw [dcCall_ok _ _ _ _ _ hg, hdc]
      · simp [ho, dcNode]
  · intro hm
    unfold pyDataclass pyCall2 at hm
    cases hp : pyArgs (dcSig fs) a1 k1 a2 k2 with
    | ok vs => rw [hp] at hm; simp [Except.map] at hm
    | error e =>
      rw [hp] at hm
      simp only [Except.map, Except.error.injEq] at hm
      subst hm
      obtain ⟨n1, g, hc, hg⟩ := bind_missing (dcNode fs) (dcSig fs) (dcNode_ins fs) a1 k1 a2 k2
        (by rw [dcSig_names]; exact hf.1) hk1 hk2 hf.2 hd1 hd2 hp
      refine ⟨n1, hc, ?_⟩
      unfold dcCall
      rw [hg]

/-- with the repair (do not convert a class that already is a dataclass) the statement holds in full -/
theorem C17_xf_dataclass_repaired : DataclassStatement Cfg.repaired := by
  intro already fs a1 k1 a2 k2 hf hord hk1 hk2 hd1 hd2
  exact C17_xf_dataclass_partial Cfg.repaired already fs (Or.inl rfl) a1 k1 a2 k2 hf hord hk1 hk2 hd1 hd2

/-- witness layout: `@dataclass class D: x: int; z: list = field(default_factory=g)` -/
def witnessFields : List Field := [⟨"x", .none⟩, ⟨"z", .factory (.atom "g()")⟩]

/-- on the pinned code the statement is false: for an already-converted dataclass with a default
factory, Python builds `D(x, g())` while the node, having lost the factory, refuses to run -/
theorem C17_xf_dataclass_witness : ¬ DataclassStatement Cfg.pinned := by
  intro h
  obtain ⟨fs', hfs, hok, _⟩ := h true witnessFields [.atom "1"] [] [] []
    ⟨by decide, by
      intro p hp v hv
      simp only [dcSig, witnessFields, List.map_cons, List.map_nil, List.mem_cons, List.not_mem_nil, or_false] at hp
      rcases hp with rfl | rfl
      · simp at hv
      · simp at hv; subst hv; rfl⟩
    (by decide) (by simp) (by simp) ⟨by simp [Val.isData], by simp⟩ ⟨by simp, by simp⟩
  have e : fs' = [⟨"x", .none⟩, ⟨"z", .none⟩] := by
    have : nodeFields Cfg.pinned true witnessFields = some [⟨"x", .none⟩, ⟨"z", .none⟩] := by rfl
    rw [this] at hfs; cases hfs; rfl
  subst e
  obtain ⟨n1, n2, hc, hcall, _⟩ := hok (Val.dc [("x", .atom "1"), ("z", .atom "g()")]) (by rfl)
  have hc' : construct (dcNode [⟨"x", .none⟩, ⟨"z", .none⟩]) [.atom "1"] []
      = .ok { ins := [("x", .atom "1"), ("z", .nd)], outs := [("dataclass", .nd)] } := by rfl
  rw [hc'] at hc
  cases hc
  have : dcCall { ins := [("x", .atom "1"), ("z", .nd)], outs := [("dataclass", .nd)] } [] []
      = ({ ins := [("x", .atom "1"), ("z", .nd)], outs := [("dataclass", .nd)] }, .readiness) := by rfl
  rw [this] at hcall
  cases hcall

/-- second face of the same defect: when the factory field follows a field with a plain default the
second conversion raises ("non-default argument follows default argument") and no node class exists -/
theorem C17_xf_dataclass_def_witness :
    orderOk [⟨"x", .value (.atom "0")⟩, ⟨"z", .factory (.atom "g()")⟩] = true ∧
    nodeFields Cfg.pinned true [⟨"x", .value (.atom "0")⟩, ⟨"z", .factory (.atom "g()")⟩] = none ∧
    (nodeFields Cfg.repaired true [⟨"x", .value (.atom "0")⟩, ⟨"z", .factory (.atom "g()")⟩]).isSome = true := by
  refine ⟨by rfl, by rfl, by rfl⟩

/-! ### asking a transformer again (cache hit) -/

/-- the property's "returns exactly what the function returns", for the second identical call -/
def RerunStatement (cfg : Cfg) : Prop :=
  ∀ (k : XfKind) (n : Node) (args : List Val) (kw : List (String × Val)) (n' : Node) (v : Val),
    n.outs.length = 1 → xfCall k n args kw = (n', .ret v) → xfAgain cfg n' = v

theorem C17_xf_rerun_repaired : RerunStatement Cfg.repaired := by
  intro k n args kw n' v hlen h
  unfold xfCall gate at h
  cases hs : setInputValues n.ins args kw with
  | error e => rw [hs] at h; simp at h
  | ok ins =>
    rw [hs] at h
    by_cases hr : ready ins = true
    · simp only [hr, if_true] at h
      cases hb : xfBody k ins with
      | none => simp [hb] at h
      | some w =>
        simp only [hb, Prod.mk.injEq, Outcome.ret.injEq] at h
        obtain ⟨h1, h2⟩ := h
        subst h1 h2
        match hn : n.outs, hlen with
        | [o], _ => simp [xfAgain, Cfg.repaired, hn, values]
    · simp [hr] at h

/-- on the pinned code the second call returns the outputs panel (`DotDict`) instead -/
theorem C17_xf_rerun_witness : ¬ RerunStatement Cfg.pinned := by
  intro h
  have := h .toList { ins := [("item_0", .atom "1")], outs := [("list", .nd)] } [] []
    { ins := [("item_0", .atom "1")], outs := [("list", Val.list [.atom "1"])] } (Val.list [.atom "1"]) rfl rfl
  simp [xfAgain, Cfg.pinned, Val.dict, Val.list] at this

/-! ### the definition: inputs, output labels, class-level preview = instance IO -/

/-- **one input per parameter, in order, with the parameter's default and annotation**: for every
parameter list none of whose names is a keyword of `Node.__init__`, the class-level input preview exists
and lists exactly the parameters, in order: label = name, hint = annotation (`None` ↦ `NoneType`, absent ↦
no hint), default = default (absent ↦ `NOT_DATA`).  A reserved name refuses the definition. -/
theorem C17_inputs (ps : List FParam) :
    ((∀ p ∈ ps, initKeywords.contains p.name = false) →
      ∃ pin, previewInputs ps = .ok pin ∧ pin.length = ps.length ∧
        pin.map (·.label) = ps.map (·.name) ∧
        pin.map (·.hint) = ps.map (fun p => p.ann.hint) ∧
        pin.map (·.dflt) = ps.map (fun p => p.dflt.getD .nd)) ∧
    (∀ p ∈ ps, initKeywords.contains p.name = true → previewInputs ps = .error .reservedName) ∧
    (∀ pin, previewInputs ps = .ok pin → ∀ p ∈ ps, initKeywords.contains p.name = false) := by
  refine ⟨?_, ?_, ?_⟩
  · intro h
    refine ⟨expectedIns ps, previewInputs_ok ps h, ?_, ?_, ?_, ?_⟩ <;>
      simp [expectedIns, Function.comp_def]
  · intro p hp hb
    exact previewInputs_reserved ps p hp hb
  · intro pin h
    exact (previewInputs_inv ps pin h).2

/-- **class-level preview = instance IO**: the channels `StaticNode._setup_node` creates carry, one for
one and in order, the labels, hints and defaults of `preview_inputs()` / the labels and hints of
`preview_outputs()`; an input starts at its default, an output at `NOT_DATA`. -/
theorem C17_preview_is_instance (pin : List InPrev) (pout : List (String × Hint)) :
    (setupIns pin).map (fun c => (c.label, c.hint, c.dflt)) = pin.map (fun p => (p.label, p.hint, p.dflt)) ∧
    (setupIns pin).map (·.value) = pin.map (·.dflt) ∧
    (setupOuts pout).map (fun c => (c.label, c.hint)) = pout ∧
    (setupOuts pout).map (·.value) = pout.map (fun _ => Val.nd) ∧
    (setupNode pin pout).ins = pin.map (fun p => (p.label, p.dflt)) ∧
    (setupNode pin pout).outs = pout.map (fun o => (o.1, Val.nd)) := by
  refine ⟨?_, ?_, ?_, ?_, ?_, ?_⟩
  · simp [setupIns, Function.comp_def]
  · simp [setupIns, Function.comp_def]
  · simp [setupOuts, Function.comp_def]
  · simp [setupOuts, Function.comp_def]
  · simp [setupNode, chanPanel_setupIns]
  · simp [setupNode, chanPanel_setupOuts]

/-- the texts written in a return statement -/
def written : RetExpr → List String
  | .tuple es => es
  | .single s => [s]

/-- the return annotation fits `n` outputs (a tuple annotation must list `n` hints when `n > 1`) -/
def HintsFit (ra : RetAnn) (n : Nat) : Prop := ∃ hs, outHints ra n = .ok hs

/-- **labelled as declared**: distinct declared labels, as many as the values of the single return
statement, become the output labels, in order (validation on or off); with validation switched off they
are taken whatever the function returns. -/
theorem C17_labels_declared (d : FnDef) (ls : List String) (hd : d.declared = some ls) (hne : ls ≠ [])
    (hnd : ls.Nodup)
    (hok : d.validate = true →
      ∃ e, d.rets = [.value e] ∧ e ≠ .single "None" ∧ (written e).length = ls.length)
    (hh : HintsFit d.retAnn ls.length) :
    ∃ pout, previewOutputs d = .ok pout ∧ pout.map (·.1) = ls := by
  obtain ⟨hs, hhs⟩ := hh
  have hlen : hs.length = ls.length := outHints_length _ _ _ hhs (by
    cases ls with
    | nil => exact absurd rfl hne
    | cons _ _ => simp)
  have hval : (if d.validate then validateLabels d else Except.ok ()) = Except.ok () := by
    cases hv : d.validate with
    | false => simp
    | true =>
      obtain ⟨e, hr, hn, hl⟩ := hok hv
      have hp : parseOutput d.rets = .ok (some (written e)) := by
        rw [hr]
        cases e with
        | tuple es => rfl
        | single s =>
          have : s ≠ "None" := fun h => hn (by rw [h])
          simp [parseOutput, written, this]
      simp only [if_true, validateLabels, getOutputLabels, hd, (hasDup_false ls).mpr hnd, hp]
      simp [hl]
  have hdict : asDict' (zipLH ls hs) = zipLH ls hs :=
    asDict'_nodup _ (by rw [zipLH_labels ls hs hlen]; exact hnd)
  refine ⟨zipLH ls hs, ?_, zipLH_labels ls hs hlen⟩
  unfold previewOutputs
  rw [hval]
  simp only [getOutputLabels, hd, Option.getD_some, hhs, hdict, zipLH_isEmpty ls hs hlen hne]
  rfl

/-- **labelled as written in the return statement**: without declared labels the outputs are labelled
with the texts of the returned expressions, in order, provided these are distinct (validation refuses
repeated texts, see `C17_labels_refused`; without validation they would collapse, python `dict`). -/
theorem C17_labels_scraped (d : FnDef) (e : RetExpr) (hd : d.declared = none) (hr : d.rets = [.value e])
    (hn : e ≠ .single "None") (hne : written e ≠ [])
    (hnd : (written e).Nodup)
    (hh : HintsFit d.retAnn (written e).length) :
    ∃ pout, previewOutputs d = .ok pout ∧ pout.map (·.1) = written e := by
  obtain ⟨hs, hhs⟩ := hh
  have hlen : hs.length = (written e).length := outHints_length _ _ _ hhs (by
    cases hw : written e with
    | nil => exact absurd hw hne
    | cons _ _ => simp)
  have hp : parseOutput d.rets = .ok (some (written e)) := by
    rw [hr]
    cases e with
    | tuple es => rfl
    | single s =>
      have : s ≠ "None" := fun h => hn (by rw [h])
      simp [parseOutput, written, this]
  have hval : (if d.validate then validateLabels d else Except.ok ()) = Except.ok () := by
    cases hv : d.validate with
    | false => simp
    | true =>
      simp only [if_true, validateLabels, getOutputLabels, hd, hp, (hasDup_false _).mpr hnd]
      simp
  have hdict : asDict' (zipLH (written e) hs) = zipLH (written e) hs :=
    asDict'_nodup _ (by rw [zipLH_labels _ hs hlen]; exact hnd)
  refine ⟨zipLH (written e) hs, ?_, zipLH_labels _ hs hlen⟩
  unfold previewOutputs
  rw [hval]
  simp only [getOutputLabels, hd, hp, Option.getD_some, hhs, hdict, zipLH_isEmpty _ hs hlen hne]
  rfl

/-- a function that returns nothing (no `return`, a bare `return`, `return None`) has the single output
`None`, hinted `NoneType`, whatever its return annotation -/
theorem C17_labels_none (d : FnDef) (hd : d.declared = none)
    (hr : d.rets = [] ∨ d.rets = [.bare] ∨ d.rets = [.value (.single "None")]) :
    previewOutputs d = .ok [("None", some "builtins.NoneType")] := by
  have hp : parseOutput d.rets = .ok none := by
    rcases hr with h | h | h <;> rw [h] <;> simp [parseOutput]
  have hval : (if d.validate then validateLabels d else Except.ok ()) = Except.ok () := by
    cases hv : d.validate with
    | false => simp
    | true => simp [validateLabels, getOutputLabels, hd, hp]
  unfold previewOutputs
  rw [hval]
  simp only [getOutputLabels, hd, hp, Option.getD_none, List.length_nil]
  cases d.retAnn <;> simp [outHints, zipLH, asDict']

/-- **count validation**: with validation on, a number of declared labels different from the number of
returned values refuses the definition (no node class), as do repeated labels and a second `return`. -/
theorem C17_labels_refused (d : FnDef) (hv : d.validate = true) :
    (∀ ls e, d.declared = some ls → ls.Nodup → d.rets = [.value e] → e ≠ .single "None" →
        (written e).length ≠ ls.length → previewOutputs d = .error .countMismatch) ∧
    (∀ ls, d.declared = some ls → ¬ ls.Nodup → previewOutputs d = .error .degenerate) ∧
    (∀ r1 r2 rest, d.rets = r1 :: r2 :: rest → d.declared = none → previewOutputs d = .error .multipleReturns) := by
  refine ⟨?_, ?_, ?_⟩
  · intro ls e hd hnd hr hn hl
    have hp : parseOutput d.rets = .ok (some (written e)) := by
      rw [hr]
      cases e with
      | tuple es => rfl
      | single s =>
        have : s ≠ "None" := fun h => hn (by rw [h])
        simp [parseOutput, written, this]
    unfold previewOutputs
    simp only [hv, if_true, validateLabels, getOutputLabels, hd, (hasDup_false ls).mpr hnd, hp]
    have : ¬ ls.length = (written e).length := fun h => hl h.symm
    simp [this]
  · intro ls hd hnd
    have : hasDup ls = true := by
      cases h : hasDup ls with
      | true => rfl
      | false => exact absurd ((hasDup_false ls).mp h) hnd
    unfold previewOutputs
    simp [hv, validateLabels, getOutputLabels, hd, this]
  · intro r1 r2 rest hr hd
    unfold previewOutputs
    simp [hv, validateLabels, getOutputLabels, hd, hr, parseOutput]

/-- **one output per returned value**: whenever the node class exists and the labels were validated, or
scraped from distinct texts, a function returning `k ≥ 1` values has exactly `k` outputs -/
theorem C17_output_count (d : FnDef) (pout : List (String × Hint)) (e : RetExpr)
    (hr : d.rets = [.value e]) (hn : e ≠ .single "None") (hne : written e ≠ [])
    (hv : d.validate = true ∨ (d.declared = none ∧ (written e).Nodup))
    (h : previewOutputs d = .ok pout) : pout.length = (written e).length := by
  have hp : parseOutput d.rets = .ok (some (written e)) := by
    rw [hr]
    cases e with
    | tuple es => rfl
    | single s =>
      have : s ≠ "None" := fun h => hn (by rw [h])
      simp [parseOutput, written, this]
  have hpos : 1 ≤ (written e).length := by
    cases hw : written e with
    | nil => exact absurd hw hne
    | cons _ _ => simp
  -- the labels in force, and that they are distinct and as many as the returned values
  have key : ∃ ls, getOutputLabels d = .ok (some ls) ∧ ls.Nodup ∧ ls.length = (written e).length := by
    cases hd : d.declared with
    | none =>
      refine ⟨written e, by simp [getOutputLabels, hd, hp], ?_, rfl⟩
      rcases hv with hv | ⟨_, hv⟩
      · unfold previewOutputs at h
        simp only [hv, if_true, validateLabels, getOutputLabels, hd, hp] at h
        cases hdup : hasDup (written e) with
        | false => exact (hasDup_false _).mp hdup
        | true => simp [hdup] at h
      · exact hv
    | some ls =>
      have hvt : d.validate = true := by
        rcases hv with hv | ⟨hv, _⟩
        · exact hv
        · rw [hd] at hv; cases hv
      unfold previewOutputs at h
      simp only [hvt, if_true, validateLabels, getOutputLabels, hd, hp] at h
      cases hdup : hasDup ls with
      | true => simp [hdup] at h
      | false =>
        by_cases hl : ls.length = (written e).length
        · exact ⟨ls, by simp [getOutputLabels, hd], (hasDup_false _).mp hdup, hl⟩
        · simp [hdup, hl] at h
  obtain ⟨ls, hg, hnd, hl⟩ := key
  have hne' : ls ≠ [] := by
    intro h0; rw [h0] at hl; simp at hl; omega
  unfold previewOutputs at h
  cases hval : (if d.validate then validateLabels d else Except.ok ()) with
  | error x => rw [hval] at h; cases h
  | ok u =>
    rw [hval] at h
    simp only [hg, Option.getD_some] at h
    cases hh : outHints d.retAnn ls.length with
    | error x => rw [hh] at h; cases h
    | ok hs =>
      rw [hh] at h
      have hlen : hs.length = ls.length := outHints_length _ _ _ hh (by omega)
      have hdict : asDict' (zipLH ls hs) = zipLH ls hs :=
        asDict'_nodup _ (by rw [zipLH_labels ls hs hlen]; exact hnd)
      simp only [hdict, zipLH_isEmpty _ hs hlen hne', Except.ok.injEq] at h
      have := congrArg (fun l => (l.map (·.1)).length) h
      simp only [Bool.false_eq_true, if_false, zipLH_labels _ hs hlen, List.length_map] at this
      omega

/-- **the whole wrap, end to end**: take any definition whose node class exists (`fnPreview` succeeds),
make an instance from the class-level preview with any positional/keyword split, call it with any other
split.  If Python's own call of the function with the merged arguments returns `r`, then the node call
returns exactly `r` and stores it: on the single output as it is; or, when there are several outputs and
`r` is a tuple of as many items, item by item in order under the previewed labels. -/
theorem C17_fn_faithful (d : FnDef) (pin : List InPrev) (pout : List (String × Hint))
    (hprev : fnPreview d = .ok (pin, pout)) (F : List Val → Val)
    (a1 : List Val) (k1 : List (String × Val)) (a2 : List Val) (k2 : List (String × Val))
    (hnd : (d.params.map (·.name)).Nodup) (hk1 : (k1.map (·.1)).Nodup) (hk2 : (k2.map (·.1)).Nodup)
    (hs : DataSig d.sig) (hd1 : DataVals a1 k1) (hd2 : DataVals a2 k2)
    (r : Val) (hr : pyCall2 d.sig F a1 k1 a2 k2 = .ok r) :
    ∃ n1, construct (setupNode pin pout) a1 k1 = .ok n1 ∧
      (∀ l h, pout = [(l, h)] →
        ∃ n2, call F n1 a2 k2 = (n2, .ret r) ∧ n2.outs = [(l, r)]) ∧
      (∀ rs, pout.length ≠ 1 → r = Val.tuple rs → rs.length = pout.length →
        ∃ n2, call F n1 a2 k2 = (n2, .ret r) ∧ n2.outs = (pout.map (·.1)).zip rs) := by
  have hpin : pin = expectedIns d.params := by
    unfold fnPreview at hprev
    cases hi : previewInputs d.params with
    | error e => rw [hi] at hprev; cases hprev
    | ok x =>
      rw [hi] at hprev
      cases ho : previewOutputs d with
      | error e => rw [ho] at hprev; cases hprev
      | ok y =>
        rw [ho] at hprev
        simp only [Except.ok.injEq, Prod.mk.injEq] at hprev
        rw [← hprev.1]
        exact (previewInputs_inv _ _ hi).1
  subst hpin
  have hnames : (d.sig.map (·.name)) = d.params.map (·.name) := by
    simp [FnDef.sig, Function.comp_def]
  obtain ⟨n1, n2, hc, hcall, houts⟩ :=
    C17_run d.sig (pout.map (·.1)) F a1 k1 a2 k2 (by rw [hnames]; exact hnd) hk1 hk2 hs hd1 hd2 r hr
  have hnode : setupNode (expectedIns d.params) pout = mkNode d.sig (pout.map (·.1)) :=
    setupNode_eq_mkNode d.params pout
  refine ⟨n1, by rw [hnode]; exact hc, ?_, ?_⟩
  · intro l h hp
    have ho : n2.outs = [(l, Val.nd)] := by rw [houts, hp]; rfl
    refine ⟨{ n2 with outs := [(l, r)] }, ?_, rfl⟩
    rw [hcall]
    exact C17_outputs_single n2 l .nd r ho
  · intro rs h1 hrt hl
    have hlen : n2.outs.length = pout.length := by rw [houts]; simp
    refine ⟨{ n2 with outs := (labels n2.outs).zip rs }, ?_, ?_⟩
    · rw [hcall, hrt]
      exact C17_outputs_multi n2 rs (by rw [hlen]; exact h1) (by rw [hlen]; exact hl)
    · show (labels n2.outs).zip rs = _
      rw [houts]
      simp [labels, Function.comp_def]

/-- the transformers' class-level previews: `n` inputs `item_0 …` / `row_0 …` in order (hinted nothing /
`dict`), one output `list` / `df`; one input `list` and `n` outputs `item_0 …`; the dictionary node shows
its specification; and their instances are the nodes the `C17_xf_*` theorems run -/
theorem C17_xf_preview (n : Nat) (spec : List InPrev) :
    ((listPreview n).1.map (·.label) = itemLabels "item_" n ∧ (listPreview n).1.length = n ∧
      setupNode (listPreview n).1 (listPreview n).2 = inputsToListNode n) ∧
    ((dfPreview n).1.map (·.label) = itemLabels "row_" n ∧ (dfPreview n).1.length = n ∧
      setupNode (dfPreview n).1 (dfPreview n).2 = inputsToDataframeNode n) ∧
    ((unpackPreview n).2.map (·.1) = itemLabels "item_" n ∧ (unpackPreview n).2.length = n ∧
      setupNode (unpackPreview n).1 (unpackPreview n).2 = listToOutputsNode n) ∧
    ((dictPreview spec).1 = spec ∧
      setupNode (dictPreview spec).1 (dictPreview spec).2
        = inputsToDictNode (spec.map fun p => { name := p.label, dflt := if p.dflt.isData then some p.dflt else none })) := by
  refine ⟨⟨?_, ?_, ?_⟩, ⟨?_, ?_, ?_⟩, ⟨?_, ?_, ?_⟩, rfl, ?_⟩
  · simp [listPreview, xfInPreview, Function.comp_def]
  · simp [listPreview, xfInPreview, itemLabels]
  · simp [listPreview, xfInPreview, setupNode, chanPanel_setupIns, chanPanel_setupOuts, inputsToListNode, mkNode,
      noDefault, Function.comp_def]
  · simp [dfPreview, xfInPreview, Function.comp_def]
  · simp [dfPreview, xfInPreview, itemLabels]
  · simp [dfPreview, xfInPreview, setupNode, chanPanel_setupIns, chanPanel_setupOuts, inputsToDataframeNode, mkNode,
      noDefault, Function.comp_def]
  · simp [unpackPreview, Function.comp_def]
  · simp [unpackPreview, itemLabels]
  · simp [unpackPreview, xfInPreview, setupNode, chanPanel_setupIns, chanPanel_setupOuts, listToOutputsNode, mkNode,
      noDefault, Function.comp_def]
  · simp only [dictPreview, setupNode, chanPanel_setupIns, chanPanel_setupOuts, inputsToDictNode, mkNode,
      List.map_map, List.map_cons, List.map_nil]
    congr 1
    apply List.map_congr_left
    intro p _
    cases hv : p.dflt <;> simp [hv, Val.isData]

/-- dataclass nodes: one input per field in order, hinted with the field's type; the class-level default
is the field's plain default, a `default_factory` is applied on instances only (so the instance *values*
are what Python's dataclass call fills in: `dcNode`) -/
theorem C17_dc_preview (fs : List Field) (hs : List Hint) (hl : hs.length = fs.length) :
    (dcInPreview fs hs).map (·.label) = fs.map (·.name) ∧
    (dcInPreview fs hs).map (·.hint) = hs ∧
    (dcInPreview fs hs).map (fun p => (p.label, p.dflt)) = dcPreview fs ∧
    (dcNode fs).ins = (dcSig fs).map (fun p => (p.name, p.dflt.getD .nd)) := by
  refine ⟨?_, ?_, ?_, ?_⟩
  · induction fs generalizing hs with
    | nil => cases hs <;> simp [dcInPreview]
    | cons f fs ih =>
      cases hs with
      | nil => simp at hl
      | cons x hs => simp [dcInPreview, ih hs (by simpa using hl)]
  · induction fs generalizing hs with
    | nil => cases hs with
      | nil => simp [dcInPreview]
      | cons _ _ => simp at hl
    | cons f fs ih =>
      cases hs with
      | nil => simp at hl
      | cons x hs => simp [dcInPreview, ih hs (by simpa using hl)]
  · induction fs generalizing hs with
    | nil => cases hs <;> simp [dcInPreview, dcPreview]
    | cons f fs ih =>
      cases hs with
      | nil => simp at hl
      | cons x hs =>
        have := ih hs (by simpa using hl)
        simp only [dcPreview] at this
        simp [dcInPreview, dcPreview, this]
  · exact dcNode_ins fs

/-! ## Non-vacuity: concrete signatures, splits and bodies -/

/-- `def f(a, b=7, c=None): return r0, r1` with free-term returns -/
def exSig : Sig := [⟨"a", none⟩, ⟨"b", some (.atom "7")⟩, ⟨"c", some (.atom "None")⟩]
def exF (vs : List Val) : Val := Val.tuple [.node "app0" [] vs, .node "app1" [] vs]

example : pyArgs exSig [.atom "x"] [("c", .atom "z")] [] [("b", .atom "y")] = .ok [.atom "x", .atom "y", .atom "z"] := by rfl
example : pyArgs exSig [] [] [.atom "x"] [("a", .atom "y")] = .error .multipleValues := by rfl
example : pyArgs exSig [] [("b", .atom "y")] [] [] = .error .missing := by rfl
example : pyArgs exSig [] [] [] [("d", .atom "y")] = .error .unexpectedKeyword := by rfl
example : pyArgs exSig [.atom "1", .atom "2", .atom "3", .atom "4"] [] [] [] = .error .tooManyPositional := by rfl
example : (sig : Sig) → sig = exSig → (sig.map (·.name)).Nodup ∧ DataSig sig := by
  intro sig h; subst h
  refine ⟨by decide, ?_⟩
  intro p hp v hv
  simp only [exSig, List.mem_cons, List.not_mem_nil, or_false] at hp
  rcases hp with rfl | rfl | rfl <;> simp at hv <;> subst hv <;> rfl
/-- the node agrees, end to end, on that example (computed by the model itself) -/
example :
    (match construct (mkNode exSig ["r0", "r1"]) [.atom "x"] [("c", .atom "z")] with
     | .ok n1 => (call exF n1 [] [("b", .atom "y")]).2
     | .error _ => .valueError)
      = .ret (exF [.atom "x", .atom "y", .atom "z"]) := by rfl
example : (dfBuild [Val.dict [("a", .atom "1"), ("b", .atom "2")], Val.dict [("b", .atom "4"), ("a", .atom "3")]])
    = some (Val.df [("a", [.atom "1", .atom "3"]), ("b", [.atom "2", .atom "4"])]) := by rfl
example : (unpackCall (listToOutputsNode 2) [Val.list [.atom "1", .atom "2", .atom "3"]] []).2 = .runError := by rfl
/-- the hypotheses of `C17_xf_list / _dict / _unpack / _df` are satisfiable, and the model computes the stated results -/
example : pyArgs (noDefault (itemLabels "item_" 2)) [.atom "1"] [] [] [("item_1", .atom "2")] = .ok [.atom "1", .atom "2"] := by rfl
example : (match construct (inputsToListNode 2) [.atom "1"] [] with
    | .ok n1 => some (xfCall .toList n1 [] [("item_1", .atom "2")]).2 | .error _ => none)
    = some (.ret (Val.list [.atom "1", .atom "2"])) := by rfl
example : pyArgs [⟨"k", none⟩, ⟨"m", some (.atom "7")⟩] [] [("k", .atom "1")] [] [] = .ok [.atom "1", .atom "7"] := by rfl
example : pyArgs (noDefault ["list"]) [] [] [Val.list [.atom "1"]] [] = .ok [Val.list [.atom "1"]] := by rfl
example : (unpackCall (listToOutputsNode 2) [Val.list [.atom "1"]] []).1.outs = [("item_0", .atom "1"), ("item_1", .nd)] := by rfl
example : pyArgs (noDefault (itemLabels "row_" 2)) [] []
    [Val.dict (["a", "b"].zip [.atom "1", .atom "2"]), Val.dict (["a", "b"].zip [.atom "3", .atom "4"])] []
    = .ok ([[.atom "1", .atom "2"], [.atom "3", .atom "4"]].map fun r => Val.dict (["a", "b"].zip r)) := by rfl
/-- `FieldsOk`, `orderOk` and a successful dataclass call (hypotheses of `C17_xf_dataclass_partial`) -/
example : (witnessFields.map (·.name)).Nodup ∧ orderOk witnessFields = true := ⟨by decide, rfl⟩
example : pyDataclass witnessFields [.atom "1"] [] [] [] = .ok (Val.dc [("x", .atom "1"), ("z", .atom "g()")]) := by rfl
example : (match construct (dcNode witnessFields) [.atom "1"] [] with
    | .ok n1 => some (dcCall n1 [] []).2 | .error _ => none)
    = some (.ret (Val.dc [("x", .atom "1"), ("z", .atom "g()")])) := by rfl

/-! ### non-vacuity of the definition-layer theorems -/

/-- `def f(a, b: int = 7, c: None = None) -> tuple[T, int]: r0 = T(0, a, b, c); return r0, b` -/
def exDef : FnDef :=
  { params := [⟨"a", .empty, none⟩, ⟨"b", .obj "builtins.int", some (.atom "i7")⟩, ⟨"c", .none_, some (.atom "None")⟩],
    rets := [.value (.tuple ["r0", "b"])], declared := none, validate := true,
    retAnn := .obj "tuple[T,builtins.int]" ["T", "builtins.int"] }

example : fnPreview exDef = .ok
    ([⟨"a", none, .nd⟩, ⟨"b", some "builtins.int", .atom "i7"⟩, ⟨"c", some "builtins.NoneType", .atom "None"⟩],
     [("r0", some "T"), ("b", some "builtins.int")]) := by rfl
/-- hypotheses of `C17_inputs` (1st part) and `C17_labels_scraped` hold for it -/
example : ∀ p ∈ exDef.params, initKeywords.contains p.name = false := by decide
example : (written (.tuple ["r0", "b"])).Nodup ∧ HintsFit exDef.retAnn 2 := ⟨by decide, ⟨_, rfl⟩⟩
/-- a reserved parameter name refuses the definition (2nd part of `C17_inputs`) -/
example : previewInputs [⟨"x", .empty, none⟩, ⟨"label", .empty, none⟩] = .error .reservedName := by rfl
/-- `C17_labels_declared`: two declared labels for two returned values, also with validation off for one
label on two values -/
example : previewOutputs { exDef with declared := some ["u", "v"] } = .ok [("u", some "T"), ("v", some "builtins.int")] := by rfl
example : previewOutputs { exDef with declared := some ["only"], validate := false, retAnn := .empty }
    = .ok [("only", none)] := by rfl
/-- without validation repeated labels collapse like a python `dict` (outside every theorem's hypotheses) -/
example : previewOutputs { exDef with declared := some ["s", "s"], validate := false, retAnn := .empty }
    = .ok [("s", none)] := by rfl
/-- `C17_labels_none`, `C17_labels_refused` (all three refusals) -/
example : previewOutputs { exDef with rets := [.bare], retAnn := .none_ } = .ok [("None", some "builtins.NoneType")] := by rfl
example : previewOutputs { exDef with declared := some ["u"] } = .error .countMismatch := by rfl
example : previewOutputs { exDef with declared := some ["u", "u"] } = .error .degenerate := by rfl
example : previewOutputs { exDef with rets := [.value (.single "a"), .value (.single "b")] } = .error .multipleReturns := by rfl
/-- scraped labels that repeat are refused by validation too (`return b, b`) -/
example : previewOutputs { exDef with rets := [.value (.tuple ["b", "b"])] } = .error .degenerate := by rfl
/-- a tuple annotation of the wrong length refuses the definition -/
example : previewOutputs { exDef with retAnn := .obj "tuple[T]" ["T"] } = .error .hintCount := by rfl
/-- `C17_fn_faithful` on it, computed by the model: construct with `('x', c=None)`, call with `(b=9)` -/
example :
    (match fnPreview exDef with
     | .ok (pin, pout) =>
       (match construct (setupNode pin pout) [.atom "sx"] [("c", .atom "None")] with
        | .ok n1 => some (call exF n1 [] [("b", .atom "i9")])
        | .error _ => none)
     | .error _ => none)
      = some ({ ins := [("a", .atom "sx"), ("b", .atom "i9"), ("c", .atom "None")],
                outs := [("r0", .node "app0" [] [.atom "sx", .atom "i9", .atom "None"]),
                         ("b", .node "app1" [] [.atom "sx", .atom "i9", .atom "None"])] },
              .ret (exF [.atom "sx", .atom "i9", .atom "None"])) := by rfl
example : (listPreview 2).1.map (·.label) = ["item_0", "item_1"] ∧ (unpackPreview 3).2.length = 3 := by decide
example : (dcInPreview witnessFields [some "builtins.int", some "builtins.list"]).map (fun p => (p.label, p.dflt))
    = [("x", .nd), ("z", .nd)] ∧ (dcNode witnessFields).ins = [("x", .nd), ("z", .atom "g()")] := ⟨rfl, rfl⟩

/-! ### argument-to-channel mapping by position, identity of default objects, sizes beyond one digit -/

/-- **which value reaches which parameter**: whenever Python binds `vs` (and then, by `C17_bind`, the node
hands its body exactly `vs`), the value at position `i` is — in this order of precedence — the `i`-th
positional value of the call, the call's keyword value named like parameter `i`, the `i`-th positional value
of the construction, the construction's keyword value of that name, and else the parameter's default: the
default OBJECT itself (values carry their identity, `Val.obj`), not something equal to it. -/
theorem C17_bind_positions (sig : Sig) (a1 : List Val) (k1 : List (String × Val)) (a2 : List Val)
    (k2 : List (String × Val)) (hnd : (sig.map (·.name)).Nodup) (vs : List Val)
    (hp : pyArgs sig a1 k1 a2 k2 = .ok vs) :
    vs.length = sig.length ∧
    ∀ i (hi : i < sig.length), vs[i]? =
      ((if i < a2.length then a2[i]? else k2.lookup sig[i].name) <|>
       (if i < a1.length then a1[i]? else k1.lookup sig[i].name) <|> sig[i].dflt) :=
  pyArgs_get sig a1 k1 a2 k2 hnd vs hp

/-- **the default is the parameter's default object**: class-level preview, the instance channel's
`default` and its initial `value` all hold the very object written as default in the signature (same
identity tag); and a parameter left out at construction and at call reaches the function body as that
object. -/
theorem C17_default_identity (ps : List FParam) (pin : List InPrev) (h : previewInputs ps = .ok pin)
    (i : Nat) (hi : i < ps.length) (id : Nat) (k : String) (hd : ps[i].dflt = some (.obj id k)) :
    (pin[i]?).map (·.dflt) = some (.obj id k) ∧
    ((setupIns pin)[i]?).map (·.dflt) = some (.obj id k) ∧
    ((setupIns pin)[i]?).map (·.value) = some (.obj id k) ∧
    ∀ (a1 : List Val) (k1 : List (String × Val)) (a2 : List Val) (k2 : List (String × Val)) (vs : List Val),
      ((ps.map (·.name)).Nodup) →
      pyArgs (ps.map fun p => { name := p.name, dflt := p.dflt }) a1 k1 a2 k2 = .ok vs →
      a1.length ≤ i → a2.length ≤ i → k1.lookup ps[i].name = none → k2.lookup ps[i].name = none →
      vs[i]? = some (.obj id k) := by
  have hpin := (previewInputs_inv ps pin h).1
  subst hpin
  refine ⟨?_, ?_, ?_, ?_⟩
  · simp [expectedIns, hi, hd]
  · simp [expectedIns, setupIns, hi, hd]
  · simp [expectedIns, setupIns, hi, hd]
  · intro a1 k1 a2 k2 vs hnd hp h1 h2 hk1 hk2
    have hnd' : ((ps.map fun p => ({ name := p.name, dflt := p.dflt } : Param)).map (·.name)).Nodup := by
      simpa [Function.comp_def] using hnd
    have := (pyArgs_get _ a1 k1 a2 k2 hnd' vs hp).2 i (by simpa using hi)
    rw [this]
    have n1 : ¬ i < a1.length := by omega
    have n2 : ¬ i < a2.length := by omega
    simp [n1, n2, hk1, hk2, hd]

/-- witness objects: `_UNSET = object(); def f(x=_UNSET): return "unset" if x is _UNSET else "given"` -/
def cwPin : List InPrev := [⟨"x", none, .obj 7 "sentinel"⟩]
def cwF : List Val → Val := fun vs =>
  if (vs.headD .nd).sameObj (.obj 7 "sentinel") then .atom "unset" else .atom "given"
def cwGood : Node := setupNode cwPin [("r", none)]
/-- the same node had `_setup_node` copied the defaults -/
def cwBad : Node := { cwGood with ins := chanPanel (setupInsCopied (fun i => 1000 + i) 0 cwPin) }

/-- a `_setup_node` that copied the defaults would keep every label and everything `==` can see, yet break
the statement: the channel holds an equal copy, not the object, and a function that asks `arg is _DEFAULT`
returns something else through the node than when called directly. -/
theorem C17_default_copy_witness :
    pyCall [⟨"x", some (.obj 7 "sentinel")⟩] cwF [] [] = .ok (.atom "unset") ∧
    (call cwF cwGood [] []).2 = .ret (.atom "unset") ∧
    (call cwF cwBad [] []).2 = .ret (.atom "given") ∧
    labels cwBad.ins = labels cwGood.ins ∧
    ((values cwBad.ins).zip (values cwGood.ins)).all (fun p => p.1.looksLike p.2 && !p.1.sameObj p.2) = true :=
  ⟨rfl, rfl, rfl, rfl, by decide⟩

/-- `inputs_to_list(n)`, **index order for every n**: the list has `n` entries and entry `i` is the value
supplied for `item_i` — positionally as the `i`-th value, or under the keyword `item_i`, at the call or
else at construction — whatever the order in which keywords were written, for every `n` (nothing is ever
sorted: `item_10` is entry 10, not entry 2). -/
theorem C17_xf_list_index_order (n : Nat) (a1 : List Val) (k1 : List (String × Val)) (a2 : List Val)
    (k2 : List (String × Val))
    (hk1 : (k1.map (·.1)).Nodup) (hk2 : (k2.map (·.1)).Nodup) (hd1 : DataVals a1 k1) (hd2 : DataVals a2 k2)
    (vs : List Val) (hp : pyArgs (noDefault (itemLabels "item_" n)) a1 k1 a2 k2 = .ok vs) :
    (∃ n1 n2, construct (inputsToListNode n) a1 k1 = .ok n1 ∧
      xfCall .toList n1 a2 k2 = (n2, .ret (Val.list vs)) ∧ n2.outs = [("list", Val.list vs)]) ∧
    vs.length = n ∧
    ∀ i, i < n → vs[i]? =
      ((if i < a2.length then a2[i]? else k2.lookup ("item_" ++ toString i)) <|>
       (if i < a1.length then a1[i]? else k1.lookup ("item_" ++ toString i))) := by
  have hnd : ((noDefault (itemLabels "item_" n)).map (·.name)).Nodup := by
    rw [noDefault_names]; exact itemLabels_nodup _ _
  obtain ⟨hl, hg⟩ := pyArgs_get _ a1 k1 a2 k2 hnd vs hp
  have hlen : (noDefault (itemLabels "item_" n)).length = n := by simp [noDefault, itemLabels]
  refine ⟨C17_xf_list n a1 k1 a2 k2 hk1 hk2 hd1 hd2 vs hp, by rw [hl, hlen], ?_⟩
  intro i hi
  have := hg i (by rw [hlen]; exact hi)
  rw [this]
  have hname : ((noDefault (itemLabels "item_" n))[i]'(by rw [hlen]; exact hi)).name = "item_" ++ toString i := by
    simp [noDefault, itemLabels]
  have hdf : ((noDefault (itemLabels "item_" n))[i]'(by rw [hlen]; exact hi)).dflt = none := by
    simp [noDefault]
  rw [hname, hdf]
  simp

/-- the values `v0 … v10` on `item_0 … item_10` -/
def elevenIns : Panel := (itemLabels "item_" 11).zip ((List.range 11).map fun i => Val.atom ("v" ++ toString i))

/-- **string order is not index order**: sorting the labels as strings gives the creation order for every
size up to 10 — all that examples and tests use — and a different one at 11 (`item_10` sorts before
`item_2`); a transformer body that went through `sorted(labels)` would hand back `v10` as third entry where
the body as coded (`xfBody`, channel order) returns `v0 … v10` in index order. -/
theorem C17_xf_list_sorted_witness :
    (∀ n, n ≤ 10 → sortLex (itemLabels "item_" n) = itemLabels "item_" n) ∧
    sortLex (itemLabels "item_" 11)
      = ["item_0", "item_1", "item_10", "item_2", "item_3", "item_4", "item_5", "item_6", "item_7", "item_8", "item_9"] ∧
    sortLex (itemLabels "item_" 11) ≠ itemLabels "item_" 11 ∧
    xfBody .toList elevenIns = some (Val.list ((List.range 11).map fun i => Val.atom ("v" ++ toString i))) ∧
    listBodySorted elevenIns = Val.list (["v0", "v1", "v10", "v2", "v3", "v4", "v5", "v6", "v7", "v8", "v9"].map Val.atom) ∧
    some (listBodySorted elevenIns) ≠ xfBody .toList elevenIns := by
  refine ⟨by decide, by decide, by decide, rfl, rfl, ?_⟩
  have h1 : listBodySorted elevenIns
      = Val.list (["v0", "v1", "v10", "v2", "v3", "v4", "v5", "v6", "v7", "v8", "v9"].map Val.atom) := rfl
  have h2 : xfBody .toList elevenIns = some (Val.list ((List.range 11).map fun i => Val.atom ("v" ++ toString i))) := rfl
  rw [h1, h2]
  simp only [Val.list, List.range, List.range.loop, List.map_cons, List.map_nil, ne_eq, Option.some.injEq,
    Val.node.injEq, List.cons.injEq, Val.atom.injEq, true_and, and_true, not_and]
  intro _ _ h
  exact absurd h (by decide)

/-! ### one node class per defining object (the `classfactory` registry) -/

/-- every class in the registry is the one the factory builds for its own defining object -/
def RegOk {α : Type} (mk : Nat → α) (reg : List (RegEntry α)) : Prop := ∀ e ∈ reg, e.cls = mk e.ident

/-- the property's "a node made from <definition>" for the class registry: whatever was requested before,
the class handed out for a defining object is the class of THAT object -/
def ClassPerDefinition (byName : Bool) : Prop :=
  ∀ {α : Type} (mk : Nat → α) (reqs : List (String × Nat)),
    classesFor byName mk [] reqs = reqs.map fun r => mk r.2

theorem classesFor_ok {α : Type} (mk : Nat → α) (reg : List (RegEntry α)) (h : RegOk mk reg)
    (reqs : List (String × Nat)) : classesFor false mk reg reqs = reqs.map fun r => mk r.2 := by
  induction reqs generalizing reg with
  | nil => rfl
  | cons r rest ih =>
    obtain ⟨name, ident⟩ := r
    simp only [classesFor, List.map_cons]
    unfold classFor
    cases hf : reg.find? (fun e => e.name == name && (false || e.ident == ident)) with
    | some e =>
      have hm := List.mem_of_find?_eq_some hf
      have hp := List.find?_some hf
      simp only [Bool.false_or, Bool.and_eq_true, beq_iff_eq] at hp
      simp only
      rw [ih reg h, h e hm, hp.2]
    | none =>
      simp only
      rw [ih _ (by
        intro e he
        simp only [List.mem_cons] at he
        rcases he with rfl | he
        · rfl
        · exact h e he)]

/-- with the repair (the registry is consulted by name AND defining object) every request gets its own class -/
theorem C17_class_per_definition_repaired : ClassPerDefinition false := by
  intro α mk reqs
  exact classesFor_ok mk [] (by intro e he; cases he) reqs

/-- on the pinned code (by name alone) the second of two defining objects that share a name gets the class
of the first: `inputs_to_dict({"a": (None, -1)})` then `inputs_to_dict({"a": (None, -2)})` (`hash(-1) ==
hash(-2)`), or two dataclasses called `Input` from two modules handed to `dataclass_node` -/
theorem C17_class_per_definition_witness : ¬ ClassPerDefinition true := by
  intro h
  have := @h Nat id [("InputsToDictm2", 1), ("InputsToDictm2", 2)]
  revert this
  decide

/-- a session that asks for three different definitions, two of them under one name, and for the first one
again: with the repair each gets its own class and the repeated request gets the same class back -/
example : classesFor false id [] [("D", 1), ("D", 2), ("E", 3), ("D", 1)] = [1, 2, 3, 1] := by decide
example : classesFor true id [] [("D", 1), ("D", 2), ("E", 3), ("D", 1)] = [1, 1, 3, 1] := by decide

/-! ### non-vacuity of the identity and size theorems -/

/-- `_UNSET = object(); def g(a, x=_UNSET, y=[…])` with `y`'s default a (shared, mutable) list object -/
def exIdParams : List FParam :=
  [⟨"a", .empty, none⟩, ⟨"x", .empty, some (.obj 7 "sentinel")⟩, ⟨"y", .obj "builtins.list", some (.obj 8 "list")⟩]
def exIdSig : Sig := exIdParams.map fun p => { name := p.name, dflt := p.dflt }
/-- a body whose result depends on `x is _UNSET` -/
def exIdF (vs : List Val) : Val :=
  if (vs.getD 1 .nd).sameObj (.obj 7 "sentinel") then .node "app0" [] vs else .node "app50" [] vs

/-- hypotheses of `C17_default_identity` / `C17_bind_positions`: the preview exists, Python binds -/
example : previewInputs exIdParams = .ok [⟨"a", none, .nd⟩, ⟨"x", none, .obj 7 "sentinel"⟩, ⟨"y", some "builtins.list", .obj 8 "list"⟩] := rfl
example : pyArgs exIdSig [.atom "i1"] [] [] [] = .ok [.atom "i1", .obj 7 "sentinel", .obj 8 "list"] := rfl
/-- left at its default the body sees the sentinel itself; given an equal-looking other object, or the
sentinel explicitly, Python and the node still agree (computed by the model) -/
example : (match construct (mkNode exIdSig ["r"]) [.atom "i1"] [] with
    | .ok n1 => some (call exIdF n1 [] []).2 | .error _ => none)
    = some (.ret (.node "app0" [] [.atom "i1", .obj 7 "sentinel", .obj 8 "list"])) := rfl
example : pyCall2 exIdSig exIdF [.atom "i1"] [] [] [("x", .obj 9 "sentinel")]
    = .ok (.node "app50" [] [.atom "i1", .obj 9 "sentinel", .obj 8 "list"]) := rfl
example : (match construct (mkNode exIdSig ["r"]) [.atom "i1"] [] with
    | .ok n1 => some (call exIdF n1 [] [("x", .obj 9 "sentinel")]).2 | .error _ => none)
    = some (.ret (.node "app50" [] [.atom "i1", .obj 9 "sentinel", .obj 8 "list"])) := rfl
example : (match construct (mkNode exIdSig ["r"]) [.atom "i1"] [("x", .obj 7 "sentinel")] with
    | .ok n1 => some (call exIdF n1 [] []).2 | .error _ => none)
    = some (.ret (.node "app0" [] [.atom "i1", .obj 7 "sentinel", .obj 8 "list"])) := rfl
/-- "same object" and "equal copy" are different things in the model -/
example : (Val.obj 7 "sentinel").looksLike ((Val.obj 7 "sentinel").copyAs 1000) = true ∧
    (Val.obj 7 "sentinel").sameObj ((Val.obj 7 "sentinel").copyAs 1000) = false ∧
    (Val.obj 7 "sentinel").copyAs 1000 ≠ Val.obj 7 "sentinel" := ⟨rfl, rfl, by simp [Val.copyAs]⟩
/-- hypothesis of `C17_xf_list_index_order` at a size past one digit: five positional values at construction,
`item_5 … item_11` by keyword at the call, written in reverse -/
example : pyArgs (noDefault (itemLabels "item_" 12))
    ((List.range 5).map fun i => Val.atom ("v" ++ toString i)) [] []
    (((List.range 7).map fun j => ("item_" ++ toString (11 - j), Val.atom ("v" ++ toString (11 - j)))))
    = .ok ((List.range 12).map fun i => Val.atom ("v" ++ toString i)) := by rfl
example : (match construct (inputsToListNode 12) ((List.range 5).map fun i => Val.atom ("v" ++ toString i)) [] with
    | .ok n1 => some (xfCall .toList n1 []
        (((List.range 7).map fun j => ("item_" ++ toString (11 - j), Val.atom ("v" ++ toString (11 - j)))))).2
    | .error _ => none)
    = some (.ret (Val.list ((List.range 12).map fun i => Val.atom ("v" ++ toString i)))) := by rfl
/-- `list_to_outputs(12)`: item 10 goes to the output `item_10` (eleventh channel), item 2 to `item_2` -/
example : ((unpackCall (listToOutputsNode 12) [Val.list ((List.range 12).map fun i => Val.atom ("v" ++ toString i))] []).1.outs)
    = (List.range 12).map fun i => ("item_" ++ toString i, Val.atom ("v" ++ toString i)) := by rfl

/-! ### what `ParseOutput` reads off the source: the function's own return, element by element -/

/-- the texts of the values of a `return` statement, as `get_string` cuts them out of the source -/
def retTexts (byteCols : Bool) (src : List (List Char)) : RetVal → List String
  | .tuple sps => sps.map (getString byteCols src)
  | .other sp => [getString byteCols src sp]

/-- **labelled as written in THE function's return statement**: whenever the walk stays in the function's own
scope (the repaired walk; or the pinned `ast.walk` on a body whose nested `def`s / classes contain no `return`),
the scraped labels are determined by the function's OWN `return` statements alone — whatever nested functions,
classes, lambdas, branches, loops, `try` / `with` blocks surround them, at any depth:
no own return or a bare one ⇒ no labels (`None`); exactly one ⇒ the source texts of its values, in order
(`return None` ⇒ `None`); two or more ⇒ refused. -/
theorem C17_scrape_own_return (cfg : ScrapeCfg) (src : List (List Char)) (body : List PStmt)
    (h : cfg.walkNested = false ∨ nestedRetL body = false) :
    (retsOfL false body = [] ∨ retsOfL false body = [none] → scrape cfg src body = .ok none) ∧
    (∀ sps, retsOfL false body = [some (.tuple sps)] →
      scrape cfg src body = .ok (some (sps.map (getString cfg.byteCols src)))) ∧
    (∀ sp, retsOfL false body = [some (.other sp)] →
      scrape cfg src body
        = .ok (if getString cfg.byteCols src sp = "None" then none else some [getString cfg.byteCols src sp])) ∧
    (∀ r1 r2 rest, retsOfL false body = r1 :: r2 :: rest → scrape cfg src body = .error .multipleReturns) := by
  have hw : retsOfL cfg.walkNested body = retsOfL false body := by
    rcases h with h | h
    · rw [h]
    · cases hc : cfg.walkNested with
      | false => rfl
      | true => exact retsOfL_agree body h
  unfold scrape retStmts
  rw [hw]
  refine ⟨?_, ?_, ?_, ?_⟩
  · intro h0
    rcases h0 with h0 | h0 <;> rw [h0] <;> simp [toRetStmt, parseOutput]
  · intro sps h0; rw [h0]; simp [toRetStmt, parseOutput]
  · intro sp h0; rw [h0]; simp [toRetStmt, parseOutput]
  · intro r1 r2 rest h0; rw [h0]; simp [parseOutput]

/-- **the text of a value is what is written**: for a value written on one line, occupying the characters
`a … b` of it, the label is exactly that piece of the line (runs of white space collapsed to their last
character, nothing else changed) — with character columns on every line, with the pinned byte columns on
lines made of ASCII characters only. -/
theorem C17_scrape_text (byteCols : Bool) (src : List (List Char)) (k a b : Nat) (line : List Char)
    (hl : src[k]? = some line) (hab : a ≤ b) (hb : b ≤ line.length)
    (hcols : byteCols = false ∨ ascii line = true) :
    getString byteCols src ⟨k + 1, bytes (line.take a), k + 1, bytes (line.take b)⟩
      = String.ofList (removeSpaces (slice line a b)) ∧
    (noWsPair (slice line a b) = true →
      getString byteCols src ⟨k + 1, bytes (line.take a), k + 1, bytes (line.take b)⟩
        = String.ofList (slice line a b)) := by
  have h := getString_single byteCols src k a b line hl hab hb hcols
  refine ⟨h, fun hn => ?_⟩
  rw [h, removeSpaces_id _ hn]

/-- the source of `def f(x):` / `    def pair(y):` / `        return y, y + 1` / `    print(pair(x))` -/
def nestedSrc : List (List Char) :=
  ["def f(x):", "    def pair(y):", "        return y, y + 1", "    print(pair(x))"].map String.toList
/-- its body: a nested `def` (a scope) holding the only `return` of the file, then an expression statement -/
def nestedBody : List PStmt :=
  [.inner true [.ret (some (.tuple [⟨3, 15, 3, 16⟩, ⟨3, 18, 3, 23⟩]))], .leaf]

/-- the pinned walk (`ast.walk`) enters nested functions: `f` has no `return` of its own, yet gets the two
labels written in the return statement of its helper `pair` (and the node then cannot store `None` on two
outputs); the walk that stays in the function's scope gives no labels, i.e. the single output `None`. -/
theorem C17_scrape_nested_witness :
    retsOfL false nestedBody = [] ∧
    scrape ScrapeCfg.pinned nestedSrc nestedBody = .ok (some ["y", "y + 1"]) ∧
    scrape { ScrapeCfg.pinned with walkNested := false } nestedSrc nestedBody = .ok none := by
  refine ⟨by rfl, by rfl, by rfl⟩

/-- `    return σ, ε` -/
def greekSrc : List (List Char) := ["def f(σ, ε):", "    return σ, ε"].map String.toList
/-- the spans `ast` reports for the two names: byte offsets 11–13 and 15–17 (each letter is two bytes) -/
def greekBody : List PStmt := [.ret (some (.tuple [⟨2, 11, 2, 13⟩, ⟨2, 15, 2, 17⟩]))]

/-- the pinned text cutter uses the byte offsets as character indices: after a non-ASCII character on the
line the labels are shifted (`"σ,"` and `""` for `return σ, ε`); with character columns they are `σ`, `ε`. -/
theorem C17_scrape_bytecols_witness :
    scrape ScrapeCfg.pinned greekSrc greekBody = .ok (some ["σ,", ""]) ∧
    scrape { ScrapeCfg.pinned with byteCols := false } greekSrc greekBody = .ok (some ["σ", "ε"]) := by
  refine ⟨by rfl, by rfl⟩

/-- the definition layer on top of the source: a function definition whose `return` statements are the ones
read off its source -/
def FnDef.ofSource (cfg : ScrapeCfg) (src : List (List Char)) (body : List PStmt) (params : List FParam)
    (declared : Option (List String)) (validate : Bool) (retAnn : RetAnn) : FnDef :=
  { params := params, rets := retStmts cfg src body, declared := declared, validate := validate, retAnn := retAnn }

/-- **from the source file to the output labels**: for a definition without declared labels whose own scope
holds exactly one `return`, of an `ast.Tuple` with spans `sps` — anywhere in the body, under any nesting — the
outputs are labelled with the source texts of the tuple's elements, in order (provided these are distinct and
the return annotation fits). -/
theorem C17_labels_from_source (cfg : ScrapeCfg) (src : List (List Char)) (body : List PStmt)
    (h : cfg.walkNested = false ∨ nestedRetL body = false)
    (params : List FParam) (validate : Bool) (retAnn : RetAnn) (sps : List Span)
    (hown : retsOfL false body = [some (.tuple sps)]) (hne : sps ≠ [])
    (hnd : (sps.map (getString cfg.byteCols src)).Nodup)
    (hh : HintsFit retAnn sps.length) :
    ∃ pout, previewOutputs (FnDef.ofSource cfg src body params none validate retAnn) = .ok pout ∧
      pout.map (·.1) = sps.map (getString cfg.byteCols src) := by
  have hw : retsOfL cfg.walkNested body = retsOfL false body := by
    rcases h with h | h
    · rw [h]
    · cases hc : cfg.walkNested with
      | false => rfl
      | true => exact retsOfL_agree body h
  have hr : (FnDef.ofSource cfg src body params none validate retAnn).rets
      = [.value (.tuple (sps.map (getString cfg.byteCols src)))] := by
    simp [FnDef.ofSource, retStmts, hw, hown, toRetStmt]
  have := C17_labels_scraped (FnDef.ofSource cfg src body params none validate retAnn)
    (.tuple (sps.map (getString cfg.byteCols src))) rfl hr (by simp) (by simpa [written] using hne)
    (by simpa [written] using hnd) (by simpa [written, FnDef.ofSource] using hh)
  simpa [written] using this

/-! ### parameters of every kind -/

/-- **one input per parameter of whatever kind**: the preview exists exactly when no parameter is refused, and then
lists every parameter, in order, with its default; a parameter is refused for a name among the keywords of
`Node.__init__`, and — with the repairs — for a name among the keywords of `Node.run` and for being variadic. -/
theorem C17_inputs_kinds (cfg : KindCfg) (ps : List KParam) :
    (∀ pin, previewKinds cfg ps = .ok pin →
      pin = ps.map (fun p => (p.name, p.dflt.getD .nd)) ∧ ∀ p ∈ ps, p.refusal cfg = none) ∧
    ((∀ p ∈ ps, p.refusal cfg = none) →
      previewKinds cfg ps = .ok (ps.map fun p => (p.name, p.dflt.getD .nd))) ∧
    (∀ p : KParam, p.refusal cfg = none ↔
      (initKeywords.contains p.name = false ∧ (cfg.runNamesFree = false → runKeywords.contains p.name = false) ∧
       (cfg.variadicByName = false → p.kind.variadic = false))) := by
  refine ⟨?_, ?_, ?_⟩
  · induction ps with
    | nil => intro pin h; simp [previewKinds] at h; subst h; simp
    | cons p ps ih =>
      intro pin h
      simp only [previewKinds] at h
      cases hr : p.refusal cfg with
      | some e => simp [hr] at h
      | none =>
        simp only [hr] at h
        cases hp : previewKinds cfg ps with
        | error e => simp [hp, Except.map] at h
        | ok r =>
          simp only [hp, Except.map, Except.ok.injEq] at h
          obtain ⟨e1, e2⟩ := ih r hp
          refine ⟨by rw [← h, e1]; rfl, ?_⟩
          intro q hq
          simp only [List.mem_cons] at hq
          rcases hq with rfl | hq
          · exact hr
          · exact e2 q hq
  · induction ps with
    | nil => intro _; rfl
    | cons p ps ih =>
      intro h
      simp only [previewKinds, h p (by simp), List.map_cons]
      rw [ih fun q hq => h q (List.mem_cons_of_mem _ hq)]
      rfl
  · intro p
    unfold KParam.refusal
    cases h1 : initKeywords.contains p.name <;> cases h2 : cfg.runNamesFree <;>
      cases h3 : runKeywords.contains p.name <;> cases h4 : cfg.variadicByName <;>
      cases h5 : p.kind.variadic <;> simp

/-- **binding over all parameter kinds**: for every signature of positional-only, positional-or-keyword and
keyword-only parameters, whenever Python's own (kind-aware) binder binds `vs` for the two splits, the node —
whose binder knows no kinds — is built and hands its body exactly `vs`.  (The converse fails on purpose: the
node also takes a keyword-only input positionally and a positional-only one by keyword, see the examples.) -/
theorem C17_bind_kinds (ps : List KParam) (outs : List String)
    (a1 : List Val) (k1 : List (String × Val)) (a2 : List Val) (k2 : List (String × Val))
    (hnd : (ps.map (·.name)).Nodup) (hk1 : (k1.map (·.1)).Nodup) (hk2 : (k2.map (·.1)).Nodup)
    (hs : DataSig (sigOf ps)) (hd1 : DataVals a1 k1) (hd2 : DataVals a2 k2)
    (vs : List Val) (hp : pyArgsK ps a1 k1 a2 k2 = .ok vs) :
    ∃ n1 g, construct (mkNode (sigOf ps) outs) a1 k1 = .ok n1 ∧ gate n1 a2 k2 = (g, .ok vs) ∧
      values g.ins = vs ∧ labels g.ins = ps.map (·.name) ∧ g.outs = outs.map fun l => (l, Val.nd) := by
  have hp' := pyArgsK_plain ps a1 k1 a2 k2 hnd vs hp
  obtain ⟨n1, g, hc, hg, hv, hl, ho⟩ := bind_ok (mkNode (sigOf ps) outs) (sigOf ps) rfl a1 k1 a2 k2
    (by rw [sigOf_names]; exact hnd) hk1 hk2 hs hd1 hd2 vs hp'
  exact ⟨n1, g, hc, hg, hv, by rw [hl, sigOf_names], ho⟩

/-- what the property demands of a function node whose parameters are of any non-variadic kind: whenever
Python's call binds `vs`, the node run processes exactly the object `F vs` the function returns -/
def KindsStatement (cfg : KindCfg) : Prop :=
  ∀ (ps : List KParam) (outs : List String) (F : List Val → Val)
    (a1 : List Val) (k1 : List (String × Val)) (a2 : List Val) (k2 : List (String × Val)),
    (∀ p ∈ ps, p.kind.variadic = false) → (∀ p ∈ ps, runKeywords.contains p.name = false) →
    (ps.map (·.name)).Nodup → (k1.map (·.1)).Nodup → (k2.map (·.1)).Nodup →
    DataSig (sigOf ps) → DataVals a1 k1 → DataVals a2 k2 →
    ∀ vs, pyArgsK ps a1 k1 a2 k2 = .ok vs →
      ∃ n1 n2, construct (mkNode (sigOf ps) outs) a1 k1 = .ok n1 ∧
        callK cfg F ps n1 a2 k2 = finish n2 (F vs) ∧ n2.outs = outs.map fun l => (l, Val.nd)

/-- it holds whenever positional-only values are not handed over by keyword, or there is no such parameter -/
theorem C17_run_kinds_partial (cfg : KindCfg) (ps : List KParam)
    (hyp : cfg.posOnlyByKeyword = false ∨ ∀ p ∈ ps, p.kind ≠ .posOnly)
    (outs : List String) (F : List Val → Val)
    (a1 : List Val) (k1 : List (String × Val)) (a2 : List Val) (k2 : List (String × Val))
    (hv : ∀ p ∈ ps, p.kind.variadic = false) (hrun : ∀ p ∈ ps, runKeywords.contains p.name = false)
    (hnd : (ps.map (·.name)).Nodup) (hk1 : (k1.map (·.1)).Nodup) (hk2 : (k2.map (·.1)).Nodup)
    (hs : DataSig (sigOf ps)) (hd1 : DataVals a1 k1) (hd2 : DataVals a2 k2)
    (vs : List Val) (hp : pyArgsK ps a1 k1 a2 k2 = .ok vs) :
    ∃ n1 n2, construct (mkNode (sigOf ps) outs) a1 k1 = .ok n1 ∧
      callK cfg F ps n1 a2 k2 = finish n2 (F vs) ∧ n2.outs = outs.map fun l => (l, Val.nd) := by
  obtain ⟨n1, g, hc, hg, _, _, ho⟩ := C17_bind_kinds ps outs a1 k1 a2 k2 hnd hk1 hk2 hs hd1 hd2 vs hp
  obtain ⟨hclash, hfilter⟩ := runKeywords_pass ps k2 (pyArgsK_keys ps a1 k1 a2 k2 vs hp) hrun
  refine ⟨n1, g, hc, ?_, ho⟩
  have h1 : (cfg.posOnlyByKeyword && ps.any (fun p => p.kind == .posOnly)) = false := by
    rcases hyp with h | h
    · simp [h]
    · have : ps.any (fun p => p.kind == .posOnly) = false := by
        simp only [List.any_eq_false, beq_iff_eq]
        exact fun p hp => h p hp
      simp [this]
  have h2 : ps.any (fun p => p.kind == .varPos) = false := by
    simp only [List.any_eq_false, beq_iff_eq]
    intro p hp e
    have := hv p hp
    rw [e] at this
    cases this
  unfold callK
  simp only [hclash, Bool.false_eq_true, if_false, hfilter]
  rw [hg]
  simp [h1, h2]

theorem C17_run_kinds_repaired : KindsStatement KindCfg.repaired := by
  intro ps outs F a1 k1 a2 k2 hv hrun hnd hk1 hk2 hs hd1 hd2 vs hp
  exact C17_run_kinds_partial KindCfg.repaired ps (Or.inl rfl) outs F a1 k1 a2 k2 hv hrun hnd hk1 hk2 hs hd1 hd2 vs hp

/-- `def f(a, /): return r` — Python's `f(1)` binds `[1]`; the pinned node takes the 1 and then calls
`f(a=1)`, which Python refuses: the node of a function with a positional-only parameter can never run -/
theorem C17_run_kinds_witness : ¬ KindsStatement KindCfg.pinned := by
  intro h
  obtain ⟨n1, n2, hc, hcall, _⟩ := h [⟨"a", .posOnly, none⟩] ["r"] (fun vs => .node "app0" [] vs)
    [] [] [.atom "i1"] [] (by decide) (by decide) (by decide) (by simp) (by simp)
    (by intro p hp v hv; simp [sigOf] at hp; subst hp; simp at hv)
    ⟨by simp, by simp⟩ ⟨by simp [Val.isData], by simp⟩ [.atom "i1"] rfl
  have e : n1 = mkNode (sigOf [⟨"a", .posOnly, none⟩]) ["r"] := by
    have : construct (mkNode (sigOf [⟨"a", .posOnly, none⟩]) ["r"]) [] []
        = .ok (mkNode (sigOf [⟨"a", .posOnly, none⟩]) ["r"]) := rfl
    rw [this] at hc; cases hc; rfl
  subst e
  have hl : (callK KindCfg.pinned (fun vs => .node "app0" [] vs) [⟨"a", .posOnly, none⟩]
      (mkNode (sigOf [⟨"a", .posOnly, none⟩]) ["r"]) [.atom "i1"] []).2 = .typeError := rfl
  rw [hcall] at hl
  unfold finish at hl
  split at hl <;> cases hl

/-- what the property demands of parameter NAMES: a definition that becomes a node class has no parameter called
like a keyword of `Node.run` — such a parameter could not be given its value by keyword at call time -/
def RunNamesStatement (cfg : KindCfg) : Prop :=
  ∀ ps pin, previewKinds cfg ps = .ok pin → ∀ p ∈ ps, runKeywords.contains p.name = false

theorem C17_run_names_repaired : RunNamesStatement KindCfg.repaired := by
  intro ps pin h p hp
  have hr := ((C17_inputs_kinds KindCfg.repaired ps).1 pin h).2 p hp
  exact (((C17_inputs_kinds KindCfg.repaired ps).2.2 p).mp hr).2.1 rfl

/-- `def f(x, fetch_input=2)`: the pinned preview makes it a node class; Python's `f(1, fetch_input=5)` binds
`[1, 5]`, the node's call collides with the `fetch_input=True` that `pull` writes (`TypeError`, nothing set);
and for `def g(x, raise_run_exceptions=2)` the caller's 5 is taken for the run flag: the body gets the default -/
theorem C17_run_names_witness :
    ¬ RunNamesStatement KindCfg.pinned ∧
    pyArgsK [⟨"x", .posOrKw, none⟩, ⟨"fetch_input", .posOrKw, some (.atom "i2")⟩] [] [] [.atom "i1"] [("fetch_input", .atom "i5")]
      = .ok [.atom "i1", .atom "i5"] ∧
    (callK KindCfg.pinned (fun vs => .node "app0" [] vs) [⟨"x", .posOrKw, none⟩, ⟨"fetch_input", .posOrKw, some (.atom "i2")⟩]
      (mkNode (sigOf [⟨"x", .posOrKw, none⟩, ⟨"fetch_input", .posOrKw, some (.atom "i2")⟩]) ["r"])
      [.atom "i1"] [("fetch_input", .atom "i5")]).2 = .typeError ∧
    (callK KindCfg.pinned (fun vs => .node "app0" [] vs) [⟨"x", .posOrKw, none⟩, ⟨"raise_run_exceptions", .posOrKw, some (.atom "i2")⟩]
      (mkNode (sigOf [⟨"x", .posOrKw, none⟩, ⟨"raise_run_exceptions", .posOrKw, some (.atom "i2")⟩]) ["r"])
      [.atom "i1"] [("raise_run_exceptions", .atom "i5")]).2 = .ret (.node "app0" [] [.atom "i1", .atom "i2"]) := by
  refine ⟨?_, rfl, rfl, rfl⟩
  intro h
  have := h [⟨"fetch_input", .posOrKw, none⟩] [("fetch_input", .nd)] rfl ⟨"fetch_input", .posOrKw, none⟩ (by simp)
  revert this
  decide

/-- variadics: the pinned preview refuses `*args` / `**kwargs` by their NAMES only — `def g(a, *rest)` gets an
input `rest` that no value can satisfy (`g(rest=…)` is an unexpected keyword); the repaired one refuses every
variadic parameter -/
theorem C17_variadic_witness :
    previewKinds KindCfg.pinned [⟨"a", .posOrKw, none⟩, ⟨"args", .varPos, none⟩] = .error .reservedName ∧
    previewKinds KindCfg.pinned [⟨"a", .posOrKw, none⟩, ⟨"rest", .varPos, none⟩] = .ok [("a", .nd), ("rest", .nd)] ∧
    (callK KindCfg.pinned (fun vs => .node "app0" [] vs) [⟨"a", .posOrKw, none⟩, ⟨"rest", .varPos, none⟩]
      (mkNode (sigOf [⟨"a", .posOrKw, none⟩, ⟨"rest", .varPos, none⟩]) ["r"])
      [.atom "i1", Val.tuple [.atom "i2"]] []).2 = .typeError ∧
    previewKinds KindCfg.repaired [⟨"a", .posOrKw, none⟩, ⟨"rest", .varPos, none⟩] = .error .variadic :=
  ⟨rfl, rfl, rfl, rfl⟩

/-- non-vacuity: `def f(a, /, b, *, c=3)`: Python binds `f(1, 2)`, `f(1, b=2, c=5)`; refuses `f(a=1, b=2)` and
`f(1, 2, 5)`; the kind-blind node binder takes all four -/
def exKinds : List KParam := [⟨"a", .posOnly, none⟩, ⟨"b", .posOrKw, none⟩, ⟨"c", .kwOnly, some (.atom "i3")⟩]
example : pyArgsK exKinds [] [] [.atom "i1", .atom "i2"] [] = .ok [.atom "i1", .atom "i2", .atom "i3"] := rfl
example : pyArgsK exKinds [.atom "i1"] [] [] [("c", .atom "i5"), ("b", .atom "i2")] = .ok [.atom "i1", .atom "i2", .atom "i5"] := rfl
example : pyArgsK exKinds [] [] [] [("a", .atom "i1"), ("b", .atom "i2")] = .error .unexpectedKeyword := rfl
example : pyArgsK exKinds [] [] [.atom "i1", .atom "i2", .atom "i5"] [] = .error .tooManyPositional := rfl
example : pyArgs (sigOf exKinds) [] [] [] [("a", .atom "i1"), ("b", .atom "i2")] = .ok [.atom "i1", .atom "i2", .atom "i3"] := rfl
example : pyArgs (sigOf exKinds) [] [] [.atom "i1", .atom "i2", .atom "i5"] [] = .ok [.atom "i1", .atom "i2", .atom "i5"] := rfl

/-! ### dataclass hierarchies: the field table along the MRO; which members are inputs; per-class previews -/

/-- **the node works with the table Python's `dataclass()` gives the class**, whether the leaf was decorated in
the source or is converted by the factory (the factory converts exactly the classes that were not decorated
THEMSELVES — an inherited table does not count), for every chain of ancestors -/
theorem C17_dc_mro_as_coded (chain : List DClass) (leaf : DClass) :
    nodeTable false chain leaf = pythonTable chain leaf := by
  unfold nodeTable
  cases leaf.decorated <;> simp

/-- **what that table is**: every member written in the body of the class itself is in it under its name — a
redefined default, annotation or factory wins over the inherited one — and every other name shows what the
ancestors' tables, merged base-most first, show for it -/
theorem C17_dc_mro_own_wins (chain : List DClass) (leaf : DClass) (hnd : (leaf.own.map (·.name)).Nodup) :
    (∀ f ∈ leaf.own, (pythonTable chain leaf).find? (fun g => g.name == f.name) = some f) ∧
    (∀ n, (∀ f ∈ leaf.own, f.name ≠ n) →
      (pythonTable chain leaf).find? (fun g => g.name == n)
        = (process (seenTables [] chain) []).find? (fun g => g.name == n)) := by
  refine ⟨fun f hf => putAll_find_own _ _ hnd f hf, fun n hn => ?_⟩
  unfold pythonTable process
  rw [putAll_find_other _ _ n hn]
  rfl

/-- `@dataclass class Lattice: element: str; a: float = 4.05` -/
def lattice : DClass := ⟨true, [⟨"element", .none, .field, true, none⟩, ⟨"a", .value (.atom "4.05"), .field, true, none⟩]⟩
/-- `class Supercell(Lattice): a: float = 3.61; repeat: int = 2; tags: list = field(default_factory=list)` -/
def supercell : DClass :=
  ⟨false, [⟨"a", .value (.atom "3.61"), .field, true, none⟩, ⟨"repeat", .value (.atom "2"), .field, true, none⟩,
           ⟨"tags", .factory (.atom "list()"), .field, true, none⟩]⟩

/-- the reading `if not is_dataclass(cls)` takes a class that only INHERITS a table for finished: the
undecorated `Supercell(Lattice)` keeps `Lattice`'s two fields with the old default, where Python's `dataclass()`
— and the factory as coded — gives `element, a (= 3.61, in its inherited place), repeat, tags` -/
theorem C17_dc_mro_isdataclass_witness :
    (pythonTable [lattice] supercell).map (·.name) = ["element", "a", "repeat", "tags"] ∧
    (nodeTable false [lattice] supercell).map (·.name) = ["element", "a", "repeat", "tags"] ∧
    (nodeTable true [lattice] supercell).map (·.name) = ["element", "a"] ∧
    ((pythonTable [lattice] supercell).find? (fun g => g.name == "a")).map (fun f => f.dflt matches .value (.atom "3.61")) = some true ∧
    ((nodeTable true [lattice] supercell).find? (fun g => g.name == "a")).map (fun f => f.dflt matches .value (.atom "4.05")) = some true := by
  decide

/-- an undecorated class in the MIDDLE of the chain shows its parent's table: its own members are lost for its
children (Python's semantics, transcribed) -/
example : (pythonTable [lattice, ⟨false, [⟨"mid", .none, .field, true, none⟩]⟩] ⟨false, [⟨"z", .none, .field, true, none⟩]⟩).map (·.name)
    = ["element", "a", "z"] := by decide

/-- what the property demands of the members of a dataclass: the node's inputs are the parameters of the
dataclass's `__init__`, so that `D(**inputs)` can be built -/
def DcInitStatement (raw : Bool) : Prop := ∀ tbl : List DField, buildable (inputFields raw tbl) = true

theorem C17_dc_inputs_repaired : DcInitStatement false := by
  intro tbl
  simp [buildable, inputFields, List.all_filter]

/-- one input per entry of `__dataclass_fields__` (pinned) includes `ClassVar` pseudo-fields and `init=False`
fields, which `D(**inputs)` refuses: such a node can never run -/
theorem C17_dc_inputs_witness : ¬ DcInitStatement true := by
  intro h
  have := h [⟨"x", .value (.atom "1"), .field, true, none⟩, ⟨"unit", .value (.atom "m"), .classVar, true, none⟩]
  revert this
  decide

/-- **previews are per class**: with the memo keyed by the asking class, every request of every session — in
whatever order parents and children are defined, previewed and instantiated — gets the preview built from the
class's own definition -/
theorem C17_preview_per_class {α : Type} (parent : Nat → Option Nat) (fuel : Nat) (build : Nat → α)
    (reqs : List Nat) : memoRun false parent fuel build (fun _ => none) reqs = reqs.map build :=
  memoRun_perClass parent fuel build _ (by intro c v h; cases h) reqs

/-- kept in a class attribute that children inherit, a child asked after its parent gets the parent's preview
(class 1 extends class 0; asked in the other order both are right) -/
theorem C17_preview_inherited_witness :
    memoRun true (fun c => if c = 1 then some 0 else none) 2 (fun c => c + 10) (fun _ => none) [0, 1] = [10, 10] ∧
    memoRun true (fun c => if c = 1 then some 0 else none) 2 (fun c => c + 10) (fun _ => none) [1, 0] = [11, 10] ∧
    memoRun false (fun c => if c = 1 then some 0 else none) 2 (fun c => c + 10) (fun _ => none) [0, 1] = [10, 11] := by
  decide

/-! ### default factories are applied per instance -/

/-- **instances are independent**: whatever happened before — other instances of the same node class set up, their
factory-made values mutated — a newly set up instance holds, for every factory field, a NEW object (its identity
was never handed out before) with exactly the factory's product as content; and appending to an older object
afterwards does not change what the new instance holds. -/
theorem C17_factory_per_instance (h : Heap) (facs : List (List Val)) :
    (∀ i ∈ (newInst h facs).1, h.next ≤ i) ∧
    (newInst h facs).1.length = facs.length ∧
    (∀ k (hk : k < facs.length), (newInst h facs).2.cell (h.next + k) = some facs[k] ∧
      (newInst h facs).1[k]? = some (h.next + k)) ∧
    (∀ old v, old < h.next → ∀ k, k < facs.length →
      ((newInst h facs).2.mutate old v).cell (h.next + k) = (newInst h facs).2.cell (h.next + k)) := by
  obtain ⟨h1, _, h3, _⟩ := newInst_spec h facs
  refine ⟨?_, ?_, ?_, ?_⟩
  · intro i hi
    rw [h1] at hi
    simp only [List.mem_range'_1] at hi
    exact hi.1
  · rw [h1]; simp
  · intro k hk
    refine ⟨h3 k hk, ?_⟩
    rw [h1]
    simp [hk]
  · intro old v ho k _
    have : h.next + k ≠ old := by omega
    simp [Heap.mutate, this]

/-- two instances of a node class with one factory field `list = [1, 2]`; the first instance's list gets `9`
appended (through the node's input, or through the dataclass it built).  Factories applied per instance: the
second instance starts from `[1, 2]`.  Products cached on the class: the second instance is handed the first
one's object and starts from `[1, 2, 9]`. -/
theorem C17_factory_cached_witness :
    let h0 : Heap := ⟨0, fun _ => none⟩
    let facs : List (List Val) := [[.atom "i1", .atom "i2"]]
    -- per instance
    (let a := newInst h0 facs
     let hm := a.2.mutate (a.1.headD 0) (.atom "i9")
     let b := newInst hm facs
     (b.2.cell (b.1.headD 0)).map (·.length) = some 2 ∧ b.1.headD 0 ≠ a.1.headD 0) ∧
    -- cached on the class
    (let a := newInstCached none h0 facs
     let hm := a.2.1.mutate (a.1.headD 0) (.atom "i9")
     let b := newInstCached a.2.2 hm facs
     (b.2.1.cell (b.1.headD 0)).map (·.length) = some 3 ∧ b.1.headD 0 = a.1.headD 0) := by
  decide

/-- **the sameness test of the registry must not be coarser than the definitions**: if two defining objects that
the test takes for the same always build the same class, every request of every session gets the class of its
own definition -/
theorem C17_class_per_definition_by {α : Type} (same : Nat → Nat → Bool) (mk : Nat → α)
    (hs : ∀ a b, same a b = true → mk a = mk b) (reg : List (RegEntry α)) (hr : ∀ e ∈ reg, e.cls = mk e.ident)
    (reqs : List (String × Nat)) : classesForBy same mk reg reqs = reqs.map fun r => mk r.2 := by
  induction reqs generalizing reg with
  | nil => rfl
  | cons r rest ih =>
    obtain ⟨name, ident⟩ := r
    simp only [classesForBy, List.map_cons]
    unfold classForBy
    cases hf : reg.find? (fun e => e.name == name && same e.ident ident) with
    | some e =>
      have hm := List.mem_of_find?_eq_some hf
      have hp := List.find?_some hf
      simp only [Bool.and_eq_true] at hp
      simp only
      rw [ih reg hr, hr e hm, hs _ _ hp.2]
    | none =>
      simp only
      rw [ih _ (by
        intro e he
        simp only [List.mem_cons] at he
        rcases he with rfl | he
        · rfl
        · exact hr e he)]

/-- `==` on the defaults is coarser: `0.0 == -0.0` (and their hashes agree), so with defaults compared by `==` the
specification `{"s": (None, -0.0)}` (object 1) asked after `{"s": (None, 0.0)}` (object 0) gets the class — and
the default — of the first; compared by what they ARE, each gets its own -/
theorem C17_class_same_by_eq_witness :
    classesForBy (fun a b => a / 2 == b / 2) id [] [("InputsToDict7", 0), ("InputsToDict7", 1)] = [0, 0] ∧
    classesForBy (fun a b => a == b) id [] [("InputsToDict7", 0), ("InputsToDict7", 1)] = [0, 1] := by
  decide

end PwVerif.C17

#print axioms PwVerif.C17.C17_bind
#print axioms PwVerif.C17.C17_run
#print axioms PwVerif.C17.C17_run_plain
#print axioms PwVerif.C17.C17_outputs_single
#print axioms PwVerif.C17.C17_outputs_multi
#print axioms PwVerif.C17.C17_fn_again
#print axioms PwVerif.C17.C17_xf_list
#print axioms PwVerif.C17.C17_xf_dict
#print axioms PwVerif.C17.C17_xf_df
#print axioms PwVerif.C17.C17_xf_unpack
#print axioms PwVerif.C17.C17_xf_dataclass_partial
#print axioms PwVerif.C17.C17_xf_dataclass_repaired
#print axioms PwVerif.C17.C17_xf_dataclass_witness
#print axioms PwVerif.C17.C17_xf_dataclass_def_witness
#print axioms PwVerif.C17.C17_xf_rerun_repaired
#print axioms PwVerif.C17.C17_xf_rerun_witness
#print axioms PwVerif.C17.C17_inputs
#print axioms PwVerif.C17.C17_preview_is_instance
#print axioms PwVerif.C17.C17_labels_declared
#print axioms PwVerif.C17.C17_labels_scraped
#print axioms PwVerif.C17.C17_labels_none
#print axioms PwVerif.C17.C17_labels_refused
#print axioms PwVerif.C17.C17_output_count
#print axioms PwVerif.C17.C17_fn_faithful
#print axioms PwVerif.C17.C17_xf_preview
#print axioms PwVerif.C17.C17_dc_preview
#print axioms PwVerif.C17.C17_bind_positions
#print axioms PwVerif.C17.C17_default_identity
#print axioms PwVerif.C17.C17_default_copy_witness
#print axioms PwVerif.C17.C17_xf_list_index_order
#print axioms PwVerif.C17.C17_xf_list_sorted_witness
#print axioms PwVerif.C17.C17_class_per_definition_repaired
#print axioms PwVerif.C17.C17_class_per_definition_witness
#print axioms PwVerif.C17.C17_scrape_own_return
#print axioms PwVerif.C17.C17_scrape_text
#print axioms PwVerif.C17.C17_scrape_nested_witness
#print axioms PwVerif.C17.C17_scrape_bytecols_witness
#print axioms PwVerif.C17.C17_labels_from_source
#print axioms PwVerif.C17.C17_inputs_kinds
#print axioms PwVerif.C17.C17_bind_kinds
#print axioms PwVerif.C17.C17_run_kinds_partial
#print axioms PwVerif.C17.C17_run_kinds_repaired
#print axioms PwVerif.C17.C17_run_kinds_witness
#print axioms PwVerif.C17.C17_variadic_witness
#print axioms PwVerif.C17.C17_dc_mro_as_coded
#print axioms PwVerif.C17.C17_dc_mro_own_wins
#print axioms PwVerif.C17.C17_dc_mro_isdataclass_witness
#print axioms PwVerif.C17.C17_dc_inputs_repaired
#print axioms PwVerif.C17.C17_dc_inputs_witness
#print axioms PwVerif.C17.C17_preview_per_class
#print axioms PwVerif.C17.C17_preview_inherited_witness
#print axioms PwVerif.C17.C17_factory_per_instance
#print axioms PwVerif.C17.C17_factory_cached_witness
#print axioms PwVerif.C17.C17_run_names_repaired
#print axioms PwVerif.C17.C17_run_names_witness
#print axioms PwVerif.C17.C17_class_per_definition_by
#print axioms PwVerif.C17.C17_class_same_by_eq_witness
