import PwVerif.Proofs.FuncWrap
/-!
# C17 — Node classes faithfully wrap their definitions

"A node made from a Python function has one input per parameter, in order, with the parameter's
default and annotation, and one output per returned value labelled as declared or as written in the
return statement; running it with given positional and keyword values returns exactly what the
function returns for them and stores it in the outputs.  The same fidelity holds for the transformer
nodes (inputs-to-list/dict/table, list-to-outputs) and for dataclass nodes, whose output is the
dataclass built from the inputs with field defaults and default factories applied."

What is proved here (for every signature of positional-or-keyword parameters of any length, every
split of the supplied values into positional / keyword form at construction and at call time, every
function body `F`, every transformer size, every field layout):

* `C17_bind`, `C17_run` — the node hands the body exactly the values Python's own call binds
  (`pyArgs`, written independently as a walk over the parameter list), refuses exactly what Python's
  binder refuses, and turns a *missing* argument into a readiness refusal instead of a `TypeError`.
* `C17_outputs_single/_multi` — what the body returns lands on the outputs in order; `run` returns it.
* `C17_xf_list/_dict/_df/_unpack/_dataclass*` — the transformer and dataclass nodes are the obvious maps.

NOT in Lean (validated differentially by the harness only): scraping of output labels from the
source text, `preview_io()`, annotations → type hints.  The model takes the *number* of outputs
from the definition.

Only property theorems live here; lemmas are in `Proofs/FuncWrap.lean`.
-/
namespace PwVerif.C17
open PwVerif PwVerif.FuncWrap

/-- **binding**: for every signature, both splits and all values, with `n0` the freshly set-up node:
(1) if Python binds `vs`, construction succeeds and the call's gate hands the body exactly `vs`;
(2) if Python complains about a missing argument, the node was built and the call is a readiness refusal;
(3) any other complaint of Python's binder is a `ValueError` of the node at the same stage or earlier.
(The three cases are exhaustive and the node outcomes mutually exclusive, so the converse holds too.) -/
theorem C17_bind (sig : Sig) (outs : List String)
    (a1 : List Val) (k1 : List (String × Val)) (a2 : List Val) (k2 : List (String × Val))
    (hnd : (sig.map (·.name)).Nodup) (hk1 : (k1.map (·.1)).Nodup) (hk2 : (k2.map (·.1)).Nodup)
    (hs : DataSig sig) (hd1 : DataVals a1 k1) (hd2 : DataVals a2 k2) :
    (∀ vs, pyArgs sig a1 k1 a2 k2 = .ok vs →
      ∃ n1, construct (mkNode sig outs) a1 k1 = .ok n1 ∧ (gate n1 a2 k2).2 = .ok vs) ∧
    (pyArgs sig a1 k1 a2 k2 = .error .missing →
      ∃ n1, construct (mkNode sig outs) a1 k1 = .ok n1 ∧ (gate n1 a2 k2).2 = .error .readiness) ∧
    (∀ e, e ≠ .missing → pyArgs sig a1 k1 a2 k2 = .error e →
      (∃ e', construct (mkNode sig outs) a1 k1 = .error e') ∨
      (∃ n1, construct (mkNode sig outs) a1 k1 = .ok n1 ∧ gate n1 a2 k2 = (n1, .error .valueError))) := by
  have h := bind_spec (mkNode sig outs) sig rfl a1 k1 a2 k2 hnd hk1 hk2 hs hd1 hd2
  refine ⟨?_, h.2.1, h.2.2⟩
  intro vs hv
  obtain ⟨n1, hc, hg, _⟩ := h.1 vs hv
  exact ⟨n1, hc, hg⟩

/-- **running**: whatever Python's call `f(**{**bound(a1,k1), **bound(a2,k2)})` returns, the node run
processes exactly that object (`finish`), with its outputs panel still the freshly made one. -/
theorem C17_run (sig : Sig) (outs : List String) (F : List Val → Val)
    (a1 : List Val) (k1 : List (String × Val)) (a2 : List Val) (k2 : List (String × Val))
    (hnd : (sig.map (·.name)).Nodup) (hk1 : (k1.map (·.1)).Nodup) (hk2 : (k2.map (·.1)).Nodup)
    (hs : DataSig sig) (hd1 : DataVals a1 k1) (hd2 : DataVals a2 k2)
    (r : Val) (hr : pyCall2 sig F a1 k1 a2 k2 = .ok r) :
    ∃ n1 n2, construct (mkNode sig outs) a1 k1 = .ok n1 ∧ call F n1 a2 k2 = finish n2 r ∧
      n2.outs = outs.map fun l => (l, Val.nd) := by
  unfold pyCall2 at hr
  cases hp : pyArgs sig a1 k1 a2 k2 with
  | error e => rw [hp] at hr; simp [Except.map] at hr
  | ok vs =>
    rw [hp] at hr
    simp only [Except.map, Except.ok.injEq] at hr
    obtain ⟨n1, g, hc, hg, _, _, ho⟩ :=
      bind_ok (mkNode sig outs) sig rfl a1 k1 a2 k2 hnd hk1 hk2 hs hd1 hd2 vs hp
    refine ⟨n1, g, hc, ?_, ho⟩
    unfold call
    rw [hg]
    show finish g (F vs) = finish g r
    rw [hr]

/-- plain single-stage form: build the node without arguments, call it like the function -/
theorem C17_run_plain (sig : Sig) (outs : List String) (F : List Val → Val)
    (args : List Val) (kw : List (String × Val))
    (hnd : (sig.map (·.name)).Nodup) (hk : (kw.map (·.1)).Nodup)
    (hs : DataSig sig) (hd : DataVals args kw) (r : Val) (hr : pyCall sig F args kw = .ok r) :
    ∃ n1 n2, construct (mkNode sig outs) [] [] = .ok n1 ∧ call F n1 args kw = finish n2 r ∧
      n2.outs = outs.map fun l => (l, Val.nd) :=
  C17_run sig outs F [] [] args kw hnd (by simp) hk hs ⟨by simp, by simp⟩ hd r hr

/-- **outputs, one label**: the whole returned object (also a tuple) is stored and returned -/
theorem C17_outputs_single (n : Node) (l : String) (x r : Val) (h : n.outs = [(l, x)]) :
    finish n r = ({ n with outs := [(l, r)] }, .ret r) := by
  simp [finish, processRunResult, h, zipOut, runReturn, values]

/-- **outputs, several labels**: a returned tuple of matching length is unpacked onto the outputs in
order, and `run` returns the tuple of the output values, i.e. the same tuple -/
theorem C17_outputs_multi (n : Node) (vs : List Val) (h1 : n.outs.length ≠ 1) (hl : vs.length = n.outs.length) :
    finish n (Val.tuple vs) = ({ n with outs := (labels n.outs).zip vs }, .ret (Val.tuple vs)) := by
  have hz := zipOut_eq_zip n.outs vs hl
  have hlen : ((labels n.outs).zip vs).length ≠ 1 := by
    simp [labels, List.length_zip, hl, h1]
  have hv : values ((labels n.outs).zip vs) = vs := by rw [← hz]; exact zipOut_values n.outs vs hl
  simp only [finish, processRunResult, h1, if_false, unpack, Val.tuple, Option.map_some, hz]
  rw [runReturn_multi _ hlen, hv]
  rfl

/-- asking a function node again (cache hit) returns what the run returned -/
theorem C17_fn_again (n : Node) (r : Val) (n' : Node) (v : Val) (h : finish n r = (n', .ret v)) :
    fnAgain n' = v := by
  unfold finish at h
  split at h
  · cases h
  · simp only [Prod.mk.injEq, Outcome.ret.injEq] at h
    obtain ⟨h1, h2⟩ := h
    subst h1; simpa [fnAgain] using h2

/-! ### transformers: for every split that Python would bind to the values `vs` -/

/-- `inputs_to_list(n)`: the list of the `n` values in input order -/
theorem C17_xf_list (n : Nat) (a1 : List Val) (k1 : List (String × Val)) (a2 : List Val) (k2 : List (String × Val))
    (hk1 : (k1.map (·.1)).Nodup) (hk2 : (k2.map (·.1)).Nodup) (hd1 : DataVals a1 k1) (hd2 : DataVals a2 k2)
    (vs : List Val) (hp : pyArgs (noDefault (itemLabels "item_" n)) a1 k1 a2 k2 = .ok vs) :
    ∃ n1 n2, construct (inputsToListNode n) a1 k1 = .ok n1 ∧
      xfCall .toList n1 a2 k2 = (n2, .ret (Val.list vs)) ∧ n2.outs = [("list", Val.list vs)] := by
  obtain ⟨n1, g, hc, hg, hv, _, ho⟩ :=
    bind_ok (inputsToListNode n) (noDefault (itemLabels "item_" n)) rfl a1 k1 a2 k2
      (by rw [noDefault_names]; exact itemLabels_nodup _ _) hk1 hk2 (noDefault_data _) hd1 hd2 vs hp
  refine ⟨n1, { g with outs := g.outs.map fun o => (o.1, Val.list vs) }, hc, ?_, ?_⟩
  · rw [xfCall_ok _ _ _ _ _ _ hg]
    simp only [xfBody, hv]
  · simp [ho, inputsToListNode, mkNode]

/-- `inputs_to_dict(spec)`: the dictionary key ↦ value in key order (defaults of the specification
filling what was not supplied) -/
theorem C17_xf_dict (spec : Sig) (a1 : List Val) (k1 : List (String × Val)) (a2 : List Val) (k2 : List (String × Val))
    (hnd : (spec.map (·.name)).Nodup) (hs : DataSig spec)
    (hk1 : (k1.map (·.1)).Nodup) (hk2 : (k2.map (·.1)).Nodup) (hd1 : DataVals a1 k1) (hd2 : DataVals a2 k2)
    (vs : List Val) (hp : pyArgs spec a1 k1 a2 k2 = .ok vs) :
    ∃ n1 n2, construct (inputsToDictNode spec) a1 k1 = .ok n1 ∧
      xfCall .toDict n1 a2 k2 = (n2, .ret (.node "dict" (spec.map (·.name)) vs)) ∧
      n2.outs = [("dict", .node "dict" (spec.map (·.name)) vs)] := by
  obtain ⟨n1, g, hc, hg, hv, hl, ho⟩ :=
    bind_ok (inputsToDictNode spec) spec rfl a1 k1 a2 k2 hnd hk1 hk2 hs hd1 hd2 vs hp
  have hb : Val.dict g.ins = .node "dict" (spec.map (·.name)) vs := by
    simp only [Val.dict]; rw [← hl, ← hv]; rfl
  refine ⟨n1, { g with outs := g.outs.map fun o => (o.1, .node "dict" (spec.map (·.name)) vs) }, hc, ?_, ?_⟩
  · rw [xfCall_ok _ _ _ _ _ _ hg]
    simp only [xfBody, hb]
  · simp [ho, inputsToDictNode, mkNode]

/-- `inputs_to_dataframe(n)`: rows over common keys `ks` give the table whose column `k` lists the rows'
`k` entries in row order -/
theorem C17_xf_df (n : Nat) (a1 : List Val) (k1 : List (String × Val)) (a2 : List Val) (k2 : List (String × Val))
    (hk1 : (k1.map (·.1)).Nodup) (hk2 : (k2.map (·.1)).Nodup) (hd1 : DataVals a1 k1) (hd2 : DataVals a2 k2)
    (ks : List String) (hks : ks.Nodup) (r0 : List Val) (rest : List (List Val))
    (h0 : r0.length = ks.length) (hr : ∀ r ∈ rest, r.length = ks.length)
    (hp : pyArgs (noDefault (itemLabels "row_" n)) a1 k1 a2 k2
      = .ok ((r0 :: rest).map fun r => Val.dict (ks.zip r))) :
    ∃ n1 n2, construct (inputsToDataframeNode n) a1 k1 = .ok n1 ∧
      xfCall .toDf n1 a2 k2 = (n2, .ret (Val.df (colsOf ks (r0 :: rest)))) := by
  obtain ⟨n1, g, hc, hg, hv, _, _⟩ :=
    bind_ok (inputsToDataframeNode n) (noDefault (itemLabels "row_" n)) rfl a1 k1 a2 k2
      (by rw [noDefault_names]; exact itemLabels_nodup _ _) hk1 hk2 (noDefault_data _) hd1 hd2 _ hp
  refine ⟨n1, { g with outs := g.outs.map fun o => (o.1, Val.df (colsOf ks (r0 :: rest))) }, hc, ?_⟩
  rw [xfCall_ok _ _ _ _ _ _ hg]
  simp only [xfBody, hv, dfBuild_rows ks r0 rest hks h0 hr]

/-- `list_to_outputs(n)`: a list of at most `n` items is stored item by item on `item_0 …` (the others
stay untouched) and the dictionary `{item_i: v_i}` is returned -/
theorem C17_xf_unpack (n : Nat) (a1 : List Val) (k1 : List (String × Val)) (a2 : List Val) (k2 : List (String × Val))
    (hk1 : (k1.map (·.1)).Nodup) (hk2 : (k2.map (·.1)).Nodup) (hd1 : DataVals a1 k1) (hd2 : DataVals a2 k2)
    (vs : List Val) (hlen : vs.length ≤ n) (hp : pyArgs (noDefault ["list"]) a1 k1 a2 k2 = .ok [Val.list vs]) :
    ∃ n1 n2, construct (listToOutputsNode n) a1 k1 = .ok n1 ∧
      unpackCall n1 a2 k2 = (n2, .ret (Val.dict ((itemLabels "item_" vs.length).zip vs))) ∧
      n2.outs = zipOut ((itemLabels "item_" n).map fun l => (l, Val.nd)) vs := by
  obtain ⟨n1, g, hc, hg, _, _, ho⟩ :=
    bind_ok (listToOutputsNode n) (noDefault ["list"]) rfl a1 k1 a2 k2
      (by simp [noDefault]) hk1 hk2 (noDefault_data _) hd1 hd2 _ hp
  have houts : g.outs = (itemLabels "item_" n).map fun l => (l, Val.nd) := by
    rw [ho]; rfl
  have hlab : labels ((itemLabels "item_" n).map fun l => (l, Val.nd)) = itemLabels "item_" n := by
    simp [labels, Function.comp_def]
  have hst := storeItems_ok ((itemLabels "item_" n).map fun l => (l, Val.nd)) 0 vs (by
    intro j _ hj
    rw [hlab]
    simp only [itemLabels, List.mem_map, List.mem_range]
    exact ⟨j, by omega, rfl⟩)
  have hz : assignAll ((itemLabels "item_" n).map fun l => (l, Val.nd))
      (((List.range' 0 vs.length).map fun j => "item_" ++ toString j).zip vs)
      = zipOut ((itemLabels "item_" n).map fun l => (l, Val.nd)) vs := by
    rw [← itemLabels_zip_prefix "item_" n vs hlen]
    have := assignAll_zip ((itemLabels "item_" n).map fun l => (l, Val.nd)) vs
      (by rw [hlab]; exact itemLabels_nodup _ _)
    rw [hlab] at this
    exact this
  refine ⟨n1, { g with outs := zipOut ((itemLabels "item_" n).map fun l => (l, Val.nd)) vs }, hc, ?_, rfl⟩
  unfold unpackCall
  rw [hg]
  simp only [List.head?_cons, Option.bind_eq_bind, Option.bind_some, unpack, Val.list, houts, hst, hz]
  rfl

/-! ### dataclass nodes -/

/-- the fields are usable as a signature: distinct names, data defaults -/
def FieldsOk (fs : List Field) : Prop :=
  (fs.map (·.name)).Nodup ∧ DataSig (dcSig fs)

/-- what the property demands of a dataclass node made from the field list `fs` (the class being
already a dataclass or not), for every split at construction and call: the node class exists and its
instances agree with Python building the dataclass itself — same object, a missing field is a
readiness refusal, anything else refused by Python is refused by the node. -/
def DataclassStatement (cfg : Cfg) : Prop :=
  ∀ (already : Bool) (fs : List Field) (a1 : List Val) (k1 : List (String × Val)) (a2 : List Val)
    (k2 : List (String × Val)),
    FieldsOk fs → orderOk fs = true → (k1.map (·.1)).Nodup → (k2.map (·.1)).Nodup →
    DataVals a1 k1 → DataVals a2 k2 →
    ∃ fs', nodeFields cfg already fs = some fs' ∧
      (∀ r, pyDataclass fs a1 k1 a2 k2 = .ok r →
        ∃ n1 n2, construct (dcNode fs') a1 k1 = .ok n1 ∧ dcCall n1 a2 k2 = (n2, .ret r) ∧
          n2.outs = [("dataclass", r)]) ∧
      (pyDataclass fs a1 k1 a2 k2 = .error .missing →
        ∃ n1, construct (dcNode fs') a1 k1 = .ok n1 ∧ (dcCall n1 a2 k2).2 = .readiness)

/-- the statement holds whenever the class is not converted a second time, or has no default factory -/
theorem C17_xf_dataclass_partial (cfg : Cfg) (already : Bool) (fs : List Field)
    (hyp : cfg.recast = false ∨ already = false ∨ ∀ f ∈ fs, ∀ v, f.dflt ≠ .factory v)
    (a1 : List Val) (k1 : List (String × Val)) (a2 : List Val) (k2 : List (String × Val))
    (hf : FieldsOk fs) (hord : orderOk fs = true)
    (hk1 : (k1.map (·.1)).Nodup) (hk2 : (k2.map (·.1)).Nodup) (hd1 : DataVals a1 k1) (hd2 : DataVals a2 k2) :
    ∃ fs', nodeFields cfg already fs = some fs' ∧
      (∀ r, pyDataclass fs a1 k1 a2 k2 = .ok r →
        ∃ n1 n2, construct (dcNode fs') a1 k1 = .ok n1 ∧ dcCall n1 a2 k2 = (n2, .ret r) ∧
          n2.outs = [("dataclass", r)]) ∧
      (pyDataclass fs a1 k1 a2 k2 = .error .missing →
        ∃ n1, construct (dcNode fs') a1 k1 = .ok n1 ∧ (dcCall n1 a2 k2).2 = .readiness) := by
  have hid : nodeFields cfg already fs = some fs := by
    rcases nodeFields_id cfg already fs hyp with h | ⟨_, h⟩
    · exact h
    · rw [hord] at h; cases h
  refine ⟨fs, hid, ?_, ?_⟩
  · intro r hr
    unfold pyDataclass pyCall2 at hr
    cases hp : pyArgs (dcSig fs) a1 k1 a2 k2 with
    | error e => rw [hp] at hr; simp [Except.map] at hr
    | ok vs =>
      rw [hp] at hr
      simp only [Except.map, Except.ok.injEq] at hr
      obtain ⟨n1, g, hc, hg, hv, hl, ho⟩ := bind_ok (dcNode fs) (dcSig fs) (dcNode_ins fs) a1 k1 a2 k2
        (by rw [dcSig_names]; exact hf.1) hk1 hk2 hf.2 hd1 hd2 vs hp
      have hlen : vs.length = fs.length := by
        have := congrArg List.length hv
        have h2 := congrArg List.length hl
        simp only [values, labels, List.length_map, dcSig] at this h2
        omega
      have hdc : Val.dc g.ins = r := by
        rw [← hr]
        simp only [Val.dc, hv, hl, dcSig_names]
        have e1 : labels ((fs.map (·.name)).zip vs) = fs.map (·.name) := by
          simp only [labels]; rw [List.map_fst_zip]; simp; omega
        have e2 : values ((fs.map (·.name)).zip vs) = vs := by
          simp only [values]; rw [List.map_snd_zip]; simp; omega
        rw [e1, e2]
      refine ⟨n1, { g with outs := g.outs.map fun o => (o.1, r) }, hc, ?_, ?_⟩
      · rw [dcCall_ok _ _ _ _ _ hg, hdc]
      · simp [ho, dcNode]
  · intro hm
    unfold pyDataclass pyCall2 at hm
    cases hp : pyArgs (dcSig fs) a1 k1 a2 k2 with
    | ok vs => rw [hp] at hm; simp [Except.map] at hm
    | error e =>
      rw [hp] at hm
      simp only [Except.map, Except.error.injEq] at hm
      subst hm
      obtain ⟨n1, g, hc, hg⟩ := bind_missing (dcNode fs) (dcSig fs) (dcNode_ins fs) a1 k1 a2 k2
        (by rw [dcSig_names]; exact hf.1) hk1 hk2 hf.2 hd1 hd2 hp
      refine ⟨n1, hc, ?_⟩
      unfold dcCall
      rw [hg]

/-- with the repair (do not convert a class that already is a dataclass) the statement holds in full -/
theorem C17_xf_dataclass_repaired : DataclassStatement Cfg.repaired := by
  intro already fs a1 k1 a2 k2 hf hord hk1 hk2 hd1 hd2
  exact C17_xf_dataclass_partial Cfg.repaired already fs (Or.inl rfl) a1 k1 a2 k2 hf hord hk1 hk2 hd1 hd2

/-- witness layout: `@dataclass class D: x: int; z: list = field(default_factory=g)` -/
def witnessFields : List Field := [⟨"x", .none⟩, ⟨"z", .factory (.atom "g()")⟩]

/-- on the pinned code the statement is false: for an already-converted dataclass with a default
factory, Python builds `D(x, g())` while the node, having lost the factory, refuses to run -/
theorem C17_xf_dataclass_witness : ¬ DataclassStatement Cfg.pinned := by
  intro h
  obtain ⟨fs', hfs, hok, _⟩ := h true witnessFields [.atom "1"] [] [] []
    ⟨by decide, by
      intro p hp v hv
      simp only [dcSig, witnessFields, List.map_cons, List.map_nil, List.mem_cons, List.not_mem_nil, or_false] at hp
      rcases hp with rfl | rfl
      · simp at hv
      · simp at hv; subst hv; rfl⟩
    (by decide) (by simp) (by simp) ⟨by simp [Val.isData], by simp⟩ ⟨by simp, by simp⟩
  have e : fs' = [⟨"x", .none⟩, ⟨"z", .none⟩] := by
    have : nodeFields Cfg.pinned true witnessFields = some [⟨"x", .none⟩, ⟨"z", .none⟩] := by rfl
    rw [this] at hfs; cases hfs; rfl
  subst e
  obtain ⟨n1, n2, hc, hcall, _⟩ := hok (Val.dc [("x", .atom "1"), ("z", .atom "g()")]) (by rfl)
  have hc' : construct (dcNode [⟨"x", .none⟩, ⟨"z", .none⟩]) [.atom "1"] []
      = .ok { ins := [("x", .atom "1"), ("z", .nd)], outs := [("dataclass", .nd)] } := by rfl
  rw [hc'] at hc
  cases hc
  have : dcCall { ins := [("x", .atom "1"), ("z", .nd)], outs := [("dataclass", .nd)] } [] []
      = ({ ins := [("x", .atom "1"), ("z", .nd)], outs := [("dataclass", .nd)] }, .readiness) := by rfl
  rw [this] at hcall
  cases hcall

/-- second face of the same defect: when the factory field follows a field with a plain default the
second conversion raises ("non-default argument follows default argument") and no node class exists -/
theorem C17_xf_dataclass_def_witness :
    orderOk [⟨"x", .value (.atom "0")⟩, ⟨"z", .factory (.atom "g()")⟩] = true ∧
    nodeFields Cfg.pinned true [⟨"x", .value (.atom "0")⟩, ⟨"z", .factory (.atom "g()")⟩] = none ∧
    (nodeFields Cfg.repaired true [⟨"x", .value (.atom "0")⟩, ⟨"z", .factory (.atom "g()")⟩]).isSome = true := by
  refine ⟨by rfl, by rfl, by rfl⟩

/-! ### asking a transformer again (cache hit) -/

/-- the property's "returns exactly what the function returns", for the second identical call -/
def RerunStatement (cfg : Cfg) : Prop :=
  ∀ (k : XfKind) (n : Node) (args : List Val) (kw : List (String × Val)) (n' : Node) (v : Val),
    n.outs.length = 1 → xfCall k n args kw = (n', .ret v) → xfAgain cfg n' = v

theorem C17_xf_rerun_repaired : RerunStatement Cfg.repaired := by
  intro k n args kw n' v hlen h
  unfold xfCall gate at h
  cases hs : setInputValues n.ins args kw with
  | error e => rw [hs] at h; simp at h
  | ok ins =>
    rw [hs] at h
    by_cases hr : ready ins = true
    · simp only [hr, if_true] at h
      cases hb : xfBody k ins with
      | none => simp [hb] at h
      | some w =>
        simp only [hb, Prod.mk.injEq, Outcome.ret.injEq] at h
        obtain ⟨h1, h2⟩ := h
        subst h1 h2
        match hn : n.outs, hlen with
        | [o], _ => simp [xfAgain, Cfg.repaired, hn, values]
    · simp [hr] at h

/-- on the pinned code the second call returns the outputs panel (`DotDict`) instead -/
theorem C17_xf_rerun_witness : ¬ RerunStatement Cfg.pinned := by
  intro h
  have := h .toList { ins := [("item_0", .atom "1")], outs := [("list", .nd)] } [] []
    { ins := [("item_0", .atom "1")], outs := [("list", Val.list [.atom "1"])] } (Val.list [.atom "1"]) rfl rfl
  simp [xfAgain, Cfg.pinned, Val.dict, Val.list] at this

/-! ## Non-vacuity: concrete signatures, splits and bodies -/

/-- `def f(a, b=7, c=None): return r0, r1` with free-term returns -/
def exSig : Sig := [⟨"a", none⟩, ⟨"b", some (.atom "7")⟩, ⟨"c", some (.atom "None")⟩]
def exF (vs : List Val) : Val := Val.tuple [.node "app0" [] vs, .node "app1" [] vs]

example : pyArgs exSig [.atom "x"] [("c", .atom "z")] [] [("b", .atom "y")] = .ok [.atom "x", .atom "y", .atom "z"] := by rfl
example : pyArgs exSig [] [] [.atom "x"] [("a", .atom "y")] = .error .multipleValues := by rfl
example : pyArgs exSig [] [("b", .atom "y")] [] [] = .error .missing := by rfl
example : pyArgs exSig [] [] [] [("d", .atom "y")] = .error .unexpectedKeyword := by rfl
example : pyArgs exSig [.atom "1", .atom "2", .atom "3", .atom "4"] [] [] [] = .error .tooManyPositional := by rfl
example : (sig : Sig) → sig = exSig → (sig.map (·.name)).Nodup ∧ DataSig sig := by
  intro sig h; subst h
  refine ⟨by decide, ?_⟩
  intro p hp v hv
  simp only [exSig, List.mem_cons, List.not_mem_nil, or_false] at hp
  rcases hp with rfl | rfl | rfl <;> simp at hv <;> subst hv <;> rfl
/-- the node agrees, end to end, on that example (computed by the model itself) -/
example :
    (match construct (mkNode exSig ["r0", "r1"]) [.atom "x"] [("c", .atom "z")] with
     | .ok n1 => (call exF n1 [] [("b", .atom "y")]).2
     | .error _ => .valueError)
      = .ret (exF [.atom "x", .atom "y", .atom "z"]) := by rfl
example : (dfBuild [Val.dict [("a", .atom "1"), ("b", .atom "2")], Val.dict [("b", .atom "4"), ("a", .atom "3")]])
    = some (Val.df [("a", [.atom "1", .atom "3"]), ("b", [.atom "2", .atom "4"])]) := by rfl
example : (unpackCall (listToOutputsNode 2) [Val.list [.atom "1", .atom "2", .atom "3"]] []).2 = .runError := by rfl

end PwVerif.C17

#print axioms PwVerif.C17.C17_bind
#print axioms PwVerif.C17.C17_run
#print axioms PwVerif.C17.C17_run_plain
#print axioms PwVerif.C17.C17_outputs_single
#print axioms PwVerif.C17.C17_outputs_multi
#print axioms PwVerif.C17.C17_fn_again
#print axioms PwVerif.C17.C17_xf_list
#print axioms PwVerif.C17.C17_xf_dict
#print axioms PwVerif.C17.C17_xf_df
#print axioms PwVerif.C17.C17_xf_unpack
#print axioms PwVerif.C17.C17_xf_dataclass_partial
#print axioms PwVerif.C17.C17_xf_dataclass_repaired
#print axioms PwVerif.C17.C17_xf_dataclass_witness
#print axioms PwVerif.C17.C17_xf_dataclass_def_witness
#print axioms PwVerif.C17.C17_xf_rerun_repaired
#print axioms PwVerif.C17.C17_xf_rerun_witness
