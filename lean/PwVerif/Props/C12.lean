import PwVerif.Proofs.Conn
/-!
# C12 — Connections stay mutual, well-typed and duplicate-free under any editing history

"At all times, channel A lists channel B as a connection exactly when B lists A; connections
only join an input with an output of the same kind, never appear twice, and a refused
connection or a disconnection of unconnected channels changes nothing. Removing a node from
its parent or disconnecting it leaves no other channel still pointing at it."

Only property theorems live here; the lemmas are in `Proofs/Conn.lean`.
-/
namespace PwVerif.C12
open PwVerif PwVerif.Conn

/-- the empty graph (any assignment of kinds, owners and hint verdicts) -/
def empty (kind : Nat → Kind) (owner : Nat → Nat) (valid : Nat → Nat → Bool) : G :=
  { kind, owner, valid, conns := fun _ => [] }

theorem C12_init (kind owner valid) : Inv (empty kind owner valid) :=
  ⟨by simp [empty], by simp [empty], by simp [empty]⟩

/-- one step of any entry point preserves mutuality, typing and duplicate-freedom -/
theorem C12_step (g : G) (op : Op) (h : Inv g) : Inv (step g op).1 := step_inv g op h

/-- ... hence every state reachable by any editing history satisfies them -/
theorem C12_history (kind owner valid) (ops : List Op) : Inv (run (empty kind owner valid) ops) :=
  run_inv _ ops (C12_init kind owner valid)

/-- a refused (single) connection changes nothing -/
theorem C12_refused_noop (g : G) (a b : Nat) (hr : (connect1 g a b).2 ≠ .ok) :
    (connect1 g a b).1 = g := connect1_refused_noop g a b hr

/-- disconnecting channels that are not connected changes nothing -/
theorem C12_disconnect_unconnected_noop (g : G) (a b : Nat) (hn : b ∉ g.conns a) :
    disconnect1 g a b = g := disconnect1_unconnected_noop g a b hn

/-- disconnecting a node (all of its channels, as `remove_child` / `node.disconnect()` do)
leaves no channel anywhere pointing at it -/
theorem C12_node_disconnect_clean (g : G) (n : Nat) (cs : List Nat) (h : Inv g)
    (hall : ∀ c, g.owner c = n → c ∈ cs) :
    ∀ x y, y ∈ (disconnectChans g cs).conns x → (disconnectChans g cs).owner y ≠ n := by
  intro x y hy hown
  have hst := disconnectChans_static g cs
  rw [hst.owner] at hown
  have hyc : y ∈ cs := hall y hown
  have hinv := disconnectChans_inv g cs h
  have hx : x ∈ (disconnectChans g cs).conns y := (hinv.symm x y).mp hy
  rw [disconnectChans_empty g cs h y hyc] at hx
  cases hx

/-- the same connection never appears twice, even if asked for twice -/
theorem C12_connect_idempotent (g : G) (a b : Nat) (hc : b ∈ g.conns a) :
    connect1 g a b = (g, .ok) := by simp [connect1, hc]

/-! Non-vacuity: a concrete reachable graph with a multiply connected input, a refused
connection and a disconnection in its history. -/
def exKind : Nat → Kind
  | 0 => .dataIn | 1 => .dataOut | 2 => .dataOut | 3 => .sigIn | 4 => .sigOut | _ => .dataIn
def exG : G := run (empty exKind (fun c => c / 2) (fun a b => !(a == 0 && b == 2)))
  [.connect 0 [1], .connect 0 [2], .connect 3 [4, 1], .copyConns 5 0, .disconnect 0 [1], .connect 1 [0]]

example : exG.conns 0 = [1] ∧ exG.conns 1 = [0, 5] ∧ exG.conns 3 = [4] ∧ exG.conns 2 = [] := by decide
example : Inv exG := C12_history _ _ _ _
example : (connect1 exG 0 2).2 = .connErr ∧ (connect1 exG 0 3).2 = .typeErr := by decide

end PwVerif.C12

#print axioms PwVerif.C12.C12_init
#print axioms PwVerif.C12.C12_step
#print axioms PwVerif.C12.C12_history
#print axioms PwVerif.C12.C12_refused_noop
#print axioms PwVerif.C12.C12_disconnect_unconnected_noop
#print axioms PwVerif.C12.C12_node_disconnect_clean
#print axioms PwVerif.C12.C12_connect_idempotent
