import PwVerif.Proofs.Conn
import PwVerif.Proofs.ConnOps
import PwVerif.Proofs.ConnSeat
/-!
# C12 — Connections stay mutual, well-typed and duplicate-free under any editing history

"At all times, channel A lists channel B as a connection exactly when B lists A; connections
only join an input with an output of the same kind, never appear twice, and a refused
connection or a disconnection of unconnected channels changes nothing. Removing a node from
its parent or disconnecting it leaves no other channel still pointing at it."

Only property theorems live here; the lemmas are in `Proofs/Conn.lean` and `Proofs/ConnOps.lean`.

* first block (round 1): the alphabet of `Model/Conn.lean` (copies as the code was pinned);
* second block: the alphabet of the tree as it is now (`ConnOps.Op`), owners at every level
  (any list of channels: a panel, a node, a macro, the by-reference panels of a workflow), reports,
  refusals per side with the tree's order of half-removals, refused copies.
-/
namespace PwVerif.C12
open PwVerif PwVerif.Conn

/-- the empty graph (any assignment of kinds, owners and hint verdicts) -/
def empty (kind : Nat → Kind) (owner : Nat → Nat) (valid : Nat → Nat → Bool) : G :=
  { kind, owner, valid, conns := fun _ => [] }

theorem C12_init (kind owner valid) : Inv (empty kind owner valid) :=
  ⟨by simp [empty], by simp [empty], by simp [empty]⟩

/-- one step of any entry point preserves mutuality, typing and duplicate-freedom -/
theorem C12_step (g : G) (op : Op) (h : Inv g) : Inv (step g op).1 := step_inv g op h

/-- ... hence every state reachable by any editing history satisfies them -/
theorem C12_history (kind owner valid) (ops : List Op) : Inv (run (empty kind owner valid) ops) :=
  run_inv _ ops (C12_init kind owner valid)

/-- a refused (single) connection changes nothing -/
theorem C12_refused_noop (g : G) (a b : Nat) (hr : (connect1 g a b).2 ≠ .ok) :
    (connect1 g a b).1 = g := connect1_refused_noop g a b hr

/-- disconnecting channels that are not connected changes nothing -/
theorem C12_disconnect_unconnected_noop (g : G) (a b : Nat) (hn : b ∉ g.conns a) :
    disconnect1 g a b = g := disconnect1_unconnected_noop g a b hn

/-- disconnecting a node (all of its channels, as `remove_child` / `node.disconnect()` do)
leaves no channel anywhere pointing at it -/
theorem C12_node_disconnect_clean (g : G) (n : Nat) (cs : List Nat) (h : Inv g)
    (hall : ∀ c, g.owner c = n → c ∈ cs) :
    ∀ x y, y ∈ (disconnectChans g cs).conns x → (disconnectChans g cs).owner y ≠ n := by
  intro x y hy hown
  have hst := disconnectChans_static g cs
  rw [hst.owner] at hown
  have hyc : y ∈ cs := hall y hown
  have hinv := disconnectChans_inv g cs h
  have hx : x ∈ (disconnectChans g cs).conns y := (hinv.symm x y).mp hy
  rw [disconnectChans_empty g cs h y hyc] at hx
  cases hx

/-- the same connection never appears twice, even if asked for twice -/
theorem C12_connect_idempotent (g : G) (a b : Nat) (hc : b ∈ g.conns a) :
    connect1 g a b = (g, .ok) := by simp [connect1, hc]

/-! Non-vacuity: a concrete reachable graph with a multiply connected input, a refused
connection and a disconnection in its history. -/
def exKind : Nat → Kind
  | 0 => .dataIn | 1 => .dataOut | 2 => .dataOut | 3 => .sigIn | 4 => .sigOut | _ => .dataIn
def exG : G := run (empty exKind (fun c => c / 2) (fun a b => !(a == 0 && b == 2)))
  [.connect 0 [1], .connect 0 [2], .connect 3 [4, 1], .copyConns 5 0, .disconnect 0 [1], .connect 1 [0]]

example : exG.conns 0 = [1] ∧ exG.conns 1 = [0, 5] ∧ exG.conns 3 = [4] ∧ exG.conns 2 = [] := by decide
example : Inv exG := C12_history _ _ _ _
example : (connect1 exG 0 2).2 = .connErr ∧ (connect1 exG 0 3).2 = .typeErr := by decide

/-! # second block: the tree as it is now -/
open PwVerif.ConnOps hiding run step Op step_inv run_inv

/-- every entry point of the current tree (copies that only unwind what they formed) preserves the
invariant ... -/
theorem C12_step_current (g : G) (op : ConnOps.Op) (h : Inv g) : Inv (ConnOps.step g op).1 :=
  ConnOps.step_inv g op h

/-- ... along every history -/
theorem C12_history_current (kind owner valid) (ops : List ConnOps.Op) :
    Inv (ConnOps.run (empty kind owner valid) ops) :=
  ConnOps.run_inv _ ops (C12_init kind owner valid)

/-! ## `replace_child`: hard copy, `_seat_replacement` (lists assigned one by one), removal -/

/-- `_seat_replacement` on ANY graph that passes the model's check (`seatable`: disjoint nodes, injective
stand-ins of equal kind, every connected channel of the replaced node has one, the replacement is connected
only through stand-ins and only to partners of the replaced node) keeps mutuality, conjugate kinds and
duplicate-freedom — also when the replaced node is connected to itself and with copy_io's prepended
copies in place (a neighbour cannot hold the replaced channel twice: `Inv.nodup`) -/
theorem C12_seat_keeps_invariant (g : G) (m : List (Nat × Nat)) (O N : List Nat) (h : Inv g)
    (hs : seatable g m O N = true) : Inv (seat g m O N) :=
  seat_inv g m O N h (seatable_spec g m O N hs)

/-- ... and what it leaves, channel by channel: the list of the channel it stands for (`src`), without the
replacement's copies, stand-ins substituted, order kept; the replaced channels and unused channels of the
replacement hold nothing -/
theorem C12_seat_exact (g : G) (m : List (Nat × Nat)) (O N : List Nat) (h : Inv g) (hs : seatable g m O N = true)
    (y : Nat) : (seat g m O N).conns y = match src m N y with
      | some a => ((g.conns a).filter fun z => !N.contains z).map (subst m)
      | none => [] :=
  seat_conns g m O N h (seatable_spec g m O N hs) y

/-- the connection side of `replace_child` keeps the invariant FOR EVERY argument (the step of
`C12_history_current` for histories that contain replacements) -/
theorem C12_replace_keeps_invariant (g : G) (r : RepArgs) (pre : Bool) (h : Inv g) :
    Inv (replaceConn g r pre).1 := replaceConn_inv g r pre h

/-- a refused replacement (a guard, or the connection copy failing in any panel) leaves every list as it was -/
theorem C12_replace_refused_noop (g : G) (r : RepArgs) (pre : Bool) (h : Inv g)
    (hr : (replaceConn g r pre).2 = .refused ∨ (replaceConn g r pre).2 = .connErr) :
    (replaceConn g r pre).1 = g := replaceConn_refused g r pre h hr

/-! Non-vacuity: node A (input 0, output 1) feeds itself and is wired to B (output 2 → 0 first, then 1 → 0;
1 → input 3 of B); it is replaced by the unconnected C (input 4, output 5). -/
def repKind : Nat → Kind | 0 => .dataIn | 1 => .dataOut | 2 => .dataOut | 3 => .dataIn | 4 => .dataIn | _ => .dataOut
def repG : G := ConnOps.run (empty repKind (fun c => c / 2) (fun _ _ => true))
  [.connect 0 [2], .connect 0 [1], .connect 1 [3]]
def repArgs : RepArgs := { oldChans := [0, 1], newChans := [4, 5], pairs := [(some 4, 0), (some 5, 1)] }
example : repG.conns 0 = [1, 2] ∧ repG.conns 1 = [3, 0] := by decide
example : (replaceConn repG repArgs true).2 = .ok := by decide
/-- the replacement sits exactly where the replaced node sat, the self-connection is now its own -/
example : (replaceConn repG repArgs true).1.conns 4 = [5, 2] ∧ (replaceConn repG repArgs true).1.conns 5 = [3, 4] ∧
    (replaceConn repG repArgs true).1.conns 2 = [4] ∧ (replaceConn repG repArgs true).1.conns 3 = [5] ∧
    (replaceConn repG repArgs true).1.conns 0 = [] ∧ (replaceConn repG repArgs true).1.conns 1 = [] := by decide
/-- right after the hard copy the prepended copies are there -/
example : (copyIoN repG true repArgs.pairs).1.conns 2 = [4, 0] ∧ (copyIoN repG true repArgs.pairs).1.conns 0 = [5, 1, 2] := by
  decide
example : (replaceConn repG { repArgs with pairs := [(some 4, 0), (none, 1)] } true).2 = .connErr := by decide
example : Inv (replaceConn repG repArgs true).1 := C12_replace_keeps_invariant _ _ _ (C12_history_current _ _ _ _)

/-! ## the other sites that assign connection lists: flow derivation of run / pull, firing order after unpickling -/

/-- `_set_new_run_connections_with_fallback_recovery` (every automated `run`, every `pull`): cutting the run
signals keeps the invariant, and when the flow cannot be derived the assignment of the saved lists gives back
exactly the graph it started from (the wiring itself, pull's extra cuts and its re-connections are `connect` /
`disconnect` steps of the same alphabet) -/
theorem C12_flow_derivation (g : G) (cut : List Nat) (fail : Bool) (h : Inv g) :
    Inv (dagAttempt g cut fail) ∧ dagAttempt g cut true = g :=
  ⟨dagAttempt_inv g cut fail h, dagAttempt_fail g cut h⟩

/-- `Composite._restore_firing_order` (unpickling, merge-back from a by-value executor) assigns an output
signal a permutation of its own list: the invariant survives; anything that is not a permutation is refused
by the model (`bad-obs`) -/
theorem C12_firing_order (g : G) (c : Nat) (l : List Nat) (h : Inv g) :
    Inv (reorder g c l).1 ∧ ((reorder g c l).2 = true → ∀ b, b ∈ (reorder g c l).1.conns c ↔ b ∈ g.conns c) := by
  refine ⟨reorder_inv g c l h, ?_⟩
  intro hok b
  unfold reorder at hok ⊢
  split
  · rename_i hp
    simp [setConns, (List.isPerm_iff.mp hp).mem_iff]
  · rename_i hp
    simp [hp] at hok

example : (dagAttempt exG [1] false).conns 0 = [] ∧ (dagAttempt exG [1] true).conns 1 = exG.conns 1 := by decide
example : (reorder exG 1 [5, 0]).2 = true ∧ (reorder exG 1 [5, 0]).1.conns 1 = [5, 0] ∧ (reorder exG 1 [5, 5]).2 = false := by
  decide

/-- `_restore_connections_from_strings` since f343608: the stored pair is inserted into both lists directly (if the
input does not list the output yet), without `connect` and therefore without a hint test. Mutuality, duplicate-freedom
and conjugate kinds survive — the last because the model (like the code's panel getters) only pairs an input panel with
the output panel of the same flavour and refuses (`false`) anything else. What is ASSUMED and no longer checked
anywhere: hint compatibility of what was stored. -/
theorem C12_restore_insert (g : G) (a b : Nat) (h : Inv g) :
    Inv (restoreInsert g a b).1 ∧ (b ∈ g.conns a → restoreInsert g a b = (g, true)) :=
  ⟨restoreInsert_inv g a b h, fun hb => by simp [restoreInsert, hb]⟩

/-- `Node.load` in place since f195940: an old channel hands its list to the loaded channel of the same label, its
partners list the loaded channel instead, the old channel lets go — a seating with one stand-in: the invariant
survives whenever the loaded channel is unconnected, distinct and of the same kind (checked by the model) -/
theorem C12_load_in_place (g : G) (o n : Nat) (h : Inv g) :
    Inv (moveChan g o n).1 ∧
    ((moveChan g o n).2 = true → (moveChan g o n).1.conns o = [] ∧
      (moveChan g o n).1.conns n = ((g.conns o).filter fun z => !([n] : List Nat).contains z).map (subst [(o, n)])) := by
  refine ⟨moveChan_inv g o n h, ?_⟩
  intro hok
  unfold moveChan at hok ⊢
  split
  · rename_i hs
    have hsp := seatable_spec g _ _ _ hs
    have hon : o ≠ n := fun e => hsp.disj o (by simp) (by simp [e])
    have h1 := seat_conns g [(o, n)] [o] [n] h hsp o
    have h2 := seat_conns g [(o, n)] [o] [n] h hsp n
    have hb : (n == o) = false := by simpa using (Ne.symm hon)
    simp [src, List.find?, hb] at h1
    simp [src, List.find?] at h2
    exact ⟨h1, by simpa [tr] using h2⟩
  · rename_i hs
    simp [hs] at hok

example : (restoreInsert exG 0 2).2 = true ∧ (restoreInsert exG 0 2).1.conns 0 = [2, 1] ∧ (restoreInsert exG 0 3).2 = false := by
  decide
example : (moveChan exG 1 2).2 = true ∧ (moveChan exG 1 2).1.conns 2 = [0, 5] ∧ (moveChan exG 1 2).1.conns 0 = [2] ∧
    (moveChan exG 1 2).1.conns 1 = [] := by decide

/-- `Node.run_data_tree` (every `pull`) since 89b457b: the lists of every signal channel of the data tree and of
every channel connected to one are saved, and assigned back in the `finally` block. WHATEVER graph the rewiring and
the upstream run leave, if it differs from the saved one only on saved channels the assignment returns exactly the
starting graph (order included); in particular for every sequence of connects / disconnects among saved channels —
which is all a pull does in between (`pullAttempt`; the driver checks the frame condition on every replay) -/
theorem C12_pull_restore (g : G) (keys : List Nat) :
    (∀ g', SameStatic g g' → (∀ x, x ∉ keys → g'.conns x = g.conns x) → restoreSaved g' (savedKeys g keys) = g) ∧
    (∀ ps, (pullAttempt g keys ps).1 = g) :=
  ⟨fun g' hs hf => restoreSaved_framed g g' keys hs hf, fun ps => pullAttempt_eq g keys ps⟩

example : (pullAttempt exG [0, 1, 5] [.disconnect 0 1, .connect 5 1, .disconnect 1 5]).2 = true ∧
    (runPrims exG [.disconnect 0 1, .connect 5 1, .disconnect 1 5]).conns 1 = [] ∧
    (pullAttempt exG [0, 1, 5] [.disconnect 0 1, .connect 5 1, .disconnect 1 5]).1.conns 1 = [0, 5] := by decide
example : (pullAttempt exG [0, 1] [.disconnect 1 5]).2 = false := by decide

/-- connections formed through calls (`set_input_values`, `run(**kwargs)`, `node(**kwargs)`: the keywords are applied
in order, the first refusal raises): the invariant survives; accepted or refused half-way, every list keeps what it
had as its tail (nothing is removed or re-ordered); and a call whose channel keywords only RESTATE existing
connections returns the identical graph, whatever a later keyword does -/
theorem C12_call (g : G) (known : Bool) (items : List CallItem) (h : Inv g) :
    Inv (callOp g known items).1 ∧
    (∀ x, ∃ pre, (callOp g known items).1.conns x = pre ++ g.conns x) ∧
    ((∀ a b, CallItem.chan a b ∈ items → b ∈ g.conns a) → (callOp g known items).1 = g) := by
  unfold callOp
  cases known with
  | true => exact ⟨callConn_inv items g h, callConn_suffix items g, callConn_restated items g⟩
  | false => exact ⟨h, fun x => ⟨[], rfl⟩, fun _ => rfl⟩

example : (callOp exG true [.chan 0 1, .valOk, .valBad]).2 = .typeErr ∧
    (callOp exG true [.chan 0 1, .valOk, .valBad]).1.conns 0 = [1] := by decide
example : (callOp exG true [.chan 6 1, .chan 0 2]).2 = .connErr ∧ (callOp exG true [.chan 6 1, .chan 0 2]).1.conns 1 = [6, 0, 5] := by
  decide

/-- why `replace_child` insists on an UNCONNECTED replacement (`seatable`'s last two clauses): seat a replacement whose
extra channel 7 is already wired to the neighbour 2 that also feeds the replaced channel 0 — `_seat_replacement` strips
every channel of the replacement from the neighbour's list: 7 still lists 2, 2 no longer lists 7 (seeded change C12-9) -/
def preKind : Nat → Kind | 2 => .dataOut | _ => .dataIn
def preG : G := ConnOps.run (empty preKind (fun c => c) (fun _ _ => true)) [.connect 0 [2], .connect 7 [2], .connect 4 [2]]
theorem C12_seat_prewired_witness :
    Inv preG ∧ seatable preG [(0, 4)] [0] [4, 7] = false ∧
    (2 : Nat) ∈ (seat preG [(0, 4)] [0] [4, 7]).conns 7 ∧ (7 : Nat) ∉ (seat preG [(0, 4)] [0] [4, 7]).conns 2 := by
  refine ⟨C12_history_current _ _ _ _, by decide, by decide, by decide⟩

/-- `Node.load` in place of a whole node: old channels hand over to the loaded channels of the same TYPE and label, one
after the other; the invariant survives for every list of pairs (a pair of different kinds is refused by the model) -/
theorem C12_reload (g : G) (pairs : List (Nat × Nat)) (h : Inv g) : Inv (reloadConn g pairs) :=
  reloadConn_inv pairs g h

/-- matching by LABEL alone is not enough (seeded change C12-12): a node with an input 1 and an output 3 of the same
label, fed by output 0 and feeding input 2; the loaded channels are 5 (input) and 6 (output). Handing the old INPUT's
list to the loaded OUTPUT is refused by the model (`moveChan … = false`), and doing it anyway joins output 0 with
output 6: the result violates conjugate typing -/
def lblKind : Nat → Kind | 0 => .dataOut | 3 => .dataOut | 6 => .dataOut | _ => .dataIn
def lblG : G := ConnOps.run (empty lblKind (fun c => c) (fun _ _ => true)) [.connect 1 [0], .connect 2 [3]]
theorem C12_reload_by_label_witness :
    Inv lblG ∧ (moveChan lblG 1 6).2 = false ∧ (moveChan lblG 1 5).2 = true ∧
    (0 : Nat) ∈ (seat lblG [(1, 6)] [1] [6]).conns 6 ∧ ¬ Inv (seat lblG [(1, 6)] [1] [6]) := by
  refine ⟨C12_history_current _ _ _ _, by decide, by decide, by decide, ?_⟩
  intro hi
  have := hi.typed 6 0 (by decide)
  revert this
  decide

example : (reloadConn lblG [(1, 5), (3, 6)]).conns 5 = [0] ∧ (reloadConn lblG [(1, 5), (3, 6)]).conns 6 = [2] ∧
    (reloadConn lblG [(1, 5), (3, 6)]).conns 0 = [5] ∧ (reloadConn lblG [(1, 5), (3, 6)]).conns 1 = [] := by decide

/-! ## refusals per side, in the tree's order of half-removals -/

/-- where no channel refuses (the tree as it is), the half-by-half transcription IS the atomic one
of `Model/Conn.lean`, and nothing raises -/
theorem C12_unguarded_is_atomic (g : G) (a : Nat) (bs cs : List Nat) :
    (disconnectG allow g a bs).1 = disconnect g a bs ∧ (disconnectG allow g a bs).2.2 = false ∧
    (disconnectChansG allow g cs []).1 = disconnectChans g cs ∧ (disconnectChansG allow g cs []).2.2 = false ∧
    connectG allow g a bs = ((connect g a bs).1, .ofRes (connect g a bs).2) :=
  ⟨(disconnectG_allow g a bs).1, (disconnectG_allow g a bs).2, (disconnectChansG_allow g cs []).1,
   (disconnectChansG_allow g cs []).2, connectG_allow g a bs⟩

/-- FOR EVERY permission predicate: `a.disconnect(b)` on a connected pair keeps the invariant
exactly when `b` cannot refuse after `a`'s half has been removed -/
theorem C12_disconnect_half_iff (me : May) (g : G) (a b : Nat) (h : Inv g) (ha : me a = true)
    (hb : b ∈ g.conns a) : Inv (disconnectG me g a [b]).1 ↔ me b = true :=
  disconnectG_single_inv_iff me g a b h ha hb

/-- ... and the torn state is: `a`'s half gone, `b`'s half still there, no report -/
theorem C12_disconnect_torn_state (me : May) (g : G) (a b : Nat) (ha : me a = true) (hb : b ∈ g.conns a)
    (hmb : me b = false) : disconnectG me g a [b] = (eraseHalf g a b, [], true) :=
  disconnectG_single_torn me g a b ha hb hmb

/-- a refusal at the entry (the initiating side's own guard) changes nothing, for both directions -/
theorem C12_entry_refused_noop (me : May) (g : G) (a : Nat) (bs : List Nat) (h : me a = false) :
    disconnectG me g a bs = (g, [], true) ∧ connectG me g a bs = (g, .locked) :=
  ⟨disconnectG_locked_noop me g a bs h, connectG_locked_noop me g a bs h⟩

/-- `connect` edits the partner's list directly: FOR EVERY permission predicate it keeps the
invariant, and a refused single connection changes nothing -/
theorem C12_connect_guarded_atomic (me : May) (g : G) (a b : Nat) (bs : List Nat) (h : Inv g) :
    Inv (connectG me g a bs).1 ∧ ((connectG me g a [b]).2 ≠ .ok → (connectG me g a [b]).1 = g) :=
  ⟨connectG_inv me g a bs h, connectG_single_refused_noop me g a b⟩

/-- witness: an input whose owner is "running" refuses; the disconnection initiated from the
output side tears the pair apart -/
def tornKind : Nat → Kind | 0 => .dataOut | _ => .dataIn
def tornG : G := run (empty tornKind (fun c => c) (fun _ _ => true)) [.connect 0 [1], .connect 0 [2]]
def tornMe : May := fun c => c != 1

theorem C12_disconnect_torn_witness :
    Inv tornG ∧ (disconnectG tornMe tornG 0 [1]).2.2 = true ∧
    1 ∉ (disconnectG tornMe tornG 0 [1]).1.conns 0 ∧ 0 ∈ (disconnectG tornMe tornG 0 [1]).1.conns 1 ∧
    ¬ Inv (disconnectG tornMe tornG 0 [1]).1 := by
  have hi : Inv tornG := C12_history _ _ _ _
  refine ⟨hi, by decide, by decide, by decide, ?_⟩
  have hb : (1 : Nat) ∈ tornG.conns 0 := by decide
  exact fun h => absurd ((C12_disconnect_half_iff tornMe tornG 0 1 hi (by decide) hb).mp h) (by decide)

/-- a protocol that consults both guards before it touches either half cannot be torn: FOR EVERY
history in which the permission changes arbitrarily between operations the invariant holds ... -/
theorem C12_safe_protocol_history (kind owner valid) (hist : List (May × SafeOp)) :
    Inv (runSafe (empty kind owner valid) hist) :=
  runSafe_inv _ hist (C12_init kind owner valid)

/-- ... and every refused operation changes nothing -/
theorem C12_safe_protocol_refused_noop (me : May) (g : G) (op : SafeOp) (hr : (stepSafe me g op).2 ≠ .ok) :
    (stepSafe me g op).1 = g := stepSafe_refused_noop me g op hr

example : (stepSafe tornMe tornG (.disconnect 0 1)).2 = .locked ∧
    (stepSafe tornMe tornG (.disconnect 0 1)).1.conns 1 = [0] := by decide
example : (stepSafe tornMe tornG (.disconnect 0 2)).1.conns 0 = [1] := by decide

/-! ## owners at every level: any list of channels -/

/-- `disconnect()` of an owner whose panels hold the channels `cs` — a panel, the signals, a node, a
macro, a workflow with the child channels its data panels expose — leaves no channel ANYWHERE pointing
at any of them, and they hold nothing -/
theorem C12_owner_disconnect_clean (g : G) (cs : List Nat) (h : Inv g) :
    ∀ y ∈ cs, (∀ x, y ∉ (disconnectChans g cs).conns x) ∧ (disconnectChans g cs).conns y = [] :=
  fun y hy => ⟨fun x => (disconnectChans_clean g cs h y hy x).1, (disconnectChans_clean g cs h y hy y).2⟩

/-- ... and it does exactly that: every other channel keeps its list, in order, minus the owner's -/
theorem C12_owner_disconnect_exact (g : G) (cs : List Nat) (h : Inv g) (x : Nat) :
    (disconnectChans g cs).conns x = if x ∈ cs then [] else (g.conns x).filter (fun y => !cs.contains y) :=
  disconnectChans_conns g cs h x

/-- `connected` of the owner is false right afterwards -/
theorem C12_owner_not_connected_after (g : G) (cs : List Nat) (h : Inv g) :
    anyConnected (disconnectChans g cs) cs = false := anyConnected_after g cs h

/-- the report: the graph is the one above, and the returned pairs are, channel by channel in panel
order, the partners each still had; every reported pair was a connection of the owner, and every
connection of the owner is reported (in one orientation) -/
theorem C12_owner_disconnect_report (g : G) (cs : List Nat) (h : Inv g) :
    (disconnectChansR g cs).1 = disconnectChans g cs ∧
    (disconnectChansR g cs).2 = reportSpec g cs [] ∧
    (∀ p ∈ (disconnectChansR g cs).2, p.1 ∈ cs ∧ p.2 ∈ g.conns p.1) ∧
    (∀ c ∈ cs, ∀ y ∈ g.conns c, (c, y) ∈ (disconnectChansR g cs).2 ∨ (y, c) ∈ (disconnectChansR g cs).2) := by
  refine ⟨disconnectChansR_fst g cs, disconnectChansR_report g h cs, ?_, ?_⟩
  · intro p hp
    rw [disconnectChansR_report g h cs] at hp
    have := reportSpec_sound g cs [] p hp
    exact ⟨this.1, this.2.1⟩
  · intro c hc y hy
    rw [disconnectChansR_report g h cs]
    exact reportSpec_complete g h cs [] c y hc hy (by simp) (by simp)

/-- channel level: `disconnect_all` reports exactly its partners, in list order -/
theorem C12_disconnect_all_report (g : G) (a : Nat) (h : Inv g) :
    (disconnectAllG allow g a).2.1 = (g.conns a).map fun b => (a, b) :=
  disconnectAllG_allow_report g a h

/-! Non-vacuity: a "workflow" whose panels expose the channels 0 (an input of a child) and 1 (an
output of a child), both wired to channels 2, 3 of another owner, and 4–5 an internal connection. -/
def ownKind : Nat → Kind | 0 => .dataIn | 1 => .dataOut | 2 => .dataOut | 3 => .dataIn | 4 => .dataOut | _ => .dataIn
def ownG : G := run (empty ownKind (fun c => c / 2) (fun _ _ => true))
  [.connect 0 [2], .connect 3 [1], .connect 5 [4], .connect 0 [4]]
example : ownG.conns 0 = [4, 2] ∧ ownG.conns 4 = [0, 5] := by decide
example : (disconnectChansR ownG [0, 1]).2 = [(0, 4), (0, 2), (1, 3)] := by decide
example : (disconnectChans ownG [0, 1]).conns 4 = [5] ∧ (disconnectChans ownG [0, 1]).conns 2 = [] := by decide
example : anyConnected ownG [0, 1] = true ∧ panelConnections ownG [0, 1] = [4, 2, 3] := by decide

/-- a node that loses its parent WITHOUT its `disconnect()` (what the merge-back from a by-value executor
does to the local children, KF-C12-1) is still pointed at: with the body channel 1 wired to the outside
channel 0, dropping the owner of 1 leaves `0` listing `1`, whereas `remove_child` (`disconnectChans`) clears it -/
theorem C12_ditch_without_disconnect_witness :
    (1 : Nat) ∈ tornG.conns 0 ∧ (∀ x, (1 : Nat) ∉ (disconnectChans tornG [1]).conns x) :=
  ⟨by decide, fun x => (C12_owner_disconnect_clean tornG [1] (C12_history _ _ _ _) 1 (by simp)).1 x⟩

/-! ## refused copies -/

/-- `Channel.copy_connections` as the tree has it now: refused ⇒ every list exactly as before,
whatever was connected before -/
theorem C12_copy_connections_refused_noop (g : G) (a b : Nat) (h : Inv g) (hr : (copyConnsN g a b).2 ≠ .ok) :
    (copyConnsN g a b).1 = g := copyConnsN_refused g a b h hr

/-- `HasIO._copy_connections(fail_hard=True)` (`copy_io`, `replace_child`) as the tree has it now: a
refusal in ANY panel position, with ANY pre-existing connections, restores every list exactly -/
theorem C12_copy_io_refused_noop (g : G) (ps : List (Option Nat × Nat)) (h : Inv g)
    (hr : (copyIoN g true ps).2 ≠ .ok) : (copyIoN g true ps).1 = g := copyIoN_refused g ps h hr

/-- a soft copy never refuses -/
theorem C12_copy_io_soft_never_refuses (g : G) (ps : List (Option Nat × Nat)) : (copyIoN g false ps).2 = .ok :=
  copyIoN_soft_ok g ps

/-- the full statement for the copies as they were PINNED (`Model/Conn.lean`: every attempted partner
went into the undo log) -/
def PinnedCopyRefusedNoopStatement : Prop :=
  ∀ (g : G) (a b : Nat), Inv g → (copyConns g a b).2 ≠ .ok → (copyConns g a b).1 = g

/-- ... holds under the named hypotheses "no partner to be copied is a partner already" /
"the receiving channels start unconnected" (what `replace_child` enforces on the replacement) -/
theorem C12_pinned_copy_refused_partial (g : G) (h : Inv g) :
    (∀ a b, (∀ c ∈ g.conns b, c ∉ g.conns a) → (copyConns g a b).2 ≠ .ok → (copyConns g a b).1 = g) ∧
    (∀ ps, (∀ m o, (some m, o) ∈ ps → g.conns m = []) → (copyIo g true ps).2 ≠ .ok → (copyIo g true ps).1 = g) :=
  ⟨fun a b hf hr => copyConns_refused g a b h hf hr, fun ps hun hr => copyIo_refused g ps h hun hr⟩

/-- ... and is false without them: channel 3 (input) copies from channel 0 (input) whose partners are
1 (also a partner of 3 already) and 2 (refused by 3's hint): the refused copy disconnects 3–1 -/
def cpKind : Nat → Kind | 1 => .dataOut | 2 => .dataOut | _ => .dataIn
def cpG : G := run (empty cpKind (fun c => c) (fun a b => !((a == 3 && b == 2) || (a == 2 && b == 3))))
  [.connect 0 [2], .connect 0 [1], .connect 3 [1]]

theorem C12_pinned_copy_witness : ¬ PinnedCopyRefusedNoopStatement := by
  intro hst
  have hi : Inv cpG := C12_history _ _ _ _
  have h1 : (copyConns cpG 3 0).2 ≠ .ok := by decide
  have h2 := hst cpG 3 0 hi h1
  have h3 : (copyConns cpG 3 0).1.conns 3 = [] := by decide
  have h4 : cpG.conns 3 = [1] := by decide
  rw [h2] at h3
  rw [h3] at h4
  cases h4

example : (copyConnsN cpG 3 0).2 = .connErr ∧ (copyConnsN cpG 3 0).1.conns 3 = [1] ∧
    (copyConnsN cpG 3 0).1.conns 1 = [3, 0] := by decide
/-- multi-panel: the first pair copies, the second has no counterpart: everything is unwound -/
example : (copyIoN cpG true [(some 4, 0), (none, 3)]).2 = .connErr ∧
    (copyIoN cpG true [(some 4, 0), (none, 3)]).1.conns 1 = cpG.conns 1 := by decide
example : (copyIoN cpG false [(some 4, 0), (none, 3)]).1.conns 4 = [2, 1] := by decide

end PwVerif.C12

#print axioms PwVerif.C12.C12_init
#print axioms PwVerif.C12.C12_step
#print axioms PwVerif.C12.C12_history
#print axioms PwVerif.C12.C12_refused_noop
#print axioms PwVerif.C12.C12_disconnect_unconnected_noop
#print axioms PwVerif.C12.C12_node_disconnect_clean
#print axioms PwVerif.C12.C12_connect_idempotent
#print axioms PwVerif.C12.C12_step_current
#print axioms PwVerif.C12.C12_history_current
#print axioms PwVerif.C12.C12_seat_keeps_invariant
#print axioms PwVerif.C12.C12_seat_exact
#print axioms PwVerif.C12.C12_replace_keeps_invariant
#print axioms PwVerif.C12.C12_replace_refused_noop
#print axioms PwVerif.C12.C12_restore_insert
#print axioms PwVerif.C12.C12_load_in_place
#print axioms PwVerif.C12.C12_reload
#print axioms PwVerif.C12.C12_reload_by_label_witness
#print axioms PwVerif.C12.C12_call
#print axioms PwVerif.C12.C12_seat_prewired_witness
#print axioms PwVerif.C12.C12_pull_restore
#print axioms PwVerif.C12.C12_flow_derivation
#print axioms PwVerif.C12.C12_firing_order
#print axioms PwVerif.C12.C12_ditch_without_disconnect_witness
#print axioms PwVerif.C12.C12_unguarded_is_atomic
#print axioms PwVerif.C12.C12_disconnect_half_iff
#print axioms PwVerif.C12.C12_disconnect_torn_state
#print axioms PwVerif.C12.C12_entry_refused_noop
#print axioms PwVerif.C12.C12_connect_guarded_atomic
#print axioms PwVerif.C12.C12_disconnect_torn_witness
#print axioms PwVerif.C12.C12_safe_protocol_history
#print axioms PwVerif.C12.C12_safe_protocol_refused_noop
#print axioms PwVerif.C12.C12_owner_disconnect_clean
#print axioms PwVerif.C12.C12_owner_disconnect_exact
#print axioms PwVerif.C12.C12_owner_not_connected_after
#print axioms PwVerif.C12.C12_owner_disconnect_report
#print axioms PwVerif.C12.C12_disconnect_all_report
#print axioms PwVerif.C12.C12_copy_connections_refused_noop
#print axioms PwVerif.C12.C12_copy_io_refused_noop
#print axioms PwVerif.C12.C12_copy_io_soft_never_refuses
#print axioms PwVerif.C12.C12_pinned_copy_refused_partial
#print axioms PwVerif.C12.C12_pinned_copy_witness
