import PwVerif.Proofs.Edit
import PwVerif.Proofs.BridgeC14C13
import PwVerif.Proofs.WfIO
/-!
# C14 — Graph edits are all-or-nothing and a replacement inherits the old node's place

"If replacing a child, copying IO, or deriving execution flow from the data graph fails at any
step, the graph is left exactly as it was: same children, labels, connections, values, value
links and starting nodes. If a replacement succeeds, the new node has the old node's label,
parent, starting-node status, macro value links and every connection the old node had, with the
same priority among multiple connections, so that an interface-compatible replacement changes
results only through its own function."

The model (`Model/Edit.lean`) replays `Composite.replace_child`, `Workflow.replace_child`,
`HasIO.copy_io`, `Channel.copy_connections` and `set_run_signals_to_dag_execution` step by step
with their own undo logs; the verdicts of the hint machinery (`g.valid`, `admits`, `linkOk`) are
*parameters*, so every theorem below holds for every pattern of refused connection / value / link
transfers.  `Cfg` has one switch per repair: `Cfg.pinned` = the tree as pinned, `Cfg.current` =
the tree as it is now (`fix: 02da358`, the ownership pre-check), `Cfg.repaired` = with
`fixes/C14-*.patch`.

* all-or-nothing: `C14_replace_atomic`, `C14_copy_io_atomic`, `C14_copy_chan_atomic`,
  `C14_dag_atomic` are the full statements for the repaired variant; for the tree in which the
  findings were recorded (`Cfg.current`) each is *false* (`…_witness`, one machine-checked
  counterexample per defect) and holds under a named hypothesis (`…_partial`).  `Cfg.head` is
  the tree as it is now (the five repairs of round 2 are in): `C14_head_replace_atomic`,
  `C14_head_inherits`.  A workflow-level replacement whose IO cannot be rebuilt afterwards is not
  all-or-nothing in `Cfg.head` (`C14_wf_revert_witness`); with the dry run of the IO keys
  (`wfDryRun`, `fixes/C14-workflow-io-dry-run.patch`) it is: `C14_wf_replace_atomic` (no
  `RebuildSucceeds` any more; the dry run is sound: `C14_wf_io_survives`).
* composition: `C14_preserves_C12_C13` — after a replacement, accepted or refused, the connection
  graph satisfies C12's invariant and the ownership tree C13's.
* inheritance: `C14_inherits` (repaired): same positions in every list; `C14_inherits_order_witness`
  (current tree: priority reversed), `C14_inherits_partial` (current tree: everything but the
  order).
Only property theorems live here; the lemmas are in `Proofs/Edit.lean`.
-/
namespace PwVerif.C14
open PwVerif PwVerif.Conn PwVerif.Edit

/-! ## statements -/

/-- FULL STATEMENT (a): a refused `replace_child` leaves the world as it was -/
def ReplaceStatement (cfg : Cfg) : Prop :=
  ∀ (w : W) (p old new : Nat), Inv w.g → (replace cfg w p old new).2 ≠ .ok → (replace cfg w p old new).1 = w

/-- FULL STATEMENT (c1): a failed `copy_io` leaves the world as it was -/
def CopyIoStatement (cfg : Cfg) : Prop :=
  ∀ (w : W) (me other : Nat) (ch : Bool), Inv w.g →
    (copyIo cfg w me other ch false).2 ≠ .ok → (copyIo cfg w me other ch false).1 = w

/-- FULL STATEMENT (c1'): the same with `values_fail_hard=True` -/
def CopyIoHardStatement (cfg : Cfg) : Prop :=
  ∀ (w : W) (me other : Nat) (ch : Bool), Inv w.g →
    (copyIo cfg w me other ch true).2 ≠ .ok → (copyIo cfg w me other ch true).1 = w

def CopyChanStatement (cfg : Cfg) : Prop :=
  ∀ (w : W) (a b : Nat), Inv w.g → (copyChan cfg w a b).2 ≠ .ok → (copyChan cfg w a b).1 = w

/-- FULL STATEMENT (c2): a failed flow derivation leaves the world as it was -/
def DagStatement (cfg : Cfg) : Prop :=
  ∀ (w : W) (p : Nat) (up : Nat → List Nat) (start : List Nat),
    (dag cfg w p up start).2 ≠ .ok → (dag cfg w p up start).1 = w

/-- what "inherits the place" means for the connection lists: the stand-in of every connected
channel holds that channel's list, every neighbour lists the stand-ins where it listed the
replaced channels (same positions), the replaced node is left unconnected -/
structure PlacedConns (w w' : W) (old new : Nat) : Prop where
  own : ∀ oc nc, (oc, nc) ∈ standIns w new old → w'.g.conns nc = w.g.conns oc
  neighbours : ∀ q, w.g.owner q ≠ old → w.g.owner q ≠ new →
    w'.g.conns q = (w.g.conns q).map (subst (standIns w new old))
  oldFree : ∀ c, w.g.owner c = old → w'.g.conns c = []

/-- … for ownership: label, parent, children entry, starting status handed over; the replaced
node is free; nobody else is touched -/
structure PlacedTree (t t' : Tree.Tree) (p old new : Nat) : Prop where
  label : t'.label new = t.label old
  parent : t'.parent new = some p
  listed : (t.label old, new) ∈ t'.children p
  starting : new ∈ t'.starting p ↔ old ∈ t.starting p
  oldParent : t'.parent old = none
  oldUnlisted : old ∉ Tree.vals (t'.children p)
  others : ∀ x, x ≠ old → x ≠ new → t'.label x = t.label x ∧ t'.parent x = t.parent x ∧
    (x ∈ Tree.vals (t'.children p) ↔ x ∈ Tree.vals (t.children p)) ∧
    (x ∈ t'.starting p ↔ x ∈ t.starting p)
  elsewhere : ∀ q, q ≠ p → t'.children q = t.children q ∧ t'.starting q = t.starting q

/-- … for the macro value links: every input of the composite that fed an input of the replaced
node feeds the equally labelled input of the replacement, every output of the replaced node that
fed an output of the composite is fed by the equally labelled output of the replacement; no other
link changes (`links` is that list of couples) -/
def PlacedLinks (w w' : W) (p old new : Nat) : Prop :=
  ∃ links, linksOf w p old new = .ok links ∧ w'.recv = overwrite w.recv links

/-- FULL STATEMENT (b): a successful replacement inherits the place -/
def InheritsStatement (cfg : Cfg) : Prop :=
  ∀ (w : W) (p old new : Nat) (w' : W), compReplace cfg w p old new = (w', .ok) →
    Inv w.g → Tables w old new → NoSelfConn w.g old → new ∉ w.t.starting p →
    PlacedConns w w' old new ∧ PlacedTree w.t w'.t p old new ∧ PlacedLinks w w' p old new

/-- the named hypothesis of the workflow-level statement: the IO of the workflow can be built
once the replacement is in (no renaming-map collision brought in by it) -/
def RebuildSucceeds (cfg : Cfg) (w : W) (p old new : Nat) : Prop :=
  ∀ w1, compReplace cfg w p old new = (w1, .ok) → w.t.kind p = .workflow → wfIoOk w1 p = true

/-! ## theorems: repaired variant -/

/-- (a) for every composite that is not a workflow: every graph, every child, every candidate
replacement, every pattern of refused transfers -/
theorem C14_replace_atomic (fuel : Nat) (w : W) (p old new : Nat) (hinv : Inv w.g)
    (hk : w.t.kind p ≠ .workflow) (herr : (replace (Cfg.repaired fuel) w p old new).2 ≠ .ok) :
    (replace (Cfg.repaired fuel) w p old new).1 = w :=
  replace_atomic fuel w p old new hinv (fun _ _ h => absurd h hk) herr

/-- well-formedness of the tables around a workflow-level replacement: channel tables agree with
ownership (`Tables`), the replaced node is not connected to itself, the other children's channels
are their own -/
def WfWellFormed (w : W) (p old new : Nat) : Prop :=
  w.t.kind p = .workflow → Tables w old new ∧ NoSelfConn w.g old ∧ SiblingsApart w p old new

/-- (a) for workflows too, with the dry run of the IO keys: every graph, child, candidate and
renaming map — no hypothesis on the rebuild any more -/
theorem C14_wf_replace_atomic (fuel : Nat) (w : W) (p old new : Nat) (hinv : Inv w.g)
    (hwf : WfWellFormed w p old new) (herr : (replace (Cfg.repaired fuel) w p old new).2 ≠ .ok) :
    (replace (Cfg.repaired fuel) w p old new).1 = w :=
  replace_atomic_full (Cfg.repaired fuel) rfl rfl rfl rfl rfl w p old new hinv hwf herr

/-- the dry run is sound: whatever it lets pass leaves a workflow whose IO can be built -/
theorem C14_wf_io_survives (fuel : Nat) (w : W) (p old new : Nat) (w' : W) (hk : w.t.kind p = .workflow)
    (h : compReplace (Cfg.repaired fuel) w p old new = (w', .ok)) (hinv : Inv w.g) (htab : Tables w old new)
    (hself : NoSelfConn w.g old) (hsib : SiblingsApart w p old new) : wfIoOk w' p = true :=
  wf_rebuild_ok (Cfg.repaired fuel) rfl rfl rfl rfl rfl w p old new w' hk h hinv htab hself hsib

/-- the dry run is EXACT, for every assignment of child labels, channel labels and renaming maps
(no hypothesis on labels: delimiters inside labels, prefixes, names equal to canonical keys of
siblings are all covered): its verdict before the swap is the buildability of the IO view after
the swap, in the tree that has the dry run and in the tree that has not -/
theorem C14_dry_run_exact (cfg : Cfg) (ho : cfg.onlyNewUndo = true) (ha : cfg.adoptPrecheck = true)
    (hlp : cfg.linkPrecheck = true) (hpos : cfg.positional = true) (w : W) (p old new : Nat) (w' : W)
    (h : compReplace cfg w p old new = (w', .ok)) (hinv : Inv w.g) (htab : Tables w old new)
    (hself : NoSelfConn w.g old) (hsib : SiblingsApart w p old new) :
    wfIoOk w' p = true ↔ dryOk w p old new = true := by
  rw [wfIoOk_eq_dryOk cfg ho ha hlp hpos w p old new w' h hinv htab hself hsib]

/-- … and that verdict is C15's criterion for the would-be panels: a panel can be built exactly
when no two visible channels share a key (`WfIO.NoClash`, `C15_io_defined`) -/
theorem C14_dry_run_is_noclash (w : W) (p old new : Nat) :
    dryOk w p old new = true ↔
      (WfIO.NoClash (w.imap p) (dryConn w old new) (dryChans w p old new NodeIO.inp) ∧
       WfIO.NoClash (w.omap p) (dryConn w old new) (dryChans w p old new NodeIO.out)) := by
  have key : ∀ m c chans, (WfIO.buildIO m c chans).isSome = true ↔ WfIO.NoClash m c chans := by
    intro m c chans
    constructor
    · intro hs
      obtain ⟨q, hq⟩ := Option.isSome_iff_exists.mp hs
      exact ((WfIO.buildIO_some_iff _ _ _ q).mp hq).1
    · intro hn
      exact Option.isSome_iff_exists.mpr ⟨_, (WfIO.buildIO_some_iff _ _ _ _).mpr ⟨hn, rfl⟩⟩
  unfold dryOk
  rw [Bool.and_eq_true, key, key]

/-- the order inside the value setter (forward to the receiver, THEN store) is what the unwinding
of `_copy_panel` rests on: a refused assignment leaves the world untouched, whatever the depth of the
value-link chain below the channel … -/
theorem C14_refused_assignment_untouched (w : W) (f c : Nat) (v : Option Nat)
    (h : (setValG false w f c v).2 = false) : (setValG false w f c v).1 = w :=
  setValG_refused_untouched w f c v h

/-- … and the model's `_copy_panel` is the one over that setter -/
theorem C14_copy_panel_forward_then_store (fuel : Nat) (ps : List (Option Nat × Nat)) (w : W)
    (log : List (Nat × Option Nat)) : copyPanelG false fuel w ps log = copyPanel fuel true w ps log :=
  copyPanelG_false fuel ps w log

/-- (a) the tree as it is now (`Cfg.head`), any composite that is not a workflow -/
theorem C14_head_replace_atomic (fuel : Nat) (w : W) (p old new : Nat) (hinv : Inv w.g)
    (hk : w.t.kind p ≠ .workflow) (herr : (replace (Cfg.head fuel) w p old new).2 ≠ .ok) :
    (replace (Cfg.head fuel) w p old new).1 = w := by
  unfold replace at herr ⊢
  rw [if_neg hk] at herr ⊢
  exact compReplace_atomic' (Cfg.head fuel) rfl rfl rfl w p old new hinv herr

/-- (c1) `copy_io` as `replace_child` and every default call use it -/
theorem C14_copy_io_atomic (fuel : Nat) : CopyIoStatement (Cfg.repaired fuel) :=
  fun w me other ch hinv herr => copyIo_atomic_soft (Cfg.repaired fuel) rfl w me other ch hinv herr

/-- (c1') with hard value failures: everything but the receiving object's values is restored
(… in every variant whose connection log only holds new connections) -/
theorem C14_copy_io_hard_structure (fuel : Nat) (w : W) (me other : Nat) (ch vh : Bool) (hinv : Inv w.g)
    (herr : (copyIo (Cfg.repaired fuel) w me other ch vh).2 ≠ .ok) :
    ValOnly w (copyIo (Cfg.repaired fuel) w me other ch vh).1 :=
  copyIo_failed_valOnly (Cfg.repaired fuel) w me other ch vh hinv rfl herr

/-- (c1') with hard value failures, for a receiving object without value receivers whose current
values are admissible: all-or-nothing, values included -/
theorem C14_copy_io_hard_atomic (fuel : Nat) (w : W) (me other : Nat) (ch vh : Bool) (hinv : Inv w.g)
    (hok : ValuesOk (Cfg.repaired fuel) w me other)
    (herr : (copyIo (Cfg.repaired fuel) w me other ch vh).2 ≠ .ok) :
    (copyIo (Cfg.repaired fuel) w me other ch vh).1 = w :=
  copyIo_atomic_hard (Cfg.repaired fuel) rfl rfl w me other ch vh hinv hok herr

theorem C14_copy_chan_atomic (fuel : Nat) : CopyChanStatement (Cfg.repaired fuel) :=
  fun w a b hinv herr => copyChan_atomic (Cfg.repaired fuel) rfl w a b hinv herr

/-- (c2) for every graph (cyclic or not), every observed set order, every refused wiring
connection -/
theorem C14_dag_atomic (fuel : Nat) : DagStatement (Cfg.repaired fuel) :=
  fun w p up start herr => dag_atomic fuel w p up start herr

/-- (b) for every graph, child and accepted replacement -/
theorem C14_inherits (fuel : Nat) : InheritsStatement (Cfg.repaired fuel) := by
  intro w p old new w' h hinv htab hself hns
  obtain ⟨h1, h2, h3, h4, h5⟩ := compReplace_inherits fuel w p old new w' h hinv htab hself
  obtain ⟨hpo, hpn, _⟩ := compReplace_ok_shape fuel w p old new w' h
  obtain ⟨f1, f2, f3, f4, f5, f6, f7, f8, f9, f10, f11⟩ := tAfter_facts w.t p old new hpo hpn hns
  refine ⟨⟨h1, h2, h3⟩, ?_, h5⟩
  rw [h4]
  exact ⟨f1, f3, f5, f8, f4, f6, fun x hxo hxn => ⟨(f10 x hxo hxn).1, (f10 x hxo hxn).2, f7 x hxo hxn, f9 x hxo hxn⟩, f11⟩

/-- (a) by label (`replace_child("b", new)`): an unknown label is a `KeyError` that changes nothing,
a known one is the replacement of the child it names -/
theorem C14_replace_by_label_atomic (fuel : Nat) (w : W) (p : Nat) (l : Tree.Str) (new : Nat) (hinv : Inv w.g)
    (hwf : ∀ old, Tree.lookupKey (w.t.children p) l = some old → WfWellFormed w p old new)
    (herr : (replaceLabel (Cfg.repaired fuel) w p l new).2 ≠ .ok) :
    (replaceLabel (Cfg.repaired fuel) w p l new).1 = w := by
  unfold replaceLabel at herr ⊢
  cases hl : Tree.lookupKey (w.t.children p) l with
  | none => rfl
  | some old =>
    simp only [hl] at herr ⊢
    exact C14_wf_replace_atomic fuel w p old new hinv (hwf old hl) herr

/-- C05's side of the edit: an accepted replacement drops the cache of the composite and of the
replacement and no other (a refused one drops none: it changes nothing at all) -/
theorem C14_caches_dropped (fuel : Nat) (w : W) (p old new : Nat) (w' : W)
    (h : compReplace (Cfg.head fuel) w p old new = (w', .ok)) (hinv : Inv w.g) (htab : Tables w old new)
    (hself : NoSelfConn w.g old) :
    w'.cached p = false ∧ w'.cached new = false ∧ ∀ n, n ≠ p → n ≠ new → w'.cached n = w.cached n := by
  obtain ⟨_, _, _, _, _, hc, _⟩ :=
    compReplace_inherits' (Cfg.head fuel) rfl rfl rfl rfl w p old new w' h hinv htab hself
  rw [hc]
  refine ⟨?_, by simp [updF], fun n h1 h2 => by simp [updF, h1, h2]⟩
  by_cases hpn : p = new <;> simp [updF, hpn]

/-- (b) the tree as it is now -/
theorem C14_head_inherits (fuel : Nat) : InheritsStatement (Cfg.head fuel) := by
  intro w p old new w' h hinv htab hself hns
  obtain ⟨h1, h2, h3, h4, h5, _⟩ :=
    compReplace_inherits' (Cfg.head fuel) rfl rfl rfl rfl w p old new w' h hinv htab hself
  obtain ⟨hpo, hpn, _⟩ := compReplace_ok_shape' (Cfg.head fuel) rfl rfl rfl rfl w p old new w' h
  obtain ⟨f1, f2, f3, f4, f5, f6, f7, f8, f9, f10, f11⟩ := tAfter_facts w.t p old new hpo hpn hns
  refine ⟨⟨h1, h2, h3⟩, ?_, h5⟩
  rw [h4]
  exact ⟨f1, f3, f5, f8, f4, f6, fun x hxo hxn => ⟨(f10 x hxo hxn).1, (f10 x hxo hxn).2, f7 x hxo hxn, f9 x hxo hxn⟩, f11⟩

/-- COMPOSITION with C12 and C13 (every repair in place): whatever `replace_child` does — accept or
refuse —, the connection graph afterwards is mutual, well-typed and duplicate-free (`Conn.Inv`, C12)
and the ownership tree satisfies C13's invariant (`Tree.WFTree`: one parent, both sides agree,
unique labels, no cycles, workflows are roots, starting nodes are children).  The seat assigns
connection lists directly: that it keeps C12's invariant is `seat_inv` (the seat is the
conjugation of the graph with the involution swapping replaced channels and stand-ins). -/
theorem C14_preserves_C12_C13 (fuel : Nat) (w : W) (p old new : Nat) (hinv : Inv w.g) (hwft : Tree.WFTree w.t)
    (htab : Tables w old new) (hself : NoSelfConn w.g old) (hm : StandInsOk w.g (standIns w new old))
    (hsib : SiblingsApart w p old new) :
    Inv (replace (Cfg.repaired fuel) w p old new).1.g ∧ Tree.WFTree (replace (Cfg.repaired fuel) w p old new).1.t := by
  by_cases herr : (replace (Cfg.repaired fuel) w p old new).2 = .ok
  · -- accepted: the composite-level result, seated and adopted
    have key : ∀ w', compReplace (Cfg.repaired fuel) w p old new = (w', .ok) → Inv w'.g ∧ Tree.WFTree w'.t := by
      intro w' h
      obtain ⟨_, _, _, ht, _, _, hg, hctx⟩ :=
        compReplace_inherits' (Cfg.repaired fuel) rfl rfl rfl rfl w p old new w' h hinv htab hself
      obtain ⟨hpo, hpn, _, had, _⟩ := compReplace_ok_shape' (Cfg.repaired fuel) rfl rfl rfl rfl w p old new w' h
      have hst : standIns { w with g := (copyPairs true w.g true (ioPairs w new old) []).1, val := w'.val } new old
          = standIns w new old :=
        standIns_congr w _ _ new old (fun oc hoc => hctx.ci.oldSame oc ((htab.oldOwn oc).mp hoc))
      refine ⟨?_, ?_⟩
      · rw [hg]
        exact seat_inv hctx hinv (by rw [hst]; exact hm)
      · rw [ht]
        exact tAfter_wf fuel w.t p old new hwft hpo hpn had
    unfold replace at herr ⊢
    split
    · rename_i hk
      rw [if_pos hk] at herr
      have hio := fun w1 h => wf_rebuild_ok (Cfg.repaired fuel) rfl rfl rfl rfl rfl w p old new w1 hk h hinv htab
        hself hsib
      generalize hr : compReplace (Cfg.repaired fuel) w p old new = r at herr hio key ⊢
      obtain ⟨w1, e⟩ := r
      cases e with
      | ok =>
        simp only [hio w1 rfl, if_true]
        exact key w1 rfl
      | _ => simp at herr
    · rename_i hk
      rw [if_neg hk] at herr
      generalize hr : compReplace (Cfg.repaired fuel) w p old new = r at herr key ⊢
      obtain ⟨w1, e⟩ := r
      simp only at herr
      subst herr
      exact key w1 rfl
  · -- refused: nothing changed
    rw [replace_atomic_full (Cfg.repaired fuel) rfl rfl rfl rfl rfl w p old new hinv
      (fun _ => ⟨htab, hself, hsib⟩) herr]
    exact ⟨hinv, hwft⟩

/-! ## theorems: the tree as it is (partial statements under named hypotheses) -/

/-- named hypothesis: the connection loop of the copy never meets a pair that is connected
already (always true for the repaired log; decidable for a concrete world) -/
def FreshCopy (w : W) (me other : Nat) (hard : Bool) : Prop := freshPairs w.g hard (ioPairs w me other) = true

/-- named hypothesis: the composite holds no value link to or from the replaced node -/
def NoValueLinks (w : W) (p old new : Nat) : Prop := linksOf w p old new = .ok []

/-- named hypothesis: the children carry no run wiring yet -/
def NoRunWiring (w : W) (p : Nat) : Prop := ∀ c ∈ cutChans w (Tree.vals (w.t.children p)), w.g.conns c = []

/-- (c1) every variant: a failed `copy_io` (soft values) is all-or-nothing under `FreshCopy` -/
theorem C14_copy_io_atomic_partial (cfg : Cfg) (w : W) (me other : Nat) (ch : Bool) (hinv : Inv w.g)
    (hf : FreshCopy w me other ch) (herr : (copyIo cfg w me other ch false).2 ≠ .ok) :
    (copyIo cfg w me other ch false).1 = w := by
  apply copyIo_atomic_soft' cfg w me other ch hinv _ herr
  cases cfg.onlyNewUndo with
  | true => rfl
  | false => exact copyPairs_fresh ch _ w.g [] hf

/-- (a) the tree as it is (ownership pre-check in, links not pre-checked): all-or-nothing for a
composite that is not a workflow and holds no value link to the replaced node -/
theorem C14_replace_atomic_partial (fuel : Nat) (w : W) (p old new : Nat) (hinv : Inv w.g)
    (hk : w.t.kind p ≠ .workflow) (hl : NoValueLinks w p old new) (hf : FreshCopy w new old true)
    (herr : (replace (Cfg.current fuel) w p old new).2 ≠ .ok) : (replace (Cfg.current fuel) w p old new).1 = w := by
  unfold replace at herr ⊢
  rw [if_neg hk] at herr ⊢
  exact compReplace_atomic_partial (Cfg.current fuel) rfl rfl w p old new hinv hk hl hf herr

/-- (c2) every variant: all-or-nothing for an unorderable data graph as long as there is no run
wiring to cut -/
theorem C14_dag_atomic_partial (cfg : Cfg) (w : W) (p : Nat) (up : Nat → List Nat) (start : List Nat)
    (hnw : NoRunWiring w p) (herr : (dag cfg w p up start).2 ≠ .ok) (hnc : (dag cfg w p up start).2 ≠ .connErr) :
    (dag cfg w p up start).1 = w :=
  dag_atomic_partial cfg w p up start hnw herr hnc

/-- (b) the tree as it is: everything but the positions is inherited — ownership, starting status,
value links; the replaced node is left free -/
theorem C14_inherits_partial (fuel : Nat) (w : W) (p old new : Nat) (w' : W)
    (h : compReplace (Cfg.current fuel) w p old new = (w', .ok)) (hinv : Inv w.g) (hk : w.t.kind p ≠ .workflow)
    (hns : new ∉ w.t.starting p) :
    PlacedTree w.t w'.t p old new ∧ (∀ c ∈ (w.io old).all, w'.g.conns c = []) ∧ PlacedLinks w w' p old new := by
  obtain ⟨hpo, hpn, links, f, hl, ht, hg, hr⟩ :=
    compReplace_ok_shape_plain (Cfg.current fuel) rfl rfl w p old new w' h
  obtain ⟨f1, f2, f3, f4, f5, f6, f7, f8, f9, f10, f11⟩ := tAfter_facts w.t p old new hpo hpn hns
  refine ⟨?_, ?_, links, ?_, hr⟩
  · rw [ht]
    exact ⟨f1, f3, f5, f8, f4, f6,
      fun x hxo hxn => ⟨(f10 x hxo hxn).1, (f10 x hxo hxn).2, f7 x hxo hxn, f9 x hxo hxn⟩, f11⟩
  · intro c hc
    rw [hg]
    exact disconnectChans_empty _ _ (copyPairs_inv _ _ _ _ hinv) c hc
  · rw [← hl]
    apply Eq.symm
    apply linksOf_congr w _ p old new hk <;> rfl

/-! ## concrete worlds (non-vacuity, and the behaviour of the tree as it is)

node `n` owns the channels `10n` (`x`), `10n+1` (`y`), `10n+2` (`o`), `10n+3` (`run`),
`10n+4` (`accumulate_and_run`), `10n+5` (`ran`) -/

def exOwner (c : Nat) : Nat := if c % 10 < 6 then c / 10 else 1000
def exKind (c : Nat) : Kind :=
  match c % 10 with
  | 0 => .dataIn | 1 => .dataIn | 2 => .dataOut | 3 => .sigIn | 4 => .sigIn | _ => .sigOut
def exLab (c : Nat) : String :=
  match c % 10 with
  | 0 => "x" | 1 => "y" | 2 => "o" | 3 => "run" | 4 => "accumulate_and_run" | _ => "ran"
def exIO (n : Nat) : NodeIO := ⟨[10 * n, 10 * n + 1], [10 * n + 2], [10 * n + 3, 10 * n + 4], [10 * n + 5]⟩

def exG0 (valid : Nat → Nat → Bool) : G := { kind := exKind, owner := exOwner, valid, conns := fun _ => [] }

theorem exG0_inv (valid : Nat → Nat → Bool) : Inv (exG0 valid) :=
  ⟨by simp [exG0], by simp [exG0], by simp [exG0]⟩

def mkTree (kinds : List (Nat × Tree.Kind)) (labels : List (Nat × String)) (kids : List (Nat × List Nat))
    (start : List (Nat × List Nat)) : Tree.Tree :=
  { kind := fun n => (kinds.lookup n).getD .leaf,
    strict := fun _ => true, reserved := fun _ => [],
    label := fun n => ((labels.lookup n).getD "").toList,
    parent := fun c => (kids.find? (fun e => c ∈ e.2)).map (·.1),
    children := fun p => ((kids.lookup p).getD []).map fun c => (((labels.lookup c).getD "").toList, c),
    starting := fun p => (start.lookup p).getD [] }

def mkW (t : Tree.Tree) (g : G) : W :=
  { t, g, io := exIO, clab := exLab, val := fun _ => none, recv := fun _ => none,
    admits := fun _ _ => true, linkOk := fun _ _ => true, locked := fun _ => false,
    imap := fun _ => none, omap := fun _ => none, cached := fun _ => false }

def cur : Cfg := Cfg.current 64
def rep : Cfg := Cfg.repaired 64

/-! ### D1 — priority order -/

/-- macro 0 owns a=1, b=2, c=3, d=4 (starting: a, b); `d.x` lists `[c.o, b.o, a.o]`, `d.y` lists
`[b.o]`; 5 is the replacement -/
def t1 : Tree.Tree := mkTree [(0, .macro)] [(0, "m"), (1, "a"), (2, "b"), (3, "c"), (4, "d"), (5, "r")]
  [(0, [1, 2, 3, 4])] [(0, [1, 2])]
def g1 : G := run (exG0 fun _ _ => true) [.connect 40 [12], .connect 40 [22], .connect 40 [32], .connect 41 [22]]
def w1 : W := mkW t1 g1

theorem w1_inv : Inv w1.g := run_inv _ _ (exG0_inv _)

theorem w1_tables (old new : Nat) (ho : old < 100) (hn : new < 100) (hk : w1.t.kind old ≠ .workflow)
    (hinj : ∀ e e', e ∈ standIns w1 new old → e' ∈ standIns w1 new old → e.2 = e'.2 → e.1 = e'.1) :
    Tables w1 old new := by
  refine ⟨?_, ?_, hk, hinj⟩
  · intro c
    simp only [w1, mkW, exIO, NodeIO.all, List.mem_append, List.mem_cons, List.not_mem_nil, or_false]
    show _ ↔ exOwner c = old
    unfold exOwner
    split <;> omega
  · intro c
    simp only [w1, mkW, exIO, NodeIO.all, List.mem_append, List.mem_cons, List.not_mem_nil, or_false]
    show _ ↔ exOwner c = new
    unfold exOwner
    split <;> omega

theorem w1_standIns : standIns w1 5 2 = [(22, 52)] := by decide

theorem w1_tables_b : Tables w1 2 5 := by
  apply w1_tables 2 5 (by decide) (by decide) (by decide)
  intro e e' he he' _
  rw [w1_standIns] at he he'
  simp only [List.mem_singleton] at he he'
  rw [he, he']

theorem w1_noself (old : Nat) (h : old = 2 ∨ old = 4) : NoSelfConn w1.g old := by
  intro c hc y hy
  have hc' : exOwner c = old := hc
  unfold exOwner at hc'
  rcases h with rfl | rfl
  · have : c = 20 ∨ c = 21 ∨ c = 22 ∨ c = 23 ∨ c = 24 ∨ c = 25 := by split at hc' <;> omega
    rcases this with rfl | rfl | rfl | rfl | rfl | rfl <;> revert y <;> decide
  · have : c = 40 ∨ c = 41 ∨ c = 42 ∨ c = 43 ∨ c = 44 ∨ c = 45 := by split at hc' <;> omega
    rcases this with rfl | rfl | rfl | rfl | rfl | rfl <;> revert y <;> decide

/-- the repaired replacement of `b` (a neighbour's list) and of `d` (own list): same positions,
label, starting status -/
example :
    (compReplace rep w1 0 2 5).2 = .ok ∧ (compReplace rep w1 0 2 5).1.g.conns 40 = [32, 52, 12] ∧
    (compReplace rep w1 0 2 5).1.g.conns 52 = [41, 40] ∧ (compReplace rep w1 0 2 5).1.g.conns 22 = [] ∧
    (compReplace rep w1 0 2 5).1.t.starting 0 = [1, 5] ∧ (compReplace rep w1 0 2 5).1.t.label 5 = "b".toList ∧
    (compReplace rep w1 0 4 5).2 = .ok ∧ (compReplace rep w1 0 4 5).1.g.conns 50 = [32, 22, 12] := by decide

/-- `C14_inherits` applies to it (its hypotheses are satisfiable by a graph with multiple
connections per channel) -/
example : ∃ w', compReplace rep w1 0 2 5 = (w', .ok) ∧ PlacedConns w1 w' 2 5 ∧ w'.g.conns 40 = [32, 52, 12] := by
  have h2 : (compReplace rep w1 0 2 5).2 = .ok := by decide
  have he : compReplace rep w1 0 2 5 = ((compReplace rep w1 0 2 5).1, .ok) := Prod.ext rfl h2
  exact ⟨(compReplace rep w1 0 2 5).1, he,
    (C14_inherits 64 w1 0 2 5 (compReplace rep w1 0 2 5).1 he w1_inv w1_tables_b (w1_noself 2 (.inl rfl))
      (by decide)).1, by decide⟩

/-- the hypotheses of the partial statements hold in this world -/
example : FreshCopy w1 5 2 true ∧ NoValueLinks w1 0 2 5 ∧ NoRunWiring w1 0 := by
  refine ⟨by unfold FreshCopy; decide, by unfold NoValueLinks; rfl, ?_⟩
  intro c hc
  have : c ∈ ([13, 14, 15, 23, 24, 25, 33, 34, 35, 43, 44, 45] : List Nat) := by
    have h : cutChans w1 (Tree.vals (w1.t.children 0)) = [13, 14, 15, 23, 24, 25, 33, 34, 35, 43, 44, 45] := by decide
    rw [h] at hc; exact hc
  revert c
  decide

/-- connections that CROSS a composite border are edges like any other in this model (the partner's
owner simply has another parent): a channel outside the composite — inside a macro next door, or at
the workflow level above — lists the stand-in exactly where it listed the replaced channel (and a
refused replacement leaves it untouched: `C14_replace_atomic` has no hypothesis on where the
partners live) -/
theorem C14_crossing_inherited (fuel : Nat) (w : W) (p old new : Nat) (w' : W)
    (h : compReplace (Cfg.repaired fuel) w p old new = (w', .ok)) (hinv : Inv w.g) (htab : Tables w old new)
    (hself : NoSelfConn w.g old) (hns : new ∉ w.t.starting p) (q : Nat)
    (_hcross : w.t.parent (w.g.owner q) ≠ some p) (hqo : w.g.owner q ≠ old) (hqn : w.g.owner q ≠ new) :
    w'.g.conns q = (w.g.conns q).map (subst (standIns w new old)) :=
  (C14_inherits fuel w p old new w' h hinv htab hself hns).1.neighbours q hqo hqn

/-- the world of D1 with `d` (=4) owned by ANOTHER macro (7): `d.x` reads `b.o` across the border -/
def t1x : Tree.Tree := mkTree [(0, .macro), (7, .macro)]
  [(0, "m"), (1, "a"), (2, "b"), (3, "c"), (4, "d"), (5, "r"), (7, "n")] [(0, [1, 2, 3]), (7, [4])] []
def w1x : W := mkW t1x g1
example : w1x.t.parent 4 = some 7 ∧ (compReplace rep w1x 0 2 5).2 = .ok ∧
    (compReplace rep w1x 0 2 5).1.g.conns 40 = [32, 52, 12] ∧ (compReplace rep w1x 0 2 5).1.g.conns 52 = [41, 40] ∧
    (dag rep w1x 7 (fun _ => []) []).2 = .keyError ∧ (dag rep w1x 7 (fun _ => []) []).1.g.conns 40 = [32, 22, 12] := by
  decide

/-- KF-C14-1 on the tree as it is: `copy_io` prepends, so the stand-in jumps to the front of the
neighbour's list (`[c.o, b.o, a.o]` becomes `[b'.o, c.o, a.o]`: the input now fetches from the
replacement first) and its own list is the replaced one reversed -/
theorem C14_inherits_order_witness : ¬ InheritsStatement cur := by
  intro hS
  have h2 : (compReplace cur w1 0 2 5).2 = .ok := by decide
  have he : compReplace cur w1 0 2 5 = ((compReplace cur w1 0 2 5).1, .ok) := Prod.ext rfl h2
  have := (hS w1 0 2 5 (compReplace cur w1 0 2 5).1 he w1_inv w1_tables_b
    (w1_noself 2 (.inl rfl)) (by decide)).1.neighbours 40 (by decide) (by decide)
  have h3 : (compReplace cur w1 0 2 5).1.g.conns 40 = [52, 32, 12] := by decide
  rw [h3, w1_standIns] at this
  exact absurd this (by decide)

example : (compReplace cur w1 0 4 5).2 = .ok ∧ (compReplace cur w1 0 4 5).1.g.conns 50 = [12, 22, 32] ∧
    w1.g.conns 40 = [32, 22, 12] := by decide

/-! ### D2, D4 — value links -/

/-- macro 0 (input `x` = channel 0, output `o` = channel 2) owns a=1 and k=3; `0 → a.x` and
`a.o → 2` are value links; `k.x` lists `a.o`; 2 is the replacement; its output is refused by the
macro's output hint -/
def t2 : Tree.Tree := mkTree [(0, .macro)] [(0, "m"), (1, "a"), (2, "r"), (3, "k")] [(0, [1, 3])] [(0, [1])]
def g2 : G := run (exG0 fun _ _ => true) [.connect 30 [12]]
def w2 : W := { mkW t2 g2 with recv := fun c => if c = 0 then some 10 else if c = 12 then some 2 else none,
                               linkOk := fun s r => !(s == 22 && r == 2) }
theorem w2_inv : Inv w2.g := run_inv _ _ (exG0_inv _)

/-- KF-C14-2 on the tree as it is: the hint of the macro's own IO refuses the replacement when
the links are re-forged, i.e. after the swap -/
theorem C14_replace_link_witness : ¬ ReplaceStatement cur := by
  intro hS
  have := hS w2 0 1 2 w2_inv (by decide)
  have h1 : (replace cur w2 0 1 2).1.t.parent 1 = none := by decide
  rw [this] at h1
  exact absurd h1 (by decide)

example : (replace cur w2 0 1 2).2 = .valueError ∧ (replace cur w2 0 1 2).1.t.parent 2 = some 0 ∧
    (replace cur w2 0 1 2).1.g.conns 30 = [22] ∧ (replace cur w2 0 1 2).1.recv 0 = some 20 ∧
    (replace rep w2 0 1 2).2 = .valueError ∧ (replace rep w2 0 1 2).1.t.parent 1 = some 0 ∧
    (replace rep w2 0 1 2).1.g.conns 30 = [12] := by decide

/-- the same macro; the replacement 4 has no input `x` (its channel table lacks 40) -/
def w3 : W := { mkW t2 g2 with recv := fun c => if c = 0 then some 10 else none,
                               io := fun n => if n = 4 then ⟨[41], [42], [43, 44], [45]⟩ else exIO n }
theorem w3_inv : Inv w3.g := run_inv _ _ (exG0_inv _)

/-- KF-C14-3 on the tree as it is: the replacement lacks a channel that is only value-linked
(not connected): `copy_io` succeeds, the link list raises, the copied connections stay -/
theorem C14_replace_missing_link_witness : ¬ ReplaceStatement cur := by
  intro hS
  have := hS w3 0 1 4 w3_inv (by decide)
  have h1 : (replace cur w3 0 1 4).1.g.conns 30 = [42, 12] := by decide
  rw [this] at h1
  exact absurd h1 (by decide)

example : (replace cur w3 0 1 4).2 = .attrError ∧ (replace rep w3 0 1 4).2 = .attrError ∧
    (replace rep w3 0 1 4).1.g.conns 30 = [12] := by decide

/-- the same macro; its input holds the value 4, which the replacement's input `x` does not admit -/
def w2p : W := { mkW t2 g2 with recv := fun c => if c = 0 then some 10 else none,
                                val := fun c => if c = 0 then some 4 else none,
                                admits := fun c v => !(c == 20 && v == 4) }

/-- KF-C14-2b on the tree as it is: forging a link pushes the sender's value through the
receiver's setter; its refusal comes after the swap too -/
theorem C14_replace_value_push_witness : ¬ ReplaceStatement cur := by
  intro hS
  have := hS w2p 0 1 2 w2_inv (by decide)
  have h1 : (replace cur w2p 0 1 2).1.t.parent 1 = none := by decide
  rw [this] at h1
  exact absurd h1 (by decide)

example : (replace cur w2p 0 1 2).2 = .typeError ∧ (replace rep w2p 0 1 2).2 = .ok ∧
    (replace rep w2p 0 1 2).1.recv 0 = some 20 ∧ (replace rep w2p 0 1 2).1.val 20 = none := by decide

/-! ### D7 — a workflow whose IO cannot be rebuilt -/

/-- workflow 0 owns a=1, b=2, c=3 (`c.x` lists `[b.o, a.o]`); `inputs_map = {"b__z": "a__x"}`; the
replacement 4 of `b` has one more input `z` (channel 46) -/
def t7 : Tree.Tree := mkTree [(0, .workflow)] [(0, "w"), (1, "a"), (2, "b"), (3, "c"), (4, "r")] [(0, [1, 2, 3])] []
def g7 : G := run (exG0 fun _ _ => true) [.connect 30 [12], .connect 30 [22]]
def w7 : W := { mkW t7 g7 with
  io := fun n => if n = 4 then ⟨[40, 41, 46], [42], [43, 44], [45]⟩ else if n = 0 then ⟨[], [], [3, 4], [5]⟩ else exIO n,
  clab := fun c => if c = 46 then "z" else exLab c,
  imap := fun p => if p = 0 then some [("b__z", .name "a__x")] else none }
theorem w7_inv : Inv w7.g := run_inv _ _ (exG0_inv _)

/-- KF-C14-7, in the tree as it is now and in the one before: the replacement succeeds at the composite level, the IO
of the workflow cannot be built any more (two channels under the key `a__x`), the revert needs
that very IO and raises again: the replacement stays in -/
theorem C14_wf_revert_witness : ¬ ReplaceStatement (Cfg.head 64) ∧ ¬ ReplaceStatement cur := by
  constructor
  · intro hS
    have := hS w7 0 2 4 w7_inv (by decide)
    have h1 : (replace (Cfg.head 64) w7 0 2 4).1.t.parent 4 = some 0 := by decide
    rw [this] at h1
    exact absurd h1 (by decide)
  · intro hS
    have := hS w7 0 2 4 w7_inv (by decide)
    have h1 : (replace cur w7 0 2 4).1.t.parent 4 = some 0 := by decide
    rw [this] at h1
    exact absurd h1 (by decide)

example : (replace cur w7 0 2 4).2 = .typeError ∧ (replace cur w7 0 2 4).1.g.conns 30 = [22, 42, 12] ∧
    (replace (Cfg.head 64) w7 0 2 4).2 = .typeError ∧ (replace (Cfg.head 64) w7 0 2 4).1.g.conns 30 = [42, 12] ∧
    wfIoOk w7 0 = true := by decide

/-- with the dry run the same replacement is refused before anything changes -/
example : (replace rep w7 0 2 4).2 = .valueError ∧ (replace rep w7 0 2 4).1.g.conns 30 = [22, 12] ∧
    (replace rep w7 0 2 4).1.t.parent 4 = none ∧ (replace rep w7 0 2 4).1.t.parent 2 = some 0 := by decide

/-! ### composition with C12 / C13: a concrete world in which every hypothesis holds -/

/-- workflow 0 built by C13's own operations: children a=1, b=2, c=3; 5 is an orphan -/
def t9 : Tree.Tree := Tree.run (Tree.Cfg.repaired 64)
  (Tree.empty (fun n => if n = 0 then .workflow else .leaf) (fun _ => true) (fun _ => []))
  [.new 0 "w".toList none, .new 1 "a".toList (some 0), .new 2 "b".toList (some 0), .new 3 "c".toList (some 0),
   .new 5 "r".toList none]
theorem t9_wf : Tree.WFTree t9 :=
  Tree.run_wf (Tree.repaired_repaired 64) _ _ (Tree.wf_empty _ _ _) (by decide)
def w9 : W := mkW t9 g7
theorem w9_inv : Inv w9.g := run_inv _ _ (exG0_inv _)

theorem ex_tables (w : W) (hio : w.io = exIO) (hown : w.g.owner = exOwner) (old new : Nat) (ho : old < 100)
    (hn : new < 100) (hk : w.t.kind old ≠ .workflow)
    (hinj : ∀ e e', e ∈ standIns w new old → e' ∈ standIns w new old → e.2 = e'.2 → e.1 = e'.1) :
    Tables w old new := by
  refine ⟨?_, ?_, hk, hinj⟩
  · intro c
    rw [hio, hown]
    simp only [exIO, NodeIO.all, List.mem_append, List.mem_cons, List.not_mem_nil, or_false]
    unfold exOwner
    split <;> omega
  · intro c
    rw [hio, hown]
    simp only [exIO, NodeIO.all, List.mem_append, List.mem_cons, List.not_mem_nil, or_false]
    unfold exOwner
    split <;> omega

theorem w9_standIns : standIns w9 5 2 = [(22, 52)] := by decide

/-- `C14_preserves_C12_C13`, `C14_wf_replace_atomic` and `C14_wf_io_survives` apply to it: after
`w.replace_child(b, r)` the graph satisfies C12's invariant and the tree C13's -/
example : Inv (replace rep w9 0 2 5).1.g ∧ Tree.WFTree (replace rep w9 0 2 5).1.t ∧
    (replace rep w9 0 2 5).2 = .ok ∧ (replace rep w9 0 2 5).1.g.conns 30 = [52, 12] ∧ WfWellFormed w9 0 2 5 := by
  have htab : Tables w9 2 5 := by
    apply ex_tables w9 rfl rfl 2 5 (by decide) (by decide) (by decide)
    intro e e' he he' _
    rw [w9_standIns] at he he'
    simp only [List.mem_singleton] at he he'
    rw [he, he']
  have hself : NoSelfConn w9.g 2 := by
    intro c hc y hy
    have hc' : exOwner c = 2 := hc
    unfold exOwner at hc'
    have : c = 20 ∨ c = 21 ∨ c = 22 ∨ c = 23 ∨ c = 24 ∨ c = 25 := by split at hc' <;> omega
    rcases this with rfl | rfl | rfl | rfl | rfl | rfl <;> revert y <;> decide
  have hm : StandInsOk w9.g (standIns w9 5 2) := by
    rw [w9_standIns]
    constructor
    · intro e e' he he' _
      simp only [List.mem_singleton] at he he'
      rw [he, he']
    · intro e he
      simp only [List.mem_singleton] at he
      rw [he]; decide
  have hsib : SiblingsApart w9 0 2 5 := by
    intro e he c hc
    have he' : e = ("a".toList, 1) ∨ e = ("c".toList, 3) := by
      have : Tree.popVal (w9.t.children 0) 2 = [("a".toList, 1), ("c".toList, 3)] := by decide
      rw [this] at he
      simpa using he
    rcases he' with rfl | rfl
    · have : c = 10 ∨ c = 11 ∨ c = 12 := by
        simp only [w9, mkW, exIO, List.mem_cons, List.not_mem_nil, or_false] at hc; omega
      rcases this with rfl | rfl | rfl <;> decide
    · have : c = 30 ∨ c = 31 ∨ c = 32 := by
        simp only [w9, mkW, exIO, List.mem_cons, List.not_mem_nil, or_false] at hc; omega
      rcases this with rfl | rfl | rfl <;> decide
  obtain ⟨h1, h2⟩ := C14_preserves_C12_C13 64 w9 0 2 5 w9_inv t9_wf htab hself hm hsib
  exact ⟨h1, h2, by decide, by decide, fun _ => ⟨htab, hself, hsib⟩⟩

/-- labels that contain the key delimiter, no renaming map at all: workflow 0 owns `a` (=1) and
`a__b` (=2, whose unconnected input 20 is labelled `c`); the replacement 3 of `a` brings an input
30 labelled `b__c`: `a` + `b__c` and `a__b` + `c` are the same key (seeded change C14-5) -/
def wK : W := { mkW (mkTree [(0, .workflow)] [(0, "w"), (1, "a"), (2, "a__b"), (3, "r")] [(0, [1, 2])] [])
    (exG0 fun _ _ => true) with
  io := fun n => if n = 0 then ⟨[], [], [3, 4], [5]⟩ else if n = 3 then ⟨[31, 30], [32], [33, 34], [35]⟩ else exIO n,
  clab := fun c => if c = 20 then "c" else if c = 30 then "b__c" else if c = 31 then "x" else exLab c }

example : dryOk wK 0 1 3 = false ∧ wfIoOk wK 0 = true ∧
    (replace rep wK 0 1 3).2 = .valueError ∧ (replace rep wK 0 1 3).1.t.parent 3 = none ∧
    (replace (Cfg.head 64) wK 0 1 3).2 = .typeError ∧ (replace (Cfg.head 64) wK 0 1 3).1.t.parent 3 = some 0 := by decide

/-! ### D3 — refused adoption (KF-C13-9; repaired in the tree by `fix: 02da358`) -/

/-- workflow-kind replacement 2 for the unconnected child 1 of macro 0 -/
def t4 : Tree.Tree := mkTree [(0, .macro), (2, .workflow)] [(0, "m"), (1, "a"), (2, "v")] [(0, [1])] []
def w4 : W := mkW t4 (exG0 fun _ _ => true)

/-- before `fix: 02da358`: `add_child` refuses the workflow after the old child is gone and the
labels are swapped; with the pre-check the same replacement is refused up front -/
theorem C14_replace_adopt_witness : ¬ ReplaceStatement (Cfg.pinned 64) := by
  intro hS
  have := hS w4 0 1 2 (exG0_inv _) (by decide)
  have h1 : (replace (Cfg.pinned 64) w4 0 1 2).1.t.children 0 = [] := by decide
  rw [this] at h1
  exact absurd h1 (by decide)

example : (replace (Cfg.pinned 64) w4 0 1 2).2 = .parentMost ∧ (replace cur w4 0 1 2).2 = .typeError ∧
    (replace cur w4 0 1 2).1.t.children 0 = [("a".toList, 1)] := by decide

/-! ### D5, D6 — `copy_io` / `copy_connections` -/

/-- a=1, s=2, t=3, b=4: `t.x ← a.o`, `t.y ← s.o`, and `b.x ← a.o` already; `b.y` refuses `s.o` -/
def g5 : G := run (exG0 fun a b => !((a == 41 && b == 22) || (a == 22 && b == 41)))
  [.connect 30 [12], .connect 31 [22], .connect 40 [12]]
def w5 : W := mkW (mkTree [] [] [] []) g5
theorem w5_inv : Inv w5.g := run_inv _ _ (exG0_inv _)

/-- KF-C14-4 on the tree as it is: the undo of the refused copy also removes `b.x ← a.o`, which
was there before -/
theorem C14_copy_io_undo_witness : ¬ CopyIoStatement cur := by
  intro hS
  have := hS w5 4 3 true w5_inv (by decide)
  have h1 : (copyIo cur w5 4 3 true false).1.g.conns 40 = [] := by decide
  rw [this] at h1
  exact absurd h1 (by decide)

example : (copyIo cur w5 4 3 true false).2 = .connCopy ∧ w5.g.conns 40 = [12] ∧
    (copyIo rep w5 4 3 true false).2 = .connCopy ∧ (copyIo rep w5 4 3 true false).1.g.conns 40 = [12] ∧
    (copyIo rep w5 4 3 true false).1.g.conns 12 = [40, 30] := by decide

/-- the channel-level variant: `t.x` lists `[a.o, s.o]`, `b.x ← a.o` already, `b.x` refuses `s.o` -/
def g5c : G := run (exG0 fun a b => !((a == 40 && b == 22) || (a == 22 && b == 40)))
  [.connect 30 [22], .connect 30 [12], .connect 40 [12]]
def w5c : W := mkW (mkTree [] [] [] []) g5c
theorem w5c_inv : Inv w5c.g := run_inv _ _ (exG0_inv _)

theorem C14_copy_chan_undo_witness : ¬ CopyChanStatement cur := by
  intro hS
  have := hS w5c 40 30 w5c_inv (by decide)
  have h1 : (copyChan cur w5c 40 30).1.g.conns 40 = [] := by decide
  rw [this] at h1
  exact absurd h1 (by decide)

/-- t=1 holds `x=5, y=6, o=7`; c=2 refuses 7 on its output -/
def w6 : W := { mkW (mkTree [] [] [] []) (exG0 fun _ _ => true) with
  val := fun c => if c = 10 then some 5 else if c = 11 then some 6 else if c = 12 then some 7 else
    if c = 20 then some 1 else if c = 21 then some 2 else none,
  admits := fun c v => !(c == 22 && v == 7) }

/-- KF-C14-5 on the tree as it is: `values_fail_hard=True`, the outputs panel fails and unwinds
itself, the inputs copied before stay -/
theorem C14_copy_io_values_witness : ¬ CopyIoHardStatement cur := by
  intro hS
  have := hS w6 2 1 true (exG0_inv _) (by decide)
  have h1 : (copyIo cur w6 2 1 true true).1.val 20 = some 5 := by decide
  rw [this] at h1
  exact absurd h1 (by decide)

example : (copyIo cur w6 2 1 true true).2 = .valueCopy ∧ (copyIo rep w6 2 1 true true).2 = .valueCopy ∧
    (copyIo rep w6 2 1 true true).1.val 20 = some 1 ∧ (copyIo rep w6 2 1 true true).1.val 21 = some 2 := by decide

/-- `C14_copy_io_hard_atomic` applies to it -/
example : ValuesOk rep w6 2 1 := by
  refine ⟨by decide, ?_, ?_, by decide, by decide, ?_⟩
  · intro c _; rfl
  · intro c hc
    have : c = 20 ∨ c = 21 ∨ c = 22 := by
      simp only [w6, mkW, exIO, List.mem_cons, List.not_mem_nil, or_false] at hc
      omega
    rcases this with rfl | rfl | rfl <;> decide
  · intro c hc
    simp only [w6, mkW, exIO, List.mem_cons, List.not_mem_nil, or_false] at hc ⊢
    omega

/-- a value-link chain that gets stricter downstream: `10 → 20 → 30`, the end refuses the value 9;
node 4 holds 9 on its `x` -/
def wS : W := { mkW (mkTree [] [] [] []) (exG0 fun _ _ => true) with
  recv := fun c => if c = 10 then some 20 else if c = 20 then some 30 else none,
  val := fun c => if c = 40 then some 9 else if c = 10 ∨ c = 20 ∨ c = 30 then some 1 else none,
  admits := fun c v => !(c == 30 && v == 9) }

/-- store-then-forward (seeded change C14-6): the refusal at the end of the chain leaves the two
channels above it holding the refused value, nothing is logged for unwinding, so the failed hard
copy is not all-or-nothing; with the order of the code the same copy changes nothing -/
theorem C14_setter_order_witness :
    ¬ (∀ (w : W) (ps : List (Option Nat × Nat)), (copyPanelG true 64 w ps []).2.2 = true →
        revertVals 64 (copyPanelG true 64 w ps []).1 (copyPanelG true 64 w ps []).2.1 = w) := by
  intro hS
  have := hS wS [(some 10, 40)] (by decide)
  have h1 : (revertVals 64 (copyPanelG true 64 wS [(some 10, 40)] []).1
      (copyPanelG true 64 wS [(some 10, 40)] []).2.1).val 10 = some 9 := by decide
  rw [this] at h1
  exact absurd h1 (by decide)

example : (copyPanelG true 64 wS [(some 10, 40)] []).1.val 20 = some 9 ∧
    (copyPanelG true 64 wS [(some 10, 40)] []).2.1 = [] ∧
    (copyPanelG false 64 wS [(some 10, 40)] []).2.2 = true ∧
    (copyPanelG false 64 wS [(some 10, 40)] []).1.val 10 = some 1 ∧
    (copyPanelG false 64 wS [(some 10, 40)] []).1.val 20 = some 1 := by decide

/-! ### D8 — flow derivation -/

/-- macro 0 owns a=1, b=2, c=3; data `b.x ← a.o`, `c.x ← a.o` and the cycle `a.y ← c.o`; the
signals are still the DAG wiring of before: `a.ran` fires `[c, b]` -/
def t8 : Tree.Tree := mkTree [(0, .macro)] [(0, "m"), (1, "a"), (2, "b"), (3, "c")] [(0, [1, 2, 3])] [(0, [1])]
def g8 : G := run (exG0 fun _ _ => true)
  [.connect 20 [12], .connect 30 [12], .connect 11 [32], .connect 24 [15], .connect 34 [15]]
def w8 : W := mkW t8 g8

/-- KF-C14-6 on the tree as it is: the recovery re-connects the recorded pairs in recorded order,
which reverses the firing order of `a.ran` -/
theorem C14_dag_order_witness : ¬ DagStatement cur := by
  intro hS
  have := hS w8 0 (fun _ => []) [] (by decide)
  have h1 : (dag cur w8 0 (fun _ => []) []).1.g.conns 15 = [24, 34] := by decide
  rw [this] at h1
  exact absurd h1 (by decide)

example : (dag cur w8 0 (fun _ => []) []).2 = .circular ∧ w8.g.conns 15 = [34, 24] ∧
    (dag rep w8 0 (fun _ => []) []).2 = .circular ∧ (dag rep w8 0 (fun _ => []) []).1.g.conns 15 = [34, 24] := by
  decide

end PwVerif.C14

#print axioms PwVerif.C14.C14_replace_atomic
#print axioms PwVerif.C14.C14_wf_replace_atomic
#print axioms PwVerif.C14.C14_wf_io_survives
#print axioms PwVerif.C14.C14_dry_run_exact
#print axioms PwVerif.C14.C14_dry_run_is_noclash
#print axioms PwVerif.C14.C14_refused_assignment_untouched
#print axioms PwVerif.C14.C14_copy_panel_forward_then_store
#print axioms PwVerif.C14.C14_setter_order_witness
#print axioms PwVerif.C14.C14_head_replace_atomic
#print axioms PwVerif.C14.C14_head_inherits
#print axioms PwVerif.C14.C14_preserves_C12_C13
#print axioms PwVerif.C14.C14_replace_by_label_atomic
#print axioms PwVerif.C14.C14_caches_dropped
#print axioms PwVerif.C14.C14_copy_io_atomic
#print axioms PwVerif.C14.C14_copy_io_hard_structure
#print axioms PwVerif.C14.C14_copy_io_hard_atomic
#print axioms PwVerif.C14.C14_copy_chan_atomic
#print axioms PwVerif.C14.C14_dag_atomic
#print axioms PwVerif.C14.C14_inherits
#print axioms PwVerif.C14.C14_copy_io_atomic_partial
#print axioms PwVerif.C14.C14_replace_atomic_partial
#print axioms PwVerif.C14.C14_dag_atomic_partial
#print axioms PwVerif.C14.C14_inherits_partial
#print axioms PwVerif.C14.C14_crossing_inherited
#print axioms PwVerif.C14.C14_inherits_order_witness
#print axioms PwVerif.C14.C14_replace_link_witness
#print axioms PwVerif.C14.C14_replace_missing_link_witness
#print axioms PwVerif.C14.C14_replace_value_push_witness
#print axioms PwVerif.C14.C14_wf_revert_witness
#print axioms PwVerif.C14.C14_replace_adopt_witness
#print axioms PwVerif.C14.C14_copy_io_undo_witness
#print axioms PwVerif.C14.C14_copy_chan_undo_witness
#print axioms PwVerif.C14.C14_copy_io_values_witness
#print axioms PwVerif.C14.C14_dag_order_witness
