import PwVerif.Proofs.Hint
/-!
# C04 — An accepted typed connection is sound, and comparing hints never crashes

"Whenever the library accepts a connection (or a macro value link) between an output and an input
that both carry type hints, every value the output's hint admits is also admitted by the input's
hint. Comparing any two supported hints terminates with a yes/no answer, and every hint is
compatible with itself."

Model: `PwVerif/Model/Hint.lean` (`ms` = `type_hint_is_as_or_more_specific_than`, `admits` =
`valid_value`, `tg` = typeguard, `Cfg` = pinned / patched / repaired behaviour). Only property
theorems live here; lemmas are in `Proofs/Hint.lean`.

The pinned code (`Cfg.pinned`) violates the full statements in four ways, each with a
machine-checked witness below and a replay on the real code in the harness corpus:

1. old-style `typing.Union` / `Optional` operands never come back (`RecursionError`);
2. `Literal[True] → Literal[1]` is accepted (Python `==` on literal leaves);
3. `valid_value` tries `isinstance` first, so `float` means "float only" at the top level but
   "float or int" wherever typeguard decides (`Annotated[float, …] → float`, `float | list[int] →
   float | list`; likewise `set[int] → set` with a `frozenset`);
4. `tuple[int] → tuple[()]` is accepted (an empty argument tuple counts as "unspecified").
-/
namespace PwVerif.C04
open PwVerif.Hint

/-! ## full statements -/

/-- soundness of an accepted comparison, for all hints, values and fuels -/
def SoundStatement (cfg : Cfg) : Prop :=
  ∀ (fuel : Nat) (h o : Hint) (v : V),
    ms cfg fuel (.h h) (.h o) = some true → admits cfg h v = true → admits cfg o v = true

/-- the comparison answers within `size h + size o` nested calls -/
def TotalStatement (cfg : Cfg) : Prop :=
  ∀ h o : Hint, ∃ fuel, fuel ≤ size h + size o ∧ (ms cfg fuel (.h h) (.h o)).isSome = true

/-- every hint is as specific as itself -/
def ReflStatement (cfg : Cfg) : Prop :=
  ∀ h : Hint, compare cfg h h = some true

/-- no `Literal[…]` inside the hint lists two values that are `==` but of different type
(`Literal[1, True]`: typeguard itself rejects `True` for it) -/
abbrev LitClean (h : Hint) : Prop := every litClean h = true
abbrev NoOldUnion (h : Hint) : Prop := every notOldUnion h = true
abbrev NoEmptyTuple (h : Hint) : Prop := every notEmptyTuple h = true
/-- all literal values of both hints come from a set on which Python `==` is identity -/
def LiteralTypesDistinct (h o : Hint) : Prop :=
  ∃ S : Lit → Bool, (∀ a b, S a = true → S b = true → a.pyEq b = true → a = b) ∧
    every (litsIn S) h = true ∧ every (litsIn S) o = true
/-- `valid_value(v, o)` is decided as typeguard would: typeguard-only admission, or a value that is
no int / bool / frozenset, or no `float` / `set` class where `isinstance` reaches -/
abbrev IsinstanceAgrees (cfg : Cfg) (o : Hint) (v : V) : Prop :=
  (cfg.tgOnly || plainValue v || topPlain o) = true

/-! ## soundness -/

/-- **C04_sound** for the repaired behaviour: an accepted comparison is sound for every pair of
hints, every value and every fuel; the only proviso is typeguard's own quirk on `Literal[1, True]`
in the receiving hint. -/
theorem C04_sound (fuel : Nat) (h o : Hint) (v : V) (hc : LitClean o)
    (hm : ms .repaired fuel (.h h) (.h o) = some true) (hv : admits .repaired h v = true) :
    admits .repaired o v = true := by
  have hS : ∀ a b : Lit, (fun _ => true) a = true → (fun _ => true) b = true →
      litLeq .repaired a b = true → a = b := by
    intro a b _ _ e; simpa [litLeq, Cfg.repaired] using e
  have ho : every (okOther .repaired fun _ => true) o = true :=
    every_and3 _ _ _ o (every_litsIn_true o) hc
      (every_imp (fun _ => true) _ (fun x _ => by simp [Cfg.repaired]) o (every_true o))
  have hh : every (litsIn fun _ => true) h = true := every_litsIn_true h
  exact sound_tg .repaired _ hS fuel h o hh ho hm v hv

/-- **C04_sound_partial**, for *every* behaviour including the pinned one, under named hypotheses;
each hypothesis is needed only while the corresponding switch is off. -/
theorem C04_sound_partial (cfg : Cfg) (fuel : Nat) (h o : Hint) (v : V)
    (hlit : LiteralTypesDistinct h o) (hemp : cfg.emptyOtherStrict = true ∨ NoEmptyTuple o)
    (hag : IsinstanceAgrees cfg o v)
    (hm : ms cfg fuel (.h h) (.h o) = some true) (hv : admits cfg h v = true) :
    admits cfg o v = true := by
  obtain ⟨S, hS, hh, hoS⟩ := hlit
  have hS' : ∀ a b, S a = true → S b = true → litLeq cfg a b = true → a = b :=
    fun a b ha hb e => hS a b ha hb (litLeq_imp_pyEq cfg a b e)
  have ho : every (okOther cfg S) o = true := by
    apply every_and3 _ _ _ o hoS
    · exact every_imp (litsIn S) litClean (litClean_of_litsIn S hS) o hoS
    · rcases hemp with he | he
      · rw [he]; exact every_true o
      · exact every_imp notEmptyTuple _ (fun x hx => by simp [hx]) o he
  rw [admits_eq_tg cfg o v hag]
  exact sound_tg cfg S hS' fuel h o hh ho hm v (admits_imp_tg cfg h v hv)

/-- the patched code (old unions expanded, type-strict leaf equality): literals need no
hypothesis beyond typeguard's quirk; the `isinstance` / empty-tuple provisos remain -/
theorem C04_sound_patched (fuel : Nat) (h o : Hint) (v : V) (hc : LitClean o)
    (hemp : NoEmptyTuple o) (hag : IsinstanceAgrees .patched o v)
    (hm : ms .patched fuel (.h h) (.h o) = some true) (hv : admits .patched h v = true) :
    admits .patched o v = true := by
  have hS : ∀ a b : Lit, (fun _ => true) a = true → (fun _ => true) b = true →
      litLeq .patched a b = true → a = b := by
    intro a b _ _ e; simpa [litLeq, Cfg.patched] using e
  have hh : every (litsIn fun _ => true) h = true := every_litsIn_true h
  have ho : every (okOther .patched fun _ => true) o = true :=
    every_and3 _ _ _ o (every_litsIn_true o) hc
      (every_imp notEmptyTuple _ (fun x hx => by simp [hx]) o hemp)
  rw [admits_eq_tg .patched o v hag]
  exact sound_tg .patched _ hS fuel h o hh ho hm v (admits_imp_tg .patched h v hv)

/-! ## termination and reflexivity -/

/-- **C04_total** (old unions expanded): the comparison answers within `size h + size o` calls -/
theorem C04_total (cfg : Cfg) (he : cfg.unionOldExpanded = true) : TotalStatement cfg := by
  intro h o
  exact ⟨size h + size o, Nat.le_refl _, ms_total cfg _ (.h h) (.h o) (Or.inl he) (Or.inl he) (Nat.le_refl _)⟩

/-- **C04_total_partial** (any behaviour): without old-style unions the comparison answers -/
theorem C04_total_partial (cfg : Cfg) (h o : Hint) (hh : NoOldUnion h) (ho : NoOldUnion o) :
    ∃ fuel, fuel ≤ size h + size o ∧ (ms cfg fuel (.h h) (.h o)).isSome = true :=
  ⟨size h + size o, Nat.le_refl _, ms_total cfg _ (.h h) (.h o) (Or.inr hh) (Or.inr ho) (Nat.le_refl _)⟩

/-- more fuel never changes an answer: the yes/no is a function of the two hints -/
theorem C04_fuel_irrelevant (cfg : Cfg) (n m : Nat) (h o : Hint) (b c : Bool)
    (hn : ms cfg n (.h h) (.h o) = some b) (hm : ms cfg m (.h h) (.h o) = some c) : b = c := by
  have h1 := ms_mono_le cfg n (max n m) (Nat.le_max_left _ _) _ _ b hn
  have h2 := ms_mono_le cfg m (max n m) (Nat.le_max_right _ _) _ _ c hm
  rw [h1] at h2; exact Option.some.inj h2

/-- **C04_refl** (old unions expanded) -/
theorem C04_refl (cfg : Cfg) (he : cfg.unionOldExpanded = true) : ReflStatement cfg := by
  intro h
  exact ms_refl cfg _ (.h h) (Or.inl he) (Nat.le_refl _)

/-- **C04_refl_partial** (any behaviour) -/
theorem C04_refl_partial (cfg : Cfg) (h : Hint) (hh : NoOldUnion h) : compare cfg h h = some true :=
  ms_refl cfg _ (.h h) (Or.inr hh) (Nat.le_refl _)

/-! ## where the library consults the comparison -/

/-- **C04_connect**: a connection that `_valid_connection` accepts between two hinted channels
with a strict input was accepted by the comparison -/
theorem C04_connect (cfg : Cfg) (out inp : Chan) (ho hi : Hint) (h1 : out.hint = some ho)
    (h2 : inp.hint = some hi) (hs : inp.strict = true)
    (hacc : validConnection cfg out inp = some true) : compare cfg ho hi = some true := by
  simpa [validConnection, h1, h2, hs] using hacc

/-- the same for the value-receiver coupling (macro value links) -/
theorem C04_receiver (cfg : Cfg) (self partner : Chan) (hs hp : Hint) (h1 : self.hint = some hs)
    (h2 : partner.hint = some hp) (hst : partner.strict = true)
    (hacc : validReceiver cfg self partner = some true) : compare cfg hs hp = some true := by
  simpa [validReceiver, h1, h2, hst] using hacc

/-- otherwise nothing is compared and the connection is accepted -/
theorem C04_connect_unchecked (cfg : Cfg) (out inp : Chan)
    (h : out.hint = none ∨ inp.hint = none ∨ inp.strict = false) :
    validConnection cfg out inp = some true := by
  unfold validConnection
  rcases h with h | h | h
  · simp [h]
  · rw [h]; cases out.hint <;> simp
  · cases out.hint <;> cases inp.hint <;> simp [h]

/-- headline: an accepted typed strict connection passes on only values the input admits -/
theorem C04_connection_sound (out inp : Chan) (ho hi : Hint) (h1 : out.hint = some ho)
    (h2 : inp.hint = some hi) (hs : inp.strict = true) (hc : LitClean hi)
    (hacc : validConnection .repaired out inp = some true) (v : V)
    (hv : admits .repaired ho v = true) : admits .repaired hi v = true :=
  C04_sound _ ho hi v hc (C04_connect .repaired out inp ho hi h1 h2 hs hacc) hv

/-! ## the pinned code: machine-checked counterexamples -/

/-- `Union[int, float]` vs `int`, and any old-style union against a non-union: no answer, ever -/
theorem C04_old_union_diverges (hs : List Hint) (o : Hint) (ho : isUnion (.h (strip o)) = false) :
    ∀ fuel, ms .pinned fuel (.h (.unionOld hs)) (.h o) = none :=
  old_union_left_diverges .pinned rfl hs (.h o) ho

theorem C04_old_union_diverges_right (hs : List Hint) (h : Hint) (hh : isUnion (.h (strip h)) = false) :
    ∀ fuel, ms .pinned fuel (.h h) (.h (.unionOld hs)) = none :=
  old_union_right_diverges .pinned rfl hs (.h h) hh

/-- `Optional[int]` vs itself -/
theorem C04_old_union_not_reflexive (hs : List Hint) :
    ∀ fuel, ms .pinned fuel (.h (.unionOld hs)) (.h (.unionOld hs)) = none :=
  old_union_self_diverges .pinned rfl hs

theorem C04_total_witness : ¬ TotalStatement .pinned := by
  intro h
  obtain ⟨fuel, _, hs⟩ := h (.unionOld [.cls .int, .cls .float]) (.cls .int)
  rw [C04_old_union_diverges _ _ rfl fuel] at hs
  cases hs

theorem C04_refl_witness : ¬ ReflStatement .pinned := by
  intro h
  have := h (.unionOld [.cls .int, .cls .noneT])
  rw [Hint.compare, C04_old_union_not_reflexive] at this
  cases this

/-- `Literal[True] → Literal[1]` is accepted, `True` is admitted by the first, not by the second -/
theorem C04_sound_witness_literal :
    compare .pinned (.literal [.b true]) (.literal [.i 1]) = some true ∧
    admits .pinned (.literal [.b true]) (.b true) = true ∧
    admits .pinned (.literal [.i 1]) (.b true) = false := by decide

/-- `Annotated[float, …] → float` is accepted; `1` is admitted by the first (typeguard's numeric
tower), not by the second (`isinstance`) -/
theorem C04_sound_witness_float :
    compare .pinned (.annotated (.cls .float)) (.cls .float) = some true ∧
    admits .pinned (.annotated (.cls .float)) (.i 1) = true ∧
    admits .pinned (.cls .float) (.i 1) = false := by decide

/-- `float | list[int] → float | list`, witness `1` -/
theorem C04_sound_witness_float_union :
    compare .pinned (.unionNew [.cls .float, .listOf (.cls .int)]) (.unionNew [.cls .float, .cls .list])
      = some true ∧
    admits .pinned (.unionNew [.cls .float, .listOf (.cls .int)]) (.i 1) = true ∧
    admits .pinned (.unionNew [.cls .float, .cls .list]) (.i 1) = false := by decide

/-- `set[int] → set`, witness `frozenset({1})` -/
theorem C04_sound_witness_frozenset :
    compare .pinned (.setOf (.cls .int)) (.cls .set) = some true ∧
    admits .pinned (.setOf (.cls .int)) (.fs [.i 1]) = true ∧
    admits .pinned (.cls .set) (.fs [.i 1]) = false := by decide

/-- `tuple[int] → tuple[()]`, witness `(1,)` -/
theorem C04_sound_witness_empty_tuple :
    compare .pinned (.tupleFix [.cls .int]) (.tupleFix []) = some true ∧
    admits .pinned (.tupleFix [.cls .int]) (.t [.i 1]) = true ∧
    admits .pinned (.tupleFix []) (.t [.i 1]) = false := by decide

theorem C04_sound_witness : ¬ SoundStatement .pinned := by
  intro h
  have w := C04_sound_witness_literal
  have := h _ _ _ (.b true) w.1 w.2.1
  rw [w.2.2] at this
  cases this

/-- the two proposed patches remove 1 and 2; 3 and 4 remain (known findings) -/
theorem C04_patched_still_unsound : ¬ SoundStatement .patched := by
  intro h
  have w : compare .patched (.annotated (.cls .float)) (.cls .float) = some true ∧
      admits .patched (.annotated (.cls .float)) (.i 1) = true ∧
      admits .patched (.cls .float) (.i 1) = false := by decide
  have := h _ _ _ (.i 1) w.1 w.2.1
  rw [w.2.2] at this
  cases this

theorem C04_patched_literal_fixed :
    compare .patched (.literal [.b true]) (.literal [.i 1]) = some false ∧
    compare .patched (.unionOld [.cls .int, .cls .float]) (.cls .int) = some false ∧
    compare .patched (.unionOld [.cls .int, .cls .noneT]) (.unionOld [.cls .int, .cls .noneT]) = some true := by
  decide

/-- typeguard's own quirk, the reason for `LitClean`: `Literal[True] → Literal[1, True]` is accepted
by any reasonable comparison, yet typeguard rejects `True` for `Literal[1, True]` -/
theorem C04_litclean_needed :
    compare .repaired (.literal [.b true]) (.literal [.i 1, .b true]) = some true ∧
    admits .repaired (.literal [.b true]) (.b true) = true ∧
    admits .repaired (.literal [.i 1, .b true]) (.b true) = false := by decide

/-! ## non-vacuity: the hypotheses are satisfiable by non-trivial hints and values -/

def exOut : Hint := .dictOf (.cls .str) (.unionNew [.tupleVar (.cls .bool), .listOf (.literal [.i 1, .s "a"])])
def exInp : Hint :=
  .annotated (.dictOf (.cls .str)
    (.unionOld [.listOf (.literal [.s "a", .i 1, .none]), .tupleVar (.cls .int), .cls .noneT]))
def exVal : V := .d [.s "k"] [.t [.b true, .b false]]

example : compare .repaired exOut exInp = some true ∧ admits .repaired exOut exVal = true ∧
    LitClean exInp := by
  refine ⟨by decide, by decide, by decide⟩
example : admits .repaired exInp exVal = true :=
  C04_sound (size exOut + size exInp) exOut exInp exVal (by decide) (by decide) (by decide)

/-- the pinned behaviour, hypotheses of the partial theorem satisfied by a typed connection -/
def exOutP : Hint := .unionNew [.cls .bool, .listOf (.cls .uC), .callableOf (some [.int]) (.cls .uB)]
def exInpP : Hint :=
  .unionNew [.cls .int, .listOf (.unionNew [.cls .uA, .cls .str]), .callableOf (some [.int]) (.cls .uA),
    .literal [.s "x"]]
example : validConnection .pinned ⟨some exOutP, true⟩ ⟨some exInpP, true⟩ = some true := by decide
example : LiteralTypesDistinct exOutP exInpP :=
  ⟨fun l => match l with | .b _ => false | _ => true,
   by intro a b; cases a <;> cases b <;> simp [Lit.pyEq], by decide, by decide⟩
example : NoEmptyTuple exInpP ∧ IsinstanceAgrees .pinned exInpP (.b true) ∧ NoOldUnion exOutP := by
  refine ⟨by decide, by decide, by decide⟩
example : admits .pinned exOutP (.b true) = true ∧ admits .pinned exOutP (.l [.inst .uC]) = true := by
  decide
example : (compare .patched (.unionOld [.cls .bool, .cls .noneT]) (.unionNew [.cls .int, .cls .noneT])).isSome :=
  by decide

end PwVerif.C04

#print axioms PwVerif.C04.C04_sound
#print axioms PwVerif.C04.C04_sound_partial
#print axioms PwVerif.C04.C04_sound_patched
#print axioms PwVerif.C04.C04_total
#print axioms PwVerif.C04.C04_total_partial
#print axioms PwVerif.C04.C04_fuel_irrelevant
#print axioms PwVerif.C04.C04_refl
#print axioms PwVerif.C04.C04_refl_partial
#print axioms PwVerif.C04.C04_connect
#print axioms PwVerif.C04.C04_receiver
#print axioms PwVerif.C04.C04_connect_unchecked
#print axioms PwVerif.C04.C04_connection_sound
#print axioms PwVerif.C04.C04_old_union_diverges
#print axioms PwVerif.C04.C04_old_union_diverges_right
#print axioms PwVerif.C04.C04_old_union_not_reflexive
#print axioms PwVerif.C04.C04_total_witness
#print axioms PwVerif.C04.C04_refl_witness
#print axioms PwVerif.C04.C04_sound_witness
#print axioms PwVerif.C04.C04_sound_witness_literal
#print axioms PwVerif.C04.C04_sound_witness_float
#print axioms PwVerif.C04.C04_sound_witness_float_union
#print axioms PwVerif.C04.C04_sound_witness_frozenset
#print axioms PwVerif.C04.C04_sound_witness_empty_tuple
#print axioms PwVerif.C04.C04_patched_still_unsound
#print axioms PwVerif.C04.C04_patched_literal_fixed
#print axioms PwVerif.C04.C04_litclean_needed
