import PwVerif.Proofs.Hint
import PwVerif.Proofs.HintGate
/-!
# C04 — An accepted typed connection is sound, and comparing hints never crashes

"Whenever the library accepts a connection (or a macro value link) between an output and an input
that both carry type hints, every value the output's hint admits is also admitted by the input's
hint. Comparing any two supported hints terminates with a yes/no answer, and every hint is
compatible with itself."

Model: `PwVerif/Model/Hint.lean` (`ms` = `type_hint_is_as_or_more_specific_than`, `admits` =
`valid_value`, `tg` = typeguard, `Cfg` = pinned / patched / repaired behaviour) and
`PwVerif/Model/HintGate.lean` (`gate` = when `Channel.connect` / the `value_receiver` setter compare the
hints at all: who asks, which side is hinted, whose `strict_hints`; `Net` = links, later flag toggles,
values pushed through links). Only property theorems live here; lemmas are in `Proofs/Hint.lean` and
`Proofs/HintGate.lean`.

Reading of the statement for `strict_hints`: the library documents the flag as an opt-out of the
*receiving* channel ("All these type hint tests can be disabled on the input/receiving channel",
"Whether to check new values, connections, and partners when this channel is a value receiver"). So the
guarantee is owed for every accepted both-hinted pair whose RECEIVING side is strict at the moment of
acceptance — whoever initiated the link and whatever the sender's flag (`C04_gate_sound`); a policy
that lets the sender's or the initiator's flag waive the comparison is unsound (`C04_rule_sound_iff`).

The pinned code (`Cfg.pinned`) violates the full statements in four ways, each with a
machine-checked witness below and a replay on the real code in the harness corpus:

1. old-style `typing.Union` / `Optional` operands never come back (`RecursionError`);
2. `Literal[True] → Literal[1]` is accepted (Python `==` on literal leaves);
3. `valid_value` tries `isinstance` first, so `float` means "float only" at the top level but
   "float or int" wherever typeguard decides (`Annotated[float, …] → float`, `float | list[int] →
   float | list`; likewise `set[int] → set` with a `frozenset`);
4. `tuple[int] → tuple[()]` is accepted (an empty argument tuple counts as "unspecified").
-/
namespace PwVerif.C04
open PwVerif.Hint

/-! ## full statements -/

/-- soundness of an accepted comparison, for all hints, values and fuels -/
def SoundStatement (cfg : Cfg) : Prop :=
  ∀ (fuel : Nat) (h o : Hint) (v : V),
    ms cfg fuel (.h h) (.h o) = some true → admits cfg h v = true → admits cfg o v = true

/-- the comparison answers within `size h + size o` nested calls -/
def TotalStatement (cfg : Cfg) : Prop :=
  ∀ h o : Hint, ∃ fuel, fuel ≤ size h + size o ∧ (ms cfg fuel (.h h) (.h o)).isSome = true

/-- every hint is as specific as itself -/
def ReflStatement (cfg : Cfg) : Prop :=
  ∀ h : Hint, compare cfg h h = some true

/-- no `Literal[…]` inside the hint lists two values that are `==` but of different type
(`Literal[1, True]`: typeguard itself rejects `True` for it) -/
abbrev LitClean (h : Hint) : Prop := every litClean h = true
abbrev NoOldUnion (h : Hint) : Prop := every notOldUnion h = true
abbrev NoEmptyTuple (h : Hint) : Prop := every notEmptyTuple h = true
/-- no `Mapping[K, V]` (a two-parameter generic the pinned code compares with the subset rule) -/
abbrev NoUnorderedPair (h : Hint) : Prop := every notMapOf h = true
/-- all literal values of both hints come from a set on which Python `==` is identity -/
def LiteralTypesDistinct (h o : Hint) : Prop :=
  ∃ S : Lit → Bool, (∀ a b, S a = true → S b = true → a.pyEq b = true → a = b) ∧
    every (litsIn S) h = true ∧ every (litsIn S) o = true
/-- `valid_value(v, o)` is decided as typeguard would: typeguard-only admission, or at every position
`isinstance` reaches (top level, through unions) the value is no int / bool / frozenset or the class is not
`float` / `set` / `typing.Set`, and no `typing.Any` sits inside a `typing.Union` -/
abbrev IsinstanceAgrees (cfg : Cfg) (o : Hint) (v : V) : Prop :=
  (cfg.tgOnly || agreesAt false v o) = true

/-! ## soundness -/

/-- **C04_sound** for the repaired behaviour: an accepted comparison is sound for every pair of
hints, every value and every fuel; the only proviso is typeguard's own quirk on `Literal[1, True]`
in the receiving hint. -/
theorem C04_sound (fuel : Nat) (h o : Hint) (v : V) (hc : LitClean o)
    (hm : ms .repaired fuel (.h h) (.h o) = some true) (hv : admits .repaired h v = true) :
    admits .repaired o v = true := by
  have hS : ∀ a b : Lit, (fun _ => true) a = true → (fun _ => true) b = true →
      litLeq .repaired a b = true → a = b := by
    intro a b _ _ e; simpa [litLeq, Cfg.repaired] using e
  have ho : every (okOther .repaired fun _ => true) o = true :=
    every_and3 _ _ _ o (every_litsIn_true o) hc
      (every_imp (fun _ => true) _ (fun x _ => by simp [Cfg.repaired]) o (every_true o))
  have hh : every (litsIn fun _ => true) h = true := every_litsIn_true h
  exact sound_tg .repaired _ hS fuel h o hh ho hm v hv

/-- **C04_sound_partial**, for *every* behaviour including the pinned one, under named hypotheses;
each hypothesis is needed only while the corresponding switch is off. -/
theorem C04_sound_partial (cfg : Cfg) (fuel : Nat) (h o : Hint) (v : V)
    (hlit : LiteralTypesDistinct h o)
    (hemp : cfg.argsFix = true ∨ (NoEmptyTuple o ∧ NoUnorderedPair o))
    (hag : IsinstanceAgrees cfg o v)
    (hm : ms cfg fuel (.h h) (.h o) = some true) (hv : admits cfg h v = true) :
    admits cfg o v = true := by
  obtain ⟨S, hS, hh, hoS⟩ := hlit
  have hS' : ∀ a b, S a = true → S b = true → litLeq cfg a b = true → a = b :=
    fun a b ha hb e => hS a b ha hb (litLeq_imp_pyEq cfg a b e)
  have ho : every (okOther cfg S) o = true := by
    apply every_and3 _ _ _ o hoS
    · exact every_imp (litsIn S) litClean (litClean_of_litsIn S hS) o hoS
    · rcases hemp with he | he
      · rw [he]; exact every_true o
      · exact every_imp _ _ (fun x hx => by simp only [Bool.and_eq_true] at hx; simp [hx.1, hx.2]) o
          (every_and _ _ o he.1 he.2)
  rw [admits_eq_tg cfg o v hag]
  exact sound_tg cfg S hS' fuel h o hh ho hm v (admits_imp_tg cfg h v hv)

/-- the patched code (old unions expanded, type-strict leaf equality): literals need no
hypothesis beyond typeguard's quirk; the `isinstance` / empty-tuple provisos remain -/
theorem C04_sound_patched (fuel : Nat) (h o : Hint) (v : V) (hc : LitClean o)
    (hemp : NoEmptyTuple o) (hmap : NoUnorderedPair o) (hag : IsinstanceAgrees .patched o v)
    (hm : ms .patched fuel (.h h) (.h o) = some true) (hv : admits .patched h v = true) :
    admits .patched o v = true := by
  have hS : ∀ a b : Lit, (fun _ => true) a = true → (fun _ => true) b = true →
      litLeq .patched a b = true → a = b := by
    intro a b _ _ e; simpa [litLeq, Cfg.patched] using e
  have hh : every (litsIn fun _ => true) h = true := every_litsIn_true h
  have ho : every (okOther .patched fun _ => true) o = true :=
    every_and3 _ _ _ o (every_litsIn_true o) hc
      (every_imp _ _ (fun x hx => by simpa [Cfg.patched] using hx) o (every_and _ _ o hemp hmap))
  rw [admits_eq_tg .patched o v hag]
  exact sound_tg .patched _ hS fuel h o hh ho hm v (admits_imp_tg .patched h v hv)

/-! ## termination and reflexivity -/

/-- **C04_total** (old unions expanded): the comparison answers within `size h + size o` calls -/
theorem C04_total (cfg : Cfg) (he : cfg.unionOldExpanded = true) : TotalStatement cfg := by
  intro h o
  exact ⟨size h + size o, Nat.le_refl _, ms_total cfg _ (.h h) (.h o) (Or.inl he) (Or.inl he) (Nat.le_refl _)⟩

/-- **C04_total_partial** (any behaviour): without old-style unions the comparison answers -/
theorem C04_total_partial (cfg : Cfg) (h o : Hint) (hh : NoOldUnion h) (ho : NoOldUnion o) :
    ∃ fuel, fuel ≤ size h + size o ∧ (ms cfg fuel (.h h) (.h o)).isSome = true :=
  ⟨size h + size o, Nat.le_refl _, ms_total cfg _ (.h h) (.h o) (Or.inr hh) (Or.inr ho) (Nat.le_refl _)⟩

/-- more fuel never changes an answer: the yes/no is a function of the two hints -/
theorem C04_fuel_irrelevant (cfg : Cfg) (n m : Nat) (h o : Hint) (b c : Bool)
    (hn : ms cfg n (.h h) (.h o) = some b) (hm : ms cfg m (.h h) (.h o) = some c) : b = c := by
  have h1 := ms_mono_le cfg n (max n m) (Nat.le_max_left _ _) _ _ b hn
  have h2 := ms_mono_le cfg m (max n m) (Nat.le_max_right _ _) _ _ c hm
  rw [h1] at h2; exact Option.some.inj h2

/-- **C04_refl** (old unions expanded) -/
theorem C04_refl (cfg : Cfg) (he : cfg.unionOldExpanded = true) : ReflStatement cfg := by
  intro h
  exact ms_refl cfg _ (.h h) (Or.inl he) (Nat.le_refl _)

/-- **C04_refl_partial** (any behaviour) -/
theorem C04_refl_partial (cfg : Cfg) (h : Hint) (hh : NoOldUnion h) : compare cfg h h = some true :=
  ms_refl cfg _ (.h h) (Or.inr hh) (Nat.le_refl _)

/-! ## the tree as it is now (`Cfg.now`): minimal hypotheses, each one needed, each one an open finding -/

/-- **C04_sound_now**: on the current tree an accepted comparison is sound for every pair of hints of the
(enlarged) grammar, every value and every fuel, under exactly three provisos on the RECEIVING hint and one on
the value — `NoEmptyTuple` (KF-C04-4), `NoUnorderedPair` (KF-C04-6), `LitClean` (KF-C04-5, third party),
`IsinstanceAgrees` (KF-C04-3). `LiteralTypesDistinct` and `NoOldUnion` are discharged by `a851bde` / `972e5e8`. -/
theorem C04_sound_now (fuel : Nat) (h o : Hint) (v : V) (hc : LitClean o) (hemp : NoEmptyTuple o)
    (hmap : NoUnorderedPair o) (hag : IsinstanceAgrees .now o v)
    (hm : ms .now fuel (.h h) (.h o) = some true) (hv : admits .now h v = true) :
    admits .now o v = true :=
  C04_sound_patched fuel h o v hc hemp hmap hag hm hv

/-- with the args-rule patch only typeguard's literal quirk and the `isinstance` shortcut remain -/
theorem C04_sound_args_fixed (fuel : Nat) (h o : Hint) (v : V) (hc : LitClean o)
    (hag : IsinstanceAgrees .argsFixed o v)
    (hm : ms .argsFixed fuel (.h h) (.h o) = some true) (hv : admits .argsFixed h v = true) :
    admits .argsFixed o v = true := by
  have hS : ∀ a b : Lit, (fun _ => true) a = true → (fun _ => true) b = true →
      litLeq .argsFixed a b = true → a = b := by
    intro a b _ _ e; simpa [litLeq, Cfg.argsFixed] using e
  have hh : every (litsIn fun _ => true) h = true := every_litsIn_true h
  have ho : every (okOther .argsFixed fun _ => true) o = true :=
    every_and3 _ _ _ o (every_litsIn_true o) hc
      (every_imp (fun _ => true) _ (fun x _ => by simp [Cfg.argsFixed]) o (every_true o))
  rw [admits_eq_tg .argsFixed o v hag]
  exact sound_tg .argsFixed _ hS fuel h o hh ho hm v (admits_imp_tg .argsFixed h v hv)

/-- **C04_total_now / C04_refl_now**: over the whole grammar, no hypothesis -/
theorem C04_total_now : TotalStatement .now := C04_total .now rfl
theorem C04_refl_now : ReflStatement .now := C04_refl .now rfl

/-- `Mapping[str, int] → Mapping[int, str]` is accepted (subset rule), `{"a": 1}` is admitted by the first only -/
theorem C04_sound_witness_mapping :
    compare .now (.mapOf (.cls .str) (.cls .int)) (.mapOf (.cls .int) (.cls .str)) = some true ∧
    admits .now (.mapOf (.cls .str) (.cls .int)) (.d [.s "a"] [.i 1]) = true ∧
    admits .now (.mapOf (.cls .int) (.cls .str)) (.d [.s "a"] [.i 1]) = false := by decide

/-- `typing.Tuple → tuple[()]` and `tuple[int] → tuple[()]` on the current tree, witness `(1,)` -/
theorem C04_now_needs_no_empty_tuple :
    compare .now (.bare .tuple) (.tupleFix []) = some true ∧
    compare .now (.tupleFix [.cls .int]) (.tupleFix []) = some true ∧
    admits .now (.bare .tuple) (.t [.i 1]) = true ∧ admits .now (.tupleFix [.cls .int]) (.t [.i 1]) = true ∧
    admits .now (.tupleFix []) (.t [.i 1]) = false := by decide

theorem C04_now_needs_litclean :
    compare .now (.literal [.b true]) (.literal [.i 1, .b true]) = some true ∧
    admits .now (.literal [.b true]) (.b true) = true ∧
    admits .now (.literal [.i 1, .b true]) (.b true) = false := by decide

/-- `Annotated[float, …] → float` (witness `1`), `set[int] → typing.Set`-free variant `set[int] → set`
(witness a frozenset), and `Any → Optional[Any]` (witness `1`: `typing.Union`'s instance check asks
`issubclass(int, Any)`, which is `False`) -/
theorem C04_now_needs_isinstance_agrees :
    (compare .now (.annotated (.cls .float)) (.cls .float) = some true ∧
      admits .now (.annotated (.cls .float)) (.i 1) = true ∧ admits .now (.cls .float) (.i 1) = false) ∧
    (compare .now (.setOf (.cls .int)) (.cls .set) = some true ∧
      admits .now (.setOf (.cls .int)) (.fs [.i 1]) = true ∧ admits .now (.cls .set) (.fs [.i 1]) = false) ∧
    (compare .now .any (.unionOld [.any, .cls .noneT]) = some true ∧
      admits .now .any (.i 1) = true ∧ admits .now (.unionOld [.any, .cls .noneT]) (.i 1) = false) := by
  decide

/-- the args-rule patch removes the tuple and the mapping witnesses and keeps what was right -/
theorem C04_args_fixed_behaviour :
    compare .argsFixed (.mapOf (.cls .str) (.cls .int)) (.mapOf (.cls .int) (.cls .str)) = some false ∧
    compare .argsFixed (.mapOf (.cls .str) (.cls .bool)) (.mapOf (.cls .str) (.cls .int)) = some true ∧
    compare .argsFixed (.bare .tuple) (.tupleFix []) = some false ∧
    compare .argsFixed (.tupleFix [.cls .int]) (.tupleFix []) = some false ∧
    compare .argsFixed (.tupleFix []) (.tupleFix []) = some true ∧
    compare .argsFixed (.tupleFix [.cls .int]) (.bare .tuple) = some true ∧
    compare .argsFixed (.listOf (.cls .int)) (.bare .list) = some true ∧
    compare .now (.listOf (.cls .int)) (.bare .list) = some false ∧
    compare .argsFixed (.literal [.i 1]) (.literal [.i 2, .i 1]) = some true := by decide

/-! ## where the library consults the comparison -/

/-- **C04_connect**: a connection that `_valid_connection` accepts between two hinted channels
with a strict input was accepted by the comparison -/
theorem C04_connect (cfg : Cfg) (out inp : Chan) (ho hi : Hint) (h1 : out.hint = some ho)
    (h2 : inp.hint = some hi) (hs : inp.strict = true)
    (hacc : validConnection cfg out inp = some true) : compare cfg ho hi = some true := by
  simpa [validConnection, h1, h2, hs] using hacc

/-- the same for the value-receiver coupling (macro value links) -/
theorem C04_receiver (cfg : Cfg) (self partner : Chan) (hs hp : Hint) (h1 : self.hint = some hs)
    (h2 : partner.hint = some hp) (hst : partner.strict = true)
    (hacc : validReceiver cfg self partner = some true) : compare cfg hs hp = some true := by
  simpa [validReceiver, h1, h2, hst] using hacc

/-- otherwise nothing is compared and the connection is accepted -/
theorem C04_connect_unchecked (cfg : Cfg) (out inp : Chan)
    (h : out.hint = none ∨ inp.hint = none ∨ inp.strict = false) :
    validConnection cfg out inp = some true := by
  unfold validConnection
  rcases h with h | h | h
  · simp [h]
  · rw [h]; cases out.hint <;> simp
  · cases out.hint <;> cases inp.hint <;> simp [h]

/-- headline: an accepted typed strict connection passes on only values the input admits -/
theorem C04_connection_sound (out inp : Chan) (ho hi : Hint) (h1 : out.hint = some ho)
    (h2 : inp.hint = some hi) (hs : inp.strict = true) (hc : LitClean hi)
    (hacc : validConnection .repaired out inp = some true) (v : V)
    (hv : admits .repaired ho v = true) : admits .repaired hi v = true :=
  C04_sound _ ho hi v hc (C04_connect .repaired out inp ho hi h1 h2 hs hacc) hv

/-! ## the acceptance gate: who asks, which side is hinted, whose `strict_hints` -/

/-- the gate of the tree is the receiver-flag policy, for every initiator -/
theorem C04_gate_is_receiver_rule (cfg : Cfg) (via : Via) (s r : Chan) :
    gate cfg via s r = gateR treeRule cfg via s r := gate_eq_gateR cfg via s r

/-- **C04_gate_consults**: both hinted and the receiver strict ⇒ the gate's answer IS the comparison's
(yes, no, or no answer), for `out.connect(inp)`, `inp.connect(out)` and both kinds of value link,
whatever the sender's flag -/
theorem C04_gate_consults (cfg : Cfg) (via : Via) (s r : Chan) (hs hr : Hint) (h1 : s.hint = some hs)
    (h2 : r.hint = some hr) (h3 : r.strict = true) : gate cfg via s r = compare cfg hs hr := by
  rw [gate_eq_gateR, gateR_typed treeRule cfg via s r hs hr h1 h2]; simp [treeRule, h3]

/-- **C04_gate_waived**: the comparison is skipped (and the link accepted) exactly when a hint is missing
or the RECEIVER has opted out -/
theorem C04_gate_waived (cfg : Cfg) (via : Via) (s r : Chan)
    (h : s.hint = none ∨ r.hint = none ∨ r.strict = false) : gate cfg via s r = some true := by
  rw [gate_eq_gateR]
  rcases h with h | h | h
  · exact gateR_untyped _ cfg via s r (Or.inl h)
  · exact gateR_untyped _ cfg via s r (Or.inr h)
  · unfold gateR; cases s.hint <;> cases r.hint <;> simp [treeRule, h]

theorem C04_gate_sender_flag_irrelevant (cfg : Cfg) (via : Via) (s r : Chan) (b : Bool) :
    gate cfg via { s with strict := b } r = gate cfg via s r := by
  rw [gate_eq_gateR, gate_eq_gateR]; rfl

theorem C04_gate_initiator_irrelevant (cfg : Cfg) (via via' : Via) (s r : Chan) :
    gate cfg via s r = gate cfg via' s r := by
  rw [gate_eq_gateR, gate_eq_gateR]; rfl

/-- **C04_gate_sound** (repaired comparison): every link the gate accepts between two hinted channels with
a strict receiver passes on only values the receiver's hint admits — for every initiator and every
sender flag -/
theorem C04_gate_sound (via : Via) (s r : Chan) (hs hr : Hint) (h1 : s.hint = some hs)
    (h2 : r.hint = some hr) (h3 : r.strict = true) (hc : LitClean hr)
    (hacc : gate .repaired via s r = some true) (v : V) (hv : admits .repaired hs v = true) :
    admits .repaired hr v = true :=
  C04_sound _ hs hr v hc (gate_strict_typed .repaired via s r hs hr h1 h2 h3 hacc) hv

/-- the same for every behaviour (the tree as it is) under the named hypotheses of `C04_sound_partial` -/
theorem C04_gate_sound_partial (cfg : Cfg) (via : Via) (s r : Chan) (hs hr : Hint)
    (h1 : s.hint = some hs) (h2 : r.hint = some hr) (h3 : r.strict = true) (v : V)
    (hlit : LiteralTypesDistinct hs hr)
    (hemp : cfg.argsFix = true ∨ (NoEmptyTuple hr ∧ NoUnorderedPair hr))
    (hag : IsinstanceAgrees cfg hr v) (hacc : gate cfg via s r = some true)
    (hv : admits cfg hs v = true) : admits cfg hr v = true :=
  C04_sound_partial cfg _ hs hr v hlit hemp hag (gate_strict_typed cfg via s r hs hr h1 h2 h3 hacc) hv

/-- a flag policy is sound when every link it accepts between hinted channels with a strict receiver is -/
def RuleSound (rule : GateRule) : Prop :=
  ∀ (via : Via) (s r : Chan) (hs hr : Hint) (v : V), s.hint = some hs → r.hint = some hr →
    r.strict = true → LitClean hr → gateR rule .repaired via s r = some true →
    admits .repaired hs v = true → admits .repaired hr v = true

/-- **C04_rule_sound_iff**: exactly the policies that compare whenever the receiver is strict are sound:
neither the sender's flag nor the identity of the initiator may waive the comparison -/
theorem C04_rule_sound_iff (rule : GateRule) :
    RuleSound rule ↔ ∀ via b, rule via b true = true := by
  constructor
  · intro h via b
    cases hr : rule via b true with
    | true => rfl
    | false =>
      have w := h via ⟨some (.cls .str), b⟩ ⟨some (.cls .int), true⟩ (.cls .str) (.cls .int) (.s "abc")
        rfl rfl rfl (by decide) (by simp [gateR, hr]) (by decide)
      exact absurd w (by decide)
  · intro h via s r hs hr v h1 h2 h3 hc hacc hv
    rw [gateR_typed rule .repaired via s r hs hr h1 h2, h3, h via s.strict] at hacc
    exact C04_sound _ hs hr v hc hacc hv

theorem C04_tree_rule_sound : RuleSound treeRule :=
  (C04_rule_sound_iff treeRule).mpr fun _ _ => rfl

/-- "compare only if BOTH sides are strict": a lax `str` output is accepted by a strict `int` input -/
theorem C04_both_flags_rule_unsound : ¬ RuleSound bothRule := by
  intro h
  have := (C04_rule_sound_iff bothRule).mp h .outConnects false
  simp [bothRule] at this

/-- "the flag of the channel whose method was called" -/
theorem C04_initiator_rule_unsound : ¬ RuleSound initiatorRule := by
  intro h
  have := (C04_rule_sound_iff initiatorRule).mp h .outConnects false
  simp [initiatorRule] at this

/-- the gate on the current tree -/
theorem C04_gate_sound_now (via : Via) (s r : Chan) (hs hr : Hint) (h1 : s.hint = some hs)
    (h2 : r.hint = some hr) (h3 : r.strict = true) (v : V) (hc : LitClean hr) (hemp : NoEmptyTuple hr)
    (hmap : NoUnorderedPair hr) (hag : IsinstanceAgrees .now hr v)
    (hacc : gate .now via s r = some true) (hv : admits .now hs v = true) : admits .now hr v = true :=
  C04_sound_now _ hs hr v hc hemp hmap hag (gate_strict_typed .now via s r hs hr h1 h2 h3 hacc) hv

/-! ## histories: links, `strict_hints` switched afterwards, values pushed through links -/

/-- **C04_history_checked**: after any sequence of link attempts (all four initiators), flag toggles and
value pushes, every link that a strict receiver accepted joins hints the comparison said yes to -/
theorem C04_history_checked (cfg : Cfg) (chan : Nat → Chan) (ops : List Op) :
    ((Net.init chan).run cfg ops).AcceptedChecked cfg :=
  run_AcceptedChecked cfg ops _ (init_AcceptedChecked cfg chan)

/-- **C04_history_sound** (repaired comparison) -/
theorem C04_history_sound (chan : Nat → Chan) (ops : List Op) (l : Link)
    (hl : l ∈ ((Net.init chan).run .repaired ops).links) (hst : l.strictAtAccept = true)
    (hs hr : Hint) (e1 : (((Net.init chan).run .repaired ops).chan l.s).hint = some hs)
    (e2 : (((Net.init chan).run .repaired ops).chan l.r).hint = some hr) (hc : LitClean hr)
    (v : V) (hv : admits .repaired hs v = true) : admits .repaired hr v = true :=
  C04_sound _ hs hr v hc (C04_history_checked .repaired chan ops l hl hst hs hr e1 e2) hv

/-- **C04_push_through_accepted**: a value the sender's hint admits is never refused by the receiving end
of such a link, whatever the flags are by then -/
theorem C04_push_through_accepted (chan : Nat → Chan) (ops : List Op) (l : Link)
    (hl : l ∈ ((Net.init chan).run .repaired ops).links) (hst : l.strictAtAccept = true)
    (hs hr : Hint) (e1 : (((Net.init chan).run .repaired ops).chan l.s).hint = some hs)
    (e2 : (((Net.init chan).run .repaired ops).chan l.r).hint = some hr) (hc : LitClean hr)
    (v : V) (hv : admits .repaired hs v = true) (via : Via) :
    (((Net.init chan).run .repaired ops).push .repaired via l.s l.r v).2 ≠ .receiverRejects := by
  intro h
  have h1 := push_receiverRejects _ _ _ _ _ _ h
  rw [typeCheckOk_of_admits .repaired _ hr v e2
    (C04_history_sound chan ops l hl hst hs hr e1 e2 hc v hv)] at h1
  cases h1

/-- as long as no flag is switched back ON, also the links into receivers that are strict NOW are checked -/
theorem C04_now_checked_without_activation (cfg : Cfg) (chan : Nat → Chan) (ops : List Op)
    (hops : ops.all Op.noActivation = true) : ((Net.init chan).run cfg ops).NowChecked cfg :=
  run_NowChecked cfg ops hops _ (by intro l hl; cases hl)

/-- …but switching a receiver's flag on does not re-validate its links: `str → int` accepted by a lax
input stays after `activate_strict_hints` (values are then refused one by one by the channel) -/
def exLaxThenStrict : Net :=
  (Net.init fun i => if i = 0 then ⟨some (.cls .str), true⟩ else ⟨some (.cls .int), false⟩).run .repaired
    [.link .outConnects 0 1, .strict 1 true]

theorem C04_activation_not_rechecked : ¬ exLaxThenStrict.NowChecked .repaired := by
  intro h
  have := h ⟨.outConnects, 0, 1, false⟩ (by decide) (by decide) (.cls .str) (.cls .int) rfl rfl
  exact absurd this (by decide)

theorem C04_activation_value_refused :
    (exLaxThenStrict.push .repaired .outConnects 0 1 (.s "abc")).2 = .receiverRejects := by decide

/-! ## connection targets that forward their data: acceptance looks at the two connected channels only -/

/-- **C04_link_local**: whether a link is accepted depends on the two channels it joins (hint and flag of each, the
sender's current value for a value link, whether the two are connected already) and on nothing else in the graph —
in particular not on the value receivers either of them forwards to, nor on their hints or flags -/
theorem C04_link_local (cfg : Cfg) (n n' : Net) (via : Via) (s r : Nat)
    (hs : n.chan s = n'.chan s) (hr : n.chan r = n'.chan r) (hv : n.val s = n'.val s)
    (hl : n.hasLink via s r = n'.hasLink via s r) :
    (n.link cfg via s r).2 = (n'.link cfg via s r).2 := by
  unfold Net.link
  rw [hs, hr, hv, hl]
  repeat' split
  all_goals first | rfl | simp_all

/-- for a new connection between hinted channels with a strict receiver the outcome IS the comparison of the
hints of the two connected channels -/
theorem C04_link_outcome (cfg : Cfg) (n : Net) (via : Via) (s r : Nat) (hs hr : Hint)
    (hc : via.isConnection = true) (hnew : n.hasLink via s r = false)
    (h1 : (n.chan s).hint = some hs) (h2 : (n.chan r).hint = some hr) (h3 : (n.chan r).strict = true) :
    (n.link cfg via s r).2 =
      match compare cfg hs hr with
      | some true => .ok | some false => .refused | none => .diverges := by
  unfold Net.link
  rw [C04_gate_consults cfg via _ _ hs hr h1 h2 h3, hc, hnew]
  cases compare cfg hs hr with
  | none => simp
  | some b => cases b <;> simp

/-- `Outer(x: int) → Inner(x: int) → Halve(x: int | float)` (three strict inputs, two legal value links) and an
upstream output hinted `float` -/
def exChain : Net :=
  (Net.init fun i => if i = 0 then ⟨some (.cls .float), true⟩ else if i = 3 then
      ⟨some (.unionNew [.cls .int, .cls .float]), true⟩ else ⟨some (.cls .int), true⟩).run .repaired
    [.link .recvInp 1 2, .link .recvInp 2 3]

/-- **C04_end_of_chain_witness**: the tree refuses `float → outer.x`; a gate that judges the END of the chain
accepts it, although `2.5` is admitted by `float` and not by the `int` of the channel the connection is made to -/
theorem C04_end_of_chain_witness :
    exChain.links = [⟨.recvInp, 2, 3, true⟩, ⟨.recvInp, 1, 2, true⟩] ∧
    exChain.consumer (exChain.links.length + 1) 1 = 3 ∧
    (exChain.link .repaired .inpConnects 0 1).2 = .refused ∧
    exChain.gateEnd .repaired .inpConnects 0 1 = some true ∧
    admits .repaired (.cls .float) (.f 1) = true ∧ admits .repaired (.cls .int) (.f 1) = false := by
  refine ⟨by decide, by decide, by decide, by decide, by decide, by decide⟩

/-- so "hold the connection to the hint of whoever finally consumes the data" is not a sound policy -/
theorem C04_end_of_chain_unsound :
    ¬ ∀ (n : Net) (via : Via) (s r : Nat) (hs hr : Hint) (v : V), (n.chan s).hint = some hs →
        (n.chan r).hint = some hr → (n.chan r).strict = true → LitClean hr →
        n.gateEnd .repaired via s r = some true → admits .repaired hs v = true → admits .repaired hr v = true := by
  intro h
  have w := C04_end_of_chain_witness
  have := h exChain .inpConnects 0 1 (.cls .float) (.cls .int) (.f 1) rfl rfl rfl (by decide) w.2.2.2.1 w.2.2.2.2.1
  rw [w.2.2.2.2.2] at this
  cases this

/-- **C04_chain_sound**: along value links that strict receivers accepted the hints only widen: whatever the hint at
the head of a chain admits, the hint at its end admits (so data accepted at the head of a chain of macro inputs is
never refused further down) -/
theorem C04_chain_sound (chan : Nat → Chan) (ops : List Op)
    (hall : ∀ k, ∃ h, (((Net.init chan).run .repaired ops).chan k).hint = some h ∧ LitClean h) (v : V) :
    ∀ (ls : List Link) (i j : Nat) (hi hj : Hint), ((Net.init chan).run .repaired ops).Walk i ls j →
      (((Net.init chan).run .repaired ops).chan i).hint = some hi →
      (((Net.init chan).run .repaired ops).chan j).hint = some hj →
      admits .repaired hi v = true → admits .repaired hj v = true := by
  intro ls
  induction ls with
  | nil =>
    intro i j hi hj hw e1 e2 hv
    simp only [Net.Walk] at hw; subst hw
    rw [e1] at e2; cases e2; exact hv
  | cons l ls ih =>
    intro i j hi hj hw e1 e2 hv
    obtain ⟨hmem, hst, hsi, hrest⟩ := hw
    subst hsi
    obtain ⟨hm, em, cm⟩ := hall l.r
    exact ih l.r j hm hj hrest em e2 (C04_history_sound chan ops l hmem hst hi hm e1 em cm v hv)

/-- the deep push over a connection into a chain head: the head's own check comes first -/
theorem C04_deliver_checks_head (cfg : Cfg) (n n' : Net) (fuel i : Nat) (v : V)
    (h : n.deliver cfg fuel i v = some n') : typeCheckOk cfg (n.chan i) v = true := by
  cases fuel with
  | zero => simp [Net.deliver] at h
  | succ f =>
    simp only [Net.deliver] at h
    split at h
    · cases h
    · rename_i hc; simpa using hc

example : exChain.Walk 1 [⟨.recvInp, 1, 2, true⟩, ⟨.recvInp, 2, 3, true⟩] 3 := by
  refine ⟨by decide, rfl, rfl, by decide, rfl, rfl, rfl⟩
example : ((exChain.step .repaired (.strict 1 false)).link .repaired .outConnects 0 1).2 = .ok ∧
    (((exChain.step .repaired (.strict 1 false)).link .repaired .outConnects 0 1).1.pushDeep .repaired
      .outConnects 0 1 (.f 1)).2 = .receiverRejects := by decide

/-! ## the pinned code: machine-checked counterexamples -/

/-- `Union[int, float]` vs `int`, and any old-style union against a non-union: no answer, ever -/
theorem C04_old_union_diverges (hs : List Hint) (o : Hint) (ho : isUnion (.h (strip o)) = false) :
    ∀ fuel, ms .pinned fuel (.h (.unionOld hs)) (.h o) = none :=
  old_union_left_diverges .pinned rfl hs (.h o) ho

theorem C04_old_union_diverges_right (hs : List Hint) (h : Hint) (hh : isUnion (.h (strip h)) = false) :
    ∀ fuel, ms .pinned fuel (.h h) (.h (.unionOld hs)) = none :=
  old_union_right_diverges .pinned rfl hs (.h h) hh

/-- `Optional[int]` vs itself -/
theorem C04_old_union_not_reflexive (hs : List Hint) :
    ∀ fuel, ms .pinned fuel (.h (.unionOld hs)) (.h (.unionOld hs)) = none :=
  old_union_self_diverges .pinned rfl hs

theorem C04_total_witness : ¬ TotalStatement .pinned := by
  intro h
  obtain ⟨fuel, _, hs⟩ := h (.unionOld [.cls .int, .cls .float]) (.cls .int)
  rw [C04_old_union_diverges _ _ rfl fuel] at hs
  cases hs

theorem C04_refl_witness : ¬ ReflStatement .pinned := by
  intro h
  have := h (.unionOld [.cls .int, .cls .noneT])
  rw [Hint.compare, C04_old_union_not_reflexive] at this
  cases this

/-- `Literal[True] → Literal[1]` is accepted, `True` is admitted by the first, not by the second -/
theorem C04_sound_witness_literal :
    compare .pinned (.literal [.b true]) (.literal [.i 1]) = some true ∧
    admits .pinned (.literal [.b true]) (.b true) = true ∧
    admits .pinned (.literal [.i 1]) (.b true) = false := by decide

/-- `Annotated[float, …] → float` is accepted; `1` is admitted by the first (typeguard's numeric
tower), not by the second (`isinstance`) -/
theorem C04_sound_witness_float :
    compare .pinned (.annotated (.cls .float)) (.cls .float) = some true ∧
    admits .pinned (.annotated (.cls .float)) (.i 1) = true ∧
    admits .pinned (.cls .float) (.i 1) = false := by decide

/-- `float | list[int] → float | list`, witness `1` -/
theorem C04_sound_witness_float_union :
    compare .pinned (.unionNew [.cls .float, .listOf (.cls .int)]) (.unionNew [.cls .float, .cls .list])
      = some true ∧
    admits .pinned (.unionNew [.cls .float, .listOf (.cls .int)]) (.i 1) = true ∧
    admits .pinned (.unionNew [.cls .float, .cls .list]) (.i 1) = false := by decide

/-- `set[int] → set`, witness `frozenset({1})` -/
theorem C04_sound_witness_frozenset :
    compare .pinned (.setOf (.cls .int)) (.cls .set) = some true ∧
    admits .pinned (.setOf (.cls .int)) (.fs [.i 1]) = true ∧
    admits .pinned (.cls .set) (.fs [.i 1]) = false := by decide

/-- `tuple[int] → tuple[()]`, witness `(1,)` -/
theorem C04_sound_witness_empty_tuple :
    compare .pinned (.tupleFix [.cls .int]) (.tupleFix []) = some true ∧
    admits .pinned (.tupleFix [.cls .int]) (.t [.i 1]) = true ∧
    admits .pinned (.tupleFix []) (.t [.i 1]) = false := by decide

theorem C04_sound_witness : ¬ SoundStatement .pinned := by
  intro h
  have w := C04_sound_witness_literal
  have := h _ _ _ (.b true) w.1 w.2.1
  rw [w.2.2] at this
  cases this

/-- the two proposed patches remove 1 and 2; 3 and 4 remain (known findings) -/
theorem C04_patched_still_unsound : ¬ SoundStatement .patched := by
  intro h
  have w : compare .patched (.annotated (.cls .float)) (.cls .float) = some true ∧
      admits .patched (.annotated (.cls .float)) (.i 1) = true ∧
      admits .patched (.cls .float) (.i 1) = false := by decide
  have := h _ _ _ (.i 1) w.1 w.2.1
  rw [w.2.2] at this
  cases this

theorem C04_patched_literal_fixed :
    compare .patched (.literal [.b true]) (.literal [.i 1]) = some false ∧
    compare .patched (.unionOld [.cls .int, .cls .float]) (.cls .int) = some false ∧
    compare .patched (.unionOld [.cls .int, .cls .noneT]) (.unionOld [.cls .int, .cls .noneT]) = some true := by
  decide

/-- typeguard's own quirk, the reason for `LitClean`: `Literal[True] → Literal[1, True]` is accepted
by any reasonable comparison, yet typeguard rejects `True` for `Literal[1, True]` -/
theorem C04_litclean_needed :
    compare .repaired (.literal [.b true]) (.literal [.i 1, .b true]) = some true ∧
    admits .repaired (.literal [.b true]) (.b true) = true ∧
    admits .repaired (.literal [.i 1, .b true]) (.b true) = false := by decide

/-! ## non-vacuity: the hypotheses are satisfiable by non-trivial hints and values -/

def exOut : Hint := .dictOf (.cls .str) (.unionNew [.tupleVar (.cls .bool), .listOf (.literal [.i 1, .s "a"])])
def exInp : Hint :=
  .annotated (.dictOf (.cls .str)
    (.unionOld [.listOf (.literal [.s "a", .i 1, .none]), .tupleVar (.cls .int), .cls .noneT]))
def exVal : V := .d [.s "k"] [.t [.b true, .b false]]

example : compare .repaired exOut exInp = some true ∧ admits .repaired exOut exVal = true ∧
    LitClean exInp := by
  refine ⟨by decide, by decide, by decide⟩
example : admits .repaired exInp exVal = true :=
  C04_sound (size exOut + size exInp) exOut exInp exVal (by decide) (by decide) (by decide)

/-- the pinned behaviour, hypotheses of the partial theorem satisfied by a typed connection -/
def exOutP : Hint := .unionNew [.cls .bool, .listOf (.cls .uC), .callableOf (some [.int]) (.cls .uB)]
def exInpP : Hint :=
  .unionNew [.cls .int, .listOf (.unionNew [.cls .uA, .cls .str]), .callableOf (some [.int]) (.cls .uA),
    .literal [.s "x"]]
example : validConnection .pinned ⟨some exOutP, true⟩ ⟨some exInpP, true⟩ = some true := by decide
example : LiteralTypesDistinct exOutP exInpP :=
  ⟨fun l => match l with | .b _ => false | _ => true,
   by intro a b; cases a <;> cases b <;> simp [Lit.pyEq], by decide, by decide⟩
example : NoEmptyTuple exInpP ∧ IsinstanceAgrees .pinned exInpP (.b true) ∧ NoOldUnion exOutP := by
  refine ⟨by decide, by decide, by decide⟩
example : admits .pinned exOutP (.b true) = true ∧ admits .pinned exOutP (.l [.inst .uC]) = true := by
  decide
example : (compare .patched (.unionOld [.cls .bool, .cls .noneT]) (.unionNew [.cls .int, .cls .noneT])).isSome :=
  by decide

/-- the gate: a lax sender, a strict receiver, every initiator; accepted and refused pairs -/
example : ∀ via ∈ Via.all, gate .patched via ⟨some exOutP, false⟩ ⟨some exInpP, true⟩ = some true := by decide
example : ∀ via ∈ Via.all, gate .patched via ⟨some (.cls .str), false⟩ ⟨some (.cls .int), true⟩ = some false := by
  decide
example : ∀ via ∈ Via.all, gate .patched via ⟨some (.cls .str), true⟩ ⟨some (.cls .int), false⟩ = some true := by
  decide
example : ∀ via ∈ Via.all, gateR bothRule .patched via ⟨some (.cls .str), false⟩ ⟨some (.cls .int), true⟩ = some true := by
  decide
/-- a history: refused, accepted by a strict receiver with a lax sender, flags toggled, a value link on top -/
def exHist : Net :=
  (Net.init fun i => if i = 0 then ⟨some (.cls .bool), false⟩ else if i = 1 then ⟨some (.cls .int), true⟩
      else if i = 2 then ⟨some (.cls .str), true⟩ else ⟨some (.unionNew [.cls .int, .cls .str]), true⟩).run .repaired
    [.link .inpConnects 2 1, .link .inpConnects 0 1, .strict 1 false, .link .outConnects 2 1, .strict 1 true,
     .setVal 1 (.i 3), .link .recvInp 1 3, .push .recvInp 1 3 (.b true)]
example : exHist.links = [⟨.recvInp, 1, 3, true⟩, ⟨.outConnects, 2, 1, false⟩, ⟨.inpConnects, 0, 1, true⟩] := by
  decide
example : exHist.val 3 = some (.b true) := rfl

/-- the enlarged grammar: `typing.Any`, bare `typing` aliases, `Sequence[X]`, `Mapping[K, V]` -/
def exOutN : Hint := .unionNew [.seqOf (.cls .bool), .mapOf (.cls .str) (.listOf .any), .tupleFix [.cls .int, .any]]
def exInpN : Hint :=
  .unionNew [.seqOf (.unionNew [.cls .int, .cls .str]), .mapOf (.cls .sequence) (.cls .list), .bare .tuple,
    .cls .noneT]
example : compare .now exOutN exInpN = some true ∧ LitClean exInpN ∧ NoEmptyTuple exInpN := by
  refine ⟨by decide, by decide, by decide⟩
example : admits .now exOutN (.s "") = true ∧ admits .now exOutN (.d [.s "k"] [.l [.i 1]]) = true ∧
    admits .now exOutN (.t [.i 1, .s "x"]) = true := by decide
example : admits .argsFixed exInpN (.d [.s "k"] [.l [.i 1]]) = true :=
  C04_sound_args_fixed (size exOutN + size exInpN) exOutN exInpN _ (by decide) (by decide) (by decide) (by decide)

end PwVerif.C04

#print axioms PwVerif.C04.C04_sound
#print axioms PwVerif.C04.C04_sound_partial
#print axioms PwVerif.C04.C04_sound_patched
#print axioms PwVerif.C04.C04_total
#print axioms PwVerif.C04.C04_total_partial
#print axioms PwVerif.C04.C04_fuel_irrelevant
#print axioms PwVerif.C04.C04_refl
#print axioms PwVerif.C04.C04_refl_partial
#print axioms PwVerif.C04.C04_connect
#print axioms PwVerif.C04.C04_receiver
#print axioms PwVerif.C04.C04_connect_unchecked
#print axioms PwVerif.C04.C04_connection_sound
#print axioms PwVerif.C04.C04_old_union_diverges
#print axioms PwVerif.C04.C04_old_union_diverges_right
#print axioms PwVerif.C04.C04_old_union_not_reflexive
#print axioms PwVerif.C04.C04_total_witness
#print axioms PwVerif.C04.C04_refl_witness
#print axioms PwVerif.C04.C04_sound_witness
#print axioms PwVerif.C04.C04_sound_witness_literal
#print axioms PwVerif.C04.C04_sound_witness_float
#print axioms PwVerif.C04.C04_sound_witness_float_union
#print axioms PwVerif.C04.C04_sound_witness_frozenset
#print axioms PwVerif.C04.C04_sound_witness_empty_tuple
#print axioms PwVerif.C04.C04_patched_still_unsound
#print axioms PwVerif.C04.C04_patched_literal_fixed
#print axioms PwVerif.C04.C04_litclean_needed
#print axioms PwVerif.C04.C04_gate_is_receiver_rule
#print axioms PwVerif.C04.C04_gate_consults
#print axioms PwVerif.C04.C04_gate_waived
#print axioms PwVerif.C04.C04_gate_sender_flag_irrelevant
#print axioms PwVerif.C04.C04_gate_initiator_irrelevant
#print axioms PwVerif.C04.C04_gate_sound
#print axioms PwVerif.C04.C04_gate_sound_partial
#print axioms PwVerif.C04.C04_rule_sound_iff
#print axioms PwVerif.C04.C04_tree_rule_sound
#print axioms PwVerif.C04.C04_both_flags_rule_unsound
#print axioms PwVerif.C04.C04_initiator_rule_unsound
#print axioms PwVerif.C04.C04_history_checked
#print axioms PwVerif.C04.C04_history_sound
#print axioms PwVerif.C04.C04_push_through_accepted
#print axioms PwVerif.C04.C04_now_checked_without_activation
#print axioms PwVerif.C04.C04_activation_not_rechecked
#print axioms PwVerif.C04.C04_activation_value_refused
#print axioms PwVerif.C04.C04_sound_now
#print axioms PwVerif.C04.C04_sound_args_fixed
#print axioms PwVerif.C04.C04_total_now
#print axioms PwVerif.C04.C04_refl_now
#print axioms PwVerif.C04.C04_sound_witness_mapping
#print axioms PwVerif.C04.C04_now_needs_no_empty_tuple
#print axioms PwVerif.C04.C04_now_needs_litclean
#print axioms PwVerif.C04.C04_now_needs_isinstance_agrees
#print axioms PwVerif.C04.C04_args_fixed_behaviour
#print axioms PwVerif.C04.C04_gate_sound_now
#print axioms PwVerif.C04.C04_link_local
#print axioms PwVerif.C04.C04_link_outcome
#print axioms PwVerif.C04.C04_end_of_chain_witness
#print axioms PwVerif.C04.C04_end_of_chain_unsound
#print axioms PwVerif.C04.C04_chain_sound
#print axioms PwVerif.C04.C04_deliver_checks_head
