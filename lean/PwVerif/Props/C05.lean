import PwVerif.Proofs.Cache
/-!
# C05 — Caching is transparent: a run served from cache equals a real run

"With input caching on, whatever a node or composite returns and leaves in its outputs after any run
is identical to what it would return with caching switched off, provided node functions are
deterministic and do not mutate their arguments. In particular a run is never short-circuited on the
strength of inputs whose execution failed, is still in flight, or was refused, nor after the
composite's children or their wiring changed."

Node level: one node, a deterministic function (`bad v` = it raises on input `v`), histories over
{set input, run locally, run on an executor, job completion, clear the failed flag}, applied in
lock-step to the node and to its twin with caching off.  `Cfg.pinned` = the code as pinned (cache
written before the readiness gate, kept after a failure, hit taken even while running/failed),
`Cfg.repaired` = written after the gate, cleared on failure, hit only when the run would be admitted.
The composite-level clause (children / wiring changed) has no Lean content: it is checked by the
twin oracle on the implementation (see harness/pwh/c05.py).
-/
namespace PwVerif.C05
open PwVerif.Cache

/-- the full statement for a configuration: same results and same visible states for every history in
which no executor submission is answered from the cache -/
def Transparent (cfg : Cfg) : Prop :=
  ∀ (bad : Nat → Bool) (ops : List Op), NoSubmitHit bad N.init ops →
    (runOps cfg bad true N.init ops).2 = (runOps cfg bad false N.init ops).2 ∧
    (runOps cfg bad true N.init ops).1.visible = (runOps cfg bad false N.init ops).1.visible

theorem C05_transparent : Transparent Cfg.repaired := by
  intro bad ops hok
  obtain ⟨h1, h2⟩ := runOps_sim bad ops N.init N.init (init_sim bad) hok
  refine ⟨h1, ?_⟩
  simp [N.visible, h2.inp, h2.out, h2.running, h2.failed]

/-- from ANY pair of related states (not only the initial one) -/
theorem C05_transparent_from (bad : Nat → Bool) (ops : List Op) (a b : N) (h : Sim bad a b)
    (hok : NoSubmitHit bad a ops) :
    (runOps Cfg.repaired bad true a ops).2 = (runOps Cfg.repaired bad false b ops).2 ∧
    (runOps Cfg.repaired bad true a ops).1.visible = (runOps Cfg.repaired bad false b ops).1.visible := by
  obtain ⟨h1, h2⟩ := runOps_sim bad ops a b h hok
  refine ⟨h1, ?_⟩
  simp [N.visible, h2.inp, h2.out, h2.running, h2.failed]

/-- an executor submission answered from the cache = submission + completion on the uncached twin -/
theorem C05_submit_hit_settles (bad : Nat → Bool) (a b : N) (h : Sim bad a b) (hhit : a.hits = true) :
    Sim bad (step Cfg.repaired bad true a .submit).1
      (step Cfg.repaired bad false (step Cfg.repaired bad false b .submit).1 .complete).1 ∧
    (step Cfg.repaired bad true a .submit).2 =
      .ret (step Cfg.repaired bad false (step Cfg.repaired bad false b .submit).1 .complete).1.out :=
  submit_hit_settles bad a b h hhit

/-! ### the pinned code is NOT transparent: three machine-checked histories (all replayed on /repo) -/

def badOne : Nat → Bool := fun v => v == 1

/-- run raises; clear `failed`; run again with the same input ⇒ stale outputs, function not called -/
theorem C05_pinned_witness_failed :
    (runOps Cfg.pinned badOne true N.init [.set 1, .run, .clearFailed, .run]).2 = [.unit, .raised, .unit, .ret none] ∧
    (runOps Cfg.pinned badOne false N.init [.set 1, .run, .clearFailed, .run]).2 = [.unit, .raised, .unit, .raised] := by
  decide

/-- a refused run (input not ready), then run again ⇒ returns outputs instead of refusing -/
theorem C05_pinned_witness_refused :
    (runOps Cfg.pinned badOne true N.init [.run, .run]).2 = [.readiness, .ret none] ∧
    (runOps Cfg.pinned badOne false N.init [.run, .run]).2 = [.readiness, .readiness] := by
  decide

/-- a second run while the first is in flight on an executor ⇒ stale outputs instead of a refusal -/
theorem C05_pinned_witness_inflight :
    (runOps Cfg.pinned badOne true N.init [.set 2, .submit, .run]).2 = [.unit, .future, .ret none] ∧
    (runOps Cfg.pinned badOne false N.init [.set 2, .submit, .run]).2 = [.unit, .future, .readiness] := by
  decide

theorem C05_pinned_not_transparent : ¬ Transparent Cfg.pinned := by
  intro h
  have := (h badOne [.run, .run] (by unfold NoSubmitHit; decide)).1
  revert this
  decide

/-! non-vacuity: a history with a failure, a refusal, an in-flight run, a hit and a miss -/
def exOps : List Op :=
  [.set 2, .submit, .run, .complete, .run, .set 1, .run, .clearFailed, .run, .clearFailed, .set 2, .run, .set 3, .run]
example : NoSubmitHit badOne N.init exOps := by unfold NoSubmitHit; decide
example : (runOps Cfg.repaired badOne true N.init exOps).2
    = [.unit, .future, .readiness, .unit, .ret (some 2), .unit, .raised, .unit, .raised, .unit, .unit,
       .ret (some 2), .unit, .ret (some 3)] := by
  decide

end PwVerif.C05

#print axioms PwVerif.C05.C05_transparent
#print axioms PwVerif.C05.C05_transparent_from
#print axioms PwVerif.C05.C05_submit_hit_settles
#print axioms PwVerif.C05.C05_pinned_witness_failed
#print axioms PwVerif.C05.C05_pinned_witness_refused
#print axioms PwVerif.C05.C05_pinned_witness_inflight
#print axioms PwVerif.C05.C05_pinned_not_transparent
