import PwVerif.Proofs.Cache
import PwVerif.Proofs.CacheTree
import PwVerif.Proofs.CacheForest
import PwVerif.Proofs.CacheFetch
import PwVerif.Proofs.CacheFetchTree
import PwVerif.Proofs.CacheCmp
import PwVerif.Proofs.CacheSer
import PwVerif.Proofs.CacheFor
import PwVerif.Proofs.CacheGate
/-!
# C05 — Caching is transparent: a run served from cache equals a real run

"With input caching on, whatever a node or composite returns and leaves in its outputs after any run
is identical to what it would return with caching switched off, provided node functions are
deterministic and do not mutate their arguments. In particular a run is never short-circuited on the
strength of inputs whose execution failed, is still in flight, or was refused, nor after the
composite's children or their wiring changed."

## Node level (`PwVerif.Cache`)
One node, a deterministic function (`beh v` = what it does on input `v`: returns, raises an Exception,
raises KeyboardInterrupt, raises another BaseException, returns something `process_run_result`
rejects), histories over {set input, run locally, run on an executor, oldest job completes, clear the
failed flag, queued jobs cancelled before they start, the executor loses a job, the running flag is
reset by hand}, applied in lock-step to the node and to its twin with caching off.
`Cfg.pinned` = the code as pinned; `Cfg.repaired` = /repo after 0699958 (cache written after the gate,
cleared on failure, hit only when the run would be admitted) — the tree the findings KF-C05-3/4/5 were
made on, "current" in the names of the theorems about it; `Cfg.proposed` = /repo after b54ba0f (the
inputs of an admitted run are recorded only when the result of that very run has been processed);
`Cfg.kbdOnly` = + f3b0474 (the done-callback treats KeyboardInterrupt as a failure, like a local run does);
`Cfg.now` = /repo as it is: + 9a3aae7 (every BaseException that ends the function fails the run, locally and
in the done-callback).  `Cfg.commit kbd all` covers all of these.

What the full statement `C05_transparent` still assumes: the property's own proviso (the function is
deterministic and does not mutate its arguments — `beh` is a function of the input) and `NoSubmitHit` (an
executor submission answered from the cache returns the outputs instead of a future, by design;
`C05_submit_hit_settles` says what that answer is equal to).  Nothing else: no hypothesis on the history
(lost jobs, manual resets, cancellations, late completions) and none on the exception kinds.

## Composite level (`PwVerif.CacheTree`)
Nested trees of function nodes and composites; `key` = `Composite._internal_cache_key`; a run =
dataflow evaluation.  `KCfg.current` = the key before 9c2c165 (no node classes; "current" when KF-C05-6 was
found), `KCfg.proposed` = with the class of every child = /repo as it is now, `KCfg.shallow` = not descending
into composite children (seeded change).
-/
namespace PwVerif.C05
open PwVerif.Cache

/-- the full statement for a configuration: same results and same visible states for every history in
which no executor submission is answered from the cache -/
def Transparent (cfg : Cfg) : Prop :=
  ∀ (beh : Nat → Outcome) (ops : List Op), NoSubmitHit cfg beh N.init ops →
    (runOps cfg beh true N.init ops).2 = (runOps cfg beh false N.init ops).2 ∧
    (runOps cfg beh true N.init ops).1.visible = (runOps cfg beh false N.init ops).1.visible

/-- EVERY history over the full alphabet (cancelled, lost, late and interrupted jobs, manual resets
included), every deterministic function — whichever BaseExceptions the run cycle catches -/
theorem C05_transparent_commit (k al : Bool) : Transparent (Cfg.commit k al) := by
  intro beh ops hok
  obtain ⟨h1, h2⟩ := runOps_sim k al beh ops N.init N.init (init_sim beh) hok
  refine ⟨h1, ?_⟩
  simp [N.visible, h2.inp, h2.out, h2.running, h2.failed]

/-- /repo as it is now -/
theorem C05_transparent : Transparent Cfg.now := C05_transparent_commit true true

/-- /repo after f3b0474, before 9a3aae7 -/
theorem C05_transparent_kbd_only : Transparent Cfg.kbdOnly := C05_transparent_commit true false

/-- /repo after b54ba0f, before f3b0474 -/
theorem C05_transparent_proposed : Transparent Cfg.proposed := C05_transparent_commit false false

/-- from ANY pair of related states (not only the initial one) -/
theorem C05_transparent_from (k al : Bool) (beh : Nat → Outcome) (ops : List Op) (a b : N) (h : Sim beh a b)
    (hok : NoSubmitHit (Cfg.commit k al) beh a ops) :
    (runOps (Cfg.commit k al) beh true a ops).2 = (runOps (Cfg.commit k al) beh false b ops).2 ∧
    (runOps (Cfg.commit k al) beh true a ops).1.visible = (runOps (Cfg.commit k al) beh false b ops).1.visible := by
  obtain ⟨h1, h2⟩ := runOps_sim k al beh ops a b h hok
  refine ⟨h1, ?_⟩
  simp [N.visible, h2.inp, h2.out, h2.running, h2.failed]

/-- an executor submission answered from the cache = submission + completion on the uncached twin -/
theorem C05_submit_hit_settles (k al : Bool) (beh : Nat → Outcome) (a b : N) (h : Sim beh a b) (hhit : a.hits = true)
    (hq : a.jobs = []) :
    Sim beh (step (Cfg.commit k al) beh true a .submit).1
      (step (Cfg.commit k al) beh false (step (Cfg.commit k al) beh false b .submit).1 .complete).1 ∧
    (step (Cfg.commit k al) beh true a .submit).2 =
      .ret (step (Cfg.commit k al) beh false (step (Cfg.commit k al) beh false b .submit).1 .complete).1.out :=
  submit_hit_settles k al beh a b h hhit hq

/-- /repo as it is now: a job that ends with KeyboardInterrupt takes the failure path (node failed, nothing
cached, not running) although the exception still leaves the callback -/
theorem C05_interrupted_job_fails (beh : Nat → Outcome) (useCache : Bool) (n : N) (v : Nat) (js : List Nat)
    (hj : n.jobs = v :: js) (hv : beh v = .kbd) :
    (step Cfg.now beh useCache n .complete).2 = .escaped ∧
    (step Cfg.now beh useCache n .complete).1.failed = true ∧
    (step Cfg.now beh useCache n .complete).1.running = false ∧
    (step Cfg.now beh useCache n .complete).1.cached = none := by
  simp [step, hj, hv, Cfg.now, Cfg.commit, N.fail]

/-- /repo as it is now: any other BaseException ending the function (SystemExit, …) fails the run too — locally (the
exception is re-raised, the node is failed and no longer running) and in the done-callback -/
theorem C05_fatal_fails (beh : Nat → Outcome) (useCache : Bool) (n : N) (hr : n.ready = true) (hv : beh n.inp = .fatal)
    (hmiss : n.cached ≠ some n.inp) :
    (step Cfg.now beh useCache n .run).2 = .fatal ∧
    (step Cfg.now beh useCache n .run).1.failed = true ∧
    (step Cfg.now beh useCache n .run).1.running = false ∧
    (step Cfg.now beh useCache n .run).1.cached = none ∧
    ∀ (m : N) (js : List Nat), m.jobs = n.inp :: js →
      (step Cfg.now beh useCache m .complete).2 = .escaped ∧ (step Cfg.now beh useCache m .complete).1.failed = true ∧
      (step Cfg.now beh useCache m .complete).1.running = false ∧ (step Cfg.now beh useCache m .complete).1.cached = none := by
  refine ⟨?_, ?_, ?_, ?_, ?_⟩ <;>
    first
    | (intro m js hj; simp [step, hj, hv, Cfg.now, Cfg.commit, N.fail])
    | (cases useCache <;> simp_all [step, runLike, Cfg.now, Cfg.commit, N.fail])

/-- /repo BEFORE b54ba0f (`Cfg.repaired`): transparent for every history without a manual reset of `running` and without a
lost job, for functions that raise nothing but `Exception`s — cancellation before start included -/
theorem C05_current_partial (beh : Nat → Outcome) (hb : ∀ v, (beh v).tame = true) (ops : List Op)
    (hops : ∀ o ∈ ops, o.tame = true) (hok : NoSubmitHit Cfg.repaired beh N.init ops) :
    (runOps Cfg.repaired beh true N.init ops).2 = (runOps Cfg.repaired beh false N.init ops).2 ∧
    (runOps Cfg.repaired beh true N.init ops).1.visible = (runOps Cfg.repaired beh false N.init ops).1.visible := by
  obtain ⟨h1, h2⟩ := runOps_simR beh hb ops hops N.init N.init (init_simR beh) hok
  refine ⟨h1, ?_⟩
  simp [N.visible, h2.inp, h2.out, h2.running, h2.failed]

/-- a job cancelled before it starts takes the failure path: whatever the cache said is dropped and
the node is failed (current and proposed discipline alike) — the seeded change C05-3 breaks this -/
theorem C05_cancel_drops_cache (cfg : Cfg) (hc : cfg.clearOnFail = true) (beh : Nat → Outcome)
    (useCache : Bool) (n : N) (hj : n.jobs ≠ []) :
    (step cfg beh useCache n .cancel).1.cached = none ∧ (step cfg beh useCache n .cancel).1.failed = true ∧
    (step cfg beh useCache n .cancel).1.running = false ∧ (step cfg beh useCache n .cancel).1.jobs = [] := by
  cases hjs : n.jobs with
  | nil => exact absurd hjs hj
  | cons v js => simp [step, hjs, N.fail, hc]

/-! ### behaviours for the witnesses: 1 raises an Exception, 4 KeyboardInterrupt, 5 another
BaseException, 6 is rejected by `process_run_result`, everything else returns -/
def behW : Nat → Outcome := fun v =>
  if v == 1 then .exc else if v == 4 then .kbd else if v == 5 then .fatal else if v == 6 then .procbad else .ok

/-! ### /repo before b54ba0f (`Cfg.repaired`, "current" when these were found) is NOT transparent over the full
alphabet (all replayed on that tree; findings KF-C05-3/4/5, fixed by b54ba0f) -/

/-- a job is lost, the user resets `running`, runs the same input again ⇒ stale outputs, function not
called -/
theorem C05_current_witness_lost :
    (runOps Cfg.repaired behW true N.init [.set 2, .submit, .drop, .resetRunning, .run]).2
      = [.unit, .future, .unit, .unit, .ret none] ∧
    (runOps Cfg.repaired behW false N.init [.set 2, .submit, .drop, .resetRunning, .run]).2
      = [.unit, .future, .unit, .unit, .ret (some 2)] := by
  decide

/-- … and a job that completes late, after a reset and another run, leaves outputs the cache does not
belong to -/
theorem C05_current_witness_late :
    (runOps Cfg.repaired behW true N.init [.set 2, .submit, .resetRunning, .set 3, .run, .complete, .run]).2
      = [.unit, .future, .unit, .unit, .ret (some 3), .unit, .ret (some 2)] ∧
    (runOps Cfg.repaired behW false N.init [.set 2, .submit, .resetRunning, .set 3, .run, .complete, .run]).2
      = [.unit, .future, .unit, .unit, .ret (some 3), .unit, .ret (some 3)] := by
  decide

/-- the job raises KeyboardInterrupt (a process-pool child interrupted): the done-callback only catches
`Exception`, the node ends neither running nor failed, the cache written at submission stays ⇒ the
re-run returns stale outputs instead of running (and being interrupted) again -/
theorem C05_current_witness_interrupted :
    (runOps Cfg.repaired behW true N.init [.set 4, .submit, .complete, .run]).2
      = [.unit, .future, .escaped, .ret none] ∧
    (runOps Cfg.repaired behW false N.init [.set 4, .submit, .complete, .run]).2
      = [.unit, .future, .escaped, .interrupted] := by
  decide

/-- a local run dies with a BaseException that is not caught (`running` stays set), the user resets
it ⇒ stale outputs -/
theorem C05_current_witness_fatal :
    (runOps Cfg.repaired behW true N.init [.set 5, .run, .resetRunning, .run]).2
      = [.unit, .fatal, .unit, .ret none] ∧
    (runOps Cfg.repaired behW false N.init [.set 5, .run, .resetRunning, .run]).2
      = [.unit, .fatal, .unit, .fatal] := by
  decide

theorem C05_current_not_transparent : ¬ Transparent Cfg.repaired := by
  intro h
  have := (h behW [.set 4, .submit, .complete, .run] (by unfold NoSubmitHit; decide)).1
  revert this
  decide

/-! ### the pinned code: three machine-checked histories over the OLD alphabet already (all replayed on
the pinned /repo, repaired by 0699958) -/

/-- run raises; clear `failed`; run again with the same input ⇒ stale outputs, function not called -/
theorem C05_pinned_witness_failed :
    (runOps Cfg.pinned behW true N.init [.set 1, .run, .clearFailed, .run]).2 = [.unit, .raised, .unit, .ret none] ∧
    (runOps Cfg.pinned behW false N.init [.set 1, .run, .clearFailed, .run]).2 = [.unit, .raised, .unit, .raised] := by
  decide

/-- a refused run (input not ready), then run again ⇒ returns outputs instead of refusing -/
theorem C05_pinned_witness_refused :
    (runOps Cfg.pinned behW true N.init [.run, .run]).2 = [.readiness, .ret none] ∧
    (runOps Cfg.pinned behW false N.init [.run, .run]).2 = [.readiness, .readiness] := by
  decide

/-- a second run while the first is in flight on an executor ⇒ stale outputs instead of a refusal -/
theorem C05_pinned_witness_inflight :
    (runOps Cfg.pinned behW true N.init [.set 2, .submit, .run]).2 = [.unit, .future, .ret none] ∧
    (runOps Cfg.pinned behW false N.init [.set 2, .submit, .run]).2 = [.unit, .future, .readiness] := by
  decide

theorem C05_pinned_not_transparent : ¬ Transparent Cfg.pinned := by
  intro h
  have := (h behW [.run, .run] (by unfold NoSubmitHit; decide)).1
  revert this
  decide

/-! non-vacuity: a history with a failure, a refusal, an in-flight run, a hit, a miss, a cancelled job,
a lost job with reset, a late completion and an interrupted job -/
def exOps : List Op :=
  [.set 2, .submit, .run, .complete, .run, .set 1, .run, .clearFailed, .run, .clearFailed, .set 2, .run, .set 3, .run,
   .set 7, .submit, .cancel, .run, .clearFailed, .set 2, .submit, .drop, .resetRunning, .run, .set 3, .submit, .resetRunning,
   .set 2, .run, .complete, .run, .set 4, .submit, .complete, .run]
example : NoSubmitHit Cfg.now behW N.init exOps := by unfold NoSubmitHit; decide
example : (runOps Cfg.now behW true N.init exOps).2
    = [.unit, .future, .readiness, .unit, .ret (some 2), .unit, .raised, .unit, .raised, .unit, .unit,
       .ret (some 2), .unit, .ret (some 3),
       .unit, .future, .unit, .readiness, .unit, .unit, .future, .unit, .unit, .ret (some 2), .unit, .future, .unit,
       .unit, .ret (some 2), .unit, .ret (some 2), .unit, .future, .escaped, .readiness] := by
  decide
/-- the histories that broke the previous variant, on /repo as it is now: both twins agree -/
example : (runOps Cfg.now behW true N.init [.set 4, .submit, .complete, .run]).2 = [.unit, .future, .escaped, .readiness] ∧
    (runOps Cfg.now behW false N.init [.set 4, .submit, .complete, .run]).2 = [.unit, .future, .escaped, .readiness] ∧
    (runOps Cfg.now behW true N.init [.set 2, .submit, .drop, .resetRunning, .run]).2
      = (runOps Cfg.now behW false N.init [.set 2, .submit, .drop, .resetRunning, .run]).2 ∧
    (runOps Cfg.proposed behW true N.init [.set 4, .submit, .complete, .run]).2 = [.unit, .future, .escaped, .interrupted] := by
  decide
example : ∃ n : N, n.jobs = [4] ∧ behW 4 = .kbd := ⟨{ N.init with jobs := [4] }, rfl, rfl⟩
/-- the fatal history that broke the earlier variants, on /repo as it is now -/
example : (runOps Cfg.now behW true N.init [.set 5, .run, .resetRunning, .run, .clearFailed, .submit, .complete, .run]).2
      = [.unit, .fatal, .unit, .readiness, .unit, .future, .escaped, .readiness] ∧
    (runOps Cfg.now behW false N.init [.set 5, .run, .resetRunning, .run, .clearFailed, .submit, .complete, .run]).2
      = [.unit, .fatal, .unit, .readiness, .unit, .future, .escaped, .readiness] ∧
    (runOps Cfg.kbdOnly behW true N.init [.set 5, .run, .resetRunning, .run]).2 = [.unit, .fatal, .unit, .fatal] := by
  decide
example : ∃ n : N, n.ready = true ∧ behW n.inp = .fatal ∧ n.cached ≠ some n.inp :=
  ⟨{ N.init with inp := 5 }, by decide, rfl, by decide⟩
/-- hypotheses of `C05_current_partial` are satisfiable by a history with a cancellation and a hit -/
def exTame : List Op := [.set 2, .submit, .cancel, .run, .clearFailed, .run, .run, .set 6, .submit, .complete]
example : (∀ o ∈ exTame, o.tame = true) ∧ NoSubmitHit Cfg.repaired (fun v => if v == 6 then .procbad else .ok) N.init exTame := by
  unfold NoSubmitHit; decide
example : (runOps Cfg.repaired (fun v => if v == 6 then .procbad else .ok) true N.init exTame).2
    = [.unit, .future, .unit, .readiness, .unit, .ret (some 2), .ret (some 2), .unit, .future, .unit] := by decide
example : ∃ a b : N, Sim behW a b ∧ a.hits = true ∧ a.jobs = [] :=
  ⟨{ N.init with inp := 2, out := some 2, cached := some 2 }, { N.init with inp := 2, out := some 2 },
   ⟨rfl, rfl, rfl, rfl, rfl, by simp [N.init], by simp [behW]⟩, by decide, rfl⟩

/-! ## composite level -/
section Tree
open PwVerif.CacheTree

/-- SOUNDNESS OF A HIT, every nesting depth, every wiring, every interpretation of the node functions:
two children lists with the same key make every run return the same thing -/
theorem C05_key_sound {ρ : Type} (S : Sem ρ) (fuel : Nat) (vals : List ρ) (k1 k2 : List (Nat × T))
    (h : key KCfg.proposed k1 = key KCfg.proposed k2) :
    evalAll S fuel vals k1 = evalAll S fuel vals k2 :=
  key_sound_all S fuel vals k1 k2 h

/-- the key before 9c2c165 (`KCfg.current`): sound when no function node changed its class -/
theorem C05_key_sound_current_partial {ρ : Type} (S : Sem ρ) (fuel : Nat) (vals : List ρ)
    (k1 k2 : List (Nat × T)) (h : key KCfg.current k1 = key KCfg.current k2) (hc : ClsAgree k1 k2) :
    evalAll S fuel vals k1 = evalAll S fuel vals k2 := by
  apply key_sound_all
  have hk : keyKids KCfg.current k1 = keyKids KCfg.current k2 := by
    simp only [key, K.mk.injEq] at h
    exact Prod.ext h.1 h.2
  have := key_upgrade k1 k2 hk hc
  simp [key, this]

/-- transparency of a composite for EVERY history of input assignments, arbitrary edits at any depth
(the children list is replaced by any other), structural edits and runs -/
def TreeTransparent (c : KCfg) : Prop :=
  ∀ (S : Sem Nat) (fuel : Nat) (s0 : St Nat) (ops : List (CacheTree.Op Nat)), s0.cache = none →
    (CacheTree.runOps S c fuel true s0 ops).2 = (CacheTree.runOps S c fuel false s0 ops).2 ∧
    (CacheTree.runOps S c fuel true s0 ops).1.outs = (CacheTree.runOps S c fuel false s0 ops).1.outs

/-- for any value type, from any related pair of states -/
theorem C05_tree_transparent_from {ρ : Type} [DecidableEq ρ] (S : Sem ρ) (fuel : Nat)
    (ops : List (CacheTree.Op ρ)) (a b : St ρ) (h : CacheTree.Sim S fuel a b) :
    (CacheTree.runOps S KCfg.proposed fuel true a ops).2 = (CacheTree.runOps S KCfg.proposed fuel false b ops).2 ∧
    (CacheTree.runOps S KCfg.proposed fuel true a ops).1.outs = (CacheTree.runOps S KCfg.proposed fuel false b ops).1.outs := by
  obtain ⟨h1, h2⟩ := CacheTree.runOps_sim S fuel ops a b h
  exact ⟨h1, h2.outs⟩

theorem C05_tree_transparent : TreeTransparent KCfg.proposed := by
  intro S fuel s0 ops hc
  exact C05_tree_transparent_from S fuel ops s0 s0 ⟨rfl, rfl, rfl, by simp [hc]⟩

/-! ### witnesses: workflow → macro → two function nodes; `natSem` tells classes and arguments apart -/
def natSem : Sem Nat := { F := fun c args => 1000 * c + args.foldl (· + ·) 0 + 1, atom := id, nd := 0 }

/-- child 1 is a macro (input 0 holds 7, exposes grandchild 3) with grandchildren 2 (linked to the macro
input) and 3 (fed by 2, free input 5); child 4 is fed by the macro -/
def kidsA : List (Nat × T) :=
  [(1, .comp 3 [.val 7] [(2, .leaf 10 [.link 0]), (3, .leaf 11 [.conn 2, .val 5])]), (4, .leaf 12 [.conn 1])]
/-- grandchild 3 replaced by a node of another class (it is the macro's last child, so nothing moves) -/
def kidsB : List (Nat × T) :=
  [(1, .comp 3 [.val 7] [(2, .leaf 10 [.link 0]), (3, .leaf 19 [.conn 2, .val 5])]), (4, .leaf 12 [.conn 1])]
/-- the free input of grandchild 3 set to 6 -/
def kidsC : List (Nat × T) :=
  [(1, .comp 3 [.val 7] [(2, .leaf 10 [.link 0]), (3, .leaf 11 [.conn 2, .val 6])]), (4, .leaf 12 [.conn 1])]

/-- the key before 9c2c165 does not see the class of a grandchild: same key, different result -/
theorem C05_key_current_witness :
    key KCfg.current kidsA = key KCfg.current kidsB ∧
    evalAll natSem 5 [] kidsA ≠ evalAll natSem 5 [] kidsB := by
  refine ⟨rfl, by decide⟩

/-- … so the outer composite answered from its cache after the replacement (replayed on /repo before 9c2c165) -/
theorem C05_tree_current_not_transparent : ¬ TreeTransparent KCfg.current := by
  intro h
  have := (h natSem 5 { vals := [], kids := kidsA, outs := [], cache := none }
    [.run, .edit kidsB, .run] rfl).1
  revert this
  decide

/-- a key that does not descend into composite children (seeded change C05-2) does not see a
grandchild's input: same key, different result -/
theorem C05_key_shallow_witness :
    key KCfg.shallow kidsA = key KCfg.shallow kidsC ∧
    evalAll natSem 5 [] kidsA ≠ evalAll natSem 5 [] kidsC := by
  refine ⟨rfl, by decide⟩

/-- with the proposed key both edits are seen -/
example : K.beq (key KCfg.proposed kidsA) (key KCfg.proposed kidsB) = false ∧
    K.beq (key KCfg.proposed kidsA) (key KCfg.proposed kidsC) = false ∧
    K.beq (key KCfg.current kidsA) (key KCfg.current kidsC) = false := by decide
/-- non-vacuity: a history with a hit, edits at depth 2 (a miss each) and a structural edit -/
example : (CacheTree.runOps natSem KCfg.proposed 5 true { vals := [], kids := kidsA, outs := [], cache := none }
    [.run, .run, .edit kidsC, .run, .edit kidsA, .run, .structural kidsB, .run]).2
    = [some [(1, 21014), (4, 33015)], some [(1, 21014), (4, 33015)], none, some [(1, 21015), (4, 33016)], none,
       some [(1, 21014), (4, 33015)], none, some [(1, 29014), (4, 41015)]] := by decide
example : ClsAgree kidsA kidsC ∧ key KCfg.current kidsA = key KCfg.current kidsA := ⟨by simp [ClsAgree, kidsA, kidsC], rfl⟩

/-! an input channel with several connections: the key keeps their priority order (`fetch` takes the first) -/
/-- child 3 takes its input from 1 and 2, 1 first -/
def kidsP1 : List (Nat × T) := [(1, .leaf 10 [.val 7]), (2, .leaf 11 [.val 7]), (3, .leaf 12 [.multi [1, 2]])]
/-- … after disconnecting and re-connecting 2: the same two connections, 2 first -/
def kidsP2 : List (Nat × T) := [(1, .leaf 10 [.val 7]), (2, .leaf 11 [.val 7]), (3, .leaf 12 [.multi [2, 1]])]
def insSorted (x : Nat) : List Nat → List Nat
  | [] => [x]
  | y :: ys => if x ≤ y then x :: y :: ys else y :: insSorted x ys
/-- what a key that records the connections of a channel as a SET sees (seeded change C05-7) -/
def forgetOrder : List (Nat × T) → List (Nat × T) :=
  List.map (fun p => match p with
    | (l, .leaf c ins) => (l, T.leaf c (ins.map (fun s => match s with
        | .multi sibs => Src.multi (sibs.foldr insSorted [])
        | s => s)))
    | p => p)

/-- the key of /repo tells the two apart, an order-blind key does not, and the results differ -/
theorem C05_key_priority_witness :
    K.beq (key KCfg.now kidsP1) (key KCfg.now kidsP2) = false ∧
    key KCfg.now (forgetOrder kidsP1) = key KCfg.now (forgetOrder kidsP2) ∧
    evalAll natSem 5 [] kidsP1 ≠ evalAll natSem 5 [] kidsP2 := by
  refine ⟨by decide, by rfl, by decide⟩

/-- the key as /repo has it now, at history level -/
theorem C05_tree_transparent_now : TreeTransparent KCfg.now := C05_tree_transparent

end Tree

/-! ## the whole tree of caches (`PwVerif.CacheForest`): every function node and every composite with its own entry -/
section Forest
open PwVerif.CacheTree (KCfg Sem T Src)
open PwVerif.CacheForest

/-- one child run on demand, all caches below it consulted: the structure stays, every entry stays valid, the value
returned and stored is what the cache-free twin computes (for every fuel of either), no other stored output is spoilt -/
theorem C05_forest_child_run {ρ : Type} [DecidableEq ρ] (S : Sem ρ) (fuel : Nat) (vals : List ρ) :
    RkSpec S vals (fun k s => runKid S KCfg.now fuel vals k s) :=
  runKid_spec S fuel vals

/-- TRANSPARENCY FOR THE WHOLE TREE OF CACHES: from any valid state, along every history of edits that fabricate no
entry (every edit of the harness, at any depth: see below) and runs — outer misses over inner hits included — after
every run every output agrees with the cache-free evaluation of the graph as it then is -/
theorem C05_forest_transparent {ρ : Type} [DecidableEq ρ] (S : Sem ρ) (fuel : Nat) (ops : List (PwVerif.CacheForest.Op ρ))
    (r r' : Root ρ) (seen : List (Root ρ)) (hv : ValidRoot S r) (hok : ∀ o ∈ ops, OpOk S o)
    (h : runOpsC S KCfg.now fuel r ops = some (r', seen)) :
    ValidRoot S r' ∧ ∀ x ∈ seen, AgreeRoot S x :=
  runOpsC_spec S fuel ops r r' seen hv hok h

/-- an edit of a body at ANY depth below the root's children (set/rewire an input, add, remove, replace a child,
with or without dropping that composite's entry) is admissible, provided it fabricates no entry there -/
theorem C05_forest_edit_at_depth {ρ : Type} (S : Sem ρ) (clear : Bool) (g : Kids ρ → Kids ρ)
    (hg : ∀ kids, ValidKids S kids → ValidKids S (g kids)) (l : Nat) (p : List Nat) :
    Conservative S (atPathC clear g (l :: p)) :=
  conservative_atPathC S clear g hg l p

/-- … which the harness's edits do not: assignment / rewiring, a fresh child, a removal, a replacement -/
theorem C05_forest_edits_harmless {ρ : Type} (S : Sem ρ) (kids : Kids ρ) (hv : ValidKids S kids) (l i cls : Nat)
    (s : Src) (ins : List Src) :
    ValidKids S (mapKidC l (TC.setIn i s) kids) ∧ ValidKids S (kids ++ [(l, freshLeaf S cls ins)]) ∧
    ValidKids S (removeKidC l kids) ∧ ValidKids S (removeKidC l kids ++ [(l, freshLeaf S cls ins)]) :=
  ⟨harmless_setIn S l i s kids hv, harmless_add S l cls ins kids hv, valid_removeKidC S l kids hv,
   harmless_replace S l cls ins kids hv⟩

theorem C05_forest_setin_root {ρ : Type} (S : Sem ρ) (l i : Nat) (s : Src) : Conservative S (mapKidC l (TC.setIn i s)) :=
  conservative_setIn S l i s

/-! non-vacuity: workflow → macro → two function nodes, nothing cached yet (a valid state); run, run (root hit),
set the free input of grandchild 3 (root miss, macro miss, grandchild 2 answers from its own cache), run -/
def forestA : Root Nat :=
  { kids := [(1, .comp 3 [.val 7] [(2, freshLeaf natSem 10 [.link 0]), (3, freshLeaf natSem 11 [.conn 2, .val 5])] 0 none),
             (4, freshLeaf natSem 12 [.conn 1])], cache := none }
example : ValidRoot natSem forestA := by
  refine ⟨?_, by simp [forestA]⟩
  simp [forestA, ValidKids, ValidPair, ValidT, freshLeaf]
def forestOps : List (PwVerif.CacheForest.Op Nat) :=
  [.run, .run, .edit (atPathC false (mapKidC 3 (TC.setIn 1 (.val 6))) [1]), .run]
example : (runOpsC natSem KCfg.now 8 forestA forestOps).map (fun p => p.2.map Root.outs)
    = some [[(1, 21014), (4, 33015)], [(1, 21014), (4, 33015)], [(1, 21015), (4, 33016)]] := by decide
example : ∀ o ∈ forestOps, OpOk natSem o := by
  intro o ho
  simp only [forestOps, List.mem_cons, List.mem_nil_iff, or_false] at ho
  rcases ho with rfl | rfl | rfl | rfl
  · trivial
  · trivial
  · exact conservative_atPathC natSem false _ (fun k hk => harmless_setIn natSem 3 1 (.val 6) k hk) 1 []
  · trivial

/-- `replace_child` by an instance that has a run history (its own remembered input, any output): the replacement
takes over the old node's channels and its input cache is dropped — admissible like a fresh node -/
theorem C05_forest_replace_used_harmless {ρ : Type} (S : Sem ρ) (l cls : Nat) (ins : List Src) (o : ρ) (kids : Kids ρ)
    (hv : ValidKids S kids) : ValidKids S (removeKidC l kids ++ [(l, .leaf cls ins o none)]) :=
  harmless_replace_used S l cls ins o kids hv

/-- … and dropping it is necessary (seeded change C05-5): a replacement of class 19 that was run stand-alone before
with the input 7 it now takes over, and keeps that memory next to the OLD node's output, answers from its cache with
the old node's result -/
theorem C05_replace_keeps_cache_witness :
    let r0 : Root Nat := { kids := [(1, freshLeaf natSem 10 [.val 7])], cache := none }
    let swap : Kids Nat → Kids Nat := fun ks => removeKidC 1 ks ++ [(1, .leaf 19 [.val 7] (outAt natSem 1 ks) (some [7]))]
    (runOpsC natSem KCfg.now 4 r0 [.run, .structural swap, .run]).map (fun p => p.2.map Root.outs)
      = some [[(1, 10008)], [(1, 10008)]] ∧
    evalP natSem 4 [] [(1, .leaf 19 [.val 7])] 1 = some 19008 := by
  decide

/-- a child run BY HAND between two runs of the graph: with the repair (that run drops the record of every composite
above it that is not itself running) it is an admissible step of a history — `C05_forest_transparent` covers it -/
theorem C05_forest_hand_run_ok {ρ : Type} (S : Sem ρ) (l : Nat) : OpOk S (PwVerif.CacheForest.Op.handRun l true) := rfl

/-- /repo as it is (the record stays): run; set the child's input to 8 and run the child by hand; set it back to 7;
run — the root answers from its record, but the child's output is the one for 8 (replayed on /repo, KF-C05-10) -/
theorem C05_hand_run_witness :
    let r0 : Root Nat := { kids := [(1, freshLeaf natSem 10 [.val 7])], cache := none }
    let ops := fun (clear : Bool) => ([.run, .edit (mapKidC 1 (TC.setIn 0 (.val 8))), .handRun 1 clear,
      .edit (mapKidC 1 (TC.setIn 0 (.val 7))), .run] : List (PwVerif.CacheForest.Op Nat))
    (runOpsC natSem KCfg.now 4 r0 (ops false)).map (fun p => p.2.map Root.outs) = some [[(1, 10008)], [(1, 10009)]] ∧
    (runOpsC natSem KCfg.now 4 r0 (ops true)).map (fun p => p.2.map Root.outs) = some [[(1, 10008)], [(1, 10008)]] ∧
    evalP natSem 4 [] [(1, .leaf 10 [.val 7])] 1 = some 10008 := by
  decide

/-- … at ANY depth, when every record on the way down is dropped (/repo, 7aeb496) -/
theorem C05_forest_hand_run_deep_ok {ρ : Type} (S : Sem ρ) (path : List Nat) (l : Nat) :
    OpOk S (PwVerif.CacheForest.Op.handRunAt path l true) := rfl

/-- dropping only the record of the composite that owns the child (seeded change C05-13): workflow ⊃ macro 1 ⊃ node 3;
run; node 3's input := 8, node 3 run by hand, input back to 7; run — the workflow answers from its record with the macro's
output for 8 -/
theorem C05_hand_run_shallow_witness :
    let r0 : Root Nat := { kids := [(1, .comp 3 [] [(3, freshLeaf natSem 10 [.val 7])] 0 none)], cache := none }
    let ops := fun (deep : Bool) => ([.run, .edit (atPathC false (mapKidC 3 (TC.setIn 0 (.val 8))) [1]), .handRunAt [1] 3 deep,
      .edit (atPathC false (mapKidC 3 (TC.setIn 0 (.val 7))) [1]), .run] : List (PwVerif.CacheForest.Op Nat))
    (runOpsC natSem KCfg.now 5 r0 (ops false)).map (fun p => p.2.map Root.outs) = some [[(1, 10008)], [(1, 10009)]] ∧
    (runOpsC natSem KCfg.now 5 r0 (ops true)).map (fun p => p.2.map Root.outs) = some [[(1, 10008)], [(1, 10008)]] := by
  decide

end Forest

/-! ## a composite hit and the values held by connected inputs (`PwVerif.CacheFetch`, finding KF-C05-7) -/
section Fetch
open PwVerif.CacheFetch

/-- with the repair (a composite that answers from its cache makes its children fetch): cached composite and cache-free
twin stay in the SAME state, channel values included, for every history of assignments to any child input (connected or
not), disconnections and runs -/
theorem C05_fetch_transparent {ρ : Type} [DecidableEq ρ] (F : Nat → List ρ → ρ) (nd : ρ) (body : Body ρ)
    (ops : List (PwVerif.CacheFetch.Op ρ)) :
    (PwVerif.CacheFetch.runOps F nd true true { body := body, cache := none } ops).2 =
      (PwVerif.CacheFetch.runOps F nd true false { body := body, cache := none } ops).2 ∧
    (PwVerif.CacheFetch.runOps F nd true true { body := body, cache := none } ops).1.body =
      (PwVerif.CacheFetch.runOps F nd true false { body := body, cache := none } ops).1.body := by
  obtain ⟨h1, h2⟩ := PwVerif.CacheFetch.runOps_sim F nd ops { body := body, cache := none } { body := body, cache := none }
    ⟨rfl, by simp⟩
  exact ⟨h1, h2.body⟩

def fetchF : Nat → List Nat → Nat := fun c args => 1000 * c + args.foldl (· + ·) 0 + 1
/-- n0, n1(a = n0), n2(a = n1, b = n0) -/
def fetchBody : Body Nat :=
  [{ label := 0, cls := 1, ins := [.free 2], out := 0 }, { label := 1, cls := 2, ins := [.conn 0 0], out := 0 },
   { label := 2, cls := 3, ins := [.conn 1 0, .conn 0 0], out := 0 }]
def fetchOps : List (PwVerif.CacheFetch.Op Nat) := [.run, .assign 1 0 9, .run, .disconnect 0, .run]

/-- /repo as it is (no re-fetch on a hit): run; assign 9 to the CONNECTED input of n1; run (hit: the 9 stays); remove n0;
run ⇒ the cached composite computes n1 from 9, the twin from n0's last output (replayed on /repo, KF-C05-7) -/
theorem C05_fetch_current_witness :
    (PwVerif.CacheFetch.runOps fetchF 0 false true { body := fetchBody, cache := none } fetchOps).2 ≠
    (PwVerif.CacheFetch.runOps fetchF 0 false false { body := fetchBody, cache := none } fetchOps).2 := by
  decide

example : (PwVerif.CacheFetch.runOps fetchF 0 true true { body := fetchBody, cache := none } fetchOps).2
    = (PwVerif.CacheFetch.runOps fetchF 0 true false { body := fetchBody, cache := none } fetchOps).2 := by decide

end Fetch

/-! ## … over the nested tree (`PwVerif.CacheFetchTree`): the re-fetch must reach every level -/
section FetchTree
open PwVerif.CacheFetchTree

/-- with a DEEP re-fetch (what /repo does): the cached graph and its cache-free twin stay in the SAME state at EVERY
depth, channel values included, for every history of assignments to any input channel at any depth (connected,
linked or free), disconnections at any depth, and runs -/
theorem C05_fetch_tree_transparent {ρ : Type} [DecidableEq ρ] (F : Nat → List ρ → ρ) (nd : ρ) (body : List (Nd ρ))
    (ops : List (PwVerif.CacheFetchTree.Op ρ)) :
    (PwVerif.CacheFetchTree.runOps F nd true true true { body := body, cache := none } ops).2 =
      (PwVerif.CacheFetchTree.runOps F nd true true false { body := body, cache := none } ops).2 ∧
    (PwVerif.CacheFetchTree.runOps F nd true true true { body := body, cache := none } ops).1.body =
      (PwVerif.CacheFetchTree.runOps F nd true true false { body := body, cache := none } ops).1.body := by
  obtain ⟨h1, h2⟩ := PwVerif.CacheFetchTree.runOps_sim F nd ops { body := body, cache := none }
    { body := body, cache := none } ⟨rfl, by simp⟩
  exact ⟨h1, h2.body⟩

/-- workflow ⊃ macro 1 (input 7, exposes 12) with chained children 11 (linked to the macro input) → 12; child 2 fed by
the macro -/
def nestBody : List (Nd Nat) :=
  [.comp 1 12 [.free 7] [.leaf 11 1 [.link 0 0] 0, .leaf 12 2 [.conn 11 0] 0] 0, .leaf 2 3 [.conn 1 0] 0]
/-- run; hand-assign 99 to the CONNECTED input of grandchild 12; run (outer hit); cut that connection; run -/
def nestOps : List (PwVerif.CacheFetchTree.Op Nat) := [.run, .assign [1] 12 0 99, .run, .disconnect [1] 12 0, .run]

/-- a SHALLOW re-fetch (direct children only — seeded change C05-6) lets the hand-assigned value of a grandchild
survive the outer hit: after the disconnection the cached graph computes from 99, the twin from 11's output -/
theorem C05_fetch_shallow_witness :
    (PwVerif.CacheFetchTree.runOps fetchF 0 true false true { body := nestBody, cache := none } nestOps).2 ≠
    (PwVerif.CacheFetchTree.runOps fetchF 0 true false false { body := nestBody, cache := none } nestOps).2 := by
  decide

example : (PwVerif.CacheFetchTree.runOps fetchF 0 true true true { body := nestBody, cache := none } nestOps).2
    = (PwVerif.CacheFetchTree.runOps fetchF 0 true true false { body := nestBody, cache := none } nestOps).2 := by decide

end FetchTree

/-! ## what "the same input" means (`PwVerif.CacheCmp`): arbitrary values, the hit test as a parameter -/
section Cmp
open PwVerif.CacheCmp

/-- ANY hit test that only ever equates inputs the function cannot tell apart is transparent: cached node and
cache-free twin return the same for every history of assignments and runs -/
theorem C05_cmp_transparent {V O : Type} (same : V → V → Bool) (F : V → O) (hs : ∀ v c, same v c = true → F v = F c)
    (ops : List (PwVerif.CacheCmp.Op V)) :
    (PwVerif.CacheCmp.runOps same F true St.init ops).2 = (PwVerif.CacheCmp.runOps same F false St.init ops).2 :=
  (PwVerif.CacheCmp.runOps_sim same F hs ops St.init St.init ⟨rfl, rfl, by simp [St.init]⟩).1

/-- a value as the hit test sees it: type tag, shape, content (all entries equal, for the witnesses) -/
structure PyVal where
  ty : Nat          -- 0 int, 1 float, 2 bool, 3 ndarray
  shape : List Nat
  elem : Nat
  deriving DecidableEq, Repr

def PyVal.size (v : PyVal) : Nat := v.shape.foldl (· * ·) 1
/-- Python's `==` followed by `bool()`: content equal; for arrays with more than one element the truth value is
ambiguous — an exception, read as a miss -/
def pyEq (a b : PyVal) : Bool := a.elem == b.elem && (a.size ≤ 1 && b.size ≤ 1)
/-- seeded change C05-9: … falling back to `.all()` of the broadcast comparison -/
def pyEqAll (a b : PyVal) : Bool := a.elem == b.elem
/-- proposed: type, shape and `==` -/
def pyEqTyped (a b : PyVal) : Bool := a.ty == b.ty && a.shape == b.shape && a.elem == b.elem
/-- a function that looks at type and shape -/
def describe (v : PyVal) : Nat × List Nat × Nat := (v.ty, v.shape, v.elem * v.size)

/-- /repo as it is: `1` then `1.0` — `==` says equal, the function tells them apart (finding KF-C05-9) -/
theorem C05_cmp_current_witness :
    (PwVerif.CacheCmp.runOps pyEq describe true St.init [.set ⟨0, [], 1⟩, .run, .set ⟨1, [], 1⟩, .run]).2 ≠
    (PwVerif.CacheCmp.runOps pyEq describe false St.init [.set ⟨0, [], 1⟩, .run, .set ⟨1, [], 1⟩, .run]).2 := by decide

/-- seeded change C05-9: `ones(3)` then `ones((2,3))` broadcast to all-equal -/
theorem C05_cmp_broadcast_witness :
    (PwVerif.CacheCmp.runOps pyEqAll describe true St.init [.set ⟨3, [3], 1⟩, .run, .set ⟨3, [2, 3], 1⟩, .run]).2 ≠
    (PwVerif.CacheCmp.runOps pyEqAll describe false St.init [.set ⟨3, [3], 1⟩, .run, .set ⟨3, [2, 3], 1⟩, .run]).2 ∧
    (PwVerif.CacheCmp.runOps pyEq describe true St.init [.set ⟨3, [3], 1⟩, .run, .set ⟨3, [2, 3], 1⟩, .run]).2 =
    (PwVerif.CacheCmp.runOps pyEq describe false St.init [.set ⟨3, [3], 1⟩, .run, .set ⟨3, [2, 3], 1⟩, .run]).2 := by
  refine ⟨by decide, by decide⟩

/-- the proposed test satisfies the hypothesis of `C05_cmp_transparent` for every function of (type, shape, content) -/
theorem C05_cmp_typed_sound {O : Type} (G : Nat × List Nat × Nat → O) (v c : PyVal) (h : pyEqTyped v c = true) :
    G (v.ty, v.shape, v.elem) = G (c.ty, c.shape, c.elem) := by
  simp only [pyEqTyped, Bool.and_eq_true, beq_iff_eq] at h
  rw [h.1.1, h.1.2, h.2]

end Cmp

/-! ## a result picked up from its serialized file (`PwVerif.CacheSer`) -/
section Ser
open PwVerif.CacheSer

/-- /repo (an admitted run drops the input record): for every history of assignments, local runs, serialized
submissions, jobs done with the future withheld, pick-ups from the file and late deliveries, cached node and twin
return the same and stay in the same visible state (no submission answered from the cache) -/
theorem C05_ser_transparent (ops : List PwVerif.CacheSer.Op) (hok : noSubmitHit true PwVerif.CacheSer.N.init ops = true) :
    (PwVerif.CacheSer.runOps true true PwVerif.CacheSer.N.init ops).2 =
      (PwVerif.CacheSer.runOps true false PwVerif.CacheSer.N.init ops).2 ∧
    (PwVerif.CacheSer.runOps true true PwVerif.CacheSer.N.init ops).1.visible =
      (PwVerif.CacheSer.runOps true false PwVerif.CacheSer.N.init ops).1.visible := by
  obtain ⟨h1, h2⟩ := PwVerif.CacheSer.runOps_sim ops _ _
    ⟨rfl, rfl, rfl, rfl, rfl, rfl, by simp [PwVerif.CacheSer.N.init], by simp [PwVerif.CacheSer.N.init]⟩ hok
  exact ⟨h1, by simp [PwVerif.CacheSer.N.visible, h2.inp, h2.out, h2.running]⟩

/-- the record of x=1 kept through the admission of x=2 (seeded change C05-12): run 1; submit 2; the job writes its file;
run() picks it up (outputs now belong to 2, the record still says 1); set 1; run ⇒ answered with 2's outputs -/
def serOps : List PwVerif.CacheSer.Op := [.set 1, .run, .set 2, .ssubmit, .work, .run, .set 1, .run]
theorem C05_ser_stale_record_witness :
    (PwVerif.CacheSer.runOps false true PwVerif.CacheSer.N.init serOps).2 ≠
      (PwVerif.CacheSer.runOps false false PwVerif.CacheSer.N.init serOps).2 ∧
    (PwVerif.CacheSer.runOps true true PwVerif.CacheSer.N.init serOps).2 =
      (PwVerif.CacheSer.runOps true false PwVerif.CacheSer.N.init serOps).2 ∧
    noSubmitHit true PwVerif.CacheSer.N.init serOps = true := by
  refine ⟨by decide, by decide, by decide⟩

end Ser

/-! ## a for-loop node: the body is rebuilt on every miss (`PwVerif.CacheFor`) -/
section ForLoop
open PwVerif.CacheFor
open PwVerif.CacheTree (T Src KCfg Sem)

/-- whatever is done to the body by hand between runs, and however the body is built from the inputs: the cached loop and
its cache-free twin return the same, for every history of input assignments, body edits and runs -/
theorem C05_for_transparent {ρ : Type} [DecidableEq ρ] (S : Sem ρ) (fuel : Nat) (build : List ρ → List (Nat × T))
    (vals : List ρ) (kids : List (Nat × T)) (outs : List (Nat × ρ)) (ops : List (PwVerif.CacheFor.Op ρ)) :
    (PwVerif.CacheFor.runOps S KCfg.now fuel build true true { vals := vals, kids := kids, outs := outs, cache := none } ops).2 =
    (PwVerif.CacheFor.runOps S KCfg.now fuel build true false { vals := vals, kids := kids, outs := outs, cache := none } ops).2 :=
  PwVerif.CacheFor.runOps_sim S fuel build ops _ _ ⟨rfl, by simp⟩

/-- one body node per looped item, with a broadcast "factor" 2 -/
def forBuild : List Nat → List (Nat × T) := fun vs => (List.range vs.length).map (fun i => (i, T.leaf 10 [.link i, .val 2]))
/-- run; by hand: factor of body node 1 := 10; run with the same input -/
def forOps : List (PwVerif.CacheFor.Op Nat) := [.run, .edit [(0, .leaf 10 [.link 0, .val 2]), (1, .leaf 10 [.link 1, .val 10])], .run]

/-- a miss that does not rebuild (seeded change C05-10) keeps the hand edit; the twin rebuilds and loses it -/
theorem C05_for_no_rebuild_witness :
    (PwVerif.CacheFor.runOps natSem KCfg.now 4 forBuild false true { vals := [5, 6], kids := [], outs := [], cache := none } forOps).2 ≠
    (PwVerif.CacheFor.runOps natSem KCfg.now 4 forBuild false false { vals := [5, 6], kids := [], outs := [], cache := none } forOps).2 ∧
    (PwVerif.CacheFor.runOps natSem KCfg.now 4 forBuild true true { vals := [5, 6], kids := [], outs := [], cache := none } forOps).2 =
    (PwVerif.CacheFor.runOps natSem KCfg.now 4 forBuild true false { vals := [5, 6], kids := [], outs := [], cache := none } forOps).2 := by
  refine ⟨by decide, by decide⟩

end ForLoop

/-! ## the readiness gate on a hit, and the `use_cache` switch flipped between runs (`PwVerif.CacheGate`) -/
section Gate
open PwVerif.CacheGate

/-- /repo: for every history of assignments (NOT_DATA and hint-violating values included), runs, `execute`s, hints switched
lax / strict and `use_cache` switched off / on, the node and its cache-free twin return the same (results, ReadinessErrors)
and hold the same outputs -/
theorem C05_gate_transparent (ops : List PwVerif.CacheGate.Op) :
    (PwVerif.CacheGate.runOps true true false (N.init true) ops).2 = (PwVerif.CacheGate.runOps true true true (N.init false) ops).2 ∧
    (PwVerif.CacheGate.runOps true true false (N.init true) ops).1.out = (PwVerif.CacheGate.runOps true true true (N.init false) ops).1.out := by
  obtain ⟨h1, h2⟩ := PwVerif.CacheGate.runOps_sim ops (N.init true) (N.init false) ⟨rfl, rfl, rfl, rfl, by simp [PwVerif.CacheGate.N.init]⟩
  exact ⟨h1, h2.out⟩

/-- a hit that skips the input-readiness gate (seeded change C05-14): `execute` with NOT_DATA, then `run`; a value stored
while hints were lax, hints strict again, `run` — returned instead of refused -/
theorem C05_gate_skipped_witness :
    (PwVerif.CacheGate.runOps false true false (N.init true) [.execute, .run]).2 ≠
      (PwVerif.CacheGate.runOps false true true (N.init false) [.execute, .run]).2 ∧
    (PwVerif.CacheGate.runOps false true false (N.init true) [.laxOn, .set 100, .run, .laxOff, .run]).2 ≠
      (PwVerif.CacheGate.runOps false true true (N.init false) [.laxOn, .set 100, .run, .laxOff, .run]).2 := by
  refine ⟨by decide, by decide⟩

/-- a record that is only dropped while `use_cache` is on (seeded change C05-15): run 1; switch off; run 2; switch on; run 1 -/
theorem C05_toggle_stale_witness :
    (PwVerif.CacheGate.runOps true false false (N.init true) [.set 1, .run, .cacheOff, .set 2, .run, .cacheOn, .set 1, .run]).2 ≠
    (PwVerif.CacheGate.runOps true false true (N.init false) [.set 1, .run, .cacheOff, .set 2, .run, .cacheOn, .set 1, .run]).2 := by
  decide

end Gate
end PwVerif.C05

#print axioms PwVerif.C05.C05_transparent
#print axioms PwVerif.C05.C05_transparent_commit
#print axioms PwVerif.C05.C05_transparent_proposed
#print axioms PwVerif.C05.C05_transparent_kbd_only
#print axioms PwVerif.C05.C05_fatal_fails
#print axioms PwVerif.C05.C05_interrupted_job_fails
#print axioms PwVerif.C05.C05_transparent_from
#print axioms PwVerif.C05.C05_submit_hit_settles
#print axioms PwVerif.C05.C05_current_partial
#print axioms PwVerif.C05.C05_cancel_drops_cache
#print axioms PwVerif.C05.C05_current_witness_lost
#print axioms PwVerif.C05.C05_current_witness_late
#print axioms PwVerif.C05.C05_current_witness_interrupted
#print axioms PwVerif.C05.C05_current_witness_fatal
#print axioms PwVerif.C05.C05_current_not_transparent
#print axioms PwVerif.C05.C05_pinned_witness_failed
#print axioms PwVerif.C05.C05_pinned_witness_refused
#print axioms PwVerif.C05.C05_pinned_witness_inflight
#print axioms PwVerif.C05.C05_pinned_not_transparent
#print axioms PwVerif.C05.C05_key_sound
#print axioms PwVerif.C05.C05_key_sound_current_partial
#print axioms PwVerif.C05.C05_tree_transparent
#print axioms PwVerif.C05.C05_tree_transparent_from
#print axioms PwVerif.C05.C05_key_current_witness
#print axioms PwVerif.C05.C05_tree_current_not_transparent
#print axioms PwVerif.C05.C05_key_shallow_witness
#print axioms PwVerif.C05.C05_tree_transparent_now
#print axioms PwVerif.C05.C05_forest_child_run
#print axioms PwVerif.C05.C05_forest_transparent
#print axioms PwVerif.C05.C05_forest_edit_at_depth
#print axioms PwVerif.C05.C05_forest_edits_harmless
#print axioms PwVerif.C05.C05_forest_setin_root
#print axioms PwVerif.C05.C05_fetch_transparent
#print axioms PwVerif.C05.C05_fetch_current_witness
#print axioms PwVerif.C05.C05_forest_replace_used_harmless
#print axioms PwVerif.C05.C05_replace_keeps_cache_witness
#print axioms PwVerif.C05.C05_fetch_tree_transparent
#print axioms PwVerif.C05.C05_fetch_shallow_witness
#print axioms PwVerif.C05.C05_key_priority_witness
#print axioms PwVerif.C05.C05_cmp_transparent
#print axioms PwVerif.C05.C05_cmp_current_witness
#print axioms PwVerif.C05.C05_cmp_broadcast_witness
#print axioms PwVerif.C05.C05_cmp_typed_sound
#print axioms PwVerif.C05.C05_forest_hand_run_ok
#print axioms PwVerif.C05.C05_hand_run_witness
#print axioms PwVerif.C05.C05_ser_transparent
#print axioms PwVerif.C05.C05_ser_stale_record_witness
#print axioms PwVerif.C05.C05_for_transparent
#print axioms PwVerif.C05.C05_for_no_rebuild_witness
#print axioms PwVerif.C05.C05_forest_hand_run_deep_ok
#print axioms PwVerif.C05.C05_hand_run_shallow_witness
#print axioms PwVerif.C05.C05_gate_transparent
#print axioms PwVerif.C05.C05_gate_skipped_witness
#print axioms PwVerif.C05.C05_toggle_stale_witness
