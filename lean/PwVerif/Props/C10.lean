import PwVerif.Proofs.Remote
import PwVerif.Proofs.RemoteRoutes
import PwVerif.Proofs.ExecHandles
/-!
# C10 — executors are transparent and a node's inputs are frozen while it is out

`run cfg fails (.honour inCopy) ins n` is the implementation: every node of the graph `n` (any nesting depth)
runs where its `executor` attribute says — in place, on a shared-memory executor, or as a serialised copy that
is merged back (`mergeBack`).  `eval fails ins n` is the specification: the same graph run in place.
`Cfg.pinned` is /repo as it stands, `Cfg.repaired` is /repo with `fixes/C10-keep-local-io.patch`.
-/
namespace PwVerif.C10
open PwVerif.Remote

/-! ## (a) transparency -/

/-- The statement of the property, for a configuration of the merge: whenever the local run succeeds, the run
that honours every executor setting yields the same output values at every node of the graph. -/
def TransparentStatement (cfg : Cfg) : Prop :=
  ∀ (fails : Nat → Bool) (n : Node) (inCopy : Bool) (ins : List Val),
    allOk (eval fails ins n) = true →
    outsOf (run cfg fails (.honour inCopy) ins [] n) = outsOf (eval fails ins n)

/-- … and the graph keeps its shape: parent, detached path, executor settings, identity and ownership of the IO
channels, every connection end (in list position), every value link, at every depth. -/
def KeepsStatement (cfg : Cfg) : Prop :=
  ∀ (fails : Nat → Bool) (n : Node) (inCopy : Bool) (ins : List Val),
    shapeOf (run cfg fails (.honour inCopy) ins [] n) = shapeOf n

/-- Repaired merge: for every graph, every placement of executors at any depth (live or by instructions,
shared memory or by value), also inside a copy: the result is *the same graph state* as the local run —
outputs, inputs, child outputs, statuses, wiring. -/
theorem C10_transparent (fails : Nat → Bool) (n : Node) (mode : Mode) (ins : List Val)
    (h : allOk (eval fails ins n) = true) :
    run Cfg.repaired fails mode ins [] n = eval fails ins n :=
  run_eq_ignore Cfg.repaired fails rfl rfl rfl rfl n mode ins [] h

example : allOk (eval Ex.nf [] (Ex.wfA .macro (.inst true))) = true := by decide

theorem C10_same_outputs : TransparentStatement Cfg.repaired := by
  intro fails n ic ins h
  rw [C10_transparent fails n _ ins h]

/-- Repaired merge: the shape of the graph is untouched, whether or not anything failed. -/
theorem C10_keeps : KeepsStatement Cfg.repaired := by
  intro fails n ic ins
  exact shapeOf_run Cfg.repaired fails rfl rfl rfl rfl n _ ins []

/-- Any merge: nothing is left running. -/
theorem C10_nothing_running (cfg : Cfg) (fails : Nat → Bool) (n : Node) (mode : Mode) (ins : List Val)
    (mask : List Bool) (h : idle n = true) : idle (run cfg fails mode ins mask n) = true :=
  idle_run cfg fails n mode ins mask h

example : idle (Ex.wfA .macro (.inst true)) = true := by decide

/-- Pinned code (any merge): as long as no *composite* sits on a by-value executor — leaves on any executor,
composites on shared-memory executors, at any depth — the run is the local run, and the shape is kept. -/
theorem C10_transparent_partial (cfg : Cfg) (fails : Nat → Bool) (n : Node) (inCopy : Bool) (ins : List Val)
    (h : noByValueComp n = true) :
    run cfg fails (.honour inCopy) ins [] n = eval fails ins n ∧
    shapeOf (run cfg fails (.honour inCopy) ins [] n) = shapeOf n := by
  have h1 : run cfg fails (.honour inCopy) ins [] n = eval fails ins n :=
    run_noMerge cfg Cfg.repaired fails n _ ins [] (by simp [noMerge, h])
  exact ⟨h1, by rw [h1]; exact shapeOf_run Cfg.repaired fails rfl rfl rfl rfl n _ ins []⟩

example : noByValueComp (Ex.wfA .macro (.inst false)) = true := by decide

/-- Pinned merge, outputs: an outer macro whose output is the output of an inner macro run by value ends
with NOT_DATA although the local run delivers the value. -/
theorem C10_pinned_outputs_witness : ¬ TransparentStatement Cfg.pinned := by
  intro h
  have := h Ex.nf (Ex.mo (.inst true)) false [Ex.c 1] (by decide)
  revert this
  decide

/-- Pinned merge, shape: a macro child of a workflow run by value comes back with its parent *and* a detached
path, with channels owned by the discarded copy. -/
theorem C10_pinned_keeps_witness : ¬ KeepsStatement Cfg.pinned := by
  intro h
  have := h Ex.nf (Ex.wfA .macro (.inst true)) false []
  have := congrArg ShapeT.kidTops this
  revert this
  decide

/-- … precisely: parent and detached path both set, channels not owned by the node. -/
theorem C10_pinned_detached_owner_witness :
    ((run Cfg.pinned Ex.nf (.honour false) [] [] (Ex.wfA .macro (.inst true))).kids.map
      fun n => (n.own.hasParent, n.own.detached, n.own.ioMine)) =
      [(true, false, true), (true, true, false), (true, false, true)] := by decide

/-- Pinned merge, for-node: the neighbours' connections are not re-pointed; the downstream sibling keeps a
connection end that reaches nothing, is never triggered, and the workflow ends with NOT_DATA — silently. -/
theorem C10_pinned_for_witness :
    let r := run Cfg.pinned Ex.nf (.honour false) [] [] (Ex.wfA .forLike (.inst true))
    r.own.failed = false ∧ (r.kids.map fun n => n.own.out == nd) = [false, false, true] ∧
    (r.kids.map fun n => n.own.inRefs.length + n.own.outRefs.length) = [5, 2, 3] ∧
    (eval Ex.nf [] (Ex.wfA .forLike (.inst true))).kids.map (fun n => n.own.out == nd) = [false, false, false] := by
  decide

/-- Pinned merge: live executors of the children of a composite that ran by value are gone. -/
theorem C10_pinned_child_executor_witness :
    ((run Cfg.pinned Ex.nf (.honour false) [Ex.c 1, Ex.c 2] [] (Ex.mk (.inst true))).kids.map fun n => n.own.exe) =
      [.none, .none, .none] ∧
    ((Ex.mk (.inst true)).kids.map fun n => n.own.exe) = [.none, .inst false, .none] := by decide

/-! ## (b) inputs are frozen while the node is out -/

/-- The statement: whatever is attempted on the inputs of a node that is out on an executor — own inputs, or
for a workflow the child inputs its panel exposes — leaves the node as it was at submission. -/
def FrozenStatement : Prop :=
  ∀ (s : Sess) (es : List Edit), s.node.own.running = true → s.job.isSome = true →
    (edits s es).node = s.node

/-- nodes whose input channels they own themselves and whose channels point back at them -/
def LockOwner (n : Node) : Prop := n.kind? ≠ some .wf ∧ n.own.ioMine = true

theorem C10_frozen_partial (s : Sess) (k : Nat) (v : Val) (hl : LockOwner s.node)
    (hr : s.node.own.running = true) : (edit s (.setIn k v)).2 = .locked := by
  have : lockedTop s.node = true := by
    obtain ⟨h1, h2⟩ := hl
    cases hn : s.node with
    | fn o fid => simp_all [lockedTop, Node.own]
    | comp o c l ks => simp_all [lockedTop, Node.own, Node.kind?]
  simp [edit, this]

/-- A whole workflow that is out accepts the assignment (its inputs are its children's channels, and the local
children are idle). True of the pinned and of the repaired code. -/
theorem C10_workflow_not_frozen_witness : ¬ FrozenStatement := by
  intro h
  have := h ((submit true ⟨(Ex.wfA .macro .none).setOwn { (Ex.wfA .macro .none).own with exe := .inst true },
    none, []⟩).1) [.setKid 0 0 (Ex.c 9)] (by decide) (by decide)
  have := congrArg (fun n => n.kids.map fun k => k.own.ins) this
  revert this
  decide

/-- For every history of edits attempted while a lock-owning node is out — assignments, fetches, connections to
neighbours with or without data, disconnections, further run requests — the node is exactly as it was at
submission, and so is its job. -/
theorem C10_frozen (s : Sess) (es : List Edit) (hl : LockOwner s.node) (hr : s.node.own.running = true) :
    (edits s es).node = s.node ∧ (edits s es).job = s.job := by
  have : lockedTop s.node = true := by
    obtain ⟨h1, h2⟩ := hl
    cases hn : s.node with
    | fn o fid => simp_all [lockedTop, Node.own]
    | comp o c l ks => simp_all [lockedTop, Node.own, Node.kind?]
  exact edits_locked es s this

example : LockOwner (submit true ⟨Ex.m2 .macro 5 (Ex.c 1) (Ex.c 2) (.inst true) none none [] false, none, []⟩).1.node ∧
    (submit true ⟨Ex.m2 .macro 5 (Ex.c 1) (Ex.c 2) (.inst true) none none [] false, none, []⟩).1.node.own.running = true := by
  refine ⟨⟨by decide, by decide⟩, by decide⟩

/-- Composite (macro, for-node) on any executor, submitted with data on every input: whatever is attempted while
it is out, the result delivered is the result of `run` on the inputs held at submission — which the node still
shows. With the repaired merge this is the local run. -/
theorem C10_delivered_comp (cfg : Cfg) (fails : Nat → Bool) (snap : Bool) (o : Own) (k : CK)
    (l : List (Option Ref)) (ks : List Node) (es : List Edit)
    (hk : k ≠ .wf) (hm : o.ioMine = true) (hr : ready (.comp o k l ks) = true) :
    (complete cfg fails (edits (submit snap ⟨.comp o k l ks, none, []⟩).1 es)).1.node
      = run cfg fails (.honour false) o.ins [] (.comp o k l ks) := by
  obtain ⟨h1, _, h3⟩ := submit_comp snap o k l ks hr
  have hl : LockOwner (submit snap ⟨.comp o k l ks, none, []⟩).1.node := by
    rw [h1]; exact ⟨by simpa [Node.kind?] using hk, by simpa [Node.own] using hm⟩
  obtain ⟨e1, e2⟩ := C10_frozen _ es hl (by rw [h1]; rfl)
  rw [(complete_node_congr cfg fails _ _ e1 e2).1]
  simp only [complete, h3, h1, finish_submitted_comp]

theorem C10_delivered_comp_repaired (fails : Nat → Bool) (snap : Bool) (o : Own) (k : CK)
    (l : List (Option Ref)) (ks : List Node) (es : List Edit)
    (hk : k ≠ .wf) (hm : o.ioMine = true) (hr : ready (.comp o k l ks) = true)
    (hok : allOk (eval fails o.ins (.comp o k l ks)) = true) :
    (complete Cfg.repaired fails (edits (submit snap ⟨.comp o k l ks, none, []⟩).1 es)).1.node
      = eval fails o.ins (.comp o k l ks) := by
  rw [C10_delivered_comp Cfg.repaired fails snap o k l ks es hk hm hr, C10_transparent fails _ _ _ hok]

/-- Function node on any executor: the function is applied to the inputs read at submission, the node shows
exactly those inputs when the result arrives, and it is neither running nor (unless the function raised) failed. -/
theorem C10_delivered_leaf (cfg : Cfg) (fails : Nat → Bool) (snap : Bool) (o : Own) (fid : Nat) (es : List Edit)
    (hm : o.ioMine = true) (hr : ready (.fn o fid) = true) :
    (complete cfg fails (edits (submit snap ⟨.fn o fid, none, []⟩).1 es)).1.node
      = .fn (o.leafRun fails fid o.ins) fid := by
  obtain ⟨h1, _, h3⟩ := submit_fn snap o fid hr
  have hl : LockOwner (submit snap ⟨.fn o fid, none, []⟩).1.node := by
    rw [h1]; exact ⟨by simp [Node.kind?], by simpa [Node.own] using hm⟩
  obtain ⟨e1, e2⟩ := C10_frozen _ es hl (by rw [h1]; rfl)
  rw [(complete_node_congr cfg fails _ _ e1 e2).1]
  simp only [complete, h3, h1, finish, Own.leafRun]
  split <;> rfl

example : ready (.fn (Ex.own0 1 [Ex.c 1, Ex.dflt, Ex.dflt]) 5) = true := by decide

/-! ## (c) afterwards the node takes edits again — also after a failure on the executor -/

theorem C10_unlocked_after (cfg : Cfg) (fails : Nat → Bool) (s : Sess) (j : Job) (hj : s.job = some j)
    (n : Node) (hf : finish cfg fails j s.node = some n) (k : Nat) (v : Val) :
    (complete cfg fails s).1.node = n ∧ n.own.running = false ∧
    (edit (complete cfg fails s).1 (.setIn k v)).2 = .ok ∧
    (edit (complete cfg fails s).1 (.setIn k v)).1.node = assign k v n := by
  have hrun : n.own.running = false := by
    cases j with
    | leaf args =>
      cases hn : s.node with
      | fn o fid =>
        simp only [hn, finish, Option.some.injEq, Own.leafRun] at hf
        subst hf; simp only [Node.own]; split <;> rfl
      | comp o c l ks => simp [hn, finish] at hf
    | shared =>
      cases hn : s.node with
      | fn o fid => simp [hn, finish] at hf
      | comp o c l ks =>
        simp only [hn, finish, Option.some.injEq] at hf
        subst hf
        simp only [run]
        split
        · simp only [mergeOrFail, mergeBack]; split
          · rfl
          · split <;> rfl
        · rfl
    | copy snap =>
      cases hn : s.node with
      | fn o fid => cases snap <;> simp [hn, finish] at hf
      | comp o c l ks =>
        have key : ∀ (l' : List (Option Ref)) (ri : List Val) (ro : Val) (st : KS),
            (mergeOrFail cfg o c l' [] ks ri ro st).own.running = false := by
          intro l' ri ro st
          simp only [mergeOrFail, mergeBack]; split
          · rfl
          · split <;> rfl
        cases snap with
        | none => simp only [hn, finish, Option.some.injEq] at hf; subst hf; exact key _ _ _ _
        | some sn =>
          cases sn with
          | fn so sf => simp only [hn, finish, Option.some.injEq] at hf; subst hf; exact key _ _ _ _
          | comp so sk sl sks => simp only [hn, finish, Option.some.injEq] at hf; subst hf; exact key _ _ _ _
  have hc : (complete cfg fails s).1.node = n := by simp [complete, hj, hf]
  have hl : lockedTop n = false := by
    cases n with
    | fn o fid => simp_all [lockedTop, Node.own]
    | comp o c l ks => simp_all [lockedTop, Node.own]
  refine ⟨hc, hrun, ?_, ?_⟩ <;> simp [edit, hc, hl]

/-- a job whose function raises: the node ends failed, not running, with its inputs, and takes edits again -/
theorem C10_failure_settles (cfg : Cfg) (fails : Nat → Bool) (o : Own) (fid : Nat) (args : List Val)
    (hf : fails fid = true) (ext : List (Option Val)) (k : Nat) (v : Val) :
    let s' := (complete cfg fails ⟨.fn o fid, some (.leaf args), ext⟩).1
    s'.node.own.failed = true ∧ s'.node.own.running = false ∧ s'.node.own.ins = o.ins ∧
    s'.node.own.out = o.out ∧ (edit s' (.setIn k v)).2 = .ok := by
  simp [complete, finish, Own.leafRun, hf, Node.own, edit, lockedTop]

/-- Pinned merge: after one by-value run the macro's channels belong to the discarded copy, so on the next
submission the lock no longer holds — an assignment while it is out is accepted. (Repaired: refused.) -/
theorem C10_pinned_lock_lost_witness :
    let m := Ex.m2 .macro 5 (Ex.c 1) (Ex.c 2) (.inst true) none none [] false
    let once (cfg : Cfg) := (complete cfg Ex.nf (submit true ⟨m, none, []⟩).1).1
    let again (cfg : Cfg) := (submit true (once cfg)).1
    (again Cfg.pinned).node.own.running = true ∧ (edit (again Cfg.pinned) (.setIn 0 (Ex.c 9))).2 = .ok ∧
    (again Cfg.repaired).node.own.running = true ∧ (edit (again Cfg.repaired) (.setIn 0 (Ex.c 9))).2 = .locked := by
  decide

/-! ## (b') the lock holds on every route, for nodes out at any depth -/

/-- The statement for a configuration of the setters: take any graph in which any nodes, at any depth, are out
(running, owning their channels). Whatever setter calls are made — entering at any node of the graph (direct
assignment, `set_input_values`, call keywords, fetch after a connection, `_copy_values`, a workflow's IO panel)
and forwarded through value links of any length — the inputs of every node that is out are what they were. -/
def FrozenRoutesStatement (atRecv : Bool) : Prop :=
  ∀ (root : Node) (ss : List Setter), frozenT (applySetters atRecv root ss) = frozenT root

/-- /repo: every setter on the way consults the lock of its own channel's owner. -/
theorem C10_frozen_routes : FrozenRoutesStatement true :=
  fun root ss => applySetters_frozen ss root

/-- a macro that is idle, its value-linked child `p` out on an executor -/
def Ex.childOut : Node :=
  match Ex.m2 .macro 5 (Ex.c 1) (Ex.c 2) .none none none [] false with
  | .comp o k l (ui :: .fn po pf :: rest) =>
    .comp { o with hasParent := false } k l (ui :: .fn { po with running := true, exe := .inst true } pf :: rest)
  | n => n

example : (frozenT Ex.childOut).flat = [none, none, some [Ex.dflt, Ex.c 2, Ex.dflt], none] := by decide

/-- the assignment entering at the out node itself is refused whatever the forwarding discipline -/
theorem C10_frozen_entry (atRecv : Bool) (n : Node) (k : Nat) (v : Val) (h : n.locked = true) :
    assignAt atRecv k v [] n = none :=
  assignAt_locked_entry atRecv n k v h

/-- A lock consulted only at the channel that is assigned to is not enough: assigning the idle macro's input `y`
is accepted and changes the input of the child that is out (its value receiver). -/
theorem C10_lock_at_entry_only_witness : ¬ FrozenRoutesStatement false := by
  intro h
  have := h Ex.childOut [⟨[], 1, Ex.c 9⟩]
  have := congrArg FT.flat this
  revert this
  decide

/-- … and /repo refuses that very call, leaving macro and child as they were. -/
theorem C10_route_refused_example : assignAt true 1 (Ex.c 9) [] Ex.childOut = none := by decide

/-- a leaf out two levels down (the grandchild `p` of `MO`, after a full local run): submit it on its own,
attack it from the root's input, from its parent's input, directly, and through an unrelated sibling; complete -/
def Ex.depthRun : Option (Bool × Bool × Bool) :=
  let root := eval Ex.nf [Ex.c 1] (Ex.mo .none)
  match submitAt true [0, 1] root with
  | some (r, job) =>
    let r' := applySetters true r [⟨[], 0, Ex.c 9⟩, ⟨[0], 0, Ex.c 9⟩, ⟨[0, 1], 1, Ex.c 9⟩, ⟨[0, 0], 0, Ex.c 8⟩]
    match finishAt Cfg.repaired Ex.nf job [0, 1] r' with
    | some f => (nodeAt [0, 1] f).map fun n =>
        (n.own.running, n.own.out == applyFn 1 n.own.ins, (frozenT r').flat == (frozenT r).flat)
    | none => none
  | none => none

/-- … the function was applied to the inputs the node still shows, and nothing that was frozen moved -/
theorem C10_delivered_at_depth_example : Ex.depthRun = some (false, true, true) := by decide +kernel

/-! ## (d) executor objects: identity, live / shut down, who shuts them down -/

open PwVerif.ExecH in
/-- /repo never shuts an executor down: for every history of submissions (live executors, instructions handing
out fresh, shared or already shut-down pools) and completions in any order, every pool that existed keeps the
state it had — a fortiori every pool the run did not create — and the pools it creates stay as handed out. -/
theorem C10_executors_untouched (cfg : ExecH.Cfg) (hc : cfg.shutdownBuilt = false) (s : ExecH.St)
    (ops : List ExecH.Op) (h : Nat) (hh : h < s.pools.length) :
    poolState (runOps cfg s ops).1.pools h = poolState s.pools h := by
  obtain ⟨extra, he⟩ := runOps_prefix cfg hc ops s
  rw [he, poolState_append _ _ _ hh]

open PwVerif.ExecH in
/-- a submission of an idle node to a live pool is accepted, whichever way the pool was named -/
theorem C10_live_pool_accepts (cfg : ExecH.Cfg) (s : ExecH.St) (node : Nat) (set : Setting)
    (hr : s.running node = false) (hf : s.failed node = false)
    (hl : poolState (parse s.pools set).2.1 (parse s.pools set).1 = .live) :
    (step cfg s (.submit node set)).2 = .future := by
  rcases hp : parse s.pools set with ⟨h, pools, built⟩
  simp only [hp] at hl
  simp [step, hr, hf, hp, hl]

open PwVerif.ExecH in
/-- With the repaired submission (a refusal settles the node as failed) no node is ever running without an
outstanding job, for every history — so when all jobs have come back nothing is running. -/
theorem C10_running_has_job (cfg : ExecH.Cfg) (hc : cfg.settleRefused = true) (pools : List PS)
    (ops : List ExecH.Op) : RunningHasJob (runOps cfg (St.init pools) ops).1 :=
  runOps_runningHasJob cfg hc ops _ (by intro n hn; simp [St.init] at hn)

open PwVerif.ExecH in
/-- /repo as pinned: a submission the executor refuses (pool shut down) leaves the node `running` with nothing out. -/
theorem C10_refused_submission_witness :
    let r := runOps ExecH.Cfg.pinned (St.init [.down]) [.submit 0 (.inst 0)]
    r.2 = [.refused] ∧ r.1.running 0 = true ∧ r.1.jobs = [] ∧
    (runOps ExecH.Cfg.repaired (St.init [.down]) [.submit 0 (.inst 0)]).1.running 0 = false := by
  decide

open PwVerif.ExecH in
/-- Shutting down what came out of instructions breaks the shared-pool use: the second submission is refused. -/
theorem C10_shutdown_built_witness :
    let cfg : ExecH.Cfg := { shutdownBuilt := true, settleRefused := false }
    let ops := [Op.submit 0 (.instr (.shared 0)), .complete 0, .submit 1 (.instr (.shared 0))]
    (runOps cfg (St.init [.live]) ops).2 = [.future, .ok, .refused] ∧
    (runOps ExecH.Cfg.pinned (St.init [.live]) ops).2 = [.future, .ok, .future] := by
  decide

/-! ## (e) the executor run is the local run, or it fails visibly -/

/-- For every job, node and outcome of the executor (ran to its end / cancelled before it started / lost): the
done-callback leaves the node not running, and either the job ran and the node is what `finish` makes of it, or
the node is marked failed with its inputs and outputs untouched — never a normal return around outputs that
belong to other inputs. -/
theorem C10_visible_or_equal (cfg : Cfg) (fails : Nat → Bool) (oc : Outcome) (job : Job) (n n' : Node)
    (h : finishO cfg fails false oc job n = some n') :
    (oc = .done ∧ finish cfg fails job n = some n') ∨
    (n'.own.failed = true ∧ n'.own.running = false ∧ n'.own.ins = n.own.ins ∧ n'.own.out = n.own.out ∧
      n'.kids = n.kids) := by
  cases oc with
  | done => exact Or.inl ⟨rfl, h⟩
  | cancelled =>
    simp only [finishO, Bool.false_eq_true, if_false, Option.some.injEq] at h
    subst h; cases n <;> exact Or.inr ⟨rfl, rfl, rfl, rfl, rfl⟩
  | lost =>
    simp only [finishO, Option.some.injEq] at h
    subst h; cases n <;> exact Or.inr ⟨rfl, rfl, rfl, rfl, rfl⟩

/-- "Cancelling is not failing": a leaf that ran on `c1`, was given `c2`, submitted and cancelled comes back not
failed, showing `c2` next to the output of `c1`. /repo marks it failed. -/
theorem C10_quiet_cancel_witness :
    let ran : Node := .fn { Ex.own0 1 [Ex.c 2, Ex.dflt, Ex.dflt] with out := applyFn 5 [Ex.c 1, Ex.dflt, Ex.dflt],
                                                                       running := true, hasParent := false } 5
    let job := Job.leaf [Ex.c 2, Ex.dflt, Ex.dflt]
    ((finishO Cfg.repaired Ex.nf true .cancelled job ran).map fun n =>
        (n.own.failed, n.own.out == applyFn 5 n.own.ins)) = some (false, false) ∧
    ((finishO Cfg.repaired Ex.nf false .cancelled job ran).map fun n => n.own.failed) = some true := by
  decide

/-- The inputs reach `on_run` as keyword arguments through the executor's `submit`; with `fn` positional-only
(every executor's `submit(self, fn, /, *args, **kwargs)`) no input label whatsoever can collide … -/
theorem C10_labels_bind (labels : List String) : bindsOk [] labels = true := by
  simp [bindsOk]

/-- … whereas a `submit(self, fn, *args, **kwargs)` captures an input labelled `fn`. -/
theorem C10_label_capture_witness : bindsOk ["fn"] ["a", "fn"] = false := by decide

/-! ## (f) every executor-valued attribute of the node is kept -/

/-- a for-node run by value whose `body_node_executor` is a live pool -/
def Ex.forBody (be : Exe) : Node :=
  match Ex.m2 .forLike 5 (Ex.c 1) (Ex.c 2) (.inst true) none none [] false with
  | .comp o k l ks => .comp { o with hasParent := false, bodyExe := be } k l ks
  | n => n

/-- `C10_keeps` speaks about the whole `Shape`, which holds the node's own `executor` *and* its further
executor-valued attributes (`bodyExe`); spelled out for the latter: -/
theorem C10_keeps_body_executor (fails : Nat → Bool) (n : Node) (inCopy : Bool) (ins : List Val) :
    (run Cfg.repaired fails (.honour inCopy) ins [] n).own.bodyExe = n.own.bodyExe ∧
    (run Cfg.repaired fails (.honour inCopy) ins [] n).own.exe = n.own.exe := by
  have h := congrArg ShapeT.top (C10_keeps fails n inCopy ins)
  cases hr : run Cfg.repaired fails (.honour inCopy) ins [] n <;> cases n <;>
    simp_all [shapeOf, ShapeT.top, Own.shape, Node.own]

/-- Without the for-node's own exception in `_get_state_from_remote_other` the copy's stripped value overwrites a
live `body_node_executor` (instructions survive); with it the setting is kept. -/
theorem C10_body_executor_witness :
    let lost : Cfg := { Cfg.repaired with keepBodyExe := false }
    (run lost Ex.nf (.honour false) [Ex.c 1, Ex.c 2] [] (Ex.forBody (.inst false))).own.bodyExe = .none ∧
    (run lost Ex.nf (.honour false) [Ex.c 1, Ex.c 2] [] (Ex.forBody (.instr false))).own.bodyExe = .instr false ∧
    (run Cfg.repaired Ex.nf (.honour false) [Ex.c 1, Ex.c 2] [] (Ex.forBody (.inst false))).own.bodyExe = .inst false := by
  decide

/-! ## (g) "no data" is a result like any other; a refused request touches nothing -/

/-- the macro `M2` whose returned child is the "nothing to report for `c0`" function, after an earlier run that
delivered data (outputs hold values), now shown `x = c0`, on executor `e` -/
def Ex.searchAgain (e : Exe) : Node :=
  .comp { Ex.own0 5 [Ex.c 0, Ex.c 2] with hasParent := false, exe := e, out := app 41 [Ex.c 1, Ex.dflt, Ex.dflt] }
    .macro [Ex.rf 0 0, none]
    [ .fn { Ex.own0 11 [Ex.c 0, Ex.dflt, Ex.dflt] with out := app 41 [Ex.c 1, Ex.dflt, Ex.dflt], outLinked := true } 41 ]

/-- Re-run by value with an input for which the feeding child reports NOT_DATA: the macro's output becomes
NOT_DATA exactly as in the local run — it does not keep the value of the earlier run (instance of
`C10_transparent`, whose `applyFn` is arbitrary). -/
theorem C10_notdata_rerun_example :
    (run Cfg.repaired Ex.nf (.honour false) [Ex.c 0, Ex.c 2] [] (Ex.searchAgain (.inst true))).own.out = nd ∧
    (eval Ex.nf [Ex.c 0, Ex.c 2] (Ex.searchAgain (.inst true))).own.out = nd ∧
    (Ex.searchAgain (.inst true)).own.out ≠ nd := by
  decide

/-- A run request to a node that is out (at any depth) is refused, and a refusal is the identity on the graph:
`submitAt` does not produce a new state. -/
theorem C10_refused_request_untouched (snap : Bool) (path : List Nat) (root n : Node)
    (hn : nodeAt path root = some n) (hr : n.own.running = true) : submitAt snap path root = none := by
  simp [submitAt, hn, ready, hr]

/-! ## (h) the executor setting of the node that was out is the local one, whatever the copy carries -/

/-- Whatever the node's executor-valued attributes are when the job comes back — also after they were edited
while the node was out — the done-callback leaves them as they are (repaired merge; leaf, shared and by-value). -/
theorem C10_executor_edit_survives (fails : Nat → Bool) (job : Job) (n n' : Node)
    (h : finish Cfg.repaired fails job n = some n') :
    n'.own.exe = n.own.exe ∧ n'.own.bodyExe = n.own.bodyExe := by
  cases job with
  | leaf args =>
    cases n with
    | fn o fid =>
      simp only [finish, Option.some.injEq] at h
      subst h; simp only [Node.own, Own.leafRun]; split <;> exact ⟨rfl, rfl⟩
    | comp o k l ks => simp [finish] at h
  | shared =>
    cases n with
    | fn o fid => simp [finish] at h
    | comp o k l ks =>
      simp only [finish, Option.some.injEq] at h
      subst h
      have := congrArg ShapeT.top (shapeOf_run Cfg.repaired fails rfl rfl rfl rfl (.comp o k l ks) (.honour false) o.ins [])
      cases hr : run Cfg.repaired fails (.honour false) o.ins [] (.comp o k l ks) <;>
        simp_all [shapeOf, ShapeT.top, Own.shape, Node.own]
  | copy snap =>
    cases n with
    | fn o fid => cases snap <;> simp [finish] at h
    | comp o k l ks =>
      have key : ∀ (l' : List (Option Ref)) (ri : List Val) (ro : Val) (st : KS),
          (mergeOrFail Cfg.repaired o k l' [] ks ri ro st).own.exe = o.exe ∧
          (mergeOrFail Cfg.repaired o k l' [] ks ri ro st).own.bodyExe = o.bodyExe := by
        intro l' ri ro st
        simp only [mergeOrFail, mergeBack, Cfg.repaired]
        split <;> exact ⟨rfl, rfl⟩
      cases snap with
      | none => simp only [finish, Option.some.injEq] at h; subst h; exact key _ _ _ _
      | some sn =>
        cases sn with
        | fn so sf => simp only [finish, Option.some.injEq] at h; subst h; exact key _ _ _ _
        | comp so sk sl sks => simp only [finish, Option.some.injEq] at h; subst h; exact key _ _ _ _

end PwVerif.C10

#print axioms PwVerif.C10.C10_transparent
#print axioms PwVerif.C10.C10_same_outputs
#print axioms PwVerif.C10.C10_keeps
#print axioms PwVerif.C10.C10_nothing_running
#print axioms PwVerif.C10.C10_transparent_partial
#print axioms PwVerif.C10.C10_pinned_outputs_witness
#print axioms PwVerif.C10.C10_pinned_keeps_witness
#print axioms PwVerif.C10.C10_pinned_detached_owner_witness
#print axioms PwVerif.C10.C10_pinned_for_witness
#print axioms PwVerif.C10.C10_pinned_child_executor_witness
#print axioms PwVerif.C10.C10_frozen_partial
#print axioms PwVerif.C10.C10_workflow_not_frozen_witness
#print axioms PwVerif.C10.C10_frozen
#print axioms PwVerif.C10.C10_delivered_comp
#print axioms PwVerif.C10.C10_delivered_comp_repaired
#print axioms PwVerif.C10.C10_delivered_leaf
#print axioms PwVerif.C10.C10_unlocked_after
#print axioms PwVerif.C10.C10_failure_settles
#print axioms PwVerif.C10.C10_pinned_lock_lost_witness
#print axioms PwVerif.C10.C10_frozen_routes
#print axioms PwVerif.C10.C10_frozen_entry
#print axioms PwVerif.C10.C10_lock_at_entry_only_witness
#print axioms PwVerif.C10.C10_route_refused_example
#print axioms PwVerif.C10.C10_delivered_at_depth_example
#print axioms PwVerif.C10.C10_executors_untouched
#print axioms PwVerif.C10.C10_live_pool_accepts
#print axioms PwVerif.C10.C10_running_has_job
#print axioms PwVerif.C10.C10_refused_submission_witness
#print axioms PwVerif.C10.C10_shutdown_built_witness
#print axioms PwVerif.C10.C10_visible_or_equal
#print axioms PwVerif.C10.C10_quiet_cancel_witness
#print axioms PwVerif.C10.C10_labels_bind
#print axioms PwVerif.C10.C10_label_capture_witness
#print axioms PwVerif.C10.C10_keeps_body_executor
#print axioms PwVerif.C10.C10_body_executor_witness
#print axioms PwVerif.C10.C10_notdata_rerun_example
#print axioms PwVerif.C10.C10_refused_request_untouched
#print axioms PwVerif.C10.C10_executor_edit_survives
