import PwVerif.Proofs.Data
/-!
# C03 — Inputs resolve by connection priority; nothing runs on missing or ill-typed data

"When a node runs, each connected input takes the value of its most recently connected
upstream output that currently holds data, and keeps its own value if none does. The wrapped
function is then invoked only if every input holds data that satisfies its type hint (where
strict hints are on); otherwise the run is refused with a readiness error, the function is not
called, outputs are untouched and the node is not marked failed. No public assignment path
(direct value, keyword at call, connection fetch, value forwarding from a macro) stores a
hint-violating value in a strictly hinted channel."

Model: `Model/Data.lean` (`Params.admits c v` = "the hint of channel `c` accepts `v`" is an
abstract parameter — its content is C04's subject; `fuel` = Python's recursion limit for
receiver chains; `Node.run` with default flags, no executor, cache off or first run).
Only property theorems live here; the lemmas are in `Proofs/Data.lean`.
-/
namespace PwVerif.C03
open PwVerif PwVerif.Conn PwVerif.Data

/-! ## fetch: first connection holding data, else unchanged -/

/-- `InputData.fetch` = assign (through the setter) the value of the first connection, in
list order, that is not `NOT_DATA`; no assignment at all if there is none -/
theorem C03_fetch_spec (P : Params) (fuel : Nat) (s : S) (i : Nat) :
    fetch1 P fuel s i =
      match ((s.conns i).map s.val).find? (fun v => v ≠ .nd) with
      | some v => setVal P fuel s i v
      | none => (s, none) := by
  unfold fetch1; rw [firstData_find]; rfl

/-- ... so an unlocked input without receiver ends up with the value of the first connection
holding data, or keeps its own; the fetch raises (TypeError) exactly when that value violates
the input's strict hint, and then nothing is stored -/
theorem C03_fetch_value (P : Params) (fuel : Nat) (s : S) (i : Nat)
    (hr : s.recv i = none) (hl : ¬ (s.kind i = .dataIn ∧ s.running (s.owner i) = true)) :
    let want := (((s.conns i).map s.val).find? (fun v => v ≠ .nd)).getD (s.val i)
    ((fetch1 P (fuel + 1) s i).2 = none →
        (fetch1 P (fuel + 1) s i).1 = { s with val := updF s.val i want }) ∧
    ((fetch1 P (fuel + 1) s i).2 ≠ none →
        (fetch1 P (fuel + 1) s i) = (s, some .type) ∧ want ≠ .nd ∧ s.strict i = true ∧ s.hinted i = true ∧
          P.admits i want = false) := by
  intro want
  have hwant : want = fetchVal s i := by simp [want, fetchVal, firstData_find]
  unfold fetch1
  cases hfd : firstData s (s.conns i) with
  | none =>
    have : want = s.val i := by rw [hwant]; simp [fetchVal, hfd]
    refine ⟨?_, by simp⟩
    intro _
    rw [this]
    show s = { s with val := updF s.val i (s.val i) }
    have : updF s.val i (s.val i) = s.val := by funext x; by_cases hx : x = i <;> simp [updF, hx]
    rw [this]
  | some v =>
    have hv : want = v := by rw [hwant]; simp [fetchVal, hfd]
    have hvn : v ≠ .nd := firstData_some_ne s _ v hfd
    simp only
    rw [setVal_norecv P fuel s i v hr, if_neg hl, hv]
    by_cases hty : s.strict i = true ∧ v ≠ .nd ∧ s.hinted i = true ∧ P.admits i v = false
    · rw [if_pos hty]
      exact ⟨by simp, fun _ => ⟨rfl, hvn, hty.1, hty.2.2.1, hty.2.2.2⟩⟩
    · rw [if_neg hty]
      exact ⟨fun _ => rfl, by simp⟩

/-! ## recency: list order = order of the surviving effective connects, newest first -/

/-- in every world reachable by any history of operations (connects, disconnects, assignments,
runs, …) every connection list is ordered by the time its connections became effective,
newest first, and the whole connection invariant of C12 holds -/
theorem C03_recency (P : Params) (fuel : Nat) (kind owner hinted strict ins outs) (ops : List Data.Op) :
    let w := run P fuel (init kind owner hinted strict ins outs) ops
    (∀ i, (w.conns i).Pairwise (fun a b => w.since i a > w.since i b)) ∧
    (∀ i, ∀ a ∈ w.conns i, w.since i a < w.clock) := by
  intro w
  have h : WF P w := run_pres (wf_pres P) fuel _ ops (Or.inl rfl) (init_wf P kind owner hinted strict ins outs)
  exact ⟨h.sorted, h.stamped⟩

/-- the stamp is written by an effective connect only, with the current clock, which then
advances; the new partner goes to the front on both sides and no other stamp changes -/
theorem C03_stamp (P : Params) (s : S) (a b : Nat) (hn : b ∉ s.conns a)
    (hok : (connectS P s a b).2 = none) :
    let s' := (connectS P s a b).1
    s'.since a b = s.clock ∧ s'.since b a = s.clock ∧ s'.clock = s.clock + 1 ∧
    s'.conns a = b :: s.conns a ∧ s'.conns b = a :: s.conns b ∧
    ∀ x y, ¬ (x = a ∧ y = b) → ¬ (x = b ∧ y = a) → s'.since x y = s.since x y := by
  intro s'
  obtain ⟨heq, hconj⟩ := connectS_effective P s a b hn hok
  have hab : a ≠ b := by intro e; subst e; simp [conj_irrefl] at hconj
  have hs' : s' = _ := heq
  clear_value s'
  subst hs'
  refine ⟨?_, ?_, rfl, ?_, ?_, ?_⟩
  · show upd2 (upd2 s.since a b s.clock) b a s.clock a b = s.clock
    rw [upd2_other _ _ _ _ _ _ (by intro ⟨e, _⟩; exact hab e), upd2_same]
  · exact upd2_same _ _ _ _
  · show updF (updF s.conns a (b :: s.conns a)) b (a :: s.conns b) a = b :: s.conns a
    simp [updF, hab]
  · show updF (updF s.conns a (b :: s.conns a)) b (a :: s.conns b) b = a :: s.conns b
    simp [updF]
  · intro x y h1 h2
    show upd2 (upd2 s.since a b s.clock) b a s.clock x y = s.since x y
    rw [upd2_other _ _ _ _ _ _ h2, upd2_other _ _ _ _ _ _ h1]

/-- a connect that is refused or finds the pair already connected, and every disconnect, leave
all stamps and the clock alone -/
theorem C03_stamp_else (P : Params) (s : S) (a b : Nat) :
    ((b ∈ s.conns a ∨ (connectS P s a b).2 ≠ none) → (connectS P s a b).1 = s) ∧
    (disconnectS P s a b).since = s.since ∧ (disconnectS P s a b).clock = s.clock := by
  refine ⟨?_, rfl, rfl⟩
  intro h
  rcases connectS_cases P s a b with heq | ⟨hn, _, hok, _⟩
  · exact heq
  · rcases h with h | h
    · exact absurd h hn
    · exact absurd hok h

/-- hence: what the fetch loop picks is the **most recently connected** upstream that holds
data — every other connection holding data was made effective strictly earlier -/
theorem C03_most_recent (P : Params) (s : S) (i : Nat) (hwf : WF P s) (v : Val)
    (hf : firstData s (s.conns i) = some v) :
    ∃ a ∈ s.conns i, s.val a = v ∧ v ≠ .nd ∧
      ∀ b ∈ s.conns i, s.val b ≠ .nd → b = a ∨ s.since i b < s.since i a :=
  firstData_pairwise s _ _ (hwf.sorted i) v hf

/-- ... and an input none of whose connections holds data keeps its value (no assignment
happens at all, not even a locked-input error) -/
theorem C03_keeps_own (P : Params) (fuel : Nat) (s : S) (i : Nat) (h : ∀ a ∈ s.conns i, s.val a = .nd) :
    fetch1 P fuel s i = (s, none) := by
  unfold fetch1; rw [(firstData_none s _).mpr h]

/-! ## the readiness gate -/

/-- `node.run(**kw)` is `set_input_values(**kw)` followed by a plain `run()` -/
theorem C03_run_kw (P : Params) (fuel : Nat) (s : S) (n : Nat) (kw : List (Nat × Arg)) :
    runNode P fuel s n kw =
      match setInputs P fuel s kw with
      | (s1, none) => runNode P fuel s1 n []
      | (s1, some e) => (s1, .err e) := by
  unfold runNode
  split <;> simp_all [setInputs]

/-- the wrapped function is invoked iff delivering the keywords and fetching raised nothing
and then the node is ready: not running, not failed, every input holds data that its strict
hint (if any) accepts -/
theorem C03_gate (P : Params) (fuel : Nat) (s : S) (n : Nat) (kw : List (Nat × Arg)) :
    (runNode P fuel s n kw).2.isInvoked = true ↔
      ∃ s1 s2, setInputs P fuel s kw = (s1, none) ∧ fetchAll P fuel s1 (s1.ins n) = (s2, none) ∧
        s2.running n = false ∧ s2.failed n = false ∧ ∀ i ∈ s2.ins n, readyV P s2 i (s2.val i) := by
  have hready : ∀ s2 : S, nodeReady P s2 n = true ↔
      (s2.running n = false ∧ s2.failed n = false ∧ ∀ i ∈ s2.ins n, readyV P s2 i (s2.val i)) := by
    intro s2
    unfold nodeReady
    simp only [Bool.and_eq_true, Bool.not_eq_true', List.all_eq_true, chanReady_iff, and_assoc]
  unfold runNode
  split
  · rename_i s1 e heq
    simp [heq, Out.isInvoked]
  · rename_i s1 heq
    split
    · rename_i s2 e heq2
      simp [heq, heq2, Out.isInvoked]
    · rename_i s2 heq2
      split
      · rename_i hr
        refine ⟨fun _ => ⟨s1, s2, heq, heq2, (hready s2).mp hr⟩, fun _ => ?_⟩
        dsimp only
        split <;> rfl
      · rename_i hr
        simp only [Out.isInvoked, Bool.false_eq_true, false_iff]
        intro ⟨t1, t2, h1, h2, h3⟩
        rw [heq] at h1
        cases h1
        rw [heq2] at h2
        cases h2
        exact hr ((hready _).mpr h3)

/-- ... and it is invoked exactly once, with exactly the values the inputs hold after the
fetch, in panel order -/
theorem C03_called_with (P : Params) (fuel : Nat) (s : S) (n : Nat) (kw : List (Nat × Arg))
    (s1 s2 : S) (h1 : setInputs P fuel s kw = (s1, none)) (h2 : fetchAll P fuel s1 (s1.ins n) = (s2, none))
    (hi : (runNode P fuel s n kw).2.isInvoked = true) :
    (runNode P fuel s n kw).1.calls = s.calls ++ [(n, (s2.ins n).map s2.val)] := by
  have hc1 : s1.calls = s.calls := by have := (setInputs_frame P fuel s kw).calls; rwa [h1] at this
  have hc2 : s2.calls = s1.calls := by have := (fetchAll_frame P fuel s1 (s1.ins n)).calls; rwa [h2] at this
  unfold runNode at hi ⊢
  rw [h1] at hi ⊢
  simp only at hi ⊢
  rw [h2] at hi ⊢
  simp only at hi ⊢
  by_cases hr : nodeReady P s2 n = true
  · simp only [hr, if_true]
    obtain ⟨m, hm⟩ := setOutputs_shape P fuel { s2 with calls := s2.calls ++ [(n, (s2.ins n).map s2.val)] }
      (s2.outs n) (P.fn n ((s2.ins n).map s2.val))
    split
    · rename_i s4 heq
      rw [heq] at hm
      simp only at hm
      rw [hm]
      simp [hc2, hc1]
    · rename_i s4 e heq
      rw [heq] at hm
      simp only at hm
      rw [hm]
      simp [hc2, hc1]
  · simp [hr, Out.isInvoked] at hi

/-- the panel of a function node: its channels are inputs owned by the node, none forwards
to a receiver, no channel is listed twice -/
structure Panel (s : S) (n : Nat) : Prop where
  isIn  : ∀ i ∈ s.ins n, s.kind i = .dataIn ∧ s.owner i = n ∧ s.recv i = none
  nodup : (s.ins n).Nodup

/-- **closed form of the gate** for a plain `run()` of a function node, in terms of the state
*before* the run: the function is invoked iff the node is neither running nor failed and, for
every input, the value of its first connection holding data — or its own value if there is
none — is data and satisfies the input's hint where the hint is strict -/
theorem C03_gate_closed (P : Params) (fuel : Nat) (s : S) (n : Nat) (hwf : WF P s) (hp : Panel s n) :
    (runNode P (fuel + 1) s n []).2.isInvoked = true ↔
      s.running n = false ∧ s.failed n = false ∧ ∀ i ∈ s.ins n, readyV P s i (fetchVal s i) := by
  have hout : ∀ i ∈ s.ins n, ∀ o ∈ s.conns i, o ∉ s.ins n := by
    intro i hi o ho hoi
    have ht := hwf.conn.typed i o ho
    simp only [toG] at ht
    rw [(hp.isIn i hi).1, (hp.isIn o hoi).1] at ht
    simp [Kind.conj] at ht
  rw [C03_gate]
  simp only [setInputs]
  cases hrun : s.running n with
  | true =>
    simp only [Bool.true_eq_false, false_and, iff_false]
    intro ⟨s1, s2, h1, h2, h3, _⟩
    cases h1
    have := (fetchAll_frame P (fuel + 1) s (s.ins n)).running
    rw [h2] at this
    simp only at this
    rw [this, hrun] at h3
    cases h3
  | false =>
    have hin : ∀ i ∈ s.ins n, s.recv i = none ∧ ¬ (s.kind i = .dataIn ∧ s.running (s.owner i) = true) := by
      intro i hi
      refine ⟨(hp.isIn i hi).2.2, ?_⟩
      rw [(hp.isIn i hi).2.1, hrun]
      simp
    obtain ⟨hiff, _, hstate⟩ := fetchAll_closed P fuel (s.ins n) s hp.nodup hin hout
    have hokOfReady : (∀ i ∈ s.ins n, readyV P s i (fetchVal s i)) → ∀ i ∈ s.ins n, fetchOk P s i := by
      intro h i hi v hv ⟨h1, h2, h3⟩
      have hr := h i hi
      have : fetchVal s i = v := by simp [fetchVal, hv]
      rw [this] at hr
      rw [hr.2 h2 h1] at h3
      cases h3
    constructor
    · intro ⟨s1, s2, h1, h2, _, h4, h5⟩
      cases h1
      have hok : (fetchAll P (fuel + 1) s (s.ins n)).2 = none := by rw [h2]
      have hs2 := hstate hok
      rw [h2] at hs2
      simp only at hs2
      subst hs2
      refine ⟨rfl, h4, ?_⟩
      intro i hi
      have := h5 i hi
      simpa [readyV, hi] using this
    · intro ⟨_, h4, h5⟩
      have hok := hiff.mpr (hokOfReady h5)
      refine ⟨s, _, rfl, Prod.ext (hstate hok) hok, hrun, h4, ?_⟩
      intro i hi
      have := h5 i hi
      simpa [readyV, hi] using this

/-- ... and then it is called once with exactly those values, in panel order -/
theorem C03_called_with_closed (P : Params) (fuel : Nat) (s : S) (n : Nat) (hwf : WF P s) (hp : Panel s n)
    (hi : (runNode P (fuel + 1) s n []).2.isInvoked = true) :
    (runNode P (fuel + 1) s n []).1.calls = s.calls ++ [(n, (s.ins n).map (fetchVal s))] := by
  obtain ⟨s1, s2, h1, h2, h3, _, _⟩ := (C03_gate P (fuel + 1) s n []).mp hi
  rw [C03_called_with P (fuel + 1) s n [] s1 s2 h1 h2 hi]
  have hrun : s.running n = false := ((C03_gate_closed P fuel s n hwf hp).mp hi).1
  simp only [setInputs] at h1
  cases h1
  have hout : ∀ i ∈ s.ins n, ∀ o ∈ s.conns i, o ∉ s.ins n := by
    intro i hi o ho hoi
    have ht := hwf.conn.typed i o ho
    simp only [toG] at ht
    rw [(hp.isIn i hi).1, (hp.isIn o hoi).1] at ht
    simp [Kind.conj] at ht
  have hin : ∀ i ∈ s.ins n, s.recv i = none ∧ ¬ (s.kind i = .dataIn ∧ s.running (s.owner i) = true) := by
    intro i hi
    refine ⟨(hp.isIn i hi).2.2, ?_⟩
    rw [(hp.isIn i hi).2.1, hrun]
    simp
  obtain ⟨_, _, hstate⟩ := fetchAll_closed P fuel (s.ins n) s hp.nodup hin hout
  have hs2 := hstate (by rw [h2])
  rw [h2] at hs2
  simp only at hs2
  subst hs2
  simp only
  congr 3
  apply List.map_congr_left
  intro i hi
  simp [hi]

/-- a refused run (`ReadinessError`, or the `TypeError` / `RuntimeError` /
`ChannelConnectionError` of a keyword or of the fetch) does not call the function and leaves
every output value, the call log, `failed` and `running` of every node untouched -/
theorem C03_refused_clean (P : Params) (fuel : Nat) (s : S) (n : Nat) (kw : List (Nat × Arg))
    (hr : RecvKind s) (hkw : ∀ p ∈ kw, s.kind p.1 = .dataIn) (hins : ∀ i ∈ s.ins n, s.kind i = .dataIn)
    (e : Err) (href : (runNode P fuel s n kw).2 = .err e) :
    let s' := (runNode P fuel s n kw).1
    s'.calls = s.calls ∧ s'.failed = s.failed ∧ s'.running = s.running ∧
    ∀ c, s.kind c ≠ .dataIn → s'.val c = s.val c := by
  intro s'
  have h1 := setInputs_inputOnly P fuel s kw hr hkw
  suffices h : InputOnly s s' from ⟨h.calls, h.failed, h.running, h.outVals⟩
  simp only [s']
  unfold runNode at href ⊢
  split
  · rename_i s1 e1 heq; rw [heq] at h1; exact h1
  · rename_i s1 heq
    rw [heq] at h1 href
    simp only at href ⊢
    have h2 := fetchAll_inputOnly P fuel s1 (s1.ins n) (h1.recvKind hr)
      (by intro i hi; rw [h1.kind]; rw [h1.ins] at hi; exact hins i hi)
    split
    · rename_i s2 e2 heq2; rw [heq2] at h2; exact h1.trans h2
    · rename_i s2 heq2
      rw [heq2] at h2 href
      simp only at href ⊢
      split
      · rename_i hrd
        simp only [hrd, if_true] at href
        split at href <;> cases href
      · exact h1.trans h2

/-! ## no assignment path stores a hint-violating value in a strictly hinted channel -/

/-- one operation over any assignment path (direct set, attribute / keyword / positional
assignment, fetch, receiver forwarding along chains of any length, value-receiver coupling,
copying values with or without undo, the results of a run) or any edit preserves "no strictly
hinted channel holds a value its hint rejects".  Switching strict hints **on** is not an
assignment path and is excluded (`Op.noActivate`); switching them off is included. -/
theorem C03_no_bad_store_step (P : Params) (hcopy : CopyOk P) (fuel : Nat) (s : S) (op : Data.Op)
    (hop : op.noActivate) (h : Good P s) : Good P (step P fuel s op).1 :=
  step_pres (good_pres P hcopy) fuel s op (Or.inr hop) h

/-- ... hence after every history of such operations, of any length, starting from a fresh
world, every strict hinted channel holds `NOT_DATA` or a value its hint accepts -/
theorem C03_no_bad_store (P : Params) (hcopy : CopyOk P) (fuel : Nat) (kind owner hinted strict ins outs)
    (ops : List Data.Op) (hops : ∀ op ∈ ops, op.noActivate) :
    let w := run P fuel (init kind owner hinted strict ins outs) ops
    ∀ ch, w.strict ch = true → w.hinted ch = true → w.val ch = .nd ∨ P.admits ch (w.val ch) = true :=
  run_pres (good_pres P hcopy) fuel _ ops (Or.inr hops) (init_good P kind owner hinted strict ins outs)

/-- an assignment that is refused stores nothing anywhere — not in the channel, not in any
receiver down the chain -/
theorem C03_refused_assignment_noop (P : Params) (fuel : Nat) (s : S) (c : Nat) (v : Val) (e : Err)
    (h : (setVal P fuel s c v).2 = some e) : (setVal P fuel s c v).1 = s :=
  setVal_err P fuel s c v e h

/-- an ill-typed assignment **is** refused: delivering a value that the strict hint of the
addressed channel rejects raises (TypeError; RuntimeError if the input is locked first;
RecursionError without stack left) whatever the receivers are, and the whole state is as before -/
theorem C03_bad_rejected (P : Params) (fuel : Nat) (s : S) (c : Nat) (v : Val)
    (hs : s.strict c = true) (hh : s.hinted c = true) (hv : v ≠ .nd) (ha : P.admits c v = false) :
    ∃ e, setVal P fuel s c v = (s, some e) := by
  cases h : (setVal P fuel s c v).2 with
  | none =>
    obtain ⟨l, hc, _, hpass, _⟩ := setVal_ok P fuel s c v h
    exact absurd ⟨hs, hv, hh, ha⟩ (hpass c hc).2
  | some e => exact ⟨e, Prod.ext (setVal_err P fuel s c v e h) h⟩

/-- an accepted assignment changes a channel only by storing the delivered value there, and
every channel it changes — the addressed one and every receiver down the chain (macro input →
child input → …) — let the value pass its own strict hint -/
theorem C03_forward_checked (P : Params) (fuel : Nat) (s : S) (c : Nat) (v : Val)
    (h : (setVal P fuel s c v).2 = none) :
    (setVal P fuel s c v).1.val c = v ∧
    ∀ x, (setVal P fuel s c v).1.val x ≠ s.val x →
      (setVal P fuel s c v).1.val x = v ∧
      ¬ (s.strict x = true ∧ v ≠ .nd ∧ s.hinted x = true ∧ P.admits x v = false) := by
  obtain ⟨l, hc, hval, hpass, _⟩ := setVal_ok P fuel s c v h
  refine ⟨by rw [hval c]; simp [hc], ?_⟩
  intro x hx
  rw [hval x] at hx ⊢
  by_cases hxl : x ∈ l
  · exact ⟨by simp [hxl], (hpass x hxl).2⟩
  · simp [hxl] at hx

/-- the three ways a run ends without invoking the function: a keyword is refused, the fetch is
refused (TypeError of a hint-violating upstream value, RuntimeError of a locked input), or —
once both went through — the gate refuses, and then it is a **ReadinessError** raised in
exactly the state the fetch left -/
theorem C03_refusal_kind (P : Params) (fuel : Nat) (s : S) (n : Nat) (kw : List (Nat × Arg)) (e : Err)
    (href : (runNode P fuel s n kw).2 = .err e) :
    (∃ s1, setInputs P fuel s kw = (s1, some e) ∧ (runNode P fuel s n kw).1 = s1) ∨
    (∃ s1 s2, setInputs P fuel s kw = (s1, none) ∧ fetchAll P fuel s1 (s1.ins n) = (s2, some e) ∧
        (runNode P fuel s n kw).1 = s2) ∨
    (∃ s1 s2, setInputs P fuel s kw = (s1, none) ∧ fetchAll P fuel s1 (s1.ins n) = (s2, none) ∧
        nodeReady P s2 n = false ∧ e = .readiness ∧ (runNode P fuel s n kw).1 = s2) := by
  unfold runNode at href ⊢
  split
  · rename_i s1 e1 heq
    rw [heq] at href
    simp only [Out.err.injEq] at href
    subst href
    exact Or.inl ⟨s1, heq, rfl⟩
  · rename_i s1 heq
    rw [heq] at href
    simp only at href ⊢
    split
    · rename_i s2 e2 heq2
      rw [heq2] at href
      simp only [Out.err.injEq] at href
      subst href
      exact Or.inr (Or.inl ⟨s1, s2, heq, heq2, rfl⟩)
    · rename_i s2 heq2
      rw [heq2] at href
      simp only at href ⊢
      by_cases hrd : nodeReady P s2 n = true
      · simp only [hrd, if_true] at href
        split at href <;> cases href
      · simp only [hrd] at href ⊢
        simp only [Bool.false_eq_true, if_false, Out.err.injEq] at href ⊢
        exact Or.inr (Or.inr ⟨s1, s2, heq, heq2, by simpa using hrd, href.symm, rfl⟩)

/-! ## histories through serialisation

`Data.Op.roundTrip scope comps` — `pickle.loads(pickle.dumps(obj))` of the node / graph whose channels
are `scope`, the history going on with the copy — is one of the operations of `Data.Op`.  So
`C03_recency`, `C03_no_bad_store_step` and `C03_no_bad_store` above already speak about histories with
round trips at any point (the latter two under `CopyOk P`: pickle maps the marker to the marker and a
copy has the type of its original), and every theorem stated for **all** states (`C03_fetch_spec`,
`C03_fetch_value`, `C03_keeps_own`, `C03_gate`, `C03_called_with`, `C03_refusal_kind`,
`C03_refused_clean`, `C03_bad_rejected`, `C03_forward_checked`, `C03_refused_assignment_noop`) holds of
the copy as of any other state.  What remains is that the copy **is** the state the history had
reached, as far as C03 can see — this is what the theorems below say, and where the current tree
falls short (`C03_roundtrip_reverses_witness`). -/

/-- a round trip that raises (`dumps` / `loads`) leaves the original untouched -/
theorem C03_roundtrip_failed_noop (P : Params) (fuel : Nat) (s : S) (scope : List Nat) (comps : List Comp)
    (h : (roundTrip P fuel s scope comps).2 ≠ none) : roundTrip P fuel s scope comps = (s, some .serial) := by
  unfold roundTrip at h ⊢
  split
  · rename_i s' heq; rw [heq] at h; exact absurd rfl h
  · rfl

/-- no round trip — whatever the switches, successful or not — touches kinds, owners, hints,
strictness, panels, `running` / `failed` or the call log; in particular nothing is called -/
theorem C03_roundtrip_static (P : Params) (fuel : Nat) (s : S) (scope : List Nat) (comps : List Comp) :
    RtFrame s (roundTrip P fuel s scope comps).1 :=
  roundTrip_rtframe P fuel s scope comps

/-- **no value is invented**, whatever the switches: after a round trip every channel holds the
copy of a value some channel held before (its own, or — where a re-forged value link pushes — its
sender's) -/
theorem C03_roundtrip_no_invention (P : Params) (fuel : Nat) (s : S) (scope : List Nat) (comps : List Comp)
    (hok : (roundTrip P fuel s scope comps).2 = none) :
    ∀ c, ∃ c', (roundTrip P fuel s scope comps).1.val c = if c' ∈ scope then P.copyVal (s.val c') else s.val c' := by
  unfold roundTrip at hok ⊢
  have h := restoreAll_noNew P fuel s (rtClear P s scope).val (rtClear P s scope) comps (fun c => ⟨c, rfl⟩)
  split
  · rename_i s' heq
    rw [heq] at h
    intro c
    obtain ⟨c', hc'⟩ := h c
    exact ⟨c', by rw [hc']; rfl⟩
  · rename_i heq
    simp [heq] at hok

/-- hence "no data" after the round trip means "no data" before, for some channel: where the marker
comes back as the marker and data as data, a round trip cannot make a missing value appear -/
theorem C03_roundtrip_marker (P : Params) (fuel : Nat) (s : S) (scope : List Nat) (comps : List Comp)
    (hdata : ∀ v, v ≠ .nd → P.copyVal v ≠ .nd) (hmark : P.copyVal .nd = .nd)
    (hok : (roundTrip P fuel s scope comps).2 = none) (c : Nat) :
    ((roundTrip P fuel s scope comps).1.val c = .nd → ∃ c', s.val c' = .nd) ∧
    ((roundTrip P fuel s scope comps).1.val c ≠ .nd → ∃ c', s.val c' ≠ .nd) := by
  obtain ⟨c', hc'⟩ := C03_roundtrip_no_invention P fuel s scope comps hok c
  rw [hc']
  by_cases hsc : c' ∈ scope
  · simp only [hsc, if_true]
    constructor
    · intro h
      refine ⟨c', ?_⟩
      cases hv : s.val c' with
      | nd => rfl
      | d k => exact absurd h (hdata _ (by rw [hv]; simp))
      | nd2 => exact absurd h (hdata _ (by rw [hv]; simp))
    · intro h
      refine ⟨c', ?_⟩
      intro hv
      rw [hv, hmark] at h
      exact h rfl
  · simp only [hsc, if_false]
    exact ⟨fun h => ⟨c', h⟩, fun h => ⟨c', h⟩⟩

/-- with both kinds of value link re-forged by plain assignment, every channel of the pickled object
holds exactly the copy of its own value, every other channel its own value -/
theorem C03_roundtrip_values (P : Params) (fuel : Nat) (s : S) (scope : List Nat) (comps : List Comp)
    (hin : P.cfg.pushIn = false) (hout : P.cfg.pushOut = false)
    (hok : (roundTrip P fuel s scope comps).2 = none) (c : Nat) :
    (roundTrip P fuel s scope comps).1.val c = if c ∈ scope then P.copyVal (s.val c) else s.val c := by
  unfold roundTrip at hok ⊢
  have h := restoreAll_val P fuel s (rtClear P s scope) comps hin hout
  split
  · rename_i s' heq
    rw [heq] at h
    simp only at h
    rw [h]
    rfl
  · rename_i heq
    simp [heq] at hok

/-- a graph as pyiron builds it, seen from its composites: every data input of a child is listed
once, is part of the pickled object, and each of its upstream outputs is found under its own labels
among the outputs of the children of the same composite -/
structure Closed (s : S) (scope : List Nat) (comps : List Comp) : Prop where
  nodup   : (allIns comps).Nodup
  inScope : ∀ i ∈ allIns comps, i ∈ scope
  isIn    : ∀ i ∈ allIns comps, s.kind i = .dataIn
  resId   : ∀ C ∈ comps, ∀ i ∈ C.ins, ∀ o ∈ s.conns i, C.resOut.lookup o = some o
  own     : ∀ C ∈ comps, ∀ i ∈ C.ins, ∀ o ∈ s.conns i, o ∈ C.kouts

/-- **the order survives** where the restoration reconnects in reverse stored order (`revIter`, the
repair of KF-C07-1): every input of every composite comes back with exactly the connection list it
had, newest first — so "most recently connected" means the same before and after -/
theorem C03_roundtrip_keeps_order (P : Params) (fuel : Nat) (s : S) (scope : List Nat) (comps : List Comp)
    (hrev : P.cfg.revIter = true) (hwf : WF P s) (hcl : Closed s scope comps)
    (hok : (roundTrip P fuel s scope comps).2 = none) :
    ∀ i ∈ allIns comps, (roundTrip P fuel s scope comps).1.conns i = s.conns i := by
  have hA : ∀ i ∈ allIns comps, ∀ o ∈ s.conns i, o ∉ allIns comps := by
    intro i hi o ho hm
    have ht := hwf.conn.typed i o ho
    simp only [toG] at ht
    rw [hcl.isIn i hi, hcl.isIn o hm] at ht
    simp [Kind.conj] at ht
  unfold roundTrip at hok ⊢
  split
  · rename_i s' heq
    have := restoreAll_order P fuel s hrev (allIns comps) hA (fun i _ => hwf.conn.nodup i) comps
      (rtClear P s scope) s' (fun _ h => h) hcl.nodup hcl.resId hcl.own
      (fun i hi => by simp [rtClear, hcl.inScope i hi]) heq
    exact this.1
  · rename_i heq
    simp [heq] at hok

/-- **the gate and the call are the same before and after**: with the repaired restoration (order
kept, links by plain assignment) and values copied faithfully, a function node of the graph is
invoked by a run of the copy iff it is by a run of the original, and with the same arguments -/
theorem C03_roundtrip_gate (P : Params) (fuel fuel' : Nat) (s : S) (scope : List Nat) (comps : List Comp)
    (n : Nat) (hrev : P.cfg.revIter = true) (hin : P.cfg.pushIn = false) (hout : P.cfg.pushOut = false)
    (hcopy : P.copyVal = id) (hwf : WF P s) (hcl : Closed s scope comps) (hp : Panel s n)
    (hn : ∀ i ∈ s.ins n, i ∈ allIns comps)
    (hok : (roundTrip P fuel' s scope comps).2 = none) :
    let s' := (roundTrip P fuel' s scope comps).1
    (runNode P (fuel + 1) s' n []).2.isInvoked = (runNode P (fuel + 1) s n []).2.isInvoked ∧
    ((runNode P (fuel + 1) s n []).2.isInvoked = true →
      (runNode P (fuel + 1) s' n []).1.calls = s.calls ++ [(n, (s.ins n).map (fetchVal s))] ∧
      (runNode P (fuel + 1) s n []).1.calls = s.calls ++ [(n, (s.ins n).map (fetchVal s))]) := by
  intro s'
  have hfr : RtFrame s s' := roundTrip_rtframe P fuel' s scope comps
  have hval : s'.val = s.val := by
    funext c
    have := C03_roundtrip_values P fuel' s scope comps hin hout hok c
    simp only [s']
    rw [this, hcopy]
    simp
  have hconns : ∀ i ∈ s.ins n, s'.conns i = s.conns i :=
    fun i hi => C03_roundtrip_keeps_order P fuel' s scope comps hrev hwf hcl hok i (hn i hi)
  have hwf' : WF P s' := roundTrip_pres (wf_pres P) fuel' s scope comps hwf
  have hrecv : ∀ i ∈ s.ins n, s'.recv i = none := by
    intro i hi
    have hri := (hp.isIn i hi).2.2
    simp only [s']
    unfold roundTrip at hok ⊢
    split
    · rename_i s1 heq
      have := restoreAll_recv P fuel' s (rtClear P s scope) comps i hri
      rw [heq] at this
      simp only at this
      rw [this]
      simp only [rtClear]
      split
      · rfl
      · rw [hri]
    · exact hri
  have hp' : Panel s' n := by
    refine ⟨?_, by rw [hfr.ins]; exact hp.nodup⟩
    intro i hi
    rw [hfr.ins] at hi
    exact ⟨by rw [hfr.kind]; exact (hp.isIn i hi).1, by rw [hfr.owner]; exact (hp.isIn i hi).2.1, hrecv i hi⟩
  have hfv : ∀ i ∈ s.ins n, fetchVal s' i = fetchVal s i := by
    intro i hi
    unfold fetchVal
    rw [hconns i hi, hval]
    rw [firstData_congr s s' (s.conns i) (fun a _ => by rw [hval])]
  have hiff : (runNode P (fuel + 1) s' n []).2.isInvoked = true ↔ (runNode P (fuel + 1) s n []).2.isInvoked = true := by
    rw [C03_gate_closed P fuel s' n hwf' hp', C03_gate_closed P fuel s n hwf hp, hfr.running, hfr.failed, hfr.ins]
    constructor
    · intro ⟨h1, h2, h3⟩
      refine ⟨h1, h2, fun i hi => ?_⟩
      have := h3 i hi
      rw [hfv i hi] at this
      exact ⟨this.1, by rw [← hfr.hinted, ← hfr.strict]; exact this.2⟩
    · intro ⟨h1, h2, h3⟩
      refine ⟨h1, h2, fun i hi => ?_⟩
      have := h3 i hi
      rw [hfv i hi]
      exact ⟨this.1, by rw [hfr.hinted, hfr.strict]; exact this.2⟩
  refine ⟨?_, ?_⟩
  · cases h1 : (runNode P (fuel + 1) s' n []).2.isInvoked <;>
      cases h2 : (runNode P (fuel + 1) s n []).2.isInvoked <;> simp_all
  · intro hinv
    refine ⟨?_, C03_called_with_closed P fuel s n hwf hp hinv⟩
    rw [C03_called_with_closed P fuel s' n hwf' hp' (hiff.mpr hinv), hfr.calls, hfr.ins]
    congr 3
    exact List.map_congr_left hfv

/-! ## the general run: composites, cache, executors

`Data.Op.run` is `runAny`: `Node.run` of ANY node — a function node or a composite of any nesting depth,
with the cache on or off; `Op.submit` / `Op.complete` split a run at the executor boundary.  The gate
is one and the same (`admission`): keywords, fetch, then — only for a node that is ready — the cache
decision, else the refusal. -/

/-- the keyword loop is a sequence of atomic assignments, not an atomic whole: a refused keyword
changes nothing itself, the keywords before it stay delivered, the ones after it are not looked at.
(The statement asks that nothing is *called* and that no channel takes a value its hint rejects —
both hold — not that an aborted call rolls back its accepted assignments.) -/
theorem C03_setInputs_refused_prefix (P : Params) (fuel : Nat) (s : S) (kw : List (Nat × Arg)) (e : Err)
    (h : (setInputs P fuel s kw).2 = some e) :
    ∃ kw1 p kw2, kw = kw1 ++ p :: kw2 ∧ (setInputs P fuel s kw1).2 = none ∧
      assign P fuel (setInputs P fuel s kw1).1 p.1 p.2 = ((setInputs P fuel s kw1).1, some e) ∧
      (setInputs P fuel s kw).1 = (setInputs P fuel s kw1).1 := by
  induction kw generalizing s with
  | nil => simp [setInputs] at h
  | cons p kw ih =>
    obtain ⟨c, a⟩ := p
    unfold setInputs at h
    cases ha : assign P fuel s c a with
    | mk s' r =>
      rw [ha] at h
      cases r with
      | some e' =>
        simp only [Option.some.injEq] at h
        subst h
        refine ⟨[], (c, a), kw, rfl, rfl, ?_, ?_⟩
        · simp only [setInputs]
          have hs' : s' = s := by
            cases a with
            | v x =>
              have := setVal_err P fuel s c x e' (by simp only [assign] at ha; rw [ha])
              simp only [assign] at ha; rw [ha] at this; exact this
            | ch o =>
              simp only [assign] at ha
              rcases connectS_cases P s c o with hc | ⟨_, _, hok, _⟩
              · rw [ha] at hc; exact hc
              · rw [ha] at hok; cases hok
          rw [ha, hs']
        · simp only [setInputs]
          conv => lhs; unfold setInputs
          rw [ha]
          have hs' : s' = s := by
            cases a with
            | v x =>
              have := setVal_err P fuel s c x e' (by simp only [assign] at ha; rw [ha])
              simp only [assign] at ha; rw [ha] at this; exact this
            | ch o =>
              simp only [assign] at ha
              rcases connectS_cases P s c o with hc | ⟨_, _, hok, _⟩
              · rw [ha] at hc; exact hc
              · rw [ha] at hok; cases hok
          exact hs'
      | none =>
        simp only at h
        obtain ⟨kw1, q, kw2, hk, h1, h2, h3⟩ := ih s' h
        refine ⟨(c, a) :: kw1, q, kw2, by rw [hk]; rfl, ?_, ?_, ?_⟩
        · conv => lhs; unfold setInputs
          rw [ha]; exact h1
        · have : setInputs P fuel s ((c, a) :: kw1) = setInputs P fuel s' kw1 := by
            conv => lhs; unfold setInputs
            rw [ha]
          rw [this]; exact h2
        · have e1 : setInputs P fuel s ((c, a) :: kw) = setInputs P fuel s' kw := by
            conv => lhs; unfold setInputs
            rw [ha]
          have e2 : setInputs P fuel s ((c, a) :: kw1) = setInputs P fuel s' kw1 := by
            conv => lhs; unfold setInputs
            rw [ha]
          rw [e1, e2]; exact h3

/-- **the gate of any node**: whatever a run serves — a fresh invocation or an answer from the cache —
the keywords and the fetch raised nothing and the node was ready (not running, not failed, every
input holding data its strict hint accepts) in exactly the state the fetch left.  In particular a
cache hit never serves a run the gate would refuse. -/
theorem C03_admission_gate (P : Params) (fuel : Nat) (s : S) (n : Nat) (kw : List (Nat × Arg)) :
    (∀ s' args, admission P fuel s n kw = (s', .admitted args) →
      ∃ s1 s2, setInputs P fuel s kw = (s1, none) ∧ fetchAll P fuel s1 (s1.ins n) = (s2, none) ∧
        nodeReady P s2 n = true ∧ args = (s2.ins n).map s2.val ∧
        (s2.useCache n && cacheHit P s2 n args) = false) ∧
    (∀ s', admission P fuel s n kw = (s', .hit) →
      ∃ s1, setInputs P fuel s kw = (s1, none) ∧ fetchAll P fuel s1 (s1.ins n) = (s', none) ∧
        nodeReady P s' n = true ∧ s'.useCache n = true ∧ cacheHit P s' n ((s'.ins n).map s'.val) = true) := by
  rcases admission_spec P fuel s n kw with ⟨s1, e, _, h⟩ | ⟨s1, s2, e, _, _, h⟩ | ⟨s1, s2, h1, h2, h⟩
  · exact ⟨fun s' a ha => (by rw [h] at ha; cases ha), fun s' ha => (by rw [h] at ha; cases ha)⟩
  · exact ⟨fun s' a ha => (by rw [h] at ha; cases ha), fun s' ha => (by rw [h] at ha; cases ha)⟩
  · rcases h with ⟨_, h⟩ | ⟨hr, hu, hc, h⟩ | ⟨hr, hc, h⟩
    · exact ⟨fun s' a ha => (by rw [h] at ha; cases ha), fun s' ha => (by rw [h] at ha; cases ha)⟩
    · refine ⟨fun s' a ha => (by rw [h] at ha; cases ha), fun s' ha => ?_⟩
      rw [h] at ha
      simp only [Prod.mk.injEq, and_true] at ha
      subst ha
      exact ⟨s1, h1, h2, hr, hu, hc⟩
    · refine ⟨fun s' a ha => ?_, fun s' ha => (by rw [h] at ha; cases ha)⟩
      rw [h] at ha
      simp only [Prod.mk.injEq, Adm.admitted.injEq] at ha
      exact ⟨s1, s2, h1, h2, hr, ha.2.symm, ha.2 ▸ hc⟩

/-- a run that is not admitted — refused by a keyword, by the fetch or at the gate, or answered from
the cache — calls **no function at all**, of the node or of any child, grandchild, …: for a composite
whose input holds no data, or data its strict hint rejects, not one child function runs -/
theorem C03_not_admitted_runs_nothing (P : Params) (fuel d : Nat) (s : S) (n : Nat) (kw : List (Nat × Arg))
    (h : ∀ args, (admission P fuel s n kw).2 ≠ .admitted args) :
    (runAny P fuel d s n kw).1.calls = s.calls ∧
    ((runAny P fuel (d + 1) s n kw).2 = .hit ∨ ∃ e, (runAny P fuel (d + 1) s n kw).2 = .err e) := by
  have hs := (admission_stat P fuel s n kw).2
  constructor
  · cases d with
    | zero => rfl
    | succ d =>
      unfold runAny
      cases ha : admission P fuel s n kw with
      | mk s' a =>
        rw [ha] at h hs
        cases a with
        | refused e => exact hs
        | hit => exact hs
        | admitted args => exact absurd rfl (h args)
  · unfold runAny
    cases ha : admission P fuel s n kw with
    | mk s' a =>
      rw [ha] at h
      cases a with
      | refused e => exact Or.inr ⟨e, rfl⟩
      | hit => exact Or.inl rfl
      | admitted args => exact absurd rfl (h args)

/-- **no function is ever called on missing or ill-typed data**: every entry a run adds to the call
log — by the node itself or, for a composite of any depth, by any descendant; cache on or off — is a
call with one value per input of the callee, each of them data that the input's strict hint accepts -/
theorem C03_calls_always_good (P : Params) (fuel d : Nat) (s : S) (n : Nat) (kw : List (Nat × Arg)) :
    ∃ new, (runAny P fuel d s n kw).1.calls = s.calls ++ new ∧ ∀ e ∈ new, GoodCall P s e :=
  (runAny_good P fuel d s n kw).2

/-- a run shipped to an executor: the gate is evaluated by the submitter on the local channels, the
arguments are fixed there and then, the node is `running` (its inputs locked) while the job is out … -/
theorem C03_submit_gate (P : Params) (fuel : Nat) (s : S) (n : Nat) (kw : List (Nat × Arg))
    (h : (submitRun P fuel s n kw).2 = .submitted) :
    ∃ s1 s2 args, setInputs P fuel s kw = (s1, none) ∧ fetchAll P fuel s1 (s1.ins n) = (s2, none) ∧
      nodeReady P s2 n = true ∧ args = (s2.ins n).map s2.val ∧ GoodCall P s (n, args) ∧
      (submitRun P fuel s n kw).1.pending n = s.pending n ++ [args] ∧ (submitRun P fuel s n kw).1.running n = true ∧
      (submitRun P fuel s n kw).1.calls = s.calls := by
  unfold submitRun at h ⊢
  cases ha : admission P fuel s n kw with
  | mk s' a =>
    rw [ha] at h
    cases a with
    | refused e => cases h
    | hit => cases h
    | admitted args =>
      obtain ⟨s1, s2, h1, h2, hr, hargs, _⟩ := (C03_admission_gate P fuel s n kw).1 s' args ha
      have hg := admission_admitted P fuel s n kw s' args ha
      have hc := (admission_stat P fuel s n kw).2
      rw [ha] at hc
      have hp := admission_pending P fuel s n kw
      rw [ha] at hp
      refine ⟨s1, s2, args, h1, h2, hr, hargs, hg, by simp only [updF_same]; rw [hp], ?_, hc⟩
      rcases admission_spec P fuel s n kw with ⟨_, _, _, h'⟩ | ⟨_, _, _, _, _, h'⟩ | ⟨t1, t2, _, _, h'⟩
      · rw [ha] at h'; cases h'
      · rw [ha] at h'; cases h'
      · rcases h' with ⟨_, h'⟩ | ⟨_, _, _, h'⟩ | ⟨_, _, h'⟩
        · rw [ha] at h'; cases h'
        · rw [ha] at h'; cases h'
        · rw [ha] at h'
          simp only [Prod.mk.injEq] at h'
          rw [h'.1]; simp [updF]

/-- … and when the job completes the function is called exactly once, on exactly those arguments —
whatever was assigned, fetched, connected or pickled in between -/
theorem C03_complete_calls (P : Params) (fuel : Nat) (s : S) (n : Nat) (args : List Val) (rest : List (List Val))
    (h : s.pending n = args :: rest) :
    (completeRun P fuel s n).1.calls = s.calls ++ [(n, args)] ∧
    (completeRun P fuel s n).2.isInvoked = true ∧ (completeRun P fuel s n).1.pending n = rest := by
  unfold completeRun
  rw [h]
  have := finishRun_facts P fuel { s with pending := updF s.pending n rest } n args
  exact ⟨this.2.1, this.1, by rw [this.2.2]; simp [updF]⟩

/-- the local run of a function node with the cache off is the `runNode` of the theorems above: same
refusals, same invocation, same call log -/
theorem C03_run_function_node (P : Params) (fuel d : Nat) (s : S) (n : Nat) (kw : List (Nat × Arg))
    (hk : s.kids n = []) (hc : s.useCache n = false) :
    (∀ e, (runAny P fuel (d + 1) s n kw).2 = .err e ↔ (runNode P fuel s n kw).2 = .err e) ∧
    ((runAny P fuel (d + 1) s n kw).2.isInvoked = (runNode P fuel s n kw).2.isInvoked) ∧
    (runAny P fuel (d + 1) s n kw).1.calls = (runNode P fuel s n kw).1.calls := by
  rcases admission_spec P fuel s n kw with ⟨s1, e, h1, h⟩ | ⟨s1, s2, e, h1, h2, h⟩ | ⟨s1, s2, h1, h2, h⟩
  · have hr : runNode P fuel s n kw = (s1, .err e) := by simp [runNode, h1]
    have ha : runAny P fuel (d + 1) s n kw = (s1, .err e) := by simp [runAny, h]
    rw [hr, ha]; exact ⟨fun _ => Iff.rfl, rfl, rfl⟩
  · have hr : runNode P fuel s n kw = (s2, .err e) := by simp [runNode, h1, h2]
    have ha : runAny P fuel (d + 1) s n kw = (s2, .err e) := by simp [runAny, h]
    rw [hr, ha]; exact ⟨fun _ => Iff.rfl, rfl, rfl⟩
  · have hs1 := setInputs_stat P fuel s kw
    rw [h1] at hs1
    have hs2 := fetchAll_stat P fuel s1 (s1.ins n)
    rw [h2] at hs2
    have hk2 : s2.kids n = [] := by rw [hs2.1.kids, hs1.1.kids]; exact hk
    have hc2 : s2.useCache n = false := by rw [hs2.1.useCache, hs1.1.useCache]; exact hc
    rcases h with ⟨hrd, h⟩ | ⟨_, hu, _, _⟩ | ⟨hrd, _, h⟩
    · have hr : runNode P fuel s n kw = (s2, .err .readiness) := by simp [runNode, h1, h2, hrd]
      have ha : runAny P fuel (d + 1) s n kw = (s2, .err .readiness) := by simp [runAny, h]
      rw [hr, ha]; exact ⟨fun _ => Iff.rfl, rfl, rfl⟩
    · rw [hc2] at hu; cases hu
    · have ha : runAny P fuel (d + 1) s n kw =
          finishRun P fuel { s2 with cached := updF s2.cached n none, running := updF s2.running n true } n
            ((s2.ins n).map s2.val) := by
        simp [runAny, h, hk2]
      have hf := finishRun_facts P fuel { s2 with cached := updF s2.cached n none, running := updF s2.running n true } n
        ((s2.ins n).map s2.val)
      have hinv : (runNode P fuel s n kw).2.isInvoked = true := by
        rw [C03_gate]
        refine ⟨s1, s2, h1, h2, ?_⟩
        have := hrd
        unfold nodeReady at this
        simp only [Bool.and_eq_true, Bool.not_eq_true', List.all_eq_true] at this
        exact ⟨this.1.1, this.1.2, fun i hi => (chanReady_iff P s2 i).mp (this.2 i hi)⟩
      have hcalls := C03_called_with P fuel s n kw s1 s2 h1 h2 hinv
      rw [ha]
      refine ⟨fun e => ?_, by rw [hf.1, hinv], ?_⟩
      · constructor
        · intro hh; rw [hh] at hf; simp [Out.isInvoked] at hf
        · intro hh; rw [hh] at hinv; simp [Out.isInvoked] at hinv
      · rw [hf.2.1, hcalls]
        show s2.calls ++ _ = _
        rw [hs2.2, hs1.2]

/-- `save()` / `load()` through a file is the round trip followed by a second `__setstate__` of the top
composite (`Node.load`: `self.__setstate__(inst.__getstate__())`) whose children arrive still connected:
the stored pairs are what the input lists hold, every re-`connect` finds its pair present, nothing moves —
in whichever order the loop runs -/
theorem C03_file_second_restore_noop (P : Params) (st : S) (C : Comp)
    (hres : ∀ i ∈ C.ins, ∀ o ∈ st.conns i, C.resOut.lookup o = some o) :
    restoreConns P st C.resOut (if P.cfg.revIter then (saved P st C).reverse else saved P st C) = (st, none) := by
  apply restoreConns_present
  have hmem : ∀ p ∈ saved P st C, C.resOut.lookup p.2 = some p.2 ∧ p.2 ∈ st.conns p.1 := by
    intro p hp
    have hp' : p ∈ strings st C.ins := by
      unfold saved at hp
      split at hp
      · exact (List.mem_filter.mp hp).1
      · exact hp
    unfold strings at hp'
    obtain ⟨i, hi, hp'⟩ := List.mem_flatMap.mp hp'
    obtain ⟨o, ho, hpo⟩ := List.mem_map.mp hp'
    subst hpo
    exact ⟨hres i hi o ho, ho⟩
  intro p hp
  split at hp
  · exact hmem p (List.mem_reverse.mp hp)
  · exact hmem p hp

/-! ## what the fetch and the gate do NOT depend on

Which upstream an input takes is a function of the input's connection list and of which upstream channels
hold data — not of what the upstream NODES are doing (running on an executor, failed, cached, jobs
out).  Whether a node is ready is a function of the values its inputs hold NOW — not of what was
validated when they were assigned. -/

/-- the choice of the fetch loop, and the value the input ends with, are the same whatever the run
state of every node is -/
theorem C03_priority_ignores_run_state (s : S) (i : Nat) (r f : Nat → Bool) (l : List (Nat × List Val))
    (c : Nat → Option (List Val)) (p : Nat → List (List Val)) :
    let t : S := { s with running := r, failed := f, calls := l, cached := c, pending := p }
    firstData t (t.conns i) = firstData s (s.conns i) ∧ fetchVal t i = fetchVal s i := by
  intro t
  have h : firstData t (s.conns i) = firstData s (s.conns i) := firstData_congr s t _ (fun _ _ => rfl)
  exact ⟨h, by unfold fetchVal; rw [show t.conns i = s.conns i from rfl, h]⟩

/-- the whole fetch of an input (without receiver) commutes with any change of the run state of OTHER
nodes — in particular of the nodes that own its upstream outputs: same outcome, same stored value -/
theorem C03_fetch_ignores_upstream_run_state (P : Params) (fuel : Nat) (s : S) (i : Nat) (r f : Nat → Bool)
    (hr : s.recv i = none) (hown : r (s.owner i) = s.running (s.owner i)) :
    fetch1 P (fuel + 1) { s with running := r, failed := f } i =
      ({ (fetch1 P (fuel + 1) s i).1 with running := r, failed := f }, (fetch1 P (fuel + 1) s i).2) := by
  have hfd : firstData { s with running := r, failed := f } (s.conns i) = firstData s (s.conns i) :=
    firstData_congr s _ _ (fun _ _ => rfl)
  unfold fetch1
  simp only
  rw [hfd]
  cases firstData s (s.conns i) with
  | none => rfl
  | some v =>
    simp only
    rw [setVal_norecv P fuel s i v hr, setVal_norecv P fuel { s with running := r, failed := f } i v hr]
    simp only [hown]
    split
    · rfl
    · split <;> rfl

/-- a fetch that passes over upstreams whose owner is mid-run (seeded change C03-7) -/
def firstDataSkipRunning (s : S) : List Nat → Option Val
  | [] => none
  | o :: os =>
    if s.val o ≠ .nd ∧ s.running (s.owner o) = false then some (s.val o) else firstDataSkipRunning s os

theorem all_congr_mem {α} (l : List α) (f g : α → Bool) (h : ∀ x ∈ l, f x = g x) : l.all f = l.all g := by
  induction l with
  | nil => rfl
  | cons a l ih =>
    simp only [List.all_cons]
    rw [h a (by simp), ih (fun x hx => h x (List.mem_cons_of_mem _ hx))]

/-- readiness reads the CURRENT values: two states that agree on the node's flags, its input panel and what
its inputs hold and how they are hinted give the same verdict — there is no memory of earlier validations -/
theorem C03_ready_current_value (P : Params) (s t : S) (n : Nat) (h1 : t.running n = s.running n)
    (h2 : t.failed n = s.failed n) (h3 : t.ins n = s.ins n)
    (h4 : ∀ i ∈ s.ins n, t.val i = s.val i ∧ t.hinted i = s.hinted i ∧ t.strict i = s.strict i) :
    nodeReady P t n = nodeReady P s n := by
  unfold nodeReady
  rw [h1, h2, h3]
  congr 1
  apply all_congr_mem
  intro i hi
  obtain ⟨a, b, c⟩ := h4 i hi
  unfold chanReady
  rw [a, b, c]

theorem fetchAll_noconn (P : Params) (fuel : Nat) (s : S) (is : List Nat) (h : ∀ i ∈ is, s.conns i = []) :
    fetchAll P fuel s is = (s, none) := by
  induction is with
  | nil => rfl
  | cons i is ih =>
    unfold fetchAll fetch1
    rw [h i (by simp)]
    simp only [firstData]
    exact ih (fun j hj => h j (List.mem_cons_of_mem _ hj))

/-- **the gate re-validates**: a mutable value was delivered while valid and is then changed in place so
that the strict hint of an input of `n` rejects it; the next run — without any new assignment — is refused
with a ReadinessError, nothing is called, nothing else changes -/
theorem C03_mutation_shuts_gate (P : Params) (fuel d : Nat) (s : S) (n i k k' : Nat)
    (hi : i ∈ s.ins n) (hv : s.val i = .d k) (hs : s.strict i = true) (hh : s.hinted i = true)
    (ha : P.admits i (.d k') = false) (hc : ∀ j ∈ s.ins n, s.conns j = []) :
    runAny P fuel (d + 1) (mutateS s k k') n [] = (mutateS s k k', .err .readiness) := by
  have hnr : nodeReady P (mutateS s k k') n = false := by
    unfold nodeReady
    have : chanReady P (mutateS s k k') i = false := by
      unfold chanReady
      have hval : (mutateS s k k').val i = .d k' := by simp [mutateS, substVal, hv]
      rw [hval]
      show (decide (Val.d k' ≠ Val.nd) && (!(s.hinted i && s.strict i) || P.admits i (.d k'))) = false
      simp [hs, hh, ha]
    have hall : ((mutateS s k k').ins n).all (chanReady P (mutateS s k k')) = false := by
      rw [List.all_eq_false]
      exact ⟨i, hi, by rw [this]; simp⟩
    rw [hall]; simp
  have hadm : admission P fuel (mutateS s k k') n [] = (mutateS s k k', .refused .readiness) := by
    unfold admission
    simp only [setInputs]
    rw [fetchAll_noconn P fuel (mutateS s k k') ((mutateS s k k').ins n) (fun j hj => hc j hj)]
    simp [hnr]
  unfold runAny
  rw [hadm]

/-- readiness that trusts a verdict remembered from the assignment (seeded change C03-8): `memo c` = the
object in `c` passed `c`'s hint when it was assigned -/
def chanReadyMemo (memo : Nat → Bool) (P : Params) (s : S) (c : Nat) : Bool :=
  s.val c ≠ .nd && (!(s.hinted c && s.strict c) || memo c || P.admits c (s.val c))

/-! ## replacing a consumer

`Op.replace n pins pouts` — `Composite.replace_child` / `Node.replace_with` / `composite.label = Class` with a
fresh instance of the node's class — is an operation of the histories (`C03_recency`, `C03_no_bad_store` range
over it).  The replacement inherits the connection ORDER. -/

/-- whatever a replacement does — refused or carried out — every connection list and every time stamp
that `C03_most_recent` reads is exactly as before: the fresh node sits where the old one sat, in its own
lists and in every neighbour's -/
theorem C03_replace_keeps_order (P : Params) (fuel : Nat) (s : S) (n : Nat) (pins pouts : List Nat) :
    (replaceNode P fuel s n pins pouts).1.conns = s.conns ∧
    (replaceNode P fuel s n pins pouts).1.since = s.since ∧
    (replaceNode P fuel s n pins pouts).1.clock = s.clock := by
  unfold replaceNode
  simp only
  split
  · obtain ⟨a, b, c⟩ := pushAll_ghost P fuel _
      (softCopy P fuel s (resetNode s n (s.ins n ++ s.outs n)) (s.ins n ++ s.outs n))
    obtain ⟨a', b', c', _⟩ := softCopy_ghost P fuel s (resetNode s n (s.ins n ++ s.outs n)) (s.ins n ++ s.outs n)
    exact ⟨a.trans a', b.trans b', c.trans c'⟩
  · exact ⟨rfl, rfl, rfl⟩

/-- **replace preserves fetch priority**: for a child of a workflow (no value links to a parent's IO), every
input of the replaced node whose upstreams belong to other nodes finds, after the replacement, the very
same first connection holding data — the fetch loop makes the same choice before and after -/
theorem C03_replace_keeps_priority (P : Params) (fuel : Nat) (s : S) (n i : Nat)
    (hup : ∀ o ∈ s.conns i, o ∉ s.ins n ++ s.outs n) :
    let s' := (replaceNode P (fuel + 1) s n [] []).1
    s'.conns i = s.conns i ∧ firstData s' (s'.conns i) = firstData s (s.conns i) := by
  intro s'
  have hc := (C03_replace_keeps_order P (fuel + 1) s n [] []).1
  refine ⟨by rw [hc], ?_⟩
  rw [show s'.conns i = s.conns i from by rw [hc]]
  apply firstData_congr
  intro o ho
  simp only [s']
  rw [replaceNode_top]
  by_cases hv : replValid P s (s.ins n ++ s.outs n) = true
  · simp only [hv, if_true]
    rw [softCopy_val_other P fuel s (resetNode s n (s.ins n ++ s.outs n)) (s.ins n ++ s.outs n)
      (fun c hc' => by simp only [resetNode, hc', if_true]) o (hup o ho)]
    simp only [resetNode, hup o ho, if_false]
  · simp only [hv]
    rfl

/-! ## several partners in one `connect` call -/

/-- `a.connect(b₁, …, bₙ)` is the sequence `a.connect(b₁); …; a.connect(bₙ)` — nothing more (so `C03_recency`,
`C03_stamp`, `C03_most_recent` speak about it): … -/
theorem C03_connect_many_seq (P : Params) (s : S) (a b : Nat) (bs : List Nat) :
    ((connectS P s a b).2 = none → connectMany P s a (b :: bs) = connectMany P (connectS P s a b).1 a bs) ∧
    (∀ e, (connectS P s a b).2 = some e → connectMany P s a (b :: bs) = ((connectS P s a b).1, some e)) := by
  rw [connectMany]
  cases hc : connectS P s a b with
  | mk s' r =>
    cases r with
    | none => exact ⟨fun _ => rfl, fun e he => (by cases he)⟩
    | some e' => exact ⟨fun h => (by cases h), fun e he => (by cases he; rfl)⟩

/-- … when all partners are new and accepted, the input's list begins with them in REVERSE order of the call: the
last one listed is the most recently connected and has the highest fetch priority -/
theorem C03_connect_many_order (P : Params) (s : S) (a : Nat) (bs : List Nat)
    (hnew : ∀ b ∈ bs, b ∉ s.conns a) (hnd : bs.Nodup) (hne : ∀ b ∈ bs, b ≠ a)
    (hok : (connectMany P s a bs).2 = none) :
    (connectMany P s a bs).1.conns a = bs.reverse ++ s.conns a := by
  induction bs generalizing s with
  | nil => simp [connectMany]
  | cons b bs ih =>
    rw [connectMany] at hok ⊢
    cases hc : connectS P s a b with
    | mk s' e =>
      rw [hc] at hok
      cases e with
      | some e => simp at hok
      | none =>
        simp only at hok ⊢
        have hk : (connectS P s a b).2 = none := by rw [hc]
        obtain ⟨heq, _⟩ := connectS_effective P s a b (hnew b (by simp)) hk
        rw [hc] at heq
        simp only at heq
        have hba : b ≠ a := hne b (by simp)
        have hs' : s'.conns a = b :: s.conns a := by rw [heq]; simp [updF, Ne.symm hba]
        have hnd' := List.nodup_cons.mp hnd
        rw [ih s' ?_ hnd'.2 (fun x hx => hne x (List.mem_cons_of_mem _ hx)) hok, hs']
        · simp
        · intro x hx hm
          rw [hs'] at hm
          rcases List.mem_cons.mp hm with rfl | hm
          · exact hnd'.1 hx
          · exact hnew x (List.mem_cons_of_mem _ hx) hm

/-! ## concrete worlds (non-vacuity and the witness for the excluded operation) -/

def exKind (c : Nat) : Kind := if c < 3 ∨ c = 20 ∨ c = 21 then .dataIn else .dataOut
def exOwner (c : Nat) : Nat := if c < 6 then 0 else if c = 20 then 5 else if c = 21 then 6 else c - 9
def exP : Params :=
  { admits := fun c v => match c, v with
      | 0, .d k => k < 100
      | 1, .d k => 100 ≤ k
      | 20, .d k => k < 100
      | _, _ => true
    hintOk := fun _ _ => true
    fn := fun _ args => args }
/-- node 0 = consumer with inputs 0 (int-like hint), 1 (str-like hint), 2 (no hint) and
outputs 3,4,5; nodes 1..3 = sources with outputs 10,11,12; 21 → 20 → 0 is a receiver chain
(macro input → child input → grandchild input) -/
def exInit : S :=
  init exKind exOwner (fun c => c = 0 ∨ c = 1 ∨ c = 20) (fun _ => true)
    (fun n => if n = 0 then [0, 1, 2] else []) (fun n => if n = 0 then [3, 4, 5] else [])

def exOps : List Data.Op :=
  [.set 10 (.d 1), .set 11 (.d 2), .connect 0 10, .connect 0 11, .connect 0 12, .disconnect 0 11,
   .connect 0 11, .disconnect 0 11, .assign 1 (.v (.d 100)), .link 20 (some 0), .link 21 (some 20),
   .set 21 (.d 7), .set 21 (.d 200)]
def exS : S := Data.run exP 8 exInit exOps

-- the connection made last (12) is first but holds no data; 10 wins; the chain stored 7 then
-- refused 200 everywhere
example : exS.conns 0 = [12, 10] ∧ exS.val 0 = .d 7 ∧ exS.val 20 = .d 7 ∧ exS.val 21 = .d 7 ∧
    fetchVal exS 0 = .d 1 := by decide
example : (Data.step exP 8 exS (.set 21 (.d 200))).2 = .err .type := by decide
-- hypotheses of the closed gate are satisfiable: exS is reachable hence well-formed, node 0 is a panel
example : WF exP exS := run_pres (wf_pres exP) 8 _ exOps (Or.inl rfl) (init_wf exP _ _ _ _ _ _)
example : Panel (Data.run exP 8 exInit (exOps.take 9)) 0 := by
  have hins : (Data.run exP 8 exInit (exOps.take 9)).ins 0 = [0, 1, 2] := by decide
  refine ⟨?_, by rw [hins]; decide⟩
  intro i hi
  rw [hins] at hi
  have : i = 0 ∨ i = 1 ∨ i = 2 := by simpa using hi
  rcases this with rfl | rfl | rfl <;> decide
-- refused (input 2 holds no data): nothing called, not failed; then invoked with the fetched values
example : (runNode exP 8 exS 0 []).2 = .err .readiness ∧ (runNode exP 8 exS 0 []).1.calls = [] ∧
    (runNode exP 8 exS 0 []).1.failed 0 = false := by decide
example : (runNode exP 8 exS 0 [(2, .v (.d 5))]).2 = .invoked none ∧
    (runNode exP 8 exS 0 [(2, .v (.d 5))]).1.calls = [(0, [.d 1, .d 100, .d 5])] ∧
    (runNode exP 8 exS 0 [(2, .v (.d 5))]).1.val 3 = .d 1 := by decide
-- a hint-violating upstream value refuses the run by the TypeError of the fetch itself
example : (runNode exP 8 (Data.run exP 8 exS [.set 12 (.d 500)]) 0 [(2, .v (.d 5))]).2 = .err .type := by decide
example : ∀ op ∈ exOps, op.noActivate := by decide
-- C03_bad_rejected: its hypotheses hold for channel 0 of exS and the value 500, and for the head 21 of
-- the chain 21 → 20 → 0 the refusal comes from a receiver two links down (21 itself has no hint)
example : exS.strict 0 = true ∧ exS.hinted 0 = true ∧ Val.d 500 ≠ .nd ∧ exP.admits 0 (.d 500) = false ∧
    (setVal exP 8 exS 0 (.d 500)).2 = some .type := by decide
example : exS.hinted 21 = false ∧ (setVal exP 8 exS 21 (.d 500)).2 = some .type := by decide
-- C03_forward_checked: an accepted delivery to 21 changes exactly 21, 20 and 0
example : (setVal exP 8 exS 21 (.d 8)).2 = none ∧
    ((setVal exP 8 exS 21 (.d 8)).1.val 21, (setVal exP 8 exS 21 (.d 8)).1.val 20,
     (setVal exP 8 exS 21 (.d 8)).1.val 0, (setVal exP 8 exS 21 (.d 8)).1.val 1) = (.d 8, .d 8, .d 8, .d 100) := by
  decide
-- C03_refusal_kind: all three alternatives occur (keyword refused / fetch refused / gate refused)
example : (runNode exP 8 exS 0 [(1, .v (.d 5))]).2 = .err .type ∧
    (setInputs exP 8 exS [(1, .v (.d 5))]).2 = some .type := by decide
example : (runNode exP 8 (Data.run exP 8 exS [.set 12 (.d 500)]) 0 []).2 = .err .type ∧
    (setInputs exP 8 (Data.run exP 8 exS [.set 12 (.d 500)]) []).2 = none := by decide
example : (runNode exP 8 exS 0 []).2 = .err .readiness ∧ (fetchAll exP 8 exS (exS.ins 0)).2 = none ∧
    nodeReady exP (fetchAll exP 8 exS (exS.ins 0)).1 0 = false := by decide
-- C03_refused_clean: its hypotheses hold in exS (receivers have the kind of their sender, the panel of
-- node 0 consists of inputs) and a refused run exists there (previous example)
example : RecvKind exS :=
  (run_pres (wf_pres exP) 8 _ exOps (Or.inl rfl) (init_wf exP _ _ _ _ _ _)).recv
example : ∀ i ∈ exS.ins 0, exS.kind i = .dataIn := by decide

/-- the excluded operation matters: store a value while hints are not strict, then switch
them on — a strict hinted channel now holds a value its hint rejects (this is by design of
`activate_strict_hints`, which does not re-validate) -/
theorem C03_activate_witness :
    let w := Data.run exP 8 exInit [.setStrict 0 false, .set 0 (.d 500), .setStrict 0 true]
    w.strict 0 = true ∧ w.hinted 0 = true ∧ w.val 0 = .d 500 ∧ exP.admits 0 (.d 500) = false := by
  decide

/-! ### concrete round trips -/

/-- the parameters of `exP` with the restoration of the current tree … -/
def exPr : Params := { exP with cfg := Cfg.repaired }
/-- … and with that of the snapshot this round started from -/
def exPp : Params := { exP with cfg := Cfg.pinned }

/-- node 0 = the consumer of `exInit` (inputs 0, 1, 2; outputs 3, 4, 5), nodes 1, 2 = sources with
outputs 10, 11, all children of one workflow; input 0 was connected to 10 first, to 11 last -/
def rtS : S :=
  Data.run exPr 8 exInit [.set 10 (.d 1), .set 11 (.d 2), .connect 0 10, .connect 0 11, .set 1 (.d 100),
    .set 2 (.d 5)]
def rtScope : List Nat := [0, 1, 2, 3, 4, 5, 10, 11]
def rtComps : List Comp :=
  [{ ins := [0, 1, 2], resOut := [(3, 3), (4, 4), (5, 5), (10, 10), (11, 11)], mins := [], resIn := [],
     kouts := [3, 4, 5, 10, 11], couts := [], resMOut := [] }]

/-- **the snapshot this round started from reverses the priority** (before fix 5575cee): input 0 was
connected to 10, then to 11; both hold data; the original runs on the value of 11 (most recent), its
unpickled copy on the value of 10 (KF-C07-1 seen from C03 = KF-C03-1: `_restore_connections_from_strings`
reconnected newest-first and `connect` prepends) -/
theorem C03_roundtrip_reverses_witness :
    let r := roundTrip exPp 8 rtS rtScope rtComps
    exPp.cfg = Cfg.pinned ∧ r.2 = none ∧ rtS.conns 0 = [11, 10] ∧ r.1.conns 0 = [10, 11] ∧
    fetchVal rtS 0 = .d 2 ∧ fetchVal r.1 0 = .d 1 ∧
    (runNode exPp 8 rtS 0 []).1.calls = [(0, [.d 2, .d 100, .d 5])] ∧
    (runNode exPp 8 r.1 0 []).1.calls = [(0, [.d 1, .d 100, .d 5])] := by
  decide

-- with the repaired switches the hypotheses of `C03_roundtrip_keeps_order` / `C03_roundtrip_gate` hold in
-- `rtS`, the round trip succeeds, and list, fetched value and call are those of the original
example : Closed rtS rtScope rtComps := ⟨by decide, by decide, by decide, by decide, by decide⟩
example : WF exPr rtS := run_pres (wf_pres exPr) 8 _ _ (Or.inl rfl) (init_wf exPr _ _ _ _ _ _)
example : Panel rtS 0 := by
  have hins : rtS.ins 0 = [0, 1, 2] := by decide
  refine ⟨?_, by rw [hins]; decide⟩
  intro i hi
  rw [hins] at hi
  have : i = 0 ∨ i = 1 ∨ i = 2 := by simpa using hi
  rcases this with rfl | rfl | rfl <;> decide
example : exPr.cfg.revIter = true ∧ exPr.cfg.pushIn = false ∧ exPr.cfg.pushOut = false ∧
    (roundTrip exPr 8 rtS rtScope rtComps).2 = none ∧
    (roundTrip exPr 8 rtS rtScope rtComps).1.conns 0 = [11, 10] ∧
    (runNode exPr 8 (roundTrip exPr 8 rtS rtScope rtComps).1 0 []).1.calls = [(0, [.d 2, .d 100, .d 5])] := by
  decide
example : exPr.copyVal = id := rfl
example : CopyOk exPr := copyOk_id exPr rfl
-- a connection across the border of the composite (output 11 is not a child's): `loads` raised on the
-- snapshot; the current tree does not store it, the copy comes back without it
example : (roundTrip exPp 8 rtS rtScope
    [{ ins := [0, 1, 2], resOut := [(10, 10)], mins := [], resIn := [], kouts := [10], couts := [], resMOut := [] }]).2 =
    some .serial := by decide
example : (roundTrip exPr 8 rtS rtScope
    [{ ins := [0, 1, 2], resOut := [(10, 10)], mins := [], resIn := [], kouts := [10], couts := [],
       resMOut := [] }]).1.conns 0 = [10] := by decide
-- round trips are operations of histories: `C03_recency` / `C03_no_bad_store` range over them
example : ∀ op ∈ exOps ++ [Data.Op.roundTrip rtScope rtComps, .run 0 []], op.noActivate := by decide

/-- pickle as it would be without `NotData.__reduce__`: the marker comes back as ANOTHER instance of
its class, everything else as it was -/
def exP2 : Params := { exP with copyVal := fun v => match v with | .nd => .nd2 | v => v }
/-- `rtS` before input 2 got its value -/
def rtT : S :=
  Data.run exP 8 exInit [.set 10 (.d 1), .set 11 (.d 2), .connect 0 10, .connect 0 11, .set 1 (.d 100)]

/-- **why the marker must come back as the marker** (`CopyOk.marker`, `C03_roundtrip_marker`): if a
round trip maps `NOT_DATA` to a second instance of its class, a node whose input 2 was never given a
value — refused with a ReadinessError before — is invoked after the round trip, on the look-alike;
and the look-alike, not being the marker, now also sits in the strictly hinted channels -/
theorem C03_second_marker_witness :
    let r := roundTrip exP2 8 rtT rtScope rtComps
    exP2.copyVal .nd ≠ .nd ∧ rtT.val 2 = .nd ∧ (runNode exP2 8 rtT 0 []).2 = .err .readiness ∧
    r.2 = none ∧ r.1.val 2 = .nd2 ∧ (runNode exP2 8 r.1 0 []).2 = .invoked none ∧
    (runNode exP2 8 r.1 0 []).1.calls = [(0, [.d 2, .d 100, .nd2])] ∧ r.1.val 3 = .nd2 := by
  decide

/-- the chain 21 → 20 → 0 of `exS` as two nested macros (innermost first); channel 0 was then set
directly to 9, so it disagrees with its senders (7) -/
def lkS : S := (Data.step exP 8 exS (.set 0 (.d 9))).1
def lkScope : List Nat := [0, 1, 2, 3, 4, 5, 20, 21]
def lkComps : List Comp :=
  [{ ins := [], resOut := [], mins := [20], resIn := [(0, 0)], kouts := [], couts := [], resMOut := [] },
   { ins := [], resOut := [], mins := [21], resIn := [(20, 20)], kouts := [], couts := [], resMOut := [] }]
-- plain assignment (current tree for input links): values as they were, links back
example : (roundTrip exP 8 lkS lkScope lkComps).2 = none ∧
    ((roundTrip exP 8 lkS lkScope lkComps).1.val 0, (roundTrip exP 8 lkS lkScope lkComps).1.val 20,
     (roundTrip exP 8 lkS lkScope lkComps).1.recv 21, (roundTrip exP 8 lkS lkScope lkComps).1.recv 20) =
    (.d 9, .d 7, some 20, some 0) := by decide
-- pushed links (the tree before fix 60885c9): the sender's value arrives in the receiver — a value some
-- channel held before (`C03_roundtrip_no_invention`), not the receiver's own
example : (roundTrip exPp 8 lkS lkScope lkComps).1.val 0 = .d 7 := by decide
-- a macro input that lost its receiver: `__getstate__` raised on the snapshot (nothing changes); now it is skipped
example : (roundTrip exPp 8 (Data.step exP 8 lkS (.link 21 none)).1 lkScope lkComps).2 = some .serial := by decide
example : (roundTrip exP 8 (Data.step exP 8 lkS (.link 21 none)).1 lkScope lkComps).2 = none := by decide

/-! ### concrete general runs -/

/-- the consumer 0 of `exInit` (cache ON here) as the only child of a macro 7 with inputs 40, 41, 42
(forwarding to 0, 1, 2; 40 carries the same int-like hint as 0) and outputs 43, 44, 45 -/
def mcKind (c : Nat) : Kind := if c < 3 ∨ (40 ≤ c ∧ c < 43) then .dataIn else .dataOut
def mcOwner (c : Nat) : Nat := if c < 6 then 0 else 7
def mcInit : S :=
  init mcKind mcOwner (fun c => c = 0 ∨ c = 1) (fun _ => true)
    (fun n => if n = 0 then [0, 1, 2] else if n = 7 then [40, 41, 42] else [])
    (fun n => if n = 0 then [3, 4, 5] else if n = 7 then [43, 44, 45] else [])
    (fun n => n = 0) (fun n => if n = 7 then [0] else []) (fun _ => [])
def mcS : S :=
  Data.run exP 8 mcInit [.link 40 (some 0), .link 41 (some 1), .link 42 (some 2), .link 3 (some 43),
    .link 4 (some 44), .link 5 (some 45), .set 40 (.d 7), .set 41 (.d 100)]

-- the macro's input 42 holds no data: its gate refuses, not one child function runs
example : (runAny exP 8 8 mcS 7 []).2 = .err .readiness ∧ (runAny exP 8 8 mcS 7 []).1.calls = [] ∧
    (runAny exP 8 8 mcS 7 []).1.failed 7 = false ∧ (admission exP 8 mcS 7 []).2 = .refused .readiness := by
  decide
-- a value the child's strict hint rejects never gets into the macro (the forwarding setter refuses) …
example : (Data.step exP 8 mcS (.set 40 (.d 500))).2 = .err .type := by decide
-- … all three set: the macro is admitted, its child passes its own gate and is called on the forwarded values,
-- the macro's outputs hear the result
example : (runAny exP 8 8 mcS 7 [(42, .v (.d 5))]).2 = .invoked none ∧
    (runAny exP 8 8 mcS 7 [(42, .v (.d 5))]).1.calls = [(0, [.d 7, .d 100, .d 5])] ∧
    (runAny exP 8 8 mcS 7 [(42, .v (.d 5))]).1.val 43 = .d 7 := by decide
-- the child's own gate inside an admitted macro: its input 2 was emptied behind the macro's back — the child is
-- refused, nothing is called, the macro fails with FailedChildError
example : let s := (Data.step exP 8 (Data.step exP 8 mcS (.set 42 (.d 5))).1 (.set 2 .nd)).1
    (runAny exP 8 8 s 7 []).2 = .invoked (some .child) ∧ (runAny exP 8 8 s 7 []).1.calls = [] ∧
    (runAny exP 8 8 s 7 []).1.failed 7 = true ∧ (runAny exP 8 8 s 7 []).1.failed 0 = false := by decide
-- the cache (node 0 has it on): a second run on the same inputs is answered from the cache; once an input
-- is missing the very same node is refused — the hit is only considered for a ready node
example : let s1 := (runAny exP 8 8 mcS 0 [(2, .v (.d 5))]).1
    (runAny exP 8 8 mcS 0 [(2, .v (.d 5))]).2 = .invoked none ∧ (runAny exP 8 8 s1 0 []).2 = .hit ∧
    (runAny exP 8 8 s1 0 []).1.calls = [(0, [.d 7, .d 100, .d 5])] ∧
    (runAny exP 8 8 (Data.step exP 8 s1 (.flag 0 false true)).1 0 []).2 = .err .readiness := by decide
-- shipped to an executor: submitted (running, inputs locked), an assignment in between is refused, and the job
-- completes on the arguments fetched at submission
example : let s1 := (submitRun exP 8 mcS 0 [(2, .v (.d 5))]).1
    (submitRun exP 8 mcS 0 [(2, .v (.d 5))]).2 = .submitted ∧ s1.running 0 = true ∧ s1.calls = [] ∧
    (Data.step exP 8 s1 (.set 2 (.d 6))).2 = .err .runtime ∧ (runAny exP 8 8 s1 0 []).2 = .err .readiness ∧
    (completeRun exP 8 s1 0).2 = .invoked none ∧ (completeRun exP 8 s1 0).1.calls = [(0, [.d 7, .d 100, .d 5])] ∧
    (completeRun exP 8 s1 0).1.running 0 = false := by decide
-- a refused keyword leaves the earlier keyword delivered (C03_setInputs_refused_prefix)
example : (setInputs exP 8 mcS [(42, .v (.d 5)), (40, .v (.d 500)), (41, .v (.d 101))]).2 = some .type ∧
    (setInputs exP 8 mcS [(42, .v (.d 5)), (40, .v (.d 500)), (41, .v (.d 101))]).1.val 2 = .d 5 ∧
    (setInputs exP 8 mcS [(42, .v (.d 5)), (40, .v (.d 500)), (41, .v (.d 101))]).1.val 41 = .d 100 := by decide

/-! ### a replaced consumer, concretely -/

-- node 0 of `rtS` (x <- 10 first, <- 11 last; both hold data) replaced: same lists, same choice, same call; the
-- `failed` flag of the old node is gone with it, a value stored under a non-strict hint is not taken over
example : (replaceNode exP 8 rtS 0 [] []).2 = none ∧ (replaceNode exP 8 rtS 0 [] []).1.conns 0 = [11, 10] ∧
    fetchVal (replaceNode exP 8 rtS 0 [] []).1 0 = .d 2 ∧
    (runAny exP 8 8 (replaceNode exP 8 rtS 0 [] []).1 0 []).1.calls = [(0, [.d 2, .d 100, .d 5])] := by decide
example : let s := Data.run exP 8 rtS [.flag 0 false true, .setStrict 1 false, .set 1 (.d 7)]
    (runAny exP 8 8 s 0 []).2 = .err .readiness ∧ (replaceNode exP 8 s 0 [] []).1.failed 0 = false ∧
    (replaceNode exP 8 s 0 [] []).1.val 1 = .nd ∧ (replaceNode exP 8 s 0 [] []).1.strict 1 = true := by decide

/-- a replacement that rebuilds the node's own lists from what `copy_io` prepended (seeded change C03-10):
every input of the node comes back oldest-first -/
def replaceRev (s : S) (n : Nat) : S :=
  { s with conns := fun c => if c ∈ s.ins n then (s.conns c).reverse else s.conns c }

/-- … and the replaced consumer runs on its OLDEST upstream: `C03_replace_keeps_priority` fails for it -/
theorem C03_replace_reversed_witness :
    (replaceRev rtS 0).conns 0 = [10, 11] ∧ fetchVal (replaceRev rtS 0) 0 = .d 1 ∧ fetchVal rtS 0 = .d 2 ∧
    (runAny exP 8 8 (replaceRev rtS 0) 0 []).1.calls = [(0, [.d 1, .d 100, .d 5])] ∧
    (runAny exP 8 8 (replaceNode exP 8 rtS 0 [] []).1 0 []).1.calls = [(0, [.d 2, .d 100, .d 5])] := by
  decide

/-! ### one call, several partners -/

/-- `x.connect(10, 11)` on the fresh consumer: 11, listed last, is first in the list and wins the fetch; a `connect`
that prepends its partners as one block in call order (seeded change C03-15) would put 10 first -/
theorem C03_connect_many_witness :
    (connectMany exP (Data.run exP 8 exInit [.set 10 (.d 1), .set 11 (.d 2)]) 0 [10, 11]).1.conns 0 = [11, 10] ∧
    fetchVal (connectMany exP (Data.run exP 8 exInit [.set 10 (.d 1), .set 11 (.d 2)]) 0 [10, 11]).1 0 = .d 2 ∧
    fetchVal { (Data.run exP 8 exInit [.set 10 (.d 1), .set 11 (.d 2)]) with
      conns := fun c => if c = 0 then [10, 11] else [] } 0 = .d 1 := by
  decide

/-! ### witnesses for the two seeded variants -/

/-- `rtS` with the node that owns upstream 11 in the middle of a run -/
def upS : S := (Data.step exP 8 rtS (.flag 2 true false)).1

/-- the state of a node holding data at an upstream is `running` (its job is out), and the downstream
input loses its most recent upstream: such a fetch contradicts `C03_most_recent` -/
theorem C03_skip_running_upstream_witness :
    upS.conns 0 = [11, 10] ∧ upS.val 11 = .d 2 ∧ upS.owner 11 = 2 ∧ upS.running 2 = true ∧
    firstData upS (upS.conns 0) = some (.d 2) ∧ firstDataSkipRunning upS (upS.conns 0) = some (.d 1) ∧
    (runAny exP 8 8 upS 0 []).1.calls = [(0, [.d 2, .d 100, .d 5])] := by
  decide

def muS0 : S := Data.run exP 8 exInit [.set 0 (.d 7), .set 1 (.d 100), .set 2 (.d 5)]
def muS : S := mutateS muS0 7 500

/-- value 7 is delivered to the int-like input 0 (valid, remembered), the object is then changed in
place to 500 (rejected): the real gate shuts — `C03_mutation_shuts_gate` applies —, the remembering one
stays open -/
theorem C03_memoised_ready_witness :
    chanReady exP muS0 0 = true ∧ muS.val 0 = .d 500 ∧ exP.admits 0 (.d 500) = false ∧ chanReady exP muS 0 = false ∧
    chanReadyMemo (fun c => c = 0) exP muS 0 = true ∧ (runAny exP 8 8 muS 0 []).2 = .err .readiness ∧
    (runAny exP 8 8 muS 0 []).1.calls = [] ∧ (runAny exP 8 8 muS0 0 []).2 = .invoked none := by
  decide

end PwVerif.C03

#print axioms PwVerif.C03.C03_fetch_spec
#print axioms PwVerif.C03.C03_fetch_value
#print axioms PwVerif.C03.C03_recency
#print axioms PwVerif.C03.C03_stamp
#print axioms PwVerif.C03.C03_stamp_else
#print axioms PwVerif.C03.C03_most_recent
#print axioms PwVerif.C03.C03_keeps_own
#print axioms PwVerif.C03.C03_run_kw
#print axioms PwVerif.C03.C03_gate
#print axioms PwVerif.C03.C03_called_with
#print axioms PwVerif.C03.C03_gate_closed
#print axioms PwVerif.C03.C03_called_with_closed
#print axioms PwVerif.C03.C03_refused_clean
#print axioms PwVerif.C03.C03_no_bad_store_step
#print axioms PwVerif.C03.C03_no_bad_store
#print axioms PwVerif.C03.C03_refused_assignment_noop
#print axioms PwVerif.C03.C03_bad_rejected
#print axioms PwVerif.C03.C03_forward_checked
#print axioms PwVerif.C03.C03_refusal_kind
#print axioms PwVerif.C03.C03_activate_witness
#print axioms PwVerif.C03.C03_roundtrip_failed_noop
#print axioms PwVerif.C03.C03_roundtrip_static
#print axioms PwVerif.C03.C03_roundtrip_no_invention
#print axioms PwVerif.C03.C03_roundtrip_marker
#print axioms PwVerif.C03.C03_roundtrip_values
#print axioms PwVerif.C03.C03_roundtrip_keeps_order
#print axioms PwVerif.C03.C03_roundtrip_gate
#print axioms PwVerif.C03.C03_roundtrip_reverses_witness
#print axioms PwVerif.C03.C03_second_marker_witness
#print axioms PwVerif.C03.C03_setInputs_refused_prefix
#print axioms PwVerif.C03.C03_admission_gate
#print axioms PwVerif.C03.C03_not_admitted_runs_nothing
#print axioms PwVerif.C03.C03_calls_always_good
#print axioms PwVerif.C03.C03_submit_gate
#print axioms PwVerif.C03.C03_complete_calls
#print axioms PwVerif.C03.C03_run_function_node
#print axioms PwVerif.C03.C03_file_second_restore_noop
#print axioms PwVerif.C03.C03_priority_ignores_run_state
#print axioms PwVerif.C03.C03_fetch_ignores_upstream_run_state
#print axioms PwVerif.C03.C03_skip_running_upstream_witness
#print axioms PwVerif.C03.C03_ready_current_value
#print axioms PwVerif.C03.C03_mutation_shuts_gate
#print axioms PwVerif.C03.C03_memoised_ready_witness
#print axioms PwVerif.C03.C03_replace_keeps_order
#print axioms PwVerif.C03.C03_replace_keeps_priority
#print axioms PwVerif.C03.C03_replace_reversed_witness
#print axioms PwVerif.C03.C03_connect_many_seq
#print axioms PwVerif.C03.C03_connect_many_order
#print axioms PwVerif.C03.C03_connect_many_witness
